#!/bin/bash
# tools/seeded_regress.sh [seconds] [workers] [parallel]: runs the registered check of every recorded seeded change against its
# patch (through the overlay; /repo untouched) and prints CAUGHT / MISSED / NOAPPLY per change. Patches are against the tree
# at the time they were written: a later fix: commit that rewrites the same lines makes a patch NOAPPLY.
S=${1:-25}; W=${2:-5}; P=${3:-3}
cd "$(dirname "$0")/.."
one() {
  d=$1; id=$(basename $d); prop=$(python3 -c "import json;print(json.load(open('$d/meta.json')).get('breaks_property') or json.load(open('$d/meta.json'))['property'])")
  props="$prop"
  # changes written for one property may be the business of another check of the same engine
  case "$id" in C06-w3-2|C03-w3-3) props="$prop C19";; C03-w3-2|C03-w3-1) props="$prop C01";; esac
  res=MISSED
  for p in $props; do
    out=$(bin/verifctl check $p --seconds $2 --workers $3 --no-evidence --tag "regress-$id-$p" --patch $d/patch.diff 2>&1)
    if echo "$out" | grep -q "^VIOLATION"; then res="CAUGHT[$p] $(echo "$out" | grep -m1 'signature:' | sed 's/^ *signature: //')"; break; fi
    if echo "$out" | grep -q "does not apply\|BUILD-ERROR"; then res="NOAPPLY"; fi
  done
  echo "$id $res"
}
export -f one
ls -d seeded/*/ | sed 's#/$##' | xargs -P $P -I{} bash -c "one {} $S $W"
