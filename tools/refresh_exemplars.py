#!/usr/bin/env python3
"""tools/refresh_exemplars.py [seconds] [props...]: development tool (never run by a registered check). Runs the checks on
the current tree, and for every KNOWN-FINDING line copies the replay file it names to findings/exemplar-<prop>-<tag>.replay.json
and records it in the finding's "exemplar" field, so that each recorded finding comes with a history that reproduces with the
current harness (`bin/verifctl replay <file>`)."""
import json, os, re, shutil, subprocess, sys
root = os.path.dirname(os.path.dirname(os.path.abspath(__file__)))
secs = sys.argv[1] if len(sys.argv) > 1 else '60'
props = sys.argv[2:]
kf = os.path.join(root, 'known_findings.jsonl')
lines = open(kf).read().split('\n')
ents = [(i, json.loads(l)) for i, l in enumerate(lines) if l.startswith('{')]
if not props:
    props = sorted({d['property'] for _, d in ents if d['status'] == 'known'})
for p in props:
    out = subprocess.run([os.path.join(root, 'bin/verifctl'), 'check', p, '--seconds', secs, '--no-evidence'], capture_output=True, text=True, cwd=root).stdout
    for l in out.split('\n'):
        m = re.match(r'KNOWN-FINDING: property=(\S+) (.*) \(first signature (.*); replay=(.*)\)$', l)
        if not m:
            continue
        what, sig, rp = m.group(2), m.group(3), m.group(4)
        for i, d in ents:
            if d['status'] == 'known' and d['property'] == p and d['what'] == what:
                tag = re.sub(r'[^A-Za-z0-9-]+', '_', d['signature'].split('[')[-1].strip('*]')).strip('_') if '[' in d['signature'] else re.sub(r'[^A-Za-z0-9-]+', '_', d['signature'])
                dst = 'findings/exemplar-%s-%s.replay.json' % (p, tag)
                shutil.copy(rp, os.path.join(root, dst))
                d['exemplar'] = dst
                d['exemplar_signature'] = sig
                lines[i] = json.dumps(d)
                print(p, sig, '->', dst)
                break
        else:
            print('no entry matched', p, sig)
# merge into the file as it is NOW (another process may have appended lines meanwhile): only the exemplar fields change
upd = {(d['property'], d['signature']): d for _, d in ents if 'exemplar' in d}
cur = open(kf).read().split('\n')
for i, l in enumerate(cur):
    if l.startswith('{'):
        d = json.loads(l)
        u = upd.get((d['property'], d['signature']))
        if u and d['status'] == 'known':
            d['exemplar'], d['exemplar_signature'] = u['exemplar'], u.get('exemplar_signature', '')
            cur[i] = json.dumps(d)
open(kf, 'w').write('\n'.join(cur))
