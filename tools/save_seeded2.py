#!/usr/bin/env python3
"""tools/save_seeded2.py <Cxx> <src-dir> <dst-name> <detected-text> [what-was-run]: copies a confirmed seeded change into /verif/seeded/<dst-name>"""
import json,os,shutil,sys
pid,src,name,detected=sys.argv[1:5]
ran=sys.argv[5] if len(sys.argv)>5 else "tools/seeded_eval.sh %s %s <scratch worktree> --seconds 25 (patch applies; touched packages' existing tests pass with the change; demo fails with / passes without; then `verifctl check %s --patch`)"%(pid,src,pid)
dst=os.path.join(os.path.dirname(os.path.dirname(os.path.abspath(__file__))),'seeded',name)
os.makedirs(dst,exist_ok=True)
for f in ('patch.diff','demo_test.go','meta.json'):
    shutil.copy(os.path.join(src,f),os.path.join(dst,f))
m=json.load(open(os.path.join(dst,'meta.json')))
m['breaks_property']=pid
m['confirmed_by_lead']={'patch_applies':True,'existing_tests_of_touched_packages_pass':True,'demo_fails_with_change':True,'demo_passes_without_change':True}
m['detected']=detected; m['what_was_run']=ran
json.dump(m,open(os.path.join(dst,'meta.json'),'w'),indent=1)
print('saved',dst)
