#!/bin/bash
# Confirms a seeded change and runs the registered quick check against it.
#   tools/seeded_eval.sh <Cxx> <dir with patch.diff demo_test.go meta.json> <scratch worktree> [extra verifctl args]
# 1. in the scratch worktree: patch applies, touched packages build, their existing tests pass with the patch,
#    the demonstration fails with the patch and passes without it;
# 2. runs `verifctl check <Cxx> --patch` (the patch reaches the compiler through the overlay; /repo is untouched).
set -u
P=$1; D=$(realpath "$2"); WT=$3; shift 3
export GOFLAGS=-mod=mod GOPROXY=off
cd "$WT" || exit 2
OV=""
if grep -q "pkg/koordlet" "$D/patch.diff" && [ -f /tmp/ov-$P/overlay.json ]; then OV="-overlay /tmp/ov-$P/overlay.json"; fi
git checkout -q -- . 2>/dev/null
pkgs=$(grep '^+++ b/' "$D/patch.diff" | sed 's#^+++ b/##; s#\t.*##' | xargs -n1 dirname | sort -u | sed 's#^#./#')
demo_pkg=$(grep -m1 -o 'pkg/[A-Za-z0-9_/.-]*' "$D/demo_test.go" | head -1)
[ -d "$WT/$demo_pkg" ] || demo_pkg=$(echo "$pkgs" | head -1 | sed 's#^\./##')
demo_pkg=${demo_pkg%/}
echo "== packages touched: $pkgs ; demo package: $demo_pkg"
cp "$D/demo_test.go" "$WT/$demo_pkg/zz_seeded_demo_test.go"
run=$(grep -m1 -o 'Test[A-Za-z0-9_]*' "$D/demo_test.go" | head -1)
echo "== demo WITHOUT the change (must pass)"
go test -vet=off -count=1 $OV -run "$run" "./$demo_pkg" 2>&1 | tail -3
git apply "$D/patch.diff" || { echo "PATCH DOES NOT APPLY"; rm -f "$WT/$demo_pkg/zz_seeded_demo_test.go"; exit 2; }
echo "== demo WITH the change (must fail)"
go test -vet=off -count=1 $OV -run "$run" "./$demo_pkg" 2>&1 | tail -3
rm -f "$WT/$demo_pkg/zz_seeded_demo_test.go"
echo "== existing tests of the touched packages WITH the change (must pass)"
go build $OV ./pkg/... 2>&1 | tail -3
go test -vet=off -count=1 $OV $pkgs 2>&1 | tail -5
git checkout -q -- .
echo "== registered check against the change"
cd /verif && bin/verifctl check "$P" --no-evidence --patch "$D/patch.diff" "$@" 2>&1 | grep -v '^KNOWN-FINDING' | cut -c1-300 | head -12
