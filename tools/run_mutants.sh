#!/bin/bash
# tools/run_mutants.sh <Cxx> [seconds] [workers] [extra verifctl args]: runs the quick check against every canary mutant of the property (through the overlay)
P=$1; S=${2:-12}; W=${3:-6}; shift; shift; shift
cd /verif
for m in mutants/$P/*.diff; do
  out=$(bin/verifctl check $P --seconds $S --workers $W --no-evidence --patch $m "$@" 2>&1)
  code=$?
  sig=$(echo "$out" | grep -m1 "signature:" | sed 's/^ *signature: //')
  if echo "$out" | grep -q "^VIOLATION"; then echo "CAUGHT  $(basename $m .diff)  [$sig]"; elif [ $code -eq 2 ]; then echo "ERROR   $(basename $m .diff): $(echo "$out" | tail -3 | tr '\n' ' ' | cut -c1-200)"; else echo "MISSED  $(basename $m .diff)"; fi
done
