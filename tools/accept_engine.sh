#!/bin/bash
# tools/accept_engine.sh <engine> <Cxx> : review run for an engine delivered by a sub-agent
E=$1; P=$2; cd /verif
echo "== check (unchanged tree)"; bin/verifctl check $P --engine $E --seconds ${3:-25} --workers 8 --no-evidence 2>&1 | cut -c1-260 | head -14
echo "== determinism"; bin/verifctl determinism $P --engine $E --n 30 2>&1 | tail -2
echo "== mutants"; tools/run_mutants.sh $P 10 8 --engine $E 2>&1 | tail -14
