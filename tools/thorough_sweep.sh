#!/bin/bash
# tools/thorough_sweep.sh [seconds per property] [workers] [seed]: thorough tier of every registered check on the current tree (no evidence written)
S=${1:-300}; W=${2:-6}; SEED=${3:-7}
cd "$(dirname "$0")/.."
[ -x bin/verifctl ] || ./setup.sh >/dev/null 2>&1
for p in $(python3 -c "import json;print(' '.join(c['property_id'] for c in json.load(open('MANIFEST.json'))['checks']))"); do
  echo "######## $p"
  bin/verifctl check $p --tier thorough --seconds $S --workers $W --seed $SEED --no-evidence 2>&1 | cut -c1-300 | grep -v "^KNOWN-FINDING" | head -12
done
echo SWEEP-DONE
