#!/usr/bin/env python3
import json,sys
d=json.load(open(sys.argv[1]))
p=d.get('plan',d)
print('signature:',d.get('signature')); print('message:',(d.get('message') or '')[:600])
print('cfg:',json.dumps(p['cfg'])); print('seed',p['seed'],'map_seed',p['map_seed'],'sched nonzero',sum(1 for x in (p.get('sched') or []) if x),'/',len(p.get('sched') or []),'fault',(p.get('fault') or []),'deliver',(p.get('deliver') or [])[:40])
for i,o in enumerate(p.get('ops') or []): print(' ',i,json.dumps(o))
