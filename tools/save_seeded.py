#!/usr/bin/env python3
"""tools/save_seeded.py <Cxx> <n> <detected-text> [what-was-run]: copies /tmp/wt-<Cxx>/SEEDED/<n> to /verif/seeded/<Cxx>-<n> and records the evaluation"""
import json,os,shutil,sys
pid,n,detected=sys.argv[1],sys.argv[2],sys.argv[3]
ran=sys.argv[4] if len(sys.argv)>4 else "tools/seeded_eval.sh %s /tmp/wt-%s/SEEDED/%s /tmp/wt-%s --seconds 25 --workers 6 (patch applies; touched packages' existing tests pass with the change; demo fails with / passes without; then `verifctl check %s --patch`)"%(pid,pid,n,pid,pid)
src='/tmp/wt-%s/SEEDED/%s'%(pid,n); dst='/verif/seeded/%s-%s'%(pid,n)
os.makedirs(dst,exist_ok=True)
for f in ('patch.diff','demo_test.go','meta.json'):
    shutil.copy(os.path.join(src,f),os.path.join(dst,f))
m=json.load(open(os.path.join(dst,'meta.json')))
m['breaks_property']=pid
m['confirmed_by_lead']={'patch_applies':True,'existing_tests_of_touched_packages_pass':True,'demo_fails_with_change':True,'demo_passes_without_change':True}
m['detected']=detected; m['what_was_run']=ran
json.dump(m,open(os.path.join(dst,'meta.json'),'w'),indent=1)
print('saved',dst)
