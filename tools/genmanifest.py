#!/usr/bin/env python3
"""Regenerates /verif/MANIFEST.json from engines.json + tools/props.json (one entry per property)."""
import json,os
root=os.path.dirname(os.path.dirname(os.path.abspath(__file__)))
import glob
engines=[json.load(open(f)) for f in sorted(glob.glob(os.path.join(root,'harness','*','engine.json')))]
engines=[e for e in engines if e.get('ready')]
props={}
for e in engines: props.update(e.get('props_info',{}))
for k,v in json.load(open(os.path.join(root,'tools','not_applicable.json'))).items(): props[k]={'not_applicable':v}
ids=[json.loads(l)['id'] for l in open(os.path.join(root,'properties.jsonl')) if l.strip()]
byprop={}
for e in engines:
    for p in e['props']: byprop[p]=e
checks=[];na=[]
for pid in ids:
    info=props.get(pid,{})
    if pid in byprop and not info.get('not_applicable'):
        e=byprop[pid]
        level=e.get('level',{}).get(pid,'exploration')
        checks.append({
          "property_id":pid,
          "quick_cmd":"bin/verifctl check %s --tier quick"%pid,
          "thorough_cmd":"bin/verifctl check %s --tier thorough"%pid,
          "evidence_file":"evidence/%s.json"%pid,
          "replay_cmd_template":"bin/verifctl replay {path}",
          "engine":e['name'],
          "level_claimed":{"category":level,"text":info['level_text'],"design_ref":info.get('design_ref','DESIGN.md §4 '+pid)},
          "level_note":info['level_note'],
          "technique":info.get('technique',"deterministic simulation with fault injection: seeded token-passing scheduler over real goroutines in a synctest bubble, seeded map order, history/quiescent-state oracles, ddmin-shrunk replayable plans"),
        })
    else:
        na.append({"property_id":pid,"reason":info.get('not_applicable',"no check registered yet: the engine for this property is still under construction (see DESIGN.md §8)")})
m={"version":1,
 "setup_cmd":"./setup.sh",
 "hooks":{"guard":"verif","enable":"go1.26.8 test -c -tags verif -vet=off -overlay <generated overlay.json> (harnesses, the pkg/verifsim library, lock-site instrumentation and the runtime map-order patch all enter through the overlay; nothing is written into /repo)","baseline_off_cmd":json.load(open('/root/.vp/BASELINE.json'))['cmd'],"source_commits":[],"add_only":True},
 "engines":[{"name":e['name'],"path":"harness/"+e['name'],"serves_properties":e['props'],"kind_free_text":"deterministic simulation harness in package "+e['pkg']} for e in engines],
 "checks":checks,
 "not_applicable":na,
 "notes":"All checks: exit 0 = held on everything explored (KNOWN-FINDING lines for recorded defects), exit 1 = VIOLATION line with replay file, exit 2 = machinery/build trouble. fix: commits in /repo are listed in known_findings.jsonl (status fixed)."}
json.dump(m,open(os.path.join(root,'MANIFEST.json'),'w'),indent=1)
print("checks:",[c['property_id'] for c in checks],"na:",[n['property_id'] for n in na])
