package main

import (
	"fmt"
	"go/ast"
	"go/parser"
	"go/token"
	"os"
	"path/filepath"
	"regexp"
	"sort"
	"strings"
)

const simImport = `verifsim "github.com/koordinator-sh/koordinator/pkg/verifsim"`

type instrStats struct {
	Locks, Yields int
	Ranges        []string // informational: .Range( sites (sync.Map) on instrumented files
}

// instrumentFile returns a copy of src in which every statement `X.Lock()` /
// `X.RLock()` is preceded (on the same line, so line numbers are preserved) by
// a verifsim.BeforeLock call carrying a TryLock probe, and every statement
// matching one of the extra regexps is preceded by verifsim.Yield.
func instrumentFile(path, rel string, src []byte, exclude map[string]bool, extra []*regexp.Regexp, afterUnlock bool, st *instrStats) ([]byte, error) {
	fset := token.NewFileSet()
	f, err := parser.ParseFile(fset, path, src, parser.ParseComments)
	if err != nil {
		return nil, err
	}
	type ins struct {
		off  int
		text string
	}
	var inserts []ins
	base := filepath.Base(rel)
	visitList := func(list []ast.Stmt) {
		for _, s := range list {
			pos := fset.Position(s.Pos())
			site := fmt.Sprintf("%s:%d", base, pos.Line)
			stmtText := string(src[fset.Position(s.Pos()).Offset:fset.Position(s.End()).Offset])
			if es, ok := s.(*ast.ExprStmt); ok {
				if call, ok := es.X.(*ast.CallExpr); ok && len(call.Args) == 0 {
					if sel, ok := call.Fun.(*ast.SelectorExpr); ok && (sel.Sel.Name == "Lock" || sel.Sel.Name == "RLock") {
						if exclude[site] {
							continue
						}
						x := string(src[fset.Position(sel.X.Pos()).Offset:fset.Position(sel.X.End()).Offset])
						try, un := "TryLock", "Unlock"
						if sel.Sel.Name == "RLock" {
							try, un = "TryRLock", "RUnlock"
						}
						text := fmt.Sprintf("verifsim.BeforeLock(%q, func() bool { if %s.%s() { %s.%s(); return true }; return false }); ", site, x, try, x, un)
						inserts = append(inserts, ins{pos.Offset, text})
						st.Locks++
						continue
					}
				}
			}
			// optional: a scheduling point right after every explicit (non-deferred) X.Unlock()/X.RUnlock() statement, so that
			// another actor can run between the release of a lock and the statements that follow it
			if afterUnlock {
				if es, ok := s.(*ast.ExprStmt); ok {
					if call, ok := es.X.(*ast.CallExpr); ok && len(call.Args) == 0 {
						if sel, ok := call.Fun.(*ast.SelectorExpr); ok && (sel.Sel.Name == "Unlock" || sel.Sel.Name == "RUnlock") && !exclude[site] {
							end := fset.Position(s.End()).Offset
							inserts = append(inserts, ins{end, fmt.Sprintf("; verifsim.Yield(%q)", "after-unlock@"+site)})
							st.Yields++
							continue
						}
					}
				}
			}
			for _, re := range extra {
				// only simple statements: a compound statement's text spans its body
				switch s.(type) {
				case *ast.ExprStmt, *ast.AssignStmt, *ast.ReturnStmt, *ast.IncDecStmt, *ast.GoStmt, *ast.DeferStmt:
				default:
					continue
				}
				if re.MatchString(stmtText) && !exclude[site] {
					inserts = append(inserts, ins{pos.Offset, fmt.Sprintf("verifsim.Yield(%q); ", site)})
					st.Yields++
					break
				}
			}
		}
	}
	ast.Inspect(f, func(n ast.Node) bool {
		switch b := n.(type) {
		case *ast.BlockStmt:
			visitList(b.List)
		case *ast.CaseClause:
			visitList(b.Body)
		case *ast.CommClause:
			visitList(b.Body)
		}
		return true
	})
	for i, line := range strings.Split(string(src), "\n") {
		if strings.Contains(line, ".Range(") {
			st.Ranges = append(st.Ranges, fmt.Sprintf("%s:%d", base, i+1))
		}
	}
	if len(inserts) == 0 {
		return src, nil
	}
	// import: same line as the package clause
	pkgEnd := fset.Position(f.Name.End()).Offset
	inserts = append(inserts, ins{pkgEnd, "; import " + simImport})
	sort.SliceStable(inserts, func(i, j int) bool { return inserts[i].off < inserts[j].off })
	var out strings.Builder
	last := 0
	for _, in := range inserts {
		out.Write(src[last:in.off])
		out.WriteString(in.text)
		last = in.off
	}
	out.Write(src[last:])
	return []byte(out.String()), nil
}

func instrumentAll(repo, outDir string, globs []string, excludeSites []string, extraRe []string, afterUnlock bool, resolve func(string) string, overlay map[string]string) (*instrStats, error) {
	st := &instrStats{}
	excl := map[string]bool{}
	for _, s := range excludeSites {
		excl[s] = true
	}
	var res []*regexp.Regexp
	for _, e := range extraRe {
		re, err := regexp.Compile(e)
		if err != nil {
			return nil, err
		}
		res = append(res, re)
	}
	seen := map[string]bool{}
	for _, g := range globs {
		matches, err := filepath.Glob(filepath.Join(repo, g))
		if err != nil {
			return nil, err
		}
		if len(matches) == 0 {
			return nil, fmt.Errorf("instrument glob %q matches nothing", g)
		}
		for _, m := range matches {
			if strings.HasSuffix(m, "_test.go") || !strings.HasSuffix(m, ".go") || seen[m] {
				continue
			}
			seen[m] = true
			rel, _ := filepath.Rel(repo, m)
			srcPath := resolve(m)
			src, err := os.ReadFile(srcPath)
			if err != nil {
				return nil, err
			}
			out, err := instrumentFile(m, rel, src, excl, res, afterUnlock, st)
			if err != nil {
				return nil, fmt.Errorf("instrument %s: %v", rel, err)
			}
			if string(out) == string(src) && srcPath == m {
				continue
			}
			dst := filepath.Join(outDir, strings.ReplaceAll(rel, "/", "__"))
			if err := os.WriteFile(dst, out, 0o644); err != nil {
				return nil, err
			}
			overlay[m] = dst
		}
	}
	return st, nil
}
