package main

import (
	"fmt"
	"go/ast"
	"go/parser"
	"go/token"
	"os"
	"path/filepath"
	"regexp"
	"sort"
	"strings"
)

const simImport = `verifsim "github.com/koordinator-sh/koordinator/pkg/verifsim"`

type instrStats struct {
	Locks, Yields int
	Ranges        []string // informational: .Range( sites (sync.Map) on instrumented files
}

// instrumentFile returns a copy of src in which every statement `X.Lock()` /
// `X.RLock()` is preceded (on the same line, so line numbers are preserved) by
// a verifsim.BeforeLock call carrying a TryLock probe, and every statement
// matching one of the extra regexps is preceded by verifsim.Yield.
type instrOpts struct {
	exclude     map[string]bool
	extra       []*regexp.Regexp
	afterUnlock bool            // scheduling point after every explicit Unlock()/RUnlock() statement
	discipline  bool            // lock-discipline bookkeeping: Acquired/Released around lock calls, Write before writes to receiver state
	splitRMW    bool            // writes to receiver state become scheduling points when no exclusive lock of that receiver is held; read-modify-write statements are split between the read and the write
	ownLocks    map[string]bool // splitRMW: "<dir>.<type>" -> methods of the type lock a lock that is part of the receiver
}

func instrumentFile(path, rel string, src []byte, o instrOpts, st *instrStats) ([]byte, error) {
	fset := token.NewFileSet()
	f, err := parser.ParseFile(fset, path, src, parser.ParseComments)
	if err != nil {
		return nil, err
	}
	type ins struct {
		off  int
		text string
		del  int // bytes of src dropped after the inserted text
	}
	var inserts []ins
	base := filepath.Base(rel)
	text := func(n ast.Node) string {
		return string(src[fset.Position(n.Pos()).Offset:fset.Position(n.End()).Offset])
	}
	// receiver name of the method a statement belongs to (closures inherit it)
	recvOf := map[ast.Stmt]string{}
	recvType := map[ast.Stmt]string{}
	if o.discipline || o.splitRMW {
		for _, d := range f.Decls {
			fd, ok := d.(*ast.FuncDecl)
			if !ok || fd.Recv == nil || fd.Body == nil || len(fd.Recv.List) == 0 || len(fd.Recv.List[0].Names) == 0 {
				continue
			}
			rn := fd.Recv.List[0].Names[0].Name
			if rn == "_" {
				continue
			}
			rt, ptr := recvTypeName(fd)
			ast.Inspect(fd.Body, func(n ast.Node) bool {
				if s, ok := n.(ast.Stmt); ok {
					recvOf[s] = rn
					if ptr {
						recvType[s] = rt
					}
				}
				return true
			})
		}
	}
	rootIdent := func(e ast.Expr) (string, bool) { // root identifier of a selector/index chain; ok only if it is a chain (not the bare ident)
		chain := false
		for {
			switch x := e.(type) {
			case *ast.SelectorExpr:
				e, chain = x.X, true
			case *ast.IndexExpr:
				e, chain = x.X, true
			case *ast.StarExpr:
				e = x.X
			case *ast.ParenExpr:
				e = x.X
			case *ast.Ident:
				return x.Name, chain
			default:
				return "", false
			}
		}
	}
	lockCall := func(e ast.Expr) (sel *ast.SelectorExpr, name string) {
		call, ok := e.(*ast.CallExpr)
		if !ok || len(call.Args) != 0 {
			return nil, ""
		}
		se, ok := call.Fun.(*ast.SelectorExpr)
		if !ok {
			return nil, ""
		}
		switch se.Sel.Name {
		case "Lock", "RLock", "Unlock", "RUnlock":
			return se, se.Sel.Name
		}
		return nil, ""
	}
	visitList := func(list []ast.Stmt) {
		for _, s := range list {
			pos := fset.Position(s.Pos())
			endOff := fset.Position(s.End()).Offset
			site := fmt.Sprintf("%s:%d", base, pos.Line)
			if o.exclude[site] {
				continue
			}
			if es, ok := s.(*ast.ExprStmt); ok {
				if sel, name := lockCall(es.X); sel != nil {
					x := text(sel.X)
					switch name {
					case "Lock", "RLock":
						try, un := "TryLock", "Unlock"
						if name == "RLock" {
							try, un = "TryRLock", "RUnlock"
						}
						inserts = append(inserts, ins{off: pos.Offset, text: fmt.Sprintf("verifsim.BeforeLock(%q, func() bool { if %s.%s() { %s.%s(); return true }; return false }); ", site, x, try, x, un)})
						st.Locks++
						if o.discipline {
							if o.splitRMW && plainChain(sel.X) {
								inserts = append(inserts, ins{off: endOff, text: fmt.Sprintf("; verifsim.AcquiredAt(%q, &(%s), %v)", x, x, name == "Lock")})
							} else {
								inserts = append(inserts, ins{off: endOff, text: fmt.Sprintf("; verifsim.Acquired(%q, %v)", x, name == "Lock")})
							}
						}
					case "Unlock", "RUnlock":
						if o.discipline {
							if o.splitRMW && plainChain(sel.X) {
								inserts = append(inserts, ins{off: pos.Offset, text: fmt.Sprintf("verifsim.ReleasedAt(%q, &(%s)); ", x, x)})
							} else {
								inserts = append(inserts, ins{off: pos.Offset, text: fmt.Sprintf("verifsim.Released(%q); ", x)})
							}
						}
						if o.afterUnlock {
							inserts = append(inserts, ins{off: endOff, text: fmt.Sprintf("; verifsim.Yield(%q)", "after-unlock@"+site)})
							st.Yields++
						}
					}
					continue
				}
			}
			if ds, ok := s.(*ast.DeferStmt); ok && o.discipline {
				if sel, name := lockCall(ds.Call); sel != nil && (name == "Unlock" || name == "RUnlock") {
					// defer X.Unlock()  ->  defer func() { verifsim.Released("X"); X.Unlock() }()
					if o.splitRMW && plainChain(sel.X) {
						inserts = append(inserts, ins{off: fset.Position(ds.Call.Pos()).Offset, text: fmt.Sprintf("func() { verifsim.ReleasedAt(%q, &(%s)); ", text(sel.X), text(sel.X))})
					} else {
						inserts = append(inserts, ins{off: fset.Position(ds.Call.Pos()).Offset, text: fmt.Sprintf("func() { verifsim.Released(%q); ", text(sel.X))})
					}
					inserts = append(inserts, ins{off: endOff, text: " }()"})
					continue
				}
			}
			if rn := recvOf[s]; o.discipline && rn != "" {
				var lhs []ast.Expr
				switch w := s.(type) {
				case *ast.AssignStmt:
					if w.Tok != token.DEFINE {
						lhs = w.Lhs
					}
				case *ast.IncDecStmt:
					lhs = []ast.Expr{w.X}
				case *ast.ExprStmt:
					if call, ok := w.X.(*ast.CallExpr); ok {
						if id, ok := call.Fun.(*ast.Ident); ok && id.Name == "delete" && len(call.Args) == 2 {
							lhs = []ast.Expr{&ast.IndexExpr{X: call.Args[0]}}
						}
					}
				}
				for _, e := range lhs {
					if root, chain := rootIdent(e); chain && root == rn {
						inserts = append(inserts, ins{off: pos.Offset, text: fmt.Sprintf("verifsim.Write(%q, %q); ", site, rn)})
						break
					}
				}
			}
			for _, re := range o.extra {
				// only simple statements: a compound statement's text spans its body
				switch s.(type) {
				case *ast.ExprStmt, *ast.AssignStmt, *ast.ReturnStmt, *ast.IncDecStmt, *ast.GoStmt, *ast.DeferStmt:
				default:
					continue
				}
				if re.MatchString(text(s)) {
					inserts = append(inserts, ins{off: pos.Offset, text: fmt.Sprintf("verifsim.Yield(%q); ", site)})
					st.Yields++
					break
				}
			}
			if rn, rt := recvOf[s], recvType[s]; o.splitRMW && rn != "" && rt != "" {
				own := o.ownLocks[filepath.Dir(rel)+"."+rt]
				mid := fmt.Sprintf("verifsim.MidWrite(%q, %s, %v)", site, rn, own)
				isRecvState := func(e ast.Expr) bool {
					root, chain := rootIdent(e)
					return chain && root == rn && !hasCall(e)
				}
				switch w := s.(type) {
				case *ast.AssignStmt:
					if w.Tok == token.DEFINE || len(w.Lhs) != 1 || len(w.Rhs) != 1 || !isRecvState(w.Lhs[0]) {
						// several targets: a plain scheduling point before the statement if one of them is receiver state
						if w.Tok != token.DEFINE {
							for _, e := range w.Lhs {
								if isRecvState(e) {
									inserts = append(inserts, ins{off: pos.Offset, text: mid + "; "})
									st.Yields++
									break
								}
							}
						}
						break
					}
					l, r := text(w.Lhs[0]), text(w.Rhs[0])
					rhsOff := fset.Position(w.Rhs[0].Pos()).Offset
					switch {
					case w.Tok == token.ASSIGN && strings.Contains(squash(r), squash(l)):
						// X = f(X)  ->  { verifRMW := f(X); MidWrite; X = verifRMW }
						inserts = append(inserts, ins{off: pos.Offset, text: "{ verifRMW := ", del: rhsOff - pos.Offset})
						inserts = append(inserts, ins{off: endOff, text: fmt.Sprintf("; %s; %s = verifRMW }", mid, l)})
						st.Yields++
					case w.Tok == token.ASSIGN:
						inserts = append(inserts, ins{off: pos.Offset, text: mid + "; "})
						st.Yields++
					default:
						// X op= e  ->  { verifRMW := X; MidWrite; X = verifRMW op (e) }
						op := strings.TrimSuffix(w.Tok.String(), "=")
						inserts = append(inserts, ins{off: pos.Offset, text: fmt.Sprintf("{ verifRMW := %s; %s; %s = verifRMW %s (", l, mid, l, op), del: rhsOff - pos.Offset})
						inserts = append(inserts, ins{off: endOff, text: ") }"})
						st.Yields++
					}
				case *ast.IncDecStmt:
					if isRecvState(w.X) {
						op := "+"
						if w.Tok == token.DEC {
							op = "-"
						}
						l := text(w.X)
						inserts = append(inserts, ins{off: pos.Offset, text: fmt.Sprintf("{ verifRMW := %s; %s; %s = verifRMW %s 1 }", l, mid, l, op), del: endOff - pos.Offset})
						st.Yields++
					}
				case *ast.ExprStmt:
					if call, ok := w.X.(*ast.CallExpr); ok {
						if id, ok := call.Fun.(*ast.Ident); ok && id.Name == "delete" && len(call.Args) == 2 && func() bool { root, _ := rootIdent(call.Args[0]); return root == rn && !hasCall(call.Args[0]) }() {
							inserts = append(inserts, ins{off: pos.Offset, text: mid + "; "})
							st.Yields++
						}
					}
				}
			}
		}
	}
	ast.Inspect(f, func(n ast.Node) bool {
		switch b := n.(type) {
		case *ast.BlockStmt:
			visitList(b.List)
		case *ast.CaseClause:
			visitList(b.Body)
		case *ast.CommClause:
			visitList(b.Body)
		}
		return true
	})
	for i, line := range strings.Split(string(src), "\n") {
		if strings.Contains(line, ".Range(") {
			st.Ranges = append(st.Ranges, fmt.Sprintf("%s:%d", base, i+1))
		}
	}
	if len(inserts) == 0 {
		return src, nil
	}
	// import: same line as the package clause
	pkgEnd := fset.Position(f.Name.End()).Offset
	inserts = append(inserts, ins{off: pkgEnd, text: "; import " + simImport})
	sort.SliceStable(inserts, func(i, j int) bool { return inserts[i].off < inserts[j].off })
	var out strings.Builder
	last := 0
	for _, in := range inserts {
		if in.off > last {
			out.Write(src[last:in.off])
			last = in.off
		}
		out.WriteString(in.text)
		if in.del > 0 {
			// keep the newlines of the dropped text so that line numbers stay put
			out.WriteString(strings.Repeat("\n", strings.Count(string(src[in.off:in.off+in.del]), "\n")))
			last = in.off + in.del
		}
	}
	out.Write(src[last:])
	return []byte(out.String()), nil
}

// recvTypeName returns the receiver's type name and whether the receiver is a pointer.
func recvTypeName(fd *ast.FuncDecl) (string, bool) {
	t := fd.Recv.List[0].Type
	ptr := false
	for {
		switch x := t.(type) {
		case *ast.StarExpr:
			t, ptr = x.X, true
		case *ast.ParenExpr:
			t = x.X
		case *ast.IndexExpr:
			t = x.X
		case *ast.IndexListExpr:
			t = x.X
		case *ast.Ident:
			return x.Name, ptr
		default:
			return "", false
		}
	}
}

// plainChain: the expression is built from identifiers, selectors, indexing and dereferences only (its address can be taken, evaluating it twice is harmless)
func plainChain(e ast.Expr) bool {
	ok := true
	sel := false
	ast.Inspect(e, func(n ast.Node) bool {
		switch n.(type) {
		case nil, *ast.Ident, *ast.StarExpr, *ast.ParenExpr, *ast.BasicLit:
		case *ast.SelectorExpr:
			sel = true
		case *ast.IndexExpr:
			ok = false // a map element is not addressable
		default:
			ok = false
		}
		return ok
	})
	return ok && sel
}

func hasCall(e ast.Expr) bool {
	found := false
	ast.Inspect(e, func(n ast.Node) bool {
		switch n.(type) {
		case *ast.CallExpr, *ast.FuncLit:
			found = true
		}
		return !found
	})
	return found
}

func squash(s string) string {
	return strings.Join(strings.Fields(s), "")
}

// ownLockTypes scans src for methods that lock a lock reached through their receiver (recv.mu.Lock(), recv.Lock()).
func ownLockTypes(path, rel string, src []byte, out map[string]bool) {
	fset := token.NewFileSet()
	f, err := parser.ParseFile(fset, path, src, 0)
	if err != nil {
		return
	}
	for _, d := range f.Decls {
		fd, ok := d.(*ast.FuncDecl)
		if !ok || fd.Recv == nil || fd.Body == nil || len(fd.Recv.List) == 0 || len(fd.Recv.List[0].Names) == 0 {
			continue
		}
		rn := fd.Recv.List[0].Names[0].Name
		rt, _ := recvTypeName(fd)
		if rt == "" {
			continue
		}
		ast.Inspect(fd.Body, func(n ast.Node) bool {
			call, ok := n.(*ast.CallExpr)
			if !ok || len(call.Args) != 0 {
				return true
			}
			se, ok := call.Fun.(*ast.SelectorExpr)
			if !ok || (se.Sel.Name != "Lock" && se.Sel.Name != "RLock") {
				return true
			}
			e := se.X
			for {
				switch x := e.(type) {
				case *ast.SelectorExpr:
					e = x.X
					continue
				case *ast.Ident:
					if x.Name == rn {
						out[filepath.Dir(rel)+"."+rt] = true
					}
				}
				break
			}
			return true
		})
	}
}

func instrumentAll(repo, outDir string, globs []string, excludeSites []string, extraRe []string, afterUnlock, discipline, splitRMW bool, resolve func(string) string, overlay map[string]string) (*instrStats, error) {
	st := &instrStats{}
	excl := map[string]bool{}
	for _, s := range excludeSites {
		excl[s] = true
	}
	var res []*regexp.Regexp
	for _, e := range extraRe {
		re, err := regexp.Compile(e)
		if err != nil {
			return nil, err
		}
		res = append(res, re)
	}
	own := map[string]bool{}
	if splitRMW {
		for _, g := range globs {
			matches, _ := filepath.Glob(filepath.Join(repo, g))
			for _, m := range matches {
				if strings.HasSuffix(m, "_test.go") || !strings.HasSuffix(m, ".go") {
					continue
				}
				rel, _ := filepath.Rel(repo, m)
				if src, err := os.ReadFile(resolve(m)); err == nil {
					ownLockTypes(m, rel, src, own)
				}
			}
		}
	}
	seen := map[string]bool{}
	for _, g := range globs {
		matches, err := filepath.Glob(filepath.Join(repo, g))
		if err != nil {
			return nil, err
		}
		if len(matches) == 0 {
			return nil, fmt.Errorf("instrument glob %q matches nothing", g)
		}
		for _, m := range matches {
			if strings.HasSuffix(m, "_test.go") || !strings.HasSuffix(m, ".go") || seen[m] {
				continue
			}
			seen[m] = true
			rel, _ := filepath.Rel(repo, m)
			srcPath := resolve(m)
			src, err := os.ReadFile(srcPath)
			if err != nil {
				return nil, err
			}
			out, err := instrumentFile(m, rel, src, instrOpts{exclude: excl, extra: res, afterUnlock: afterUnlock, discipline: discipline || splitRMW, splitRMW: splitRMW, ownLocks: own}, st)
			if err != nil {
				return nil, fmt.Errorf("instrument %s: %v", rel, err)
			}
			if string(out) == string(src) && srcPath == m {
				continue
			}
			dst := filepath.Join(outDir, strings.ReplaceAll(rel, "/", "__"))
			if err := os.WriteFile(dst, out, 0o644); err != nil {
				return nil, err
			}
			overlay[m] = dst
		}
	}
	return st, nil
}
