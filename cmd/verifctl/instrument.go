package main

import (
	"fmt"
	"go/ast"
	"go/parser"
	"go/token"
	"os"
	"path/filepath"
	"regexp"
	"sort"
	"strings"
)

const simImport = `verifsim "github.com/koordinator-sh/koordinator/pkg/verifsim"`

type instrStats struct {
	Locks, Yields int
	Ranges        []string // informational: .Range( sites (sync.Map) on instrumented files
}

// instrumentFile returns a copy of src in which every statement `X.Lock()` /
// `X.RLock()` is preceded (on the same line, so line numbers are preserved) by
// a verifsim.BeforeLock call carrying a TryLock probe, and every statement
// matching one of the extra regexps is preceded by verifsim.Yield.
type instrOpts struct {
	exclude     map[string]bool
	extra       []*regexp.Regexp
	afterUnlock bool // scheduling point after every explicit Unlock()/RUnlock() statement
	discipline  bool // lock-discipline bookkeeping: Acquired/Released around lock calls, Write before writes to receiver state
}

func instrumentFile(path, rel string, src []byte, o instrOpts, st *instrStats) ([]byte, error) {
	fset := token.NewFileSet()
	f, err := parser.ParseFile(fset, path, src, parser.ParseComments)
	if err != nil {
		return nil, err
	}
	type ins struct {
		off  int
		text string
	}
	var inserts []ins
	base := filepath.Base(rel)
	text := func(n ast.Node) string { return string(src[fset.Position(n.Pos()).Offset:fset.Position(n.End()).Offset]) }
	// receiver name of the method a statement belongs to (closures inherit it)
	recvOf := map[ast.Stmt]string{}
	if o.discipline {
		for _, d := range f.Decls {
			fd, ok := d.(*ast.FuncDecl)
			if !ok || fd.Recv == nil || fd.Body == nil || len(fd.Recv.List) == 0 || len(fd.Recv.List[0].Names) == 0 {
				continue
			}
			rn := fd.Recv.List[0].Names[0].Name
			if rn == "_" {
				continue
			}
			ast.Inspect(fd.Body, func(n ast.Node) bool {
				if s, ok := n.(ast.Stmt); ok {
					recvOf[s] = rn
				}
				return true
			})
		}
	}
	rootIdent := func(e ast.Expr) (string, bool) { // root identifier of a selector/index chain; ok only if it is a chain (not the bare ident)
		chain := false
		for {
			switch x := e.(type) {
			case *ast.SelectorExpr:
				e, chain = x.X, true
			case *ast.IndexExpr:
				e, chain = x.X, true
			case *ast.StarExpr:
				e = x.X
			case *ast.ParenExpr:
				e = x.X
			case *ast.Ident:
				return x.Name, chain
			default:
				return "", false
			}
		}
	}
	lockCall := func(e ast.Expr) (sel *ast.SelectorExpr, name string) {
		call, ok := e.(*ast.CallExpr)
		if !ok || len(call.Args) != 0 {
			return nil, ""
		}
		se, ok := call.Fun.(*ast.SelectorExpr)
		if !ok {
			return nil, ""
		}
		switch se.Sel.Name {
		case "Lock", "RLock", "Unlock", "RUnlock":
			return se, se.Sel.Name
		}
		return nil, ""
	}
	visitList := func(list []ast.Stmt) {
		for _, s := range list {
			pos := fset.Position(s.Pos())
			endOff := fset.Position(s.End()).Offset
			site := fmt.Sprintf("%s:%d", base, pos.Line)
			if o.exclude[site] {
				continue
			}
			if es, ok := s.(*ast.ExprStmt); ok {
				if sel, name := lockCall(es.X); sel != nil {
					x := text(sel.X)
					switch name {
					case "Lock", "RLock":
						try, un := "TryLock", "Unlock"
						if name == "RLock" {
							try, un = "TryRLock", "RUnlock"
						}
						inserts = append(inserts, ins{pos.Offset, fmt.Sprintf("verifsim.BeforeLock(%q, func() bool { if %s.%s() { %s.%s(); return true }; return false }); ", site, x, try, x, un)})
						st.Locks++
						if o.discipline {
							inserts = append(inserts, ins{endOff, fmt.Sprintf("; verifsim.Acquired(%q, %v)", x, name == "Lock")})
						}
					case "Unlock", "RUnlock":
						if o.discipline {
							inserts = append(inserts, ins{pos.Offset, fmt.Sprintf("verifsim.Released(%q); ", x)})
						}
						if o.afterUnlock {
							inserts = append(inserts, ins{endOff, fmt.Sprintf("; verifsim.Yield(%q)", "after-unlock@"+site)})
							st.Yields++
						}
					}
					continue
				}
			}
			if ds, ok := s.(*ast.DeferStmt); ok && o.discipline {
				if sel, name := lockCall(ds.Call); sel != nil && (name == "Unlock" || name == "RUnlock") {
					// defer X.Unlock()  ->  defer func() { verifsim.Released("X"); X.Unlock() }()
					inserts = append(inserts, ins{fset.Position(ds.Call.Pos()).Offset, fmt.Sprintf("func() { verifsim.Released(%q); ", text(sel.X))})
					inserts = append(inserts, ins{endOff, " }()"})
					continue
				}
			}
			if rn := recvOf[s]; o.discipline && rn != "" {
				var lhs []ast.Expr
				switch w := s.(type) {
				case *ast.AssignStmt:
					if w.Tok != token.DEFINE {
						lhs = w.Lhs
					}
				case *ast.IncDecStmt:
					lhs = []ast.Expr{w.X}
				case *ast.ExprStmt:
					if call, ok := w.X.(*ast.CallExpr); ok {
						if id, ok := call.Fun.(*ast.Ident); ok && id.Name == "delete" && len(call.Args) == 2 {
							lhs = []ast.Expr{&ast.IndexExpr{X: call.Args[0]}}
						}
					}
				}
				for _, e := range lhs {
					if root, chain := rootIdent(e); chain && root == rn {
						inserts = append(inserts, ins{pos.Offset, fmt.Sprintf("verifsim.Write(%q, %q); ", site, rn)})
						break
					}
				}
			}
			for _, re := range o.extra {
				// only simple statements: a compound statement's text spans its body
				switch s.(type) {
				case *ast.ExprStmt, *ast.AssignStmt, *ast.ReturnStmt, *ast.IncDecStmt, *ast.GoStmt, *ast.DeferStmt:
				default:
					continue
				}
				if re.MatchString(text(s)) {
					inserts = append(inserts, ins{pos.Offset, fmt.Sprintf("verifsim.Yield(%q); ", site)})
					st.Yields++
					break
				}
			}
		}
	}
	ast.Inspect(f, func(n ast.Node) bool {
		switch b := n.(type) {
		case *ast.BlockStmt:
			visitList(b.List)
		case *ast.CaseClause:
			visitList(b.Body)
		case *ast.CommClause:
			visitList(b.Body)
		}
		return true
	})
	for i, line := range strings.Split(string(src), "\n") {
		if strings.Contains(line, ".Range(") {
			st.Ranges = append(st.Ranges, fmt.Sprintf("%s:%d", base, i+1))
		}
	}
	if len(inserts) == 0 {
		return src, nil
	}
	// import: same line as the package clause
	pkgEnd := fset.Position(f.Name.End()).Offset
	inserts = append(inserts, ins{pkgEnd, "; import " + simImport})
	sort.SliceStable(inserts, func(i, j int) bool { return inserts[i].off < inserts[j].off })
	var out strings.Builder
	last := 0
	for _, in := range inserts {
		out.Write(src[last:in.off])
		out.WriteString(in.text)
		last = in.off
	}
	out.Write(src[last:])
	return []byte(out.String()), nil
}

func instrumentAll(repo, outDir string, globs []string, excludeSites []string, extraRe []string, afterUnlock, discipline bool, resolve func(string) string, overlay map[string]string) (*instrStats, error) {
	st := &instrStats{}
	excl := map[string]bool{}
	for _, s := range excludeSites {
		excl[s] = true
	}
	var res []*regexp.Regexp
	for _, e := range extraRe {
		re, err := regexp.Compile(e)
		if err != nil {
			return nil, err
		}
		res = append(res, re)
	}
	seen := map[string]bool{}
	for _, g := range globs {
		matches, err := filepath.Glob(filepath.Join(repo, g))
		if err != nil {
			return nil, err
		}
		if len(matches) == 0 {
			return nil, fmt.Errorf("instrument glob %q matches nothing", g)
		}
		for _, m := range matches {
			if strings.HasSuffix(m, "_test.go") || !strings.HasSuffix(m, ".go") || seen[m] {
				continue
			}
			seen[m] = true
			rel, _ := filepath.Rel(repo, m)
			srcPath := resolve(m)
			src, err := os.ReadFile(srcPath)
			if err != nil {
				return nil, err
			}
			out, err := instrumentFile(m, rel, src, instrOpts{exclude: excl, extra: res, afterUnlock: afterUnlock, discipline: discipline}, st)
			if err != nil {
				return nil, fmt.Errorf("instrument %s: %v", rel, err)
			}
			if string(out) == string(src) && srcPath == m {
				continue
			}
			dst := filepath.Join(outDir, strings.ReplaceAll(rel, "/", "__"))
			if err := os.WriteFile(dst, out, 0o644); err != nil {
				return nil, err
			}
			overlay[m] = dst
		}
	}
	return st, nil
}
