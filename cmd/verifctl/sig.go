package main

import "syscall"

var sigQuit = syscall.SIGQUIT
