// verifctl drives the deterministic-simulation checks of /verif against /repo.
// Standard library only. See /verif/DESIGN.md §2.10.
package main

import (
	"bytes"
	"encoding/binary"
	"encoding/json"
	"fmt"
	"hash/fnv"
	"os"
	"os/exec"
	"path/filepath"
	"regexp"
	"runtime"
	"sort"
	"strconv"
	"strings"
	"sync"
	"time"
)

const (
	goBin  = "/opt/veriftools/go1.26.8/bin/go"
	goRoot = "/opt/veriftools/go1.26.8"
)

var (
	verifDir = envOr("VERIF_DIR", defaultVerifDir())
	repoDir  = envOr("VERIF_REPO", "/repo")
)

// defaultVerifDir: the directory that holds this binary's tree (bin/verifctl -> its parent), so that a snapshot of
// /verif (vp run) uses its own harnesses; falls back to /verif.
func defaultVerifDir() string {
	if exe, err := os.Executable(); err == nil {
		d := filepath.Dir(filepath.Dir(exe))
		if _, err := os.Stat(filepath.Join(d, "harness")); err == nil {
			return d
		}
	}
	return "/verif"
}

func envOr(k, d string) string {
	if v := os.Getenv(k); v != "" {
		return v
	}
	return d
}

// EngineDef describes one harness (engines.json).
type EngineDef struct {
	Name        string            `json:"name"`
	Pkg         string            `json:"pkg"`   // package (relative to repo) the test binary is built from
	Files       map[string]string `json:"files"` // /verif-relative source -> /repo-relative overlay target
	Instrument  []string          `json:"instrument,omitempty"`
	Exclude     []string          `json:"exclude_sites,omitempty"`
	ExtraYield  []string          `json:"extra_yield,omitempty"`
	Discipline  bool              `json:"lock_discipline,omitempty"`    // lock-discipline oracle: a write to receiver state while only a read lock of that receiver is held
	SplitRMW    bool              `json:"split_rmw,omitempty"`          // writes to receiver state outside an exclusive lock of the receiver are scheduling points; read-modify-write statements are split (implies lock_discipline)
	AfterUnlock bool              `json:"yield_after_unlock,omitempty"` // scheduling point after every explicit Unlock()/RUnlock() statement
	PerfStub    bool              `json:"perf_stub,omitempty"`
	Props       []string          `json:"props"`
	Ready       bool              `json:"ready,omitempty"` // reviewed and registered in MANIFEST.json (setup builds only these)
	Porcupine   bool              `json:"porcupine,omitempty"`
	Level       map[string]string `json:"level,omitempty"` // prop -> evidence level (default exploration)
	Real        []string          `json:"real_components,omitempty"`
	Stubbed     []string          `json:"stubbed_components,omitempty"`
	Rule        string            `json:"rule,omitempty"`
	Assume      []string          `json:"assumptions,omitempty"`
	QuickS      float64           `json:"quick_seconds,omitempty"`
	ThoroughS   float64           `json:"thorough_seconds,omitempty"`
}

func loadEngines() ([]*EngineDef, error) {
	// one engine.json per harness directory
	files, _ := filepath.Glob(filepath.Join(verifDir, "harness", "*", "engine.json"))
	sort.Strings(files)
	var es []*EngineDef
	for _, f := range files {
		b, err := os.ReadFile(f)
		if err != nil {
			return nil, err
		}
		e := &EngineDef{}
		if err := json.Unmarshal(b, e); err != nil {
			return nil, fmt.Errorf("%s: %v", f, err)
		}
		es = append(es, e)
	}
	if len(es) == 0 {
		return nil, fmt.Errorf("no harness/*/engine.json found under %s", verifDir)
	}
	return es, nil
}

func engineFor(es []*EngineDef, prop, name string) *EngineDef {
	for _, e := range es {
		if name != "" && e.Name == name {
			return e
		}
		if name == "" {
			for _, p := range e.Props {
				if p == prop {
					return e
				}
			}
		}
	}
	return nil
}

func goEnv() []string {
	env := os.Environ()
	out := env[:0:0]
	for _, e := range env {
		if strings.HasPrefix(e, "GOFLAGS=") || strings.HasPrefix(e, "GOPROXY=") || strings.HasPrefix(e, "GOSUMDB=") ||
			strings.HasPrefix(e, "GOTOOLCHAIN=") || strings.HasPrefix(e, "GOROOT=") || strings.HasPrefix(e, "GOWORK=") {
			continue
		}
		out = append(out, e)
	}
	return append(out, "GOFLAGS=-mod=mod", "GOPROXY=off", "GOSUMDB=off", "GOTOOLCHAIN=local", "GOWORK=off", "CGO_ENABLED=0")
}

func die(code int, format string, args ...any) {
	fmt.Fprintf(os.Stderr, "verifctl: "+format+"\n", args...)
	os.Exit(code)
}

// workDir returns a private scratch directory for this invocation (under /verif/.work, ignored by git).
func workDir(tag string) string {
	d := filepath.Join(verifDir, ".work", tag)
	_ = os.MkdirAll(d, 0o755)
	return d
}

// build generates the overlay from the repo's current working tree and compiles the engine's test binary.
func build(e *EngineDef, wd string, patch string) (string, *instrStats, error) {
	overlay := map[string]string{}
	if err := rtPatch(goRoot, filepath.Join(wd, "rt"), overlay); err != nil {
		return "", nil, err
	}
	// simulator library as an overlay-only package
	simFiles, _ := filepath.Glob(filepath.Join(verifDir, "sim", "*"))
	for _, f := range simFiles {
		overlay[filepath.Join(repoDir, "pkg/verifsim", filepath.Base(f))] = f
	}
	for src, dst := range e.Files {
		overlay[filepath.Join(repoDir, dst)] = filepath.Join(verifDir, src)
	}
	if e.PerfStub {
		stub, err := os.ReadFile(filepath.Join(repoDir, "pkg/koordlet/util/perf_group/perf_group_unsupported.go"))
		if err != nil {
			return "", nil, err
		}
		s := regexp.MustCompile(`(?m)^//go:build .*$`).ReplaceAllString(string(stub), "//go:build linux")
		s = regexp.MustCompile(`(?m)^// \+build .*$`).ReplaceAllString(s, "")
		p := filepath.Join(wd, "perf_group_linux.go")
		if err := os.WriteFile(p, []byte(s), 0o644); err != nil {
			return "", nil, err
		}
		overlay[filepath.Join(repoDir, "pkg/koordlet/util/perf_group/perf_group_linux.go")] = p
	}
	// optional source patch applied through the overlay (mutants): patched copies shadow the repo files
	resolve := func(p string) string { return p }
	if patch != "" {
		shadow, err := applyPatchToShadow(patch, filepath.Join(wd, "shadow"))
		if err != nil {
			return "", nil, err
		}
		for repoPath, sh := range shadow {
			overlay[repoPath] = sh
		}
		resolve = func(p string) string {
			if s, ok := shadow[p]; ok {
				return s
			}
			return p
		}
	}
	instDir := filepath.Join(wd, "inst")
	_ = os.MkdirAll(instDir, 0o755)
	st, err := instrumentAll(repoDir, instDir, e.Instrument, e.Exclude, e.ExtraYield, e.AfterUnlock, e.Discipline, e.SplitRMW, resolve, overlay)
	if err != nil {
		return "", nil, err
	}
	ovPath := filepath.Join(wd, "overlay.json")
	ob, _ := json.MarshalIndent(map[string]any{"Replace": overlay}, "", " ")
	if err := os.WriteFile(ovPath, ob, 0o644); err != nil {
		return "", nil, err
	}
	bin := filepath.Join(wd, e.Name+".test")
	args := []string{"test", "-c", "-tags", "verif", "-vet=off", "-overlay", ovPath, "-o", bin}
	if e.Porcupine {
		mf, err := porcupineModfile(wd)
		if err != nil {
			return "", nil, err
		}
		args = append(args, "-modfile", mf)
	}
	args = append(args, "./"+e.Pkg)
	cmd := exec.Command(goBin, args...)
	cmd.Dir = repoDir
	cmd.Env = goEnv()
	var out bytes.Buffer
	cmd.Stdout, cmd.Stderr = &out, &out
	if err := cmd.Run(); err != nil {
		return "", st, fmt.Errorf("build of engine %s failed: %v\n%s", e.Name, err, tail(out.String(), 6000))
	}
	return bin, st, nil
}

func tail(s string, n int) string {
	if len(s) > n {
		return "...\n" + s[len(s)-n:]
	}
	return s
}

// porcupineModfile writes a copy of the repo's go.mod (+go.sum) with the porcupine requirement added.
func porcupineModfile(wd string) (string, error) {
	mod, err := os.ReadFile(filepath.Join(repoDir, "go.mod"))
	if err != nil {
		return "", err
	}
	sum, _ := os.ReadFile(filepath.Join(repoDir, "go.sum"))
	mf := filepath.Join(wd, "go.verif.mod")
	m := string(mod) + "\nrequire github.com/anishathalye/porcupine v1.3.0\n"
	if err := os.WriteFile(mf, []byte(m), 0o644); err != nil {
		return "", err
	}
	// go.sum lines for porcupine from the module cache
	extra := ""
	for _, suffix := range []string{"", "/go.mod"} {
		_ = suffix
	}
	for _, f := range []string{"v1.3.0.ziphash"} {
		if b, err := os.ReadFile(filepath.Join(os.Getenv("HOME"), "go/pkg/mod/cache/download/github.com/anishathalye/porcupine/@v", f)); err == nil {
			extra += "github.com/anishathalye/porcupine v1.3.0 " + strings.TrimSpace(string(b)) + "\n"
		}
	}
	if err := os.WriteFile(filepath.Join(wd, "go.verif.sum"), []byte(string(sum)+extra), 0o644); err != nil {
		return "", err
	}
	return mf, nil
}

// applyPatchToShadow applies a unified diff (as produced by `git diff`) to copies of the touched files.
func applyPatchToShadow(patch, dir string) (map[string]string, error) {
	_ = os.RemoveAll(dir)
	if err := os.MkdirAll(dir, 0o755); err != nil {
		return nil, err
	}
	pb, err := os.ReadFile(patch)
	if err != nil {
		return nil, err
	}
	files := map[string]bool{}
	for _, l := range strings.Split(string(pb), "\n") {
		for _, pre := range []string{"+++ b/", "--- a/"} {
			if strings.HasPrefix(l, pre) {
				f := strings.TrimPrefix(l, pre)
				if i := strings.IndexAny(f, "\t"); i >= 0 {
					f = f[:i]
				}
				files[strings.TrimSpace(f)] = true
			}
		}
	}
	shadow := map[string]string{}
	for f := range files {
		dst := filepath.Join(dir, f)
		_ = os.MkdirAll(filepath.Dir(dst), 0o755)
		if b, err := os.ReadFile(filepath.Join(repoDir, f)); err == nil {
			if err := os.WriteFile(dst, b, 0o644); err != nil {
				return nil, err
			}
		}
		shadow[filepath.Join(repoDir, f)] = dst
	}
	abs, _ := filepath.Abs(patch)
	cmd := exec.Command("patch", "-p1", "--no-backup-if-mismatch", "-s", "-i", abs)
	cmd.Dir = dir
	if out, err := cmd.CombinedOutput(); err != nil {
		return nil, fmt.Errorf("patch does not apply: %v\n%s", err, out)
	}
	return shadow, nil
}

// ---------------------------------------------------------------- jobs

type Job struct {
	Mode     string   `json:"mode"`
	Engine   string   `json:"engine"`
	Prop     string   `json:"prop"`
	Tier     string   `json:"tier"`
	Seed     uint64   `json:"seed"`
	Start    int      `json:"start"`
	Stride   int      `json:"stride"`
	MaxRuns  int      `json:"max_runs"`
	Seconds  float64  `json:"seconds"`
	Out      string   `json:"out"`
	Replay   string   `json:"replay,omitempty"`
	Budget   int      `json:"budget,omitempty"`
	HashOnly bool     `json:"hash_only,omitempty"`
	Known    []string `json:"known,omitempty"`
}

func runJob(bin string, job *Job, wd string, tag string, gomaxprocs int, watchdog time.Duration) ([]byte, string, error) {
	jp := filepath.Join(wd, "job-"+tag+".json")
	job.Out = filepath.Join(wd, "out-"+tag+".json")
	_ = os.Remove(job.Out)
	jb, _ := json.Marshal(job)
	if err := os.WriteFile(jp, jb, 0o644); err != nil {
		return nil, "", err
	}
	cmd := exec.Command(bin, "-test.run", "^TestVerifSim$", "-test.timeout", "0", "-test.count", "1")
	cmd.Dir = wd
	tmp := filepath.Join(wd, "tmp-"+tag)
	_ = os.MkdirAll(tmp, 0o755)
	defer os.RemoveAll(tmp)
	cmd.Env = append(os.Environ(), "VERIF_JOB="+jp, "TMPDIR="+tmp, fmt.Sprintf("GOMAXPROCS=%d", gomaxprocs))
	var out bytes.Buffer
	cmd.Stdout, cmd.Stderr = &out, &out
	if err := cmd.Start(); err != nil {
		return nil, "", err
	}
	done := make(chan error, 1)
	go func() { done <- cmd.Wait() }()
	var err error
	select {
	case err = <-done:
	case <-time.After(watchdog):
		// dump goroutines, then kill: a hang is machinery trouble, never a violation
		_ = cmd.Process.Signal(sigQuit)
		select {
		case <-done:
		case <-time.After(5 * time.Second):
			_ = cmd.Process.Kill()
			<-done
		}
		return nil, tail(out.String(), 8000), fmt.Errorf("watchdog: worker %s exceeded %v", tag, watchdog)
	}
	b, rerr := os.ReadFile(job.Out)
	if rerr != nil {
		return nil, tail(out.String(), 8000), fmt.Errorf("worker %s produced no result (%v)", tag, err)
	}
	return b, tail(out.String(), 4000), nil
}

// ---------------------------------------------------------------- results

type Violation struct {
	Property  string `json:"property"`
	Oracle    string `json:"oracle"`
	Signature string `json:"signature"`
	Message   string `json:"message"`
	Step      int    `json:"step"`
	Stack     string `json:"stack,omitempty"`
}

type Stats struct {
	Steps       int            `json:"steps"`
	Switches    int            `json:"switches"`
	Ops         int            `json:"ops"`
	OpsSkipped  int            `json:"ops_skipped"`
	OracleEvals int            `json:"oracle_evals"`
	FaultCalls  int            `json:"fault_calls"`
	Faults      map[string]int `json:"faults"`
	Probes      map[string]int `json:"probes"`
	MaxActors   int            `json:"max_actors"`
	SimNanos    int64          `json:"sim_ns"`
}

type FoundViolation struct {
	Violation *Violation      `json:"violation"`
	Plan      json.RawMessage `json:"plan"`
}

type BatchResult struct {
	Runs        int               `json:"runs"`
	Nontrivial  int               `json:"nontrivial"`
	FaultFree   int               `json:"fault_free_runs"`
	Stats       Stats             `json:"stats"`
	Violations  []*FoundViolation `json:"violations"`
	NViolations int               `json:"n_violations"`
	Harness     string            `json:"harness,omitempty"`
	Samples     []any             `json:"samples"`
	HashFile    string            `json:"hash_file"`
	WallS       float64           `json:"wall_s"`
	RunHashes   map[string]string `json:"run_hashes,omitempty"`
	GoVersion   string            `json:"go_version"`
}

type Finding struct {
	Status    string `json:"status"` // known | fixed
	Property  string `json:"property"`
	Signature string `json:"signature"` // exact, or prefix ending in '*'
	What      string `json:"what"`
	Commit    string `json:"commit,omitempty"`
}

func loadFindings() []*Finding {
	b, err := os.ReadFile(filepath.Join(verifDir, "known_findings.jsonl"))
	if err != nil {
		return nil
	}
	var fs []*Finding
	for _, l := range strings.Split(string(b), "\n") {
		l = strings.TrimSpace(l)
		if l == "" || strings.HasPrefix(l, "#") {
			continue
		}
		f := &Finding{}
		if json.Unmarshal([]byte(l), f) == nil {
			fs = append(fs, f)
		}
	}
	return fs
}

func matchFinding(fs []*Finding, prop, sig string) *Finding {
	for _, f := range fs {
		if f.Status != "known" || f.Property != prop {
			continue
		}
		if wildMatch(f.Signature, sig) {
			return f
		}
	}
	return nil
}

// wildMatch: '*' matches any (possibly empty) substring; everything else is literal.
func wildMatch(pat, s string) bool {
	parts := strings.Split(pat, "*")
	if len(parts) == 1 {
		return pat == s
	}
	if !strings.HasPrefix(s, parts[0]) {
		return false
	}
	s = s[len(parts[0]):]
	for i := 1; i < len(parts)-1; i++ {
		j := strings.Index(s, parts[i])
		if j < 0 {
			return false
		}
		s = s[j+len(parts[i]):]
	}
	return strings.HasSuffix(s, parts[len(parts)-1])
}

var slugRe = regexp.MustCompile(`[^A-Za-z0-9_.-]+`)

func slug(s string) string {
	full := s
	s = slugRe.ReplaceAllString(s, "_")
	if len(s) > 90 {
		// keep file names of signatures that differ only in their tail (tag combination) apart
		h := fnv.New32a()
		_, _ = h.Write([]byte(full))
		s = fmt.Sprintf("%s-%08x", s[:80], h.Sum32())
	}
	return s
}

// ---------------------------------------------------------------- check

type checkOpts struct {
	prop, tier, engine, patch string
	seed                      uint64
	seconds                   float64
	workers                   int
	maxRuns                   int
	noEvidence                bool
	probes                    bool
	tag                       string
}

// cmdCheck runs every engine that serves the property (usually one) and writes one evidence file.
func cmdCheck(o checkOpts) int {
	start := time.Now()
	es, err := loadEngines()
	if err != nil {
		die(2, "%v", err)
	}
	var serving []*EngineDef
	for _, e := range es {
		if o.engine != "" {
			if e.Name == o.engine {
				serving = append(serving, e)
			}
			continue
		}
		if !e.Ready {
			continue // engines under construction run only when named with --engine
		}
		for _, p := range e.Props {
			if p == o.prop {
				serving = append(serving, e)
			}
		}
	}
	if len(serving) == 0 {
		die(2, "no engine serves property %s", o.prop)
	}
	code := 0
	var covs []map[string]any
	var assume []string
	level := "exploration"
	unknown := 0
	for _, e := range serving {
		c, cov, unk := checkOne(o, e)
		if c == 2 {
			return 2
		}
		if c > code {
			code = c
		}
		unknown += unk
		if cov != nil {
			cov["engine"] = e.Name
			covs = append(covs, cov)
		}
		assume = append(assume, e.Assume...)
		if l, ok := e.Level[o.prop]; ok {
			level = l
		}
	}
	if !o.noEvidence && o.patch == "" && len(covs) > 0 {
		cov := covs[0]
		if len(covs) > 1 {
			// merge: counts add up, samples concatenate, per-engine details kept under "engines"
			m := map[string]any{"engines": covs}
			ev, dn := 0, 0
			var samples []any
			rule := ""
			for _, c := range covs {
				ev += c["evaluations"].(int)
				dn += c["distinct_nontrivial"].(int)
				if ss, ok := c["samples"].([]any); ok {
					samples = append(samples, ss...)
				}
				rule += fmt.Sprintf("[engine %v] %v ", c["engine"], c["rule"])
			}
			m["evaluations"], m["distinct_nontrivial"], m["samples"], m["rule"] = ev, dn, samples, rule
			cov = m
		}
		evd := map[string]any{
			"property_id": o.prop, "tier": o.tier, "seed": o.seed, "level": level, "coverage": cov,
			"assumptions": assume, "wall_s": time.Since(start).Seconds(), "violations": unknown,
		}
		eb, _ := json.MarshalIndent(evd, "", " ")
		_ = os.MkdirAll(filepath.Join(verifDir, "evidence"), 0o755)
		tmp := filepath.Join(verifDir, "evidence", o.prop+".json.tmp")
		_ = os.WriteFile(tmp, eb, 0o644)
		_ = os.Rename(tmp, filepath.Join(verifDir, "evidence", o.prop+".json"))
	}
	return code
}

// checkOne runs one engine for the property: exit code, coverage map for the evidence, number of unrecorded violation classes.
func checkOne(o checkOpts, e *EngineDef) (int, map[string]any, int) {
	start := time.Now()
	tag := o.tag
	if tag == "" {
		tag = fmt.Sprintf("%s-%s-%s-%d", o.prop, e.Name, o.tier, os.Getpid())
	}
	wd := workDir(tag)
	defer os.RemoveAll(wd)
	bin, ist, err := build(e, wd, o.patch)
	if err != nil {
		fmt.Fprintf(os.Stderr, "BUILD-ERROR property=%s\n%v\n", o.prop, err)
		return 2, nil, 0
	}
	buildS := time.Since(start).Seconds()
	seconds := o.seconds
	if seconds <= 0 {
		if o.tier == "thorough" {
			seconds = e.ThoroughS
			if seconds <= 0 {
				seconds = 600
			}
		} else {
			seconds = e.QuickS
			if seconds <= 0 {
				seconds = 40
			}
		}
	}
	W := o.workers
	if W <= 0 {
		W = runtime.NumCPU()
	}
	var knownPats []string
	for _, f := range loadFindings() {
		if f.Status == "known" && f.Property == o.prop {
			knownPats = append(knownPats, f.Signature)
		}
	}
	results := make([]*BatchResult, W)
	errs := make([]error, W)
	logs := make([]string, W)
	var wg sync.WaitGroup
	for w := 0; w < W; w++ {
		wg.Add(1)
		go func(w int) {
			defer wg.Done()
			job := &Job{Mode: "batch", Engine: e.Name, Prop: o.prop, Tier: o.tier, Seed: o.seed, Start: w, Stride: W, Seconds: seconds, MaxRuns: o.maxRuns, Known: knownPats}
			b, lg, err := runJob(bin, job, wd, fmt.Sprintf("w%d", w), 2, time.Duration(seconds*3+300)*time.Second)
			logs[w] = lg
			if err != nil {
				errs[w] = err
				return
			}
			r := &BatchResult{}
			if err := json.Unmarshal(b, r); err != nil {
				errs[w] = err
				return
			}
			results[w] = r
		}(w)
	}
	wg.Wait()
	for w, err := range errs {
		if err != nil {
			fmt.Fprintf(os.Stderr, "MACHINERY-ERROR property=%s worker=%d: %v\n%s\n", o.prop, w, err, logs[w])
			return 2, nil, 0
		}
	}
	// aggregate
	agg := &BatchResult{Stats: Stats{Faults: map[string]int{}, Probes: map[string]int{}}}
	distinct := map[uint64]struct{}{}
	bySig := map[string]*FoundViolation{}
	var sigOrder []string
	for _, r := range results {
		agg.Runs += r.Runs
		agg.Nontrivial += r.Nontrivial
		agg.FaultFree += r.FaultFree
		agg.NViolations += r.NViolations
		agg.Stats.Steps += r.Stats.Steps
		agg.Stats.Switches += r.Stats.Switches
		agg.Stats.Ops += r.Stats.Ops
		agg.Stats.OpsSkipped += r.Stats.OpsSkipped
		agg.Stats.OracleEvals += r.Stats.OracleEvals
		agg.Stats.FaultCalls += r.Stats.FaultCalls
		agg.Stats.SimNanos += r.Stats.SimNanos
		if r.Stats.MaxActors > agg.Stats.MaxActors {
			agg.Stats.MaxActors = r.Stats.MaxActors
		}
		for k, v := range r.Stats.Faults {
			agg.Stats.Faults[k] += v
		}
		for k, v := range r.Stats.Probes {
			agg.Stats.Probes[k] += v
		}
		if len(agg.Samples) < 3 {
			agg.Samples = append(agg.Samples, r.Samples...)
		}
		if r.Harness != "" && agg.Harness == "" {
			agg.Harness = r.Harness
			if len(r.Violations) > 0 {
				hp := filepath.Join(verifDir, ".work", "harness-failure-"+o.prop+".json")
				_ = os.WriteFile(hp, r.Violations[len(r.Violations)-1].Plan, 0o644)
				agg.Harness += "\nplan saved to " + hp
			}
		}
		if hb, err := os.ReadFile(r.HashFile); err == nil {
			for i := 0; i+8 <= len(hb); i += 8 {
				distinct[binary.LittleEndian.Uint64(hb[i:])] = struct{}{}
			}
		}
		for _, fv := range r.Violations {
			if fv.Violation.Oracle == "harness" {
				continue
			}
			if _, ok := bySig[fv.Violation.Signature]; !ok {
				bySig[fv.Violation.Signature] = fv
				sigOrder = append(sigOrder, fv.Violation.Signature)
			}
		}
	}
	if agg.Harness != "" {
		fmt.Fprintf(os.Stderr, "MACHINERY-ERROR property=%s: %s\n", o.prop, agg.Harness)
		return 2, nil, 0
	}
	// shrink + write replay files: unrecorded signatures first, untagged before tagged
	findings := loadFindings()
	sort.Slice(sigOrder, func(i, j int) bool {
		a, b := sigOrder[i], sigOrder[j]
		ka, kb := matchFinding(findings, o.prop, a) != nil, matchFinding(findings, o.prop, b) != nil
		if ka != kb {
			return !ka
		}
		ta, tb := strings.Contains(a, "["), strings.Contains(b, "[")
		if ta != tb {
			return !ta
		}
		return a < b
	})
	type outcome struct {
		sig, path, msg string
		known          *Finding
		shrunkOps      int
		ok             bool
	}
	var outcomes []outcome
	shrunkFinding := map[*Finding]bool{}
	repDir := filepath.Join(verifDir, "replays", o.prop)
	if o.patch != "" {
		// violations found against a patched copy are kept too (replay them with `verifctl replay <file> --patch <diff>`)
		repDir = filepath.Join(verifDir, "replays", o.prop+"-patched")
	}
	// replay files of earlier runs of this engine are stale by definition
	if old, _ := filepath.Glob(filepath.Join(repDir, e.Name+"--*.json")); len(old) > 0 {
		for _, f := range old {
			_ = os.Remove(f)
		}
	}
	for i, sig := range sigOrder {
		fv := bySig[sig]
		oc := outcome{sig: sig, msg: fv.Violation.Message, known: matchFinding(findings, o.prop, sig)}
		_ = os.MkdirAll(repDir, 0o755)
		raw := filepath.Join(wd, fmt.Sprintf("viol-%d.json", i))
		rb, _ := json.Marshal(map[string]any{"property": o.prop, "signature": sig, "plan": fv.Plan})
		_ = os.WriteFile(raw, rb, 0o644)
		path := filepath.Join(repDir, e.Name+"--"+slug(strings.TrimPrefix(sig, o.prop+"/"))+".json")
		doShrink := i < 6
		if oc.known != nil {
			// one minimised exemplar per recorded finding is enough
			doShrink = !shrunkFinding[oc.known]
			shrunkFinding[oc.known] = true
		}
		if doShrink {
			job := &Job{Mode: "shrink", Engine: e.Name, Prop: o.prop, Tier: o.tier, Replay: raw, Seconds: 90, Budget: 1500}
			b, lg, err := runJob(bin, job, wd, fmt.Sprintf("shrink%d", i), 2, 400*time.Second)
			if err != nil {
				fmt.Fprintf(os.Stderr, "MACHINERY-ERROR property=%s: shrink failed: %v\n%s\n", o.prop, err, lg)
				return 2, nil, 0
			}
			var sr struct {
				Replay  json.RawMessage `json:"replay"`
				Runs    int             `json:"runs"`
				Harness string          `json:"harness"`
				OK      bool            `json:"ok"`
			}
			_ = json.Unmarshal(b, &sr)
			if sr.Harness != "" || !sr.OK {
				fmt.Fprintf(os.Stderr, "MACHINERY-ERROR property=%s: violation %s does not replay deterministically: %s\n(message was: %s)\n", o.prop, sig, sr.Harness, fv.Violation.Message)
				_ = os.WriteFile(filepath.Join(verifDir, ".work", "noreplay-"+o.prop+".json"), rb, 0o644)
				return 2, nil, 0
			}
			var pretty bytes.Buffer
			_ = json.Indent(&pretty, sr.Replay, "", " ")
			_ = os.WriteFile(path, pretty.Bytes(), 0o644)
			var rfm struct {
				Message string `json:"message"`
				Plan    struct {
					Ops []json.RawMessage `json:"ops"`
				} `json:"plan"`
			}
			_ = json.Unmarshal(sr.Replay, &rfm)
			oc.shrunkOps = len(rfm.Plan.Ops)
			if rfm.Message != "" {
				oc.msg = rfm.Message
			}
			oc.ok = true
		} else {
			_ = os.WriteFile(path, rb, 0o644)
		}
		oc.path = path
		outcomes = append(outcomes, oc)
	}
	wall := time.Since(start).Seconds()
	// evidence
	unknown := 0
	for _, oc := range outcomes {
		if oc.known == nil {
			unknown++
		}
	}
	var cov map[string]any
	{
		runWall := wall - buildS
		if runWall < 0.001 {
			runWall = 0.001
		}
		cov = map[string]any{
			"evaluations":         agg.Runs,
			"distinct_nontrivial": len(distinct),
			"rule": "each evaluation is one simulated run: plan = generate(mix(VERIF_SEED, property, index)) executed under the token-passing scheduler in a synctest bubble; " +
				"a run is non-trivial when it executed >=1 workload operation and >=1 oracle evaluation; two runs are distinct when the hash of their full event log " +
				"(every scheduler step (actor, site), every delivered event, injected fault and canonical quiescent state) differs. " + e.Rule,
			"samples":                  agg.Samples,
			"nontrivial_runs":          agg.Nontrivial,
			"fault_free_runs":          agg.FaultFree,
			"runs_per_hour":            int(float64(agg.Runs) / runWall * 3600),
			"seeds":                    []uint64{o.seed},
			"sim_time_s":               float64(agg.Stats.SimNanos) / 1e9,
			"faults_fired":             agg.Stats.Faults,
			"faultable_calls":          agg.Stats.FaultCalls,
			"probes":                   agg.Stats.Probes,
			"scheduler_steps":          agg.Stats.Steps,
			"context_switches":         agg.Stats.Switches,
			"workload_ops":             agg.Stats.Ops,
			"workload_ops_skipped":     agg.Stats.OpsSkipped,
			"oracle_evaluations":       agg.Stats.OracleEvals,
			"max_actors":               agg.Stats.MaxActors,
			"workers":                  W,
			"real_components":          e.Real,
			"stubbed_components":       e.Stubbed,
			"instrumented_lock_sites":  ist.Locks,
			"instrumented_yield_sites": ist.Yields,
			"build_s":                  buildS,
			"go_toolchain":             "go1.26.8 (overlay-patched runtime: seeded map order)",
			"violation_signatures":     sigOrder,
		}
	}
	fmt.Printf("property=%s engine=%s tier=%s seed=%d runs=%d nontrivial=%d distinct=%d steps=%d faults=%v wall=%.1fs build=%.1fs\n",
		o.prop, e.Name, o.tier, o.seed, agg.Runs, agg.Nontrivial, len(distinct), agg.Stats.Steps, agg.Stats.Faults, wall, buildS)
	if o.probes {
		keys := make([]string, 0, len(agg.Stats.Probes))
		for k := range agg.Stats.Probes {
			keys = append(keys, k)
		}
		sort.Strings(keys)
		for _, k := range keys {
			fmt.Printf("  probe %-50s %d\n", k, agg.Stats.Probes[k])
		}
		fmt.Printf("  ops=%d skipped=%d oracle_evals=%d fault_calls=%d sim_time_s=%.0f\n", agg.Stats.Ops, agg.Stats.OpsSkipped, agg.Stats.OracleEvals, agg.Stats.FaultCalls, float64(agg.Stats.SimNanos)/1e9)
	}
	if agg.Runs == 0 || len(distinct) < 2 {
		fmt.Fprintf(os.Stderr, "MACHINERY-ERROR property=%s: explored nothing (runs=%d distinct=%d)\n", o.prop, agg.Runs, len(distinct))
		return 2, nil, 0
	}
	code := 0
	printed := map[*Finding]int{}
	for _, oc := range outcomes {
		if oc.known != nil {
			printed[oc.known]++
			if printed[oc.known] == 1 {
				fmt.Printf("KNOWN-FINDING: property=%s %s (first signature %s; replay=%s)\n", o.prop, oc.known.What, oc.sig, oc.path)
			}
			continue
		}
		fmt.Printf("VIOLATION property=%s replay=%s\n", o.prop, oc.path)
		if oc.ok {
			fmt.Printf("  signature: %s\n  shrunk to %d ops\n  %s\n", oc.sig, oc.shrunkOps, firstLines(oc.msg, 12))
		} else {
			fmt.Printf("  signature: %s\n  (not minimised: only the first classes of a run are shrunk)\n  %s\n", oc.sig, firstLines(oc.msg, 12))
		}
		code = 1
	}
	return code, cov, unknown
}

func firstLines(s string, n int) string {
	ls := strings.Split(s, "\n")
	if len(ls) > n {
		ls = ls[:n]
	}
	return strings.Join(ls, "\n  ")
}

// ---------------------------------------------------------------- replay

func cmdReplay(path string, trace bool, patch string) int {
	b, err := os.ReadFile(path)
	if err != nil {
		die(2, "%v", err)
	}
	var rf struct {
		Property  string `json:"property"`
		Signature string `json:"signature"`
		Plan      struct {
			Engine string `json:"engine"`
			Prop   string `json:"prop"`
		} `json:"plan"`
	}
	if err := json.Unmarshal(b, &rf); err != nil {
		die(2, "%v", err)
	}
	if rf.Plan.Engine == "" {
		// a bare plan (e.g. .work/harness-failure-*.json)
		var bare struct {
			Engine string `json:"engine"`
			Prop   string `json:"prop"`
		}
		_ = json.Unmarshal(b, &bare)
		rf.Plan.Engine, rf.Plan.Prop = bare.Engine, bare.Prop
	}
	es, err := loadEngines()
	if err != nil {
		die(2, "%v", err)
	}
	e := engineFor(es, "", rf.Plan.Engine)
	if e == nil {
		die(2, "replay file names unknown engine %q", rf.Plan.Engine)
	}
	wd := workDir(fmt.Sprintf("replay-%d", os.Getpid()))
	defer os.RemoveAll(wd)
	bin, _, err := build(e, wd, patch)
	if err != nil {
		fmt.Fprintf(os.Stderr, "BUILD-ERROR\n%v\n", err)
		return 2
	}
	abs, _ := filepath.Abs(path)
	mode := "replay"
	if trace {
		mode = "trace"
	}
	job := &Job{Mode: mode, Engine: e.Name, Prop: rf.Plan.Prop, Replay: abs}
	ob, lg, err := runJob(bin, job, wd, "replay", 2, 10*time.Minute)
	if err != nil {
		fmt.Fprintf(os.Stderr, "MACHINERY-ERROR: %v\n%s\n", err, lg)
		return 2
	}
	var rr struct {
		Violation *Violation `json:"violation"`
		Expected  string     `json:"expected_signature"`
		Same      bool       `json:"same"`
		Harness   string     `json:"harness"`
		Hash      string     `json:"hash"`
		Hash2     string     `json:"hash_second_run"`
		Trace     []string   `json:"trace"`
	}
	_ = json.Unmarshal(ob, &rr)
	for _, l := range rr.Trace {
		fmt.Println("  |", l)
	}
	if rr.Harness != "" {
		fmt.Fprintf(os.Stderr, "MACHINERY-ERROR: %s\n", rr.Harness)
		return 2
	}
	fmt.Printf("replay %s: event-log hash %s (second execution %s)\n", path, rr.Hash, rr.Hash2)
	if rr.Hash != rr.Hash2 {
		fmt.Fprintf(os.Stderr, "MACHINERY-ERROR: two executions of the same plan diverged\n")
		return 2
	}
	if rr.Violation == nil {
		fmt.Printf("no violation reproduced (expected %s)\n", rr.Expected)
		return 0
	}
	fmt.Printf("VIOLATION property=%s replay=%s\n  signature: %s (expected %s, same=%v)\n  step %d: %s\n", rr.Violation.Property, path,
		rr.Violation.Signature, rr.Expected, rr.Same, rr.Violation.Step, firstLines(rr.Violation.Message, 30))
	if rr.Violation.Stack != "" {
		fmt.Println(firstLines(rr.Violation.Stack, 40))
	}
	return 1
}

// ---------------------------------------------------------------- determinism self-test

func cmdDeterminism(prop, engine string, n int) int {
	es, err := loadEngines()
	if err != nil {
		die(2, "%v", err)
	}
	e := engineFor(es, prop, engine)
	if e == nil {
		die(2, "no engine for %s", prop)
	}
	wd := workDir(fmt.Sprintf("det-%s-%d", prop, os.Getpid()))
	defer os.RemoveAll(wd)
	bin, ist, err := build(e, wd, "")
	if err != nil {
		fmt.Fprintf(os.Stderr, "BUILD-ERROR\n%v\n", err)
		return 2
	}
	if len(ist.Ranges) > 0 {
		fmt.Printf("note: .Range( call sites on instrumented files (sync.Map order is seeded by the runtime patch): %v\n", ist.Ranges)
	}
	type cfg struct {
		procs, start, count int
		tag                 string
	}
	var cfgs []cfg
	// whole batch under 3 GOMAXPROCS values + each run alone in a fresh process for a sample
	for _, p := range []int{1, 4, 16} {
		cfgs = append(cfgs, cfg{p, 0, n, fmt.Sprintf("batch-p%d", p)})
	}
	for i := 0; i < n; i += max(1, n/10) {
		cfgs = append(cfgs, cfg{[]int{1, 4, 16}[i%3], i, 1, fmt.Sprintf("alone-%d", i)})
	}
	all := make([]map[string]string, len(cfgs))
	var wg sync.WaitGroup
	var mu sync.Mutex
	fail := 0
	sem := make(chan struct{}, runtime.NumCPU())
	for i, c := range cfgs {
		wg.Add(1)
		go func(i int, c cfg) {
			defer wg.Done()
			sem <- struct{}{}
			defer func() { <-sem }()
			job := &Job{Mode: "batch", Engine: e.Name, Prop: prop, Tier: "quick", Seed: 12345, Start: c.start, Stride: 1, MaxRuns: c.count, HashOnly: true}
			b, lg, err := runJob(bin, job, wd, c.tag, c.procs, 20*time.Minute)
			if err != nil {
				mu.Lock()
				fail++
				fmt.Fprintf(os.Stderr, "determinism: %s: %v\n%s\n", c.tag, err, lg)
				mu.Unlock()
				return
			}
			r := &BatchResult{}
			_ = json.Unmarshal(b, r)
			if r.Harness != "" {
				mu.Lock()
				fail++
				fmt.Fprintf(os.Stderr, "determinism: %s: harness: %s\n", c.tag, r.Harness)
				mu.Unlock()
			}
			all[i] = r.RunHashes
		}(i, c)
	}
	wg.Wait()
	if fail > 0 {
		return 2
	}
	ref := all[0]
	bad := 0
	for i, m := range all {
		for k, v := range m {
			if ref[k] != v {
				bad++
				if bad < 10 {
					fmt.Printf("DIVERGENCE run index %s: %s=%s vs %s=%s\n", k, cfgs[0].tag, ref[k], cfgs[i].tag, v)
				}
			}
		}
	}
	fmt.Printf("determinism %s/%s: %d runs x %d configurations, %d divergences\n", e.Name, prop, len(ref), len(cfgs), bad)
	if bad > 0 {
		return 2
	}
	return 0
}

// ---------------------------------------------------------------- setup

func cmdSetup() int {
	es, err := loadEngines()
	if err != nil {
		die(2, "%v", err)
	}
	// build every engine once (sequentially for the first, which compiles the patched std; then in parallel)
	code := 0
	var mu sync.Mutex
	buildOne := func(e *EngineDef) {
		wd := workDir("setup-" + e.Name)
		defer os.RemoveAll(wd)
		t0 := time.Now()
		_, _, err := build(e, wd, "")
		mu.Lock()
		defer mu.Unlock()
		if err != nil {
			fmt.Fprintf(os.Stderr, "setup: %v\n", err)
			code = 2
			return
		}
		fmt.Printf("setup: engine %s built in %.1fs\n", e.Name, time.Since(t0).Seconds())
	}
	var ready []*EngineDef
	for _, e := range es {
		if e.Ready {
			ready = append(ready, e)
		}
	}
	es = ready
	if len(es) > 0 {
		buildOne(es[0])
	}
	var wg sync.WaitGroup
	sem := make(chan struct{}, 4)
	for _, e := range es[min(1, len(es)):] {
		wg.Add(1)
		go func(e *EngineDef) {
			defer wg.Done()
			sem <- struct{}{}
			defer func() { <-sem }()
			buildOne(e)
		}(e)
	}
	wg.Wait()
	return code
}

func main() {
	if len(os.Args) < 2 {
		die(2, "usage: verifctl check|replay|determinism|setup|mutate ...")
	}
	args := os.Args[2:]
	flag := func(name, def string) string {
		for i := 0; i < len(args); i++ {
			if args[i] == "--"+name && i+1 < len(args) {
				v := args[i+1]
				args = append(args[:i], args[i+2:]...)
				return v
			}
			if strings.HasPrefix(args[i], "--"+name+"=") {
				v := strings.TrimPrefix(args[i], "--"+name+"=")
				args = append(args[:i], args[i+1:]...)
				return v
			}
		}
		return def
	}
	boolFlag := func(name string) bool {
		for i := 0; i < len(args); i++ {
			if args[i] == "--"+name {
				args = append(args[:i], args[i+1:]...)
				return true
			}
		}
		return false
	}
	seedDef := envOr("VERIF_SEED", "1")
	switch os.Args[1] {
	case "check":
		tier := flag("tier", envOr("VERIF_TIER", "quick"))
		seedS := flag("seed", seedDef)
		secS := flag("seconds", envOr("VERIF_SECONDS", "0"))
		workersS := flag("workers", "0")
		maxRunsS := flag("max-runs", "0")
		engine := flag("engine", "")
		patch := flag("patch", "")
		tag := flag("tag", "")
		noEv := boolFlag("no-evidence")
		probes := boolFlag("probes")
		if len(args) < 1 {
			die(2, "usage: verifctl check <property> [--tier quick|thorough] [--seed N] [--seconds S] [--patch file]")
		}
		seed, err := strconv.ParseUint(seedS, 10, 64)
		if err != nil {
			// non-numeric seeds are hashed
			seed = 0
			for _, c := range seedS {
				seed = seed*131 + uint64(c)
			}
		}
		sec, _ := strconv.ParseFloat(secS, 64)
		workers, _ := strconv.Atoi(workersS)
		maxRuns, _ := strconv.Atoi(maxRunsS)
		os.Exit(cmdCheck(checkOpts{prop: args[0], tier: tier, seed: seed, seconds: sec, workers: workers, maxRuns: maxRuns, engine: engine, patch: patch, noEvidence: noEv, probes: probes, tag: tag}))
	case "replay":
		trace := boolFlag("trace")
		patch := flag("patch", "")
		if len(args) < 1 {
			die(2, "usage: verifctl replay <file> [--trace]")
		}
		os.Exit(cmdReplay(args[0], trace, patch))
	case "determinism":
		nS := flag("n", "30")
		engine := flag("engine", "")
		if len(args) < 1 {
			die(2, "usage: verifctl determinism <property> [--n 30]")
		}
		n, _ := strconv.Atoi(nS)
		os.Exit(cmdDeterminism(args[0], engine, n))
	case "setup":
		os.Exit(cmdSetup())
	default:
		die(2, "unknown command %q", os.Args[1])
	}
}
