module verifctl

go 1.26
