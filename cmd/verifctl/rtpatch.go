package main

import (
	"fmt"
	"os"
	"path/filepath"
	"strings"
)

// rtPatch generates patched copies of a few go1.26.8 standard-library files
// (never written into GOROOT; they are used through -overlay only):
//
//   - runtime/rand.go: rand() returns a run-controlled constant while a simulated
//     run is active (map seeds and iteration offsets become a pure function of
//     the plan's MapSeed); verifUserRand() is a separate seeded sequence for
//     math/rand & co.; verifGoid() exposes the goroutine id.
//   - runtime/alg.go: fixed hash keys, so that hashes agree across processes.
//   - math/rand, math/rand/v2, os/tempfile.go: pull runtime.verifUserRand instead
//     of runtime.rand, so a constant rand() does not freeze them.
func rtPatch(goroot, outDir string, overlay map[string]string) error {
	type edit struct{ old, new string }
	patch := func(rel string, edits []edit, appendix string) error {
		src := filepath.Join(goroot, "src", rel)
		b, err := os.ReadFile(src)
		if err != nil {
			return err
		}
		s := string(b)
		for _, e := range edits {
			if strings.Count(s, e.old) != 1 {
				return fmt.Errorf("rtpatch %s: anchor %q found %d times", rel, e.old, strings.Count(s, e.old))
			}
			s = strings.Replace(s, e.old, e.new, 1)
		}
		s += appendix
		dst := filepath.Join(outDir, strings.ReplaceAll(rel, "/", "__"))
		if err := os.WriteFile(dst, []byte(s), 0o644); err != nil {
			return err
		}
		overlay[src] = dst
		return nil
	}
	if err := os.MkdirAll(outDir, 0o755); err != nil {
		return err
	}
	err := patch("runtime/rand.go", []edit{
		{"//go:nosplit\n//go:linkname rand\nfunc rand() uint64 {\n",
			"//go:nosplit\n//go:linkname rand\nfunc rand() uint64 {\n\tif v := verifMapRand; v != 0 {\n\t\treturn v\n\t}\n\treturn rand0()\n}\n\n//go:nosplit\nfunc rand0() uint64 {\n"},
		{"\tmp.cheaprand = rand()\n", "\tmp.cheaprand = rand0()\n"},
		{"\treturn uint32((uint64(uint32(rand())) * uint64(n)) >> 32)\n", "\treturn uint32((uint64(uint32(rand0())) * uint64(n)) >> 32)\n"},
	}, `

// ---- verif overlay (never on disk in GOROOT) ----

//go:linkname verifMapRand
var verifMapRand uint64

//go:linkname verifUserState
var verifUserState uint64

//go:linkname verifGoidFn
var verifGoidFn func() uint64 = verifGoid

// verifUserRand is what math/rand, math/rand/v2 and os pull instead of rand.
//
//go:linkname verifUserRand
func verifUserRand() uint64 {
	if verifUserState == 0 {
		return rand0()
	}
	verifUserState += 0x9e3779b97f4a7c15
	z := verifUserState
	z = (z ^ (z >> 30)) * 0xbf58476d1ce4e5b9
	z = (z ^ (z >> 27)) * 0x94d049bb133111eb
	z ^= z >> 31
	if verifUserState == 0 {
		verifUserState = 1
	}
	return z
}

func verifGoid() uint64 { return getg().goid }
`)
	if err != nil {
		return err
	}
	err = patch("runtime/alg.go", []edit{
		{"\tfor i := range hashkey {\n\t\thashkey[i] = uintptr(bootstrapRand())\n\t}\n",
			"\tfor i := range hashkey {\n\t\thashkey[i] = uintptr(0x9e3779b97f4a7c15 * uint64(i+1))\n\t}\n"},
		{"\tfor i := range key {\n\t\tkey[i] = bootstrapRand()\n\t}\n",
			"\tfor i := range key {\n\t\tkey[i] = 0x9e3779b97f4a7c15*uint64(i+1) ^ 0xbf58476d1ce4e5b9\n\t}\n"},
	}, "")
	if err != nil {
		return err
	}
	for _, rel := range []string{"math/rand/rand.go", "math/rand/v2/rand.go", "os/tempfile.go"} {
		if err := patch(rel, []edit{{"//go:linkname runtime_rand runtime.rand\n", "//go:linkname runtime_rand runtime.verifUserRand\n"}}, ""); err != nil {
			return err
		}
	}
	return nil
}
