//go:build verif

package arbitrator

// Engine `arbiter` (C16, half a): the real arbitratorImpl (AddPodMigrationJob, DeletePodMigrationJob,
// doOnceArbitrate = copyJobs + getPodForJob + the four sort functions + filtering + updatePassedJob /
// updateFailedJob), the real limit filters of `filter` (max migrating globally / per node / per namespace /
// per workload, max unavailable per workload, expected-replicas check), the real duplicate-job filter behind
// arbitratorImpl.Filter and the real arbitrationHandler run against a controller-runtime fake client with the
// five field indexes of pkg/descheduler/fieldindex. A timer actor (one arbitration round per burst), an informer
// actor (handler Create/Update/Delete, lagging) and a creator actor (user-made jobs; descheduler-made jobs that
// go through arbitratorImpl.Filter first) interleave at every lock of the package and before every API call;
// between rounds the environment (migration controller stub, kubelet, workload controllers, users) moves jobs
// and pods. See /verif/DESIGN.md §4 C16 (a).
//
// Reads of PodMigrationJobs by the code under test are served from a simulated informer cache that is fed by the very
// event stream the handler receives (cache first, then handler, as a shared informer does): it lags the arbitrator's
// own writes until the informer actor delivers them, possibly rounds later; a periodic resync re-delivers every cached
// (possibly stale) job as an Update event. Pods evicted by a succeeded job or deleted by their owner go through a
// graceful termination (deletionTimestamp set, still Running and Ready) before they disappear. All oracles are
// evaluated over the store (the API server's truth), never over the cache.

import (
	"context"
	"fmt"
	"math"
	"runtime/debug"
	"sort"
	"strconv"
	"strings"
	"testing"
	"time"

	"github.com/go-logr/logr"
	corev1 "k8s.io/api/core/v1"
	apierrors "k8s.io/apimachinery/pkg/api/errors"
	metav1 "k8s.io/apimachinery/pkg/apis/meta/v1"
	"k8s.io/apimachinery/pkg/runtime"
	"k8s.io/apimachinery/pkg/runtime/schema"
	"k8s.io/apimachinery/pkg/types"
	"k8s.io/apimachinery/pkg/util/intstr"
	"k8s.io/client-go/tools/events"
	"k8s.io/client-go/util/workqueue"
	"k8s.io/klog/v2"
	"k8s.io/utils/ptr"
	"sigs.k8s.io/controller-runtime/pkg/client"
	"sigs.k8s.io/controller-runtime/pkg/client/fake"
	"sigs.k8s.io/controller-runtime/pkg/client/interceptor"
	"sigs.k8s.io/controller-runtime/pkg/event"
	"sigs.k8s.io/controller-runtime/pkg/handler"
	"sigs.k8s.io/controller-runtime/pkg/reconcile"

	"github.com/koordinator-sh/koordinator/apis/extension"
	sev1alpha1 "github.com/koordinator-sh/koordinator/apis/scheduling/v1alpha1"
	deschedulerconfig "github.com/koordinator-sh/koordinator/pkg/descheduler/apis/config"
	"github.com/koordinator-sh/koordinator/pkg/descheduler/controllers/migration/util"
	evictionsutil "github.com/koordinator-sh/koordinator/pkg/descheduler/evictions"
	"github.com/koordinator-sh/koordinator/pkg/descheduler/fieldindex"
	podutil "github.com/koordinator-sh/koordinator/pkg/descheduler/pod"
	"github.com/koordinator-sh/koordinator/pkg/descheduler/utils/sorter"
	sim "github.com/koordinator-sh/koordinator/pkg/verifsim"
)

var arbScheme = runtime.NewScheme()

func TestVerifSim(t *testing.T) {
	klog.SetLogger(logr.Discard())
	debug.SetGCPercent(400) // the fake client produces a lot of short-lived JSON garbage
	// only the two kinds the arbitrator touches: the fake client derives a REST mapper from the whole scheme on every write
	arbScheme.AddKnownTypes(corev1.SchemeGroupVersion, &corev1.Pod{}, &corev1.PodList{})
	metav1.AddToGroupVersion(arbScheme, corev1.SchemeGroupVersion)
	arbScheme.AddKnownTypes(sev1alpha1.GroupVersion, &sev1alpha1.PodMigrationJob{}, &sev1alpha1.PodMigrationJobList{})
	metav1.AddToGroupVersion(arbScheme, sev1alpha1.GroupVersion)
	sim.Main(t, &arbiterEngine{})
}

type arbiterEngine struct{}

func (arbiterEngine) Name() string { return "arbiter" }

// history class of the recorded defect: the Update that stores the passed-arbitration annotation was applied by the
// API server but reported as failed to the arbitrator (lost acknowledgement), AND the arbitrator's limit filters then
// listed the jobs from an informer cache that had not yet received that write (the job is passed in the API server,
// but neither the arbitrator's memory nor its cache says so).
const arbTagLostAck = "lost-ack-hidden-by-cache-lag"

// finalizer that keeps a gracefully deleted pod in the store for its termination period
const arbGraceFinalizer = "verif.sim/graceful-termination"

// ---------------------------------------------------------------- plan types

type arbWl struct {
	NS       int    `json:"ns"`
	Replicas int    `json:"replicas"`
	Kind     string `json:"kind"` // ReplicaSet | Job
}

type arbPodCfg struct {
	W       int  `json:"w"`  // workload index, -1 = bare pod
	NS      int  `json:"ns"` // namespace (taken from the workload when W >= 0)
	Node    int  `json:"node"`
	Ready   bool `json:"ready"`
	Prio    int  `json:"prio"`
	MaxCost bool `json:"max_cost,omitempty"` // eviction cost = MaxInt32: never to be migrated
}

type arbCfg struct {
	Nodes        int         `json:"nodes"`
	Namespaces   int         `json:"namespaces"`
	Workloads    []arbWl     `json:"workloads"`
	Pods         []arbPodCfg `json:"pods"`
	MaxGlobal    int         `json:"max_global"` // -1 = unset, 0 = disabled
	MaxNode      int         `json:"max_node"`
	MaxNS        int         `json:"max_ns"`
	WlPercent    bool        `json:"wl_percent"` // the two per-workload limits are percentages
	MaxMigWl     int         `json:"max_migrating_wl"`
	MaxUnavailWl int         `json:"max_unavailable_wl"`
	SkipReplicas bool        `json:"skip_check_expected_replicas"`
	IntervalMS   int         `json:"interval_ms"`
}

type arbOp struct {
	K     string `json:"k"` // round | seed | create | dup_add | resync | start | finish | delete_job | pod_ready | pod_delete | pod_replace | pod_terminate | pod_gone | scale | sync
	J     int    `json:"j,omitempty"`
	P     int    `json:"p,omitempty"`
	W     int    `json:"w,omitempty"`
	V     int    `json:"v,omitempty"`
	By    string `json:"by,omitempty"`    // create: user | desched
	NoUID bool   `json:"nouid,omitempty"` // create by user: podRef carries namespace/name only
	Dup   bool   `json:"dup,omitempty"`   // create by user: even if the pod already has a live job
	Phase string `json:"phase,omitempty"` // seed: Running | Pending ; finish: Succeeded | Failed | Aborted
}

// ---------------------------------------------------------------- generation

func (arbiterEngine) Generate(p *sim.Plan, g *sim.Rng) {
	thorough := p.Tier == "thorough"
	cfg := arbCfg{Nodes: g.Range(2, 4), Namespaces: g.Range(2, 3), IntervalMS: g.PickInt(100, 500, 500, 2000)}
	limit := func(hi int) int {
		switch g.Intn(10) {
		case 0, 1:
			return -1
		case 2:
			return 0
		}
		return g.Range(1, hi)
	}
	cfg.MaxGlobal, cfg.MaxNode, cfg.MaxNS = limit(8), limit(4), limit(6)
	cfg.WlPercent = g.Bool(0.25)
	if cfg.WlPercent {
		cfg.MaxMigWl, cfg.MaxUnavailWl = g.PickInt(25, 50), g.PickInt(25, 50, 75)
	} else {
		cfg.MaxMigWl, cfg.MaxUnavailWl = g.Range(1, 4), g.Range(1, 5)
	}
	cfg.SkipReplicas = g.Bool(0.5)
	nW := g.Range(2, 4)
	for w := 0; w < nW; w++ {
		wl := arbWl{NS: g.Intn(cfg.Namespaces), Replicas: g.Range(1, 10), Kind: "ReplicaSet"}
		if cfg.WlPercent {
			wl.Replicas = g.PickInt(4, 8)
		}
		if g.Bool(0.2) {
			wl.Kind = "Job"
		}
		cfg.Workloads = append(cfg.Workloads, wl)
		n := wl.Replicas
		if g.Bool(0.15) && n > 1 {
			n--
		} else if g.Bool(0.1) {
			n++
		}
		for i := 0; i < n; i++ {
			cfg.Pods = append(cfg.Pods, arbPodCfg{W: w, NS: wl.NS, Node: g.Intn(cfg.Nodes), Ready: !g.Bool(0.08), Prio: g.PickInt(0, 0, 1000, 5000), MaxCost: g.Bool(0.03)})
		}
	}
	for i := g.Intn(3); i > 0; i-- {
		cfg.Pods = append(cfg.Pods, arbPodCfg{W: -1, NS: g.Intn(cfg.Namespaces), Node: g.Intn(cfg.Nodes), Ready: true})
	}
	nPods := len(cfg.Pods)
	var ops []arbOp
	nextJob := 0
	// jobs that are already running / already passed when the story begins (e.g. admitted under an older configuration)
	for i := g.Intn(4); i > 0; i-- {
		ops = append(ops, arbOp{K: "seed", J: nextJob, P: g.Intn(nPods), Phase: g.Pick("Running", "Running", "Pending")})
		nextJob++
	}
	rounds := g.Range(2, 4)
	maxNew := 8
	if thorough || g.Bool(0.2) {
		rounds = g.Range(2, 6)
		maxNew = 12
	}
	cursor := g.Intn(nPods)
	for rd := 0; rd < rounds; rd++ {
		// environment between rounds
		if rd > 0 {
			for i := g.Intn(6); i > 0; i-- {
				switch g.Intn(16) {
				case 0, 1, 2:
					ops = append(ops, arbOp{K: "start"})
				case 3, 4, 5:
					ops = append(ops, arbOp{K: "finish", Phase: g.Pick("Succeeded", "Succeeded", "Succeeded", "Failed", "Aborted")})
				case 6:
					ops = append(ops, arbOp{K: "delete_job"})
				case 7:
					ops = append(ops, arbOp{K: "pod_ready", P: g.Intn(nPods), V: g.Intn(2)})
				case 8:
					ops = append(ops, arbOp{K: "pod_delete", P: g.Intn(nPods)})
				case 9:
					ops = append(ops, arbOp{K: "pod_replace", P: g.Intn(nPods), V: g.Intn(cfg.Nodes)})
				case 10:
					w := g.Intn(nW)
					v := g.Range(1, 10)
					if cfg.WlPercent {
						v = g.PickInt(4, 8)
					}
					ops = append(ops, arbOp{K: "scale", W: w, V: v})
				case 11:
					// a pod is deleted gracefully by its owner / a user / the kubelet (not through a migration job)
					ops = append(ops, arbOp{K: "pod_terminate", P: g.Intn(nPods)})
				case 12:
					// a terminating pod finally disappears
					ops = append(ops, arbOp{K: "pod_gone"})
				case 13, 14:
					// periodic resync of the job informer: every cached job is delivered again as an Update event
					ops = append(ops, arbOp{K: "resync"})
				case 15:
					// the job informer catches up with the API server
					ops = append(ops, arbOp{K: "sync"})
				}
			}
		}
		// jobs created while the round runs (they are arbitrated in this or a later round)
		nNew := g.Range(1, maxNew)
		if rd > 0 && g.Bool(0.3) {
			nNew = g.Intn(3)
		}
		for i := 0; i < nNew; i++ {
			op := arbOp{K: "create", J: nextJob, By: "user"}
			nextJob++
			if g.Bool(0.3) {
				op.By = "desched"
			} else if g.Bool(0.2) {
				op.NoUID = true
			}
			if g.Bool(0.88) {
				op.P = cursor % nPods
				cursor++
			} else {
				op.P = g.Intn(nPods) // possibly a pod that already has a job
				op.Dup = op.By == "user" && g.Bool(0.4)
			}
			ops = append(ops, op)
			if g.Bool(0.08) {
				ops = append(ops, arbOp{K: "dup_add", J: g.Intn(nextJob)})
			}
			if g.Bool(0.06) {
				ops = append(ops, arbOp{K: "resync"}) // a resync that falls into the round
			}
		}
		ops = append(ops, arbOp{K: "round"})
	}
	p.SetCfg(cfg)
	p.SetOps(ops)
	if g.Bool(0.25) {
		p.FaultRate = 0
	} else {
		p.FaultRate = []float64{0.05, 0.15, 0.3}[g.Intn(3)]
		kinds := []string{"err-before", "err-after", "conflict"}
		for _, k := range kinds {
			if g.Bool(0.45) {
				p.Faults = append(p.Faults, k)
			}
		}
		if len(p.Faults) == 0 {
			p.Faults = []string{kinds[g.Intn(len(kinds))]}
		}
	}
}

// ---------------------------------------------------------------- simulation state

type arbPodState struct {
	gen int // generation: a migrated / recreated pod is a new object with a new name and UID
}

type arbEvent struct {
	kind     string // add | update | delete
	old, obj *sev1alpha1.PodMigrationJob
}

type arbSim struct {
	r   *sim.Run
	cfg arbCfg

	base client.WithWatch // the store (harness access, environment)
	cl   client.WithWatch // what the code under test uses: yields + faults, then the store

	a       *arbitratorImpl
	f       *filter
	handler handler.EventHandler
	queue   *arbQueue

	pods       []arbPodState
	podM       map[string]*corev1.Pod                // mirror of the store's pods ("ns/name"), refreshed after every write (cross-checked against the store at the end)
	jobM       map[string]*sev1alpha1.PodMigrationJob // mirror of the store's jobs (name)
	replicas   []int                                 // current spec.replicas per workload
	events     []arbEvent
	// cache: the informer cache of PodMigrationJobs the code under test reads from (job name -> object as of the last
	// delivered event). It is updated by the informer actor immediately before the event reaches the real handler.
	cache         map[string]*sev1alpha1.PodMigrationJob
	resyncPending int      // resyncs requested while a round runs (performed by the informer actor)
	terminating   []string // "ns/name" of pods in graceful termination, oldest first
	delivered  map[string]bool // job name -> its Create event reached the arbitrator
	statusFlt  map[string]bool // job name -> a status update of the arbitrator for it was hit by a fault
	lostAck    map[string]bool // job name -> its passed-annotation update was applied but reported as failed
	// lostAckOpen: during the current round the code under test listed the jobs from its cache while some pending job was
	// marked as passed in the store, the arbitrator did not remember it because the answer to its update was lost, and the
	// cache did not show the annotation yet (the history class of the recorded defect)
	lostAckOpen bool
	createdBy  map[string]string
	creatorsOn bool
	timerOn    bool
	round      int
}

// arbQueue is the reconcile work queue handed to the real event handler: only Add is ever used by it.
type arbQueue struct {
	workqueue.TypedRateLimitingInterface[reconcile.Request]
	added int
}

func (q *arbQueue) Add(reconcile.Request) { q.added++ }

func arbNS(i int) string   { return fmt.Sprintf("ns%d", i) }
func arbNode(i int) string { return fmt.Sprintf("n%d", i) }
func arbJob(i int) string  { return fmt.Sprintf("j%d", i) }
func arbWlUID(w int) types.UID {
	return types.UID(fmt.Sprintf("uid-w%d", w))
}

func (h *arbSim) podNS(i int) string {
	pc := h.cfg.Pods[i]
	if pc.W >= 0 && pc.W < len(h.cfg.Workloads) {
		return arbNS(h.cfg.Workloads[pc.W].NS)
	}
	return arbNS(pc.NS)
}
func (h *arbSim) podName(i int) string {
	if g := h.pods[i].gen; g > 0 {
		return fmt.Sprintf("p%d-g%d", i, g)
	}
	return fmt.Sprintf("p%d", i)
}
func (h *arbSim) podUID(i int) types.UID { return types.UID("uid-" + h.podName(i)) }

func (h *arbSim) newPodObj(i int, node int, ready bool) *corev1.Pod {
	pc := h.cfg.Pods[i]
	p := &corev1.Pod{
		ObjectMeta: metav1.ObjectMeta{Name: h.podName(i), Namespace: h.podNS(i), UID: h.podUID(i),
			CreationTimestamp: metav1.NewTime(time.Now().Add(-time.Duration(1+i%7) * time.Hour))},
		Spec:   corev1.PodSpec{NodeName: arbNode(node), Priority: ptr.To(int32(pc.Prio)), SchedulerName: "koord-scheduler"},
		Status: corev1.PodStatus{Phase: corev1.PodRunning},
	}
	if pc.W >= 0 && pc.W < len(h.cfg.Workloads) {
		wl := h.cfg.Workloads[pc.W]
		api := "apps/v1"
		if wl.Kind == "Job" {
			api = "batch/v1"
		}
		p.OwnerReferences = []metav1.OwnerReference{{APIVersion: api, Kind: wl.Kind, Name: fmt.Sprintf("w%d", pc.W), UID: arbWlUID(pc.W), Controller: ptr.To(true)}}
	}
	if pc.MaxCost {
		p.Annotations = map[string]string{extension.AnnotationEvictionCost: strconv.Itoa(math.MaxInt32)}
	}
	arbSetReady(p, ready)
	return p
}

func arbSetReady(p *corev1.Pod, ready bool) {
	st := corev1.ConditionFalse
	if ready {
		st = corev1.ConditionTrue
	}
	p.Status.Conditions = []corev1.PodCondition{{Type: corev1.PodReady, Status: st}}
}

// arbAvailable is the statement's notion of an available pod: active (not terminating, not finished) and ready. A pod in
// graceful termination is unavailable even while it still reports Running and Ready.
func arbAvailable(p *corev1.Pod) bool {
	if p.DeletionTimestamp != nil || p.Status.Phase == corev1.PodSucceeded || p.Status.Phase == corev1.PodFailed {
		return false
	}
	for _, c := range p.Status.Conditions {
		if c.Type == corev1.PodReady {
			return c.Status == corev1.ConditionTrue
		}
	}
	return false
}

// ---- stubs

// controller finder stub: the pods that the store holds for the workload, and the workload's current spec.replicas
type arbFinder struct{ h *arbSim }

func (f *arbFinder) podsOf(uid types.UID, ns string, active bool) []*corev1.Pod {
	var out []*corev1.Pod
	for _, p := range f.h.podM {
		if p.Namespace != ns {
			continue
		}
		// as the real finder: with active=true, pods that are terminating or finished are left out
		if active && (p.DeletionTimestamp != nil || p.Status.Phase == corev1.PodSucceeded || p.Status.Phase == corev1.PodFailed) {
			continue
		}
		if ref := metav1.GetControllerOf(p); ref != nil && ref.UID == uid {
			out = append(out, p)
		}
	}
	sort.Slice(out, func(i, j int) bool { return out[i].Name < out[j].Name })
	return out
}

func (f *arbFinder) replicasOf(uid types.UID) int32 {
	for w := range f.h.cfg.Workloads {
		if arbWlUID(w) == uid {
			return int32(f.h.replicas[w])
		}
	}
	return 0
}

func (f *arbFinder) GetPodsForRef(ref *metav1.OwnerReference, ns string, _ *metav1.LabelSelector, active bool) ([]*corev1.Pod, int32, error) {
	return f.podsOf(ref.UID, ns, active), f.replicasOf(ref.UID), nil
}

func (f *arbFinder) GetExpectedScaleForPod(pod *corev1.Pod) (int32, error) {
	if ref := metav1.GetControllerOf(pod); ref != nil {
		return f.replicasOf(ref.UID), nil
	}
	return 0, nil
}

func (f *arbFinder) ListPodsByWorkloads(uids []types.UID, ns string, _ *metav1.LabelSelector, active bool) ([]*corev1.Pod, error) {
	var out []*corev1.Pod
	for _, u := range uids {
		out = append(out, f.podsOf(u, ns, active)...)
	}
	return out, nil
}

func (h *arbSim) pushEvent(kind string, old, obj *sev1alpha1.PodMigrationJob) {
	h.events = append(h.events, arbEvent{kind: kind, old: old, obj: obj})
}

// getJob reads the job from the store and refreshes the mirror.
func (h *arbSim) getJob(name string) *sev1alpha1.PodMigrationJob {
	j := &sev1alpha1.PodMigrationJob{}
	if err := h.base.Get(context.TODO(), types.NamespacedName{Name: name}, j); err != nil {
		if apierrors.IsNotFound(err) {
			delete(h.jobM, name)
			return nil
		}
		h.r.HarnessFail("get job %s: %v", name, err)
	}
	h.jobM[name] = j
	return j.DeepCopy()
}

// syncPod refreshes the mirror entry of pod i (current generation) from the store.
func (h *arbSim) syncPod(ns, name string) *corev1.Pod {
	p := &corev1.Pod{}
	if err := h.base.Get(context.TODO(), types.NamespacedName{Namespace: ns, Name: name}, p); err != nil {
		if apierrors.IsNotFound(err) {
			delete(h.podM, ns+"/"+name)
			return nil
		}
		h.r.HarnessFail("get pod %s/%s: %v", ns, name, err)
	}
	h.podM[ns+"/"+name] = p
	return p
}

func (h *arbSim) sortedJobs() []*sev1alpha1.PodMigrationJob {
	out := make([]*sev1alpha1.PodMigrationJob, 0, len(h.jobM))
	for _, j := range h.jobM {
		out = append(out, j)
	}
	sort.Slice(out, func(i, j int) bool { return out[i].Name < out[j].Name })
	return out
}

// crossCheck: the mirrors the oracles read must equal the store.
func (h *arbSim) crossCheck() {
	pl := &corev1.PodList{}
	jl := &sev1alpha1.PodMigrationJobList{}
	if err := h.base.List(context.TODO(), pl); err != nil {
		h.r.HarnessFail("list pods: %v", err)
	}
	if err := h.base.List(context.TODO(), jl); err != nil {
		h.r.HarnessFail("list jobs: %v", err)
	}
	if len(pl.Items) != len(h.podM) || len(jl.Items) != len(h.jobM) {
		h.r.HarnessFail("mirror out of sync: store has %d pods / %d jobs, mirror %d / %d", len(pl.Items), len(jl.Items), len(h.podM), len(h.jobM))
	}
	for i := range pl.Items {
		p := &pl.Items[i]
		m := h.podM[p.Namespace+"/"+p.Name]
		if m == nil || m.ResourceVersion != p.ResourceVersion || m.Spec.NodeName != p.Spec.NodeName || arbAvailable(m) != arbAvailable(p) {
			h.r.HarnessFail("mirror out of sync for pod %s/%s", p.Namespace, p.Name)
		}
	}
	if len(h.events) == 0 {
		// the informer has delivered everything: its cache must equal the store
		if len(h.cache) != len(jl.Items) {
			h.r.HarnessFail("informer cache out of sync: store has %d jobs, cache %d", len(jl.Items), len(h.cache))
		}
		for i := range jl.Items {
			j := &jl.Items[i]
			if c := h.cache[j.Name]; c == nil || c.ResourceVersion != j.ResourceVersion {
				h.r.HarnessFail("informer cache out of sync for job %s", j.Name)
			}
		}
	}
	for i := range jl.Items {
		j := &jl.Items[i]
		m := h.jobM[j.Name]
		if m == nil || m.ResourceVersion != j.ResourceVersion || m.Status.Phase != j.Status.Phase || m.Annotations[AnnotationPassedArbitration] != j.Annotations[AnnotationPassedArbitration] {
			h.r.HarnessFail("mirror out of sync for job %s", j.Name)
		}
	}
}

// ---- the informer cache of jobs

// arbJobIndex evaluates the field indexes pkg/descheduler/fieldindex registers for PodMigrationJobs.
func arbJobIndex(j *sev1alpha1.PodMigrationJob, field string) (string, bool) {
	ref := j.Spec.PodRef
	if ref == nil {
		return "", false
	}
	switch field {
	case fieldindex.IndexJobByPodUID:
		return string(ref.UID), true
	case fieldindex.IndexJobPodNamespacedName:
		return fmt.Sprintf("%s/%s", ref.Namespace, ref.Name), true
	case fieldindex.IndexJobByPodNamespace:
		return ref.Namespace, true
	}
	return "", false
}

// listCachedJobs answers a List of PodMigrationJobs from the informer cache (sorted by name).
func (h *arbSim) listCachedJobs(out *sev1alpha1.PodMigrationJobList, opts []client.ListOption) {
	lo := &client.ListOptions{}
	lo.ApplyOptions(opts)
	field, val := "", ""
	if lo.FieldSelector != nil && !lo.FieldSelector.Empty() {
		reqs := lo.FieldSelector.Requirements()
		if len(reqs) != 1 {
			h.r.HarnessFail("job list with %d field requirements", len(reqs))
		}
		field, val = reqs[0].Field, reqs[0].Value
		if _, ok := arbJobIndex(&sev1alpha1.PodMigrationJob{Spec: sev1alpha1.PodMigrationJobSpec{PodRef: &corev1.ObjectReference{}}}, field); !ok {
			h.r.HarnessFail("job list by unknown field index %q", field)
		}
	}
	names := make([]string, 0, len(h.cache))
	for n := range h.cache {
		names = append(names, n)
	}
	sort.Strings(names)
	out.Items = out.Items[:0]
	for _, n := range names {
		j := h.cache[n]
		if field != "" {
			if v, ok := arbJobIndex(j, field); !ok || v != val {
				continue
			}
		}
		out.Items = append(out.Items, *j.DeepCopy())
	}
	// history classes, decided at the moment the code under test looks at its cache
	if h.lostAckWindow() {
		if !h.lostAckOpen {
			h.r.Probe("jobs-listed-while-lost-ack-job-hidden-by-cache-lag")
		}
		h.lostAckOpen = true
	}
	if h.timerOn {
		for _, n := range names {
			if sj := h.jobM[n]; sj != nil && arbPendingPassed(sj) && h.cache[n].Annotations[AnnotationPassedArbitration] != "true" {
				h.r.Probe("round-lists-jobs-while-cache-lags-a-passed-annotation")
				break
			}
		}
	}
}

// resync: the informer's periodic resync hands every cached object to the handler again as an Update event whose old
// and new object are the cached one, however stale the cache is.
func (h *arbSim) resync() {
	names := make([]string, 0, len(h.cache))
	for n := range h.cache {
		names = append(names, n)
	}
	sort.Strings(names)
	for _, n := range names {
		cj := h.cache[n]
		if sj := h.jobM[n]; sj != nil && arbPendingPassed(sj) && cj.Annotations[AnnotationPassedArbitration] != "true" {
			h.r.Probe("resync-delivers-stale-job-whose-passed-annotation-the-cache-lacks")
		}
		h.handler.Update(context.TODO(), event.TypedUpdateEvent[client.Object]{ObjectOld: cj.DeepCopy(), ObjectNew: cj.DeepCopy()}, h.queue)
		h.r.Event("resync update %s rv=%s", n, cj.ResourceVersion)
	}
	h.r.Probe("resync")
}

var arbJobGR = schema.GroupResource{Group: sev1alpha1.GroupVersion.Group, Resource: "podmigrationjobs"}

// API client seen by the code under test: a scheduling point before every call; write faults on PodMigrationJob
// updates; every applied write produces the informer event a real watch would deliver.
func (h *arbSim) interceptors() interceptor.Funcs {
	r := h.r
	return interceptor.Funcs{
		// reads of PodMigrationJobs are served by the informer cache (as the manager's delegating client does); pods are
		// read from the store
		Get: func(ctx context.Context, c client.WithWatch, key client.ObjectKey, obj client.Object, opts ...client.GetOption) error {
			if out, ok := obj.(*sev1alpha1.PodMigrationJob); ok {
				r.Yield("api-get")
				cj := h.cache[key.Name]
				if cj == nil {
					return apierrors.NewNotFound(arbJobGR, key.Name)
				}
				cj.DeepCopyInto(out)
				return nil
			}
			return c.Get(ctx, key, obj, opts...)
		},
		List: func(ctx context.Context, c client.WithWatch, list client.ObjectList, opts ...client.ListOption) error {
			r.Yield("api-list")
			if jl, ok := list.(*sev1alpha1.PodMigrationJobList); ok {
				h.listCachedJobs(jl, opts)
				return nil
			}
			return c.List(ctx, list, opts...)
		},
		Create: func(ctx context.Context, c client.WithWatch, obj client.Object, opts ...client.CreateOption) error {
			r.Yield("api-create")
			return c.Create(ctx, obj, opts...)
		},
		Update: func(ctx context.Context, c client.WithWatch, obj client.Object, opts ...client.UpdateOption) error {
			r.Yield("api-update")
			job, ok := obj.(*sev1alpha1.PodMigrationJob)
			if !ok {
				return c.Update(ctx, obj, opts...)
			}
			switch r.Fault("job-update", "err-before", "err-after", "conflict") {
			case "err-before":
				r.Event("api update %s -> 500 (not applied)", job.Name)
				return apierrors.NewInternalError(fmt.Errorf("injected: etcd request timed out"))
			case "conflict":
				r.Event("api update %s -> 409 (not applied)", job.Name)
				return apierrors.NewConflict(arbJobGR, job.Name, fmt.Errorf("injected: the object has been modified"))
			case "err-after":
				old := h.getJob(job.Name)
				cp := job.DeepCopy()
				if err := c.Update(ctx, cp, opts...); err != nil {
					return err
				}
				h.pushEvent("update", old, h.getJob(job.Name))
				if cp.Annotations[AnnotationPassedArbitration] == "true" && (old == nil || old.Annotations[AnnotationPassedArbitration] != "true") {
					h.lostAck[job.Name] = true
					r.Probe("passed-update-lost-ack")
				}
				r.Event("api update %s -> applied, answer lost", job.Name)
				return apierrors.NewTimeoutError("injected: request timed out after it was applied", 1)
			}
			old := h.getJob(job.Name)
			if err := c.Update(ctx, obj, opts...); err != nil {
				r.Probe("job-update-natural-error")
				r.Event("api update %s -> %v", job.Name, apierrors.ReasonForError(err))
				return err
			}
			h.pushEvent("update", old, h.getJob(job.Name))
			r.Event("api update %s -> ok", job.Name)
			return nil
		},
		SubResourceUpdate: func(ctx context.Context, c client.Client, sub string, obj client.Object, opts ...client.SubResourceUpdateOption) error {
			r.Yield("api-update-status")
			job, ok := obj.(*sev1alpha1.PodMigrationJob)
			if !ok {
				return c.SubResource(sub).Update(ctx, obj, opts...)
			}
			switch r.Fault("job-update-status", "err-before", "err-after") {
			case "err-before":
				h.statusFlt[job.Name] = true
				r.Event("api update-status %s -> 500 (not applied)", job.Name)
				return apierrors.NewInternalError(fmt.Errorf("injected: etcd request timed out"))
			case "err-after":
				h.statusFlt[job.Name] = true
				old := h.getJob(job.Name)
				if err := c.SubResource(sub).Update(ctx, job.DeepCopy(), opts...); err != nil {
					return err
				}
				h.pushEvent("update", old, h.getJob(job.Name))
				r.Event("api update-status %s -> applied, answer lost", job.Name)
				return apierrors.NewTimeoutError("injected: request timed out after it was applied", 1)
			}
			old := h.getJob(job.Name)
			if err := c.SubResource(sub).Update(ctx, obj, opts...); err != nil {
				h.statusFlt[job.Name] = true
				r.Probe("job-update-status-natural-error")
				r.Event("api update-status %s -> %v", job.Name, apierrors.ReasonForError(err))
				return err
			}
			h.pushEvent("update", old, h.getJob(job.Name))
			r.Event("api update-status %s -> ok phase=%s", job.Name, job.Status.Phase)
			return nil
		},
	}
}

func (h *arbSim) build() {
	cfg := &h.cfg
	b := fake.NewClientBuilder().WithScheme(arbScheme).WithStatusSubresource(&sev1alpha1.PodMigrationJob{}).
		// the indexes pkg/descheduler/fieldindex registers on the manager's cache
		WithIndex(&corev1.Pod{}, fieldindex.IndexPodByNodeName, func(o client.Object) []string {
			if p := o.(*corev1.Pod); p.Spec.NodeName != "" {
				return []string{p.Spec.NodeName}
			}
			return nil
		}).
		WithIndex(&corev1.Pod{}, fieldindex.IndexPodByOwnerRefUID, func(o client.Object) []string {
			var owners []string
			for _, ref := range o.GetOwnerReferences() {
				owners = append(owners, string(ref.UID))
			}
			return owners
		}).
		WithIndex(&sev1alpha1.PodMigrationJob{}, fieldindex.IndexJobByPodUID, func(o client.Object) []string {
			if j := o.(*sev1alpha1.PodMigrationJob); j.Spec.PodRef != nil {
				return []string{string(j.Spec.PodRef.UID)}
			}
			return nil
		}).
		WithIndex(&sev1alpha1.PodMigrationJob{}, fieldindex.IndexJobPodNamespacedName, func(o client.Object) []string {
			if j := o.(*sev1alpha1.PodMigrationJob); j.Spec.PodRef != nil {
				return []string{fmt.Sprintf("%s/%s", j.Spec.PodRef.Namespace, j.Spec.PodRef.Name)}
			}
			return nil
		}).
		WithIndex(&sev1alpha1.PodMigrationJob{}, fieldindex.IndexJobByPodNamespace, func(o client.Object) []string {
			if j := o.(*sev1alpha1.PodMigrationJob); j.Spec.PodRef != nil {
				return []string{j.Spec.PodRef.Namespace}
			}
			return nil
		})
	h.base = b.Build()
	h.cl = interceptor.NewClient(h.base, h.interceptors())

	args := &deschedulerconfig.MigrationControllerArgs{
		DefaultJobMode:            string(sev1alpha1.PodMigrationJobModeEvictionDirectly),
		SkipCheckExpectedReplicas: ptr.To(cfg.SkipReplicas),
		ArbitrationArgs:           &deschedulerconfig.ArbitrationArgs{Enabled: true, Interval: &metav1.Duration{Duration: time.Duration(cfg.IntervalMS) * time.Millisecond}},
	}
	if cfg.MaxGlobal >= 0 {
		args.MaxMigratingGlobally = ptr.To(int32(cfg.MaxGlobal))
	}
	if cfg.MaxNode >= 0 {
		args.MaxMigratingPerNode = ptr.To(int32(cfg.MaxNode))
	}
	if cfg.MaxNS >= 0 {
		args.MaxMigratingPerNamespace = ptr.To(int32(cfg.MaxNS))
	}
	ios := func(v int) *intstr.IntOrString {
		x := intstr.FromInt32(int32(v))
		if cfg.WlPercent {
			x = intstr.FromString(fmt.Sprintf("%d%%", v))
		}
		return &x
	}
	args.MaxMigratingPerWorkload, args.MaxUnavailablePerWorkload = ios(cfg.MaxMigWl), ios(cfg.MaxUnavailWl)

	// filter as newFilter/initFilters build it, minus the evictability constraints of the default evictor
	// (priority, local storage, PVC, node fit, ...: pass-through here, they are not the subject of C16)
	f := &filter{client: h.cl, args: args, controllerFinder: &arbFinder{h: h}, arbitratedPodMigrationJobs: map[types.UID]bool{}}
	retryable := podutil.WrapFilterFuncs(f.filterMaxMigratingGlobally, f.filterMaxMigratingPerNode, f.filterMaxMigratingPerNamespace, f.filterMaxMigratingOrUnavailablePerWorkload)
	f.retryablePodFilter = func(pod *corev1.Pod) bool { return evictionsutil.HaveEvictAnnotation(pod) || retryable(pod) }
	nonRetryable := podutil.WrapFilterFuncs(util.FilterPodWithMaxEvictionCost, f.filterExpectedReplicas)
	f.nonRetryablePodFilter = func(pod *corev1.Pod) bool { return evictionsutil.HaveEvictAnnotation(pod) || nonRetryable(pod) }
	h.f = f
	// arbitratorImpl as New builds it, minus Manager.Add
	h.a = &arbitratorImpl{
		waitingCollection: map[types.UID]*sev1alpha1.PodMigrationJob{},
		interval:          args.ArbitrationArgs.Interval.Duration,
		sorts: []SortFn{
			SortJobsByCreationTime(),
			SortJobsByPod(sorter.PodSorter().Sort),
			SortJobsByController(),
			SortJobsByMigratingNum(h.cl),
		},
		filter:        f,
		client:        h.cl,
		eventRecorder: &events.FakeRecorder{},
	}
	h.handler = NewHandler(h.a, h.cl)
	h.queue = &arbQueue{}

	h.pods = make([]arbPodState, len(cfg.Pods))
	for w := range cfg.Workloads {
		h.replicas = append(h.replicas, cfg.Workloads[w].Replicas)
	}
	for i, pc := range cfg.Pods {
		h.createPod(i, pc.Node, pc.Ready)
	}
}

func (h *arbSim) createPod(i int, node int, ready bool) {
	p := h.newPodObj(i, node, ready)
	if err := h.base.Create(context.TODO(), p); err != nil {
		h.r.HarnessFail("create pod: %v", err)
	}
	h.podM[p.Namespace+"/"+p.Name] = p
}

// ---------------------------------------------------------------- model (computed from the store only)

type arbSnap struct {
	cnt       map[string]int    // distinct existing pods with a live job: "global", "node/<n>", "ns/<ns>", "wl/<w>"
	unav      map[string]int    // per workload: |unavailable pods ∪ pods with a live job|
	phase     map[string]string // job name -> phase ("" = Pending)
	passed    map[string]bool   // job name -> passed-arbitration annotation present
	jobPod    map[string]string // job name -> "ns/name" of its pod
	podExists map[string]bool
	podJobs   map[string][]string // "ns/name" -> non-terminal jobs (sorted)
}

func arbTerminal(ph string) bool { return ph == "Succeeded" || ph == "Failed" || ph == "Aborted" }

func (h *arbSim) snapshot() *arbSnap {
	s := &arbSnap{cnt: map[string]int{}, unav: map[string]int{}, phase: map[string]string{}, passed: map[string]bool{}, jobPod: map[string]string{}, podExists: map[string]bool{}, podJobs: map[string][]string{}}
	pods := h.podM
	for k := range pods {
		s.podExists[k] = true
	}
	jobs := h.sortedJobs()
	migrating := map[string]bool{} // pods (ns/name) that exist and have a live job
	for _, j := range jobs {
		ph := string(j.Status.Phase)
		if ph == "Pending" {
			ph = ""
		}
		s.phase[j.Name] = ph
		s.passed[j.Name] = j.Annotations[AnnotationPassedArbitration] == "true"
		if j.Spec.PodRef == nil {
			continue
		}
		key := j.Spec.PodRef.Namespace + "/" + j.Spec.PodRef.Name
		s.jobPod[j.Name] = key
		if !arbTerminal(ph) {
			s.podJobs[key] = append(s.podJobs[key], j.Name)
		}
		live := ph == "Running" || (ph == "" && s.passed[j.Name])
		if live && pods[key] != nil {
			migrating[key] = true
		}
	}
	keys := make([]string, 0, len(migrating))
	for k := range migrating {
		keys = append(keys, k)
	}
	sort.Strings(keys)
	for _, k := range keys {
		p := pods[k]
		s.cnt["global"]++
		s.cnt["ns/"+p.Namespace]++
		if p.Spec.NodeName != "" {
			s.cnt["node/"+p.Spec.NodeName]++
		}
		if ref := metav1.GetControllerOf(p); ref != nil {
			s.cnt["wl/"+strings.TrimPrefix(string(ref.UID), "uid-")]++
		}
	}
	for k, p := range pods {
		ref := metav1.GetControllerOf(p)
		if ref == nil {
			continue
		}
		if !arbAvailable(p) || migrating[k] {
			s.unav["wl/"+strings.TrimPrefix(string(ref.UID), "uid-")]++
		}
	}
	return s
}

// wlLimit: the configured per-workload value for the workload's current replicas (generated so that percentages are exact).
func (h *arbSim) wlLimit(w int, v int) int {
	if h.cfg.WlPercent {
		return h.replicas[w] * v / 100
	}
	return v
}

// limitOf returns the configured maximum for a counting key (ok=false: no limit configured; <=0 disables a limit).
func (h *arbSim) limitOf(key string) (int, bool) {
	v := -1
	switch {
	case key == "global":
		v = h.cfg.MaxGlobal
	case strings.HasPrefix(key, "node/"):
		v = h.cfg.MaxNode
	case strings.HasPrefix(key, "ns/"):
		v = h.cfg.MaxNS
	case strings.HasPrefix(key, "wl/w"):
		w, _ := strconv.Atoi(key[4:])
		if w < 0 || w >= len(h.replicas) {
			return 0, false
		}
		v = h.wlLimit(w, h.cfg.MaxMigWl)
	}
	return v, v > 0
}

func arbKind(key string) string {
	switch {
	case strings.HasPrefix(key, "node/"):
		return "node"
	case strings.HasPrefix(key, "ns/"):
		return "namespace"
	case strings.HasPrefix(key, "wl/"):
		return "workload"
	}
	return "global"
}

func arbSortedKeys(ms ...map[string]int) []string {
	seen := map[string]bool{}
	var ks []string
	for _, m := range ms {
		for k := range m {
			if !seen[k] {
				seen[k] = true
				ks = append(ks, k)
			}
		}
	}
	sort.Strings(ks)
	return ks
}

// lostAckWindow: is there a job that counts in the store (pending and passed, or meanwhile running) whose
// passed-arbitration update was applied with a lost answer, that the arbitrator does not remember as passed, and that
// the informer cache still shows as it was before that update (pending, no annotation)?
func (h *arbSim) lostAckWindow() bool {
	for _, j := range h.sortedJobs() {
		if !h.lostAck[j.Name] || h.f.arbitratedPodMigrationJobs[j.UID] {
			continue
		}
		if !arbPendingPassed(j) && j.Status.Phase != sev1alpha1.PodMigrationJobRunning {
			continue
		}
		cj := h.cache[j.Name]
		if cj == nil || ((cj.Status.Phase == "" || cj.Status.Phase == sev1alpha1.PodMigrationJobPending) && cj.Annotations[AnnotationPassedArbitration] != "true") {
			return true
		}
	}
	return false
}

// failLimit reports a violation of a limit oracle; histories of the recorded lost-ack defect are tagged.
func (h *arbSim) failLimit(oracle, detail, format string, args ...any) {
	if h.lostAckOpen {
		h.r.Tag(arbTagLostAck)
	}
	h.r.Fail(oracle, detail, format, args...)
}

// checkRound evaluates the oracles of the statement over the store before and after one arbitration round.
func (h *arbSim) checkRound(before, after *arbSnap, waitingBefore map[string]bool) {
	r := h.r
	r.OracleEval()
	// (1) running-or-passed per node / namespace / workload / globally <= configured max, unless exceeded before the round
	for _, k := range arbSortedKeys(before.cnt, after.cnt) {
		max, ok := h.limitOf(k)
		if !ok {
			continue
		}
		b, a := before.cnt[k], after.cnt[k]
		if a >= max {
			r.Probe("limit-reached-" + arbKind(k))
		}
		if b > max {
			r.Probe("limit-exceeded-before-round")
			if a > b {
				r.Probe("admitted-into-already-exceeded-dimension") // exempt by the statement; counted only
			}
			continue
		}
		if a > max {
			h.failLimit("limit-exceeded", arbKind(k), "round %d: %d pods with a running-or-passed migration job for %s after the round (before: %d), configured maximum %d; newly passed: %v",
				h.round, a, k, b, max, arbNewlyPassed(before, after))
		}
	}
	// (2) per workload: unavailable ∪ migrating <= allowed unavailability, unless exceeded before the round
	for _, k := range arbSortedKeys(before.unav, after.unav) {
		w, _ := strconv.Atoi(strings.TrimPrefix(k, "wl/w"))
		if w < 0 || w >= len(h.replicas) {
			continue
		}
		max := h.wlLimit(w, h.cfg.MaxUnavailWl)
		b, a := before.unav[k], after.unav[k]
		if b > max {
			r.Probe("unavailable-exceeded-before-round")
			continue
		}
		if a >= max {
			r.Probe("unavailable-limit-reached")
		}
		if a > max {
			h.failLimit("unavailable-exceeded", "workload", "round %d: workload %s has %d unavailable-or-migrating pods after the round (before: %d), allowed %d (replicas %d); newly passed: %v",
				h.round, k, a, b, max, h.replicas[w], arbNewlyPassed(before, after))
		}
	}
	// (3) a job refused only for head-room is still waiting, not failed; only forbidden pods make a job fail
	var names []string
	for n := range after.phase {
		names = append(names, n)
	}
	sort.Strings(names)
	waitingNow := map[string]bool{}
	for _, j := range h.a.waitingCollection {
		waitingNow[j.Name] = true
	}
	for _, n := range names {
		ph := after.phase[n]
		if ph == "Failed" && before.phase[n] != "Failed" {
			// failed by the arbitrator in this round (the environment is frozen during a round)
			r.Probe("job-failed-by-arbitration")
			if ok, why := h.forbidden(after.jobPod[n]); !ok {
				r.Fail("failed-without-cause", "retryable-refusal", "round %d: job %s was set to Failed by arbitration although its pod %s is not forbidden to migrate (%s); a job that merely lacks head-room must stay waiting",
					h.round, n, after.jobPod[n], why)
			}
		}
		if after.passed[n] && !before.passed[n] {
			r.Probe("job-passed")
			if !waitingBefore[n] && !h.delivered[n] {
				r.Fail("passed-unknown-job", "", "round %d: job %s passed arbitration although its creation was never delivered to the arbitrator", h.round, n)
			}
		}
		if ph == "" && !after.passed[n] && h.delivered[n] && !h.statusFlt[n] && !waitingNow[n] {
			r.Fail("waiting-job-dropped", "", "round %d: job %s is pending, has not passed arbitration and was delivered to the arbitrator, but it is no longer in the waiting collection", h.round, n)
		}
		if ph == "" && !after.passed[n] && waitingNow[n] {
			r.Probe("job-still-waiting")
		}
	}
	var sb strings.Builder
	for _, k := range arbSortedKeys(after.cnt) {
		fmt.Fprintf(&sb, "%s=%d ", k, after.cnt[k])
	}
	for _, k := range arbSortedKeys(after.unav) {
		fmt.Fprintf(&sb, "unav:%s=%d ", k, after.unav[k])
	}
	var js []string
	for _, n := range names {
		js = append(js, fmt.Sprintf("%s:%s/%v/%v", n, after.phase[n], after.passed[n], waitingNow[n]))
	}
	r.Event("round %d end: %s| %s", h.round, sb.String(), strings.Join(js, " "))
	r.Sample("round %d: newly passed %v; counts %s", h.round, arbNewlyPassed(before, after), sb.String())
}

func arbNewlyPassed(before, after *arbSnap) []string {
	var out []string
	for n, p := range after.passed {
		if p && !before.passed[n] {
			out = append(out, n)
		}
	}
	sort.Strings(out)
	return out
}

// forbidden: may arbitration FAIL (rather than keep waiting) a job for this pod? Only for the documented non-retryable
// reasons: eviction cost MaxInt32, or (unless SkipCheckExpectedReplicas) a workload whose replicas are 1 or do not exceed
// one of the two per-workload limits.
func (h *arbSim) forbidden(podKey string) (bool, string) {
	parts := strings.SplitN(podKey, "/", 2)
	if len(parts) != 2 {
		return false, "job without pod reference"
	}
	p := h.podM[podKey]
	if p == nil {
		return false, "the pod does not exist"
	}
	if p.Annotations[extension.AnnotationEvictionCost] == strconv.Itoa(math.MaxInt32) {
		return true, "max eviction cost"
	}
	ref := metav1.GetControllerOf(p)
	if ref == nil {
		return false, "bare pod without max eviction cost"
	}
	if h.cfg.SkipReplicas {
		return false, "SkipCheckExpectedReplicas is set and the pod has no max eviction cost"
	}
	w, _ := strconv.Atoi(strings.TrimPrefix(string(ref.UID), "uid-w"))
	if w < 0 || w >= len(h.replicas) {
		return false, "unknown workload"
	}
	rep := h.replicas[w]
	if rep == 1 || h.wlLimit(w, h.cfg.MaxMigWl) >= rep || h.wlLimit(w, h.cfg.MaxUnavailWl) >= rep {
		return true, "expected replicas"
	}
	return false, fmt.Sprintf("replicas %d exceed both per-workload limits", rep)
}

// ---------------------------------------------------------------- operations

func (h *arbSim) newJobObj(op arbOp, pod int) *sev1alpha1.PodMigrationJob {
	ref := &corev1.ObjectReference{Namespace: h.podNS(pod), Name: h.podName(pod), UID: h.podUID(pod)}
	if op.NoUID {
		ref.UID = ""
	}
	return &sev1alpha1.PodMigrationJob{
		ObjectMeta: metav1.ObjectMeta{Name: arbJob(op.J), UID: types.UID("uid-" + arbJob(op.J)), CreationTimestamp: metav1.NewTime(time.Now())},
		Spec:       sev1alpha1.PodMigrationJobSpec{PodRef: ref, Mode: sev1alpha1.PodMigrationJobModeEvictionDirectly},
	}
}

func (h *arbSim) podOK(p int) bool { return p >= 0 && p < len(h.cfg.Pods) }

func (h *arbSim) getPod(i int) *corev1.Pod {
	if p := h.podM[h.podNS(i)+"/"+h.podName(i)]; p != nil {
		return p.DeepCopy()
	}
	return nil
}

// liveJobsOf: non-terminal jobs in the store that refer to the pod by UID or by namespace/name.
func (h *arbSim) liveJobsOf(pod *corev1.Pod) []string {
	var out []string
	for _, j := range h.jobM {
		if arbTerminal(string(j.Status.Phase)) || j.Spec.PodRef == nil {
			continue
		}
		ref := j.Spec.PodRef
		if (ref.UID != "" && ref.UID == pod.UID) || (ref.Namespace == pod.Namespace && ref.Name == pod.Name) {
			out = append(out, j.Name)
		}
	}
	sort.Strings(out)
	return out
}

// visibleLiveJobsOf: the live jobs of the pod (store) whose existence the informer cache already shows as non-terminal.
func (h *arbSim) visibleLiveJobsOf(pod *corev1.Pod) []string {
	var out []string
	for _, n := range h.liveJobsOf(pod) {
		if cj := h.cache[n]; cj != nil && !arbTerminal(string(cj.Status.Phase)) {
			out = append(out, n)
		}
	}
	return out
}

func arbIntersects(a, b []string) bool {
	for _, x := range a {
		for _, y := range b {
			if x == y {
				return true
			}
		}
	}
	return false
}

// createOp runs on the creator actor, concurrently with the round.
func (h *arbSim) createOp(op arbOp) {
	r := h.r
	if !h.podOK(op.P) || h.getJob(arbJob(op.J)) != nil || h.createdBy[arbJob(op.J)] != "" {
		r.OpSkipped()
		return
	}
	pod := h.getPod(op.P)
	if pod == nil || pod.DeletionTimestamp != nil {
		// nobody asks to migrate a pod that is already on its way out
		r.OpSkipped()
		return
	}
	if op.By == "desched" {
		// the descheduler asks the arbitrator's Filter before it creates a job for a pod (MigrationController.Filter).
		// It can only know the jobs its informer has been told about: a live job counts against the verdict if it is
		// live in the store and its creation has reached the cache, both when Filter was called and when it returned.
		liveBefore := h.visibleLiveJobsOf(pod)
		ok := h.a.Filter(pod.DeepCopy())
		liveAfter := h.visibleLiveJobsOf(pod)
		r.OracleEval()
		r.Event("filter pod %s -> %v (live jobs %v, visible %v)", pod.Name, ok, h.liveJobsOf(pod), liveAfter)
		if ok && arbIntersects(liveBefore, liveAfter) {
			r.Fail("second-live-job", "filter-admits", "Filter admitted pod %s/%s for a new migration job although it already has live job(s) %v that the informer cache shows", pod.Namespace, pod.Name, liveAfter)
		}
		if ok && len(h.liveJobsOf(pod)) > 0 {
			r.Probe("filter-admits-pod-whose-live-job-the-cache-does-not-show-yet")
		}
		if !ok {
			if len(liveAfter) > 0 {
				r.Probe("filter-refused-existing-job")
			} else {
				r.Probe("filter-refused-limits")
			}
			r.OpDone()
			return
		}
	} else if len(h.liveJobsOf(pod)) > 0 {
		if !op.Dup {
			r.OpSkipped()
			return
		}
		r.Probe("user-duplicate-job-for-pod")
	}
	job := h.newJobObj(op, op.P)
	if err := h.cl.Create(context.TODO(), job); err != nil {
		r.HarnessFail("create job: %v", err)
	}
	h.createdBy[job.Name] = op.By
	h.pushEvent("add", nil, h.getJob(job.Name))
	r.Event("create %s by %s for pod %s nouid=%v", job.Name, op.By, pod.Name, op.NoUID)
	r.Sample("create %s by %s for pod %s/%s on %s", job.Name, op.By, pod.Namespace, pod.Name, pod.Spec.NodeName)
	r.OpDone()
}

func (h *arbSim) dupAddOp(op arbOp) {
	j := h.getJob(arbJob(op.J))
	// only what an informer can plausibly repeat: the add of a job that is still waiting
	if j == nil || !h.delivered[j.Name] || j.Status.Phase != "" && j.Status.Phase != sev1alpha1.PodMigrationJobPending || j.Annotations[AnnotationPassedArbitration] == "true" {
		h.r.OpSkipped()
		return
	}
	h.pushEvent("add", nil, j)
	h.r.Probe("duplicate-add")
	h.r.OpDone()
}

func (h *arbSim) setPhase(j *sev1alpha1.PodMigrationJob, ph sev1alpha1.PodMigrationJobPhase) {
	old := j.DeepCopy()
	j.Status.Phase = ph
	if err := h.base.Status().Update(context.TODO(), j); err != nil {
		h.r.HarnessFail("status update: %v", err)
	}
	h.pushEvent("update", old, h.getJob(j.Name))
}

func (h *arbSim) pickJob(pred func(j *sev1alpha1.PodMigrationJob) bool) *sev1alpha1.PodMigrationJob {
	var c []*sev1alpha1.PodMigrationJob
	for _, j := range h.sortedJobs() {
		if pred(j) {
			c = append(c, j)
		}
	}
	if len(c) == 0 {
		return nil
	}
	return c[h.r.Choose(len(c))].DeepCopy()
}

func arbPendingPassed(j *sev1alpha1.PodMigrationJob) bool {
	return (j.Status.Phase == "" || j.Status.Phase == sev1alpha1.PodMigrationJobPending) && j.Annotations[AnnotationPassedArbitration] == "true"
}

// removePod takes a pod out of the store for good (a terminating pod is held by its finalizer).
func (h *arbSim) removePod(p *corev1.Pod) {
	ctx := context.TODO()
	key := p.Namespace + "/" + p.Name
	cur := &corev1.Pod{}
	if err := h.base.Get(ctx, types.NamespacedName{Namespace: p.Namespace, Name: p.Name}, cur); err == nil {
		if len(cur.Finalizers) > 0 {
			cur.Finalizers = nil
			if err := h.base.Update(ctx, cur); err != nil {
				h.r.HarnessFail("strip finalizer of pod %s: %v", key, err)
			}
		}
		if err := h.base.Delete(ctx, cur); err != nil && !apierrors.IsNotFound(err) {
			h.r.HarnessFail("delete pod %s: %v", key, err)
		}
	}
	delete(h.podM, key)
	for i, k := range h.terminating {
		if k == key {
			h.terminating = append(h.terminating[:i:i], h.terminating[i+1:]...)
			break
		}
	}
}

// terminatePod starts the graceful termination of a pod: the API server sets its deletionTimestamp, the pod stays Running
// and Ready until the kubelet has stopped its containers.
func (h *arbSim) terminatePod(p *corev1.Pod) bool {
	ctx := context.TODO()
	cur := &corev1.Pod{}
	if err := h.base.Get(ctx, types.NamespacedName{Namespace: p.Namespace, Name: p.Name}, cur); err != nil || cur.DeletionTimestamp != nil {
		return false
	}
	cur.Finalizers = []string{arbGraceFinalizer}
	if err := h.base.Update(ctx, cur); err != nil {
		h.r.HarnessFail("add finalizer to pod %s: %v", p.Name, err)
	}
	if err := h.base.Delete(ctx, cur); err != nil {
		h.r.HarnessFail("graceful delete of pod %s: %v", p.Name, err)
	}
	np := h.syncPod(p.Namespace, p.Name)
	if np == nil || np.DeletionTimestamp == nil {
		h.r.HarnessFail("pod %s is not terminating after its graceful deletion", p.Name)
	}
	h.terminating = append(h.terminating, p.Namespace+"/"+p.Name)
	if np.Status.Phase == corev1.PodRunning && podutilIsReadyCond(np) {
		h.r.Probe("pod-terminating-while-running-and-ready")
	}
	return true
}

// podutilIsReadyCond: the pod's Ready condition is true (regardless of deletion).
func podutilIsReadyCond(p *corev1.Pod) bool {
	for _, c := range p.Status.Conditions {
		if c.Type == corev1.PodReady {
			return c.Status == corev1.ConditionTrue
		}
	}
	return false
}

// retirePod ends the life of pod slot i's current pod the way an eviction or a deletion does. mode 0: the pod is gone at
// once and its replacement exists; 1: the pod is terminating and its replacement is already ready; 2: terminating,
// replacement not ready yet; 3: terminating, no replacement yet (it appears when the pod is gone).
func (h *arbSim) retirePod(i int, mode int, node int, readyAtOnce bool) {
	old := h.getPod(i)
	if old == nil {
		return
	}
	if old.DeletionTimestamp != nil {
		mode = 0 // already terminating: now it disappears
	}
	switch mode {
	case 0:
		h.replacePod(i, node, readyAtOnce)
	case 1, 2:
		if h.terminatePod(old) {
			h.pods[i].gen++
			h.createPod(i, node, mode == 1)
		}
	default:
		h.terminatePod(old)
	}
}

func (h *arbSim) replacePod(i int, node int, ready bool) {
	if old := h.getPod(i); old != nil {
		h.removePod(old)
	}
	h.pods[i].gen++
	h.createPod(i, node, ready)
}

// slotOf: the pod slot whose current pod is ns/name (-1: none, e.g. a terminating pod that was already replaced).
func (h *arbSim) slotOf(ns, name string) int {
	for i := range h.cfg.Pods {
		if h.podName(i) == name && h.podNS(i) == ns {
			return i
		}
	}
	return -1
}

// envOp runs on the driver between two rounds (nothing of the arbitrator is running).
func (h *arbSim) envOp(op arbOp) {
	r := h.r
	switch op.K {
	case "seed":
		if !h.podOK(op.P) || h.getJob(arbJob(op.J)) != nil || h.round > 0 {
			r.OpSkipped()
			return
		}
		pod := h.getPod(op.P)
		if pod == nil || len(h.liveJobsOf(pod)) > 0 {
			r.OpSkipped()
			return
		}
		job := h.newJobObj(op, op.P)
		job.CreationTimestamp = metav1.NewTime(time.Now().Add(-time.Minute))
		job.Annotations = map[string]string{AnnotationPassedArbitration: "true"}
		if err := h.base.Create(context.TODO(), job); err != nil {
			r.HarnessFail("seed job: %v", err)
		}
		if op.Phase == "Running" {
			job.Status.Phase = sev1alpha1.PodMigrationJobRunning
			if err := h.base.Status().Update(context.TODO(), job); err != nil {
				r.HarnessFail("seed job status: %v", err)
			}
		}
		// the informer's initial list has it, and it passed an earlier round of this arbitrator
		h.cache[job.Name] = h.getJob(job.Name)
		h.f.markJobPassedArbitration(job.UID)
		h.delivered[job.Name] = true
		h.createdBy[job.Name] = "seed"
		r.Event("seed %s %s pod %s", job.Name, op.Phase, pod.Name)
	case "start":
		// migration controller: a passed job starts running
		j := h.pickJob(arbPendingPassed)
		if j == nil {
			r.OpSkipped()
			return
		}
		h.setPhase(j, sev1alpha1.PodMigrationJobRunning)
		r.Event("env start %s", j.Name)
	case "finish":
		ph := sev1alpha1.PodMigrationJobPhase(op.Phase)
		if ph != sev1alpha1.PodMigrationJobSucceeded && ph != sev1alpha1.PodMigrationJobFailed && ph != sev1alpha1.PodMigrationJobAborted {
			r.OpSkipped()
			return
		}
		// a running job ends; a passed job may also be picked up, run and end within one arbitration interval
		j := h.pickJob(func(j *sev1alpha1.PodMigrationJob) bool {
			return j.Status.Phase == sev1alpha1.PodMigrationJobRunning || arbPendingPassed(j)
		})
		if j == nil {
			r.OpSkipped()
			return
		}
		if ph == sev1alpha1.PodMigrationJobSucceeded && j.Status.Phase != sev1alpha1.PodMigrationJobRunning {
			h.setPhase(j, sev1alpha1.PodMigrationJobRunning)
			j = h.getJob(j.Name)
		}
		h.setPhase(j, ph)
		if ph == sev1alpha1.PodMigrationJobSucceeded && j.Spec.PodRef != nil {
			// the pod was evicted: it is gone, or still in its graceful termination (running and ready until its containers
			// have stopped); its replacement is a new pod somewhere else, possibly not ready or not even created yet
			if i := h.slotOf(j.Spec.PodRef.Namespace, j.Spec.PodRef.Name); i >= 0 {
				mode := 0
				if r.Flip(0.6) {
					mode = 1 + r.Choose(3)
				}
				h.retirePod(i, mode, r.Choose(h.cfg.Nodes), r.Flip(0.7))
			}
		}
		r.Event("env finish %s %s", j.Name, ph)
	case "delete_job":
		j := h.pickJob(func(*sev1alpha1.PodMigrationJob) bool { return true })
		if j == nil {
			r.OpSkipped()
			return
		}
		if err := h.base.Delete(context.TODO(), j); err != nil {
			r.HarnessFail("delete job: %v", err)
		}
		delete(h.jobM, j.Name)
		h.pushEvent("delete", nil, j)
		r.Event("env delete %s", j.Name)
	case "pod_ready":
		p := (*corev1.Pod)(nil)
		if h.podOK(op.P) {
			p = h.getPod(op.P)
		}
		if p == nil {
			r.OpSkipped()
			return
		}
		arbSetReady(p, op.V != 0)
		if err := h.base.Status().Update(context.TODO(), p); err != nil {
			r.HarnessFail("pod status: %v", err)
		}
		h.syncPod(p.Namespace, p.Name)
		r.Event("env pod %s ready=%v", p.Name, op.V != 0)
	case "pod_delete":
		p := (*corev1.Pod)(nil)
		if h.podOK(op.P) {
			p = h.getPod(op.P)
		}
		if p == nil {
			r.OpSkipped()
			return
		}
		h.removePod(p)
		if len(h.liveJobsOf(p)) > 0 {
			r.Probe("pod-of-live-or-waiting-job-deleted")
		}
		r.Event("env pod %s deleted", p.Name)
	case "pod_replace":
		if !h.podOK(op.P) || op.V < 0 || op.V >= h.cfg.Nodes {
			r.OpSkipped()
			return
		}
		h.replacePod(op.P, op.V, true)
		r.Event("env pod %d replaced by %s on n%d", op.P, h.podName(op.P), op.V)
	case "pod_terminate":
		p := (*corev1.Pod)(nil)
		if h.podOK(op.P) {
			p = h.getPod(op.P)
		}
		if p == nil || p.DeletionTimestamp != nil {
			r.OpSkipped()
			return
		}
		h.retirePod(op.P, 1+r.Choose(3), r.Choose(h.cfg.Nodes), true)
		if len(h.liveJobsOf(p)) > 0 {
			r.Probe("pod-of-live-or-waiting-job-terminating")
		}
		r.Event("env pod %s terminating", p.Name)
	case "pod_gone":
		if len(h.terminating) == 0 {
			r.OpSkipped()
			return
		}
		key := h.terminating[r.Choose(len(h.terminating))]
		p := h.podM[key]
		if p == nil {
			r.HarnessFail("terminating pod %s is not in the store", key)
		}
		if i := h.slotOf(p.Namespace, p.Name); i >= 0 {
			h.replacePod(i, r.Choose(h.cfg.Nodes), r.Flip(0.7)) // its replacement appears only now
		} else {
			h.removePod(p)
		}
		r.Event("env pod %s gone", key)
	case "resync":
		if len(h.cache) == 0 {
			r.OpSkipped()
			return
		}
		h.resync()
	case "sync":
		if len(h.events) == 0 {
			r.OpSkipped()
			return
		}
		for len(h.events) > 0 {
			ev := h.events[0]
			h.events = h.events[1:]
			h.deliver(ev)
		}
		r.Probe("informer-caught-up-between-rounds")
	case "scale":
		if op.W < 0 || op.W >= len(h.replicas) || op.V < 1 || (h.cfg.WlPercent && op.V%4 != 0) {
			r.OpSkipped()
			return
		}
		h.replicas[op.W] = op.V
		r.Event("env scale w%d to %d", op.W, op.V)
	default:
		r.OpSkipped()
		return
	}
	r.OpDone()
}

// deliver hands one informer event to the real event handler, after the informer cache has taken it in (a shared informer
// updates its indexer before it notifies the handlers; the old object of an update is what the cache held).
func (h *arbSim) deliver(ev arbEvent) {
	ctx := context.TODO()
	name := ev.obj.Name
	prev := h.cache[name]
	switch ev.kind {
	case "add":
		h.cache[name] = ev.obj.DeepCopy()
		h.delivered[name] = true
		h.handler.Create(ctx, event.TypedCreateEvent[client.Object]{Object: ev.obj.DeepCopy()}, h.queue)
	case "update":
		if prev == nil {
			h.r.HarnessFail("update event for job %s that the informer cache does not hold", name)
		}
		h.cache[name] = ev.obj.DeepCopy()
		h.handler.Update(ctx, event.TypedUpdateEvent[client.Object]{ObjectOld: prev.DeepCopy(), ObjectNew: ev.obj.DeepCopy()}, h.queue)
	case "delete":
		delete(h.cache, name)
		last := ev.obj
		if prev != nil {
			last = prev // the handler is given the last state the cache knew
		}
		h.handler.Delete(ctx, event.TypedDeleteEvent[client.Object]{Object: last.DeepCopy()}, h.queue)
	}
	h.r.Event("deliver %s %s rv=%s", ev.kind, name, ev.obj.ResourceVersion)
}

// ---------------------------------------------------------------- execution

func (arbiterEngine) Execute(r *sim.Run) {
	h := &arbSim{r: r, podM: map[string]*corev1.Pod{}, jobM: map[string]*sev1alpha1.PodMigrationJob{}, cache: map[string]*sev1alpha1.PodMigrationJob{}, delivered: map[string]bool{}, statusFlt: map[string]bool{}, lostAck: map[string]bool{}, createdBy: map[string]string{}}
	r.Plan.GetCfg(&h.cfg)
	var ops []arbOp
	r.Plan.GetOps(&ops)
	cfg := &h.cfg
	if cfg.Nodes < 1 || cfg.Namespaces < 1 || len(cfg.Pods) == 0 {
		return
	}
	if cfg.IntervalMS <= 0 {
		cfg.IntervalMS = 500
	}
	for i := range cfg.Pods {
		pc := &cfg.Pods[i]
		if pc.W >= len(cfg.Workloads) {
			pc.W = -1
		}
		if pc.Node < 0 || pc.Node >= cfg.Nodes {
			pc.Node = 0
		}
		if pc.NS < 0 || pc.NS >= cfg.Namespaces {
			pc.NS = 0
		}
	}
	for i := range cfg.Workloads {
		if cfg.Workloads[i].NS < 0 || cfg.Workloads[i].NS >= cfg.Namespaces {
			cfg.Workloads[i].NS = 0
		}
	}
	h.build()
	r.Sample("cfg nodes=%d namespaces=%d workloads=%+v pods=%d limits global=%d node=%d ns=%d wl(mig=%d unavail=%d percent=%v) skipReplicas=%v faults=%v@%.2f",
		cfg.Nodes, cfg.Namespaces, cfg.Workloads, len(cfg.Pods), cfg.MaxGlobal, cfg.MaxNode, cfg.MaxNS, cfg.MaxMigWl, cfg.MaxUnavailWl, cfg.WlPercent, cfg.SkipReplicas, r.Plan.Faults, r.Plan.FaultRate)

	// segments: [env ops..., create/dup ops...] round
	type segment struct{ env, conc []arbOp }
	var segs []segment
	var cur segment
	for _, op := range ops {
		switch op.K {
		case "round":
			segs = append(segs, cur)
			cur = segment{}
		case "create", "dup_add":
			cur.conc = append(cur.conc, op)
		case "resync":
			// before the first job of the segment: between the rounds; after it: while the round runs
			if len(cur.conc) > 0 {
				cur.conc = append(cur.conc, op)
			} else {
				cur.env = append(cur.env, op)
			}
		default:
			cur.env = append(cur.env, op)
		}
	}
	for si, seg := range segs {
		h.round = si
		last := si == len(segs)-1
		// environment between rounds (driver; nothing of the arbitrator runs)
		for _, op := range seg.env {
			h.envOp(op)
		}
		before := h.snapshot()
		h.lostAckOpen = false // decided whenever the code under test lists the jobs from its cache (listCachedJobs)
		if h.lostAckWindow() {
			r.Probe("round-starts-with-lost-ack-job-hidden-by-cache-lag")
		}
		for _, k := range h.terminating {
			if p := h.podM[k]; p != nil && p.Status.Phase == corev1.PodRunning && podutilIsReadyCond(p) && metav1.GetControllerOf(p) != nil {
				r.Probe("round-starts-with-terminating-pod-still-running-and-ready")
				break
			}
		}
		if len(h.events) > 0 {
			r.Probe("round-starts-with-undelivered-job-events")
		}
		waitingBefore := map[string]bool{}
		for _, j := range h.a.waitingCollection {
			waitingBefore[j.Name] = true
		}
		h.creatorsOn, h.timerOn = true, true
		h.resyncPending = 0
		conc := seg.conc
		// the arbitration interval elapses, then one round runs while jobs keep arriving
		time.Sleep(time.Duration(cfg.IntervalMS) * time.Millisecond)
		r.Spawn("timer", func() {
			r.Event("round %d begins, waiting=%d", si, len(h.a.waitingCollection))
			h.a.doOnceArbitrate()
			h.timerOn = false
		})
		r.Spawn("creator", func() {
			for _, op := range conc {
				r.Yield("creator")
				if r.Flip(0.15) {
					r.Sleep(time.Duration(1+r.Choose(3)) * time.Second)
				}
				switch op.K {
				case "create":
					h.createOp(op)
				case "resync":
					// the resync timer of the informer fires; the informer actor hands the cached jobs to the handler
					if len(h.cache) == 0 {
						r.OpSkipped()
					} else {
						h.resyncPending++
						r.OpDone()
					}
				default:
					h.dupAddOp(op)
				}
			}
			h.creatorsOn = false
		})
		r.Spawn("informer", func() {
			// the watch may stall for a whole round (everything is delivered during a later round), or from some event on;
			// a resync is local to the informer and happens all the same, out of the stale cache
			stalled := !last && r.Flip(0.15)
			if stalled {
				r.Probe("informer-stalled-for-the-round")
			}
			for {
				r.WaitUntil("informer", func() bool {
					return h.resyncPending > 0 || (!stalled && len(h.events) > 0) || (!h.creatorsOn && !h.timerOn)
				})
				if h.resyncPending > 0 {
					h.resyncPending--
					h.resync()
					continue
				}
				if stalled || len(h.events) == 0 {
					return
				}
				if !last && r.Flip(0.1) {
					// watch lag: the rest is delivered during a later round
					r.Probe("informer-lag")
					stalled = true
					continue
				}
				ev := h.events[0]
				h.events = h.events[1:]
				h.deliver(ev)
			}
		})
		r.Drive()
		after := h.snapshot()
		h.checkRound(before, after, waitingBefore)
	}
	h.crossCheck()
}
