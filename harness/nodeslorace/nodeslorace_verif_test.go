//go:build verif

package nodeslo

// Engine `nodeslorace` (C20, lock level): the goroutines that share the slo-controller's configuration cache in a running
// koord-manager - the ConfigMap informer's handler goroutine (SLOCfgHandlerForConfigMapEvent.Create / Update ->
// syncNodeSLOSpecIfChanged -> triggerAllNodeEnqueue) and one or two reconcile workers (NodeSLOReconciler.Reconcile ->
// IsCfgAvailable incl. its lazy read of the ConfigMap -> getNodeSLOSpec -> create / update of the NodeSLO) - run as
// separate actors over a small in-memory API (controller-runtime's fake client; every call the controller makes is a
// scheduling point before and after it reaches the store), next to the actor that writes successive revisions of the
// slo-controller ConfigMap. Every lock acquisition of pkg/slo-controller/nodeslo, every explicit unlock and every write
// to the cache that is not covered by the write lock is a scheduling point decided by the simulator. The work queue has
// client-go's semantics (de-duplication, an item added while it is being processed is queued again when it is done); it
// is filled only by the real handlers (initial node list at a (re)start, the ConfigMap handler's fan-out).
//
// The history is cut into bursts, optionally separated by a restart of the controller (fresh handler, reconciler and
// queue; the configuration cache is unavailable again, the ConfigMap is in the API). When a burst has drained (every
// ConfigMap event handled, the work queue empty, no reconcile in progress) the check is, per section of the configuration:
//
//	the configuration cache, the spec getNodeSLOSpec serves for every node, and the spec of every NodeSLO in the store
//	equal what a fresh handler computes from the ConfigMap revisions the informer has delivered since the (re)start,
//	in order - i.e. from the LATEST revision (earlier ones only matter for a section the latest revision cannot parse).
//
// Layering itself (default < cluster < first matching node entry) is the business of the operation-level engine
// `nodeslo`; here the reference is the real merge code driven sequentially. The generator stays out of the recorded
// history class configmap-deleted (the ConfigMap is never deleted); array-set-at-two-layers cannot show because both
// sides of the comparison run the same merge code (and no array is set at two layers anyway).

import (
	"context"
	"encoding/json"
	"fmt"
	"os"
	"sort"
	"sync"
	"testing"
	"time"

	"github.com/go-logr/logr"
	corev1 "k8s.io/api/core/v1"
	apierrors "k8s.io/apimachinery/pkg/api/errors"
	metav1 "k8s.io/apimachinery/pkg/apis/meta/v1"
	"k8s.io/apimachinery/pkg/runtime"
	"k8s.io/apimachinery/pkg/types"
	"k8s.io/client-go/tools/record"
	"k8s.io/klog/v2"
	"sigs.k8s.io/controller-runtime/pkg/client"
	"sigs.k8s.io/controller-runtime/pkg/client/fake"
	"sigs.k8s.io/controller-runtime/pkg/event"
	"sigs.k8s.io/controller-runtime/pkg/reconcile"

	"github.com/koordinator-sh/koordinator/apis/configuration"
	slov1alpha1 "github.com/koordinator-sh/koordinator/apis/slo/v1alpha1"
	"github.com/koordinator-sh/koordinator/pkg/slo-controller/nodemetric"
	"github.com/koordinator-sh/koordinator/pkg/util/sloconfig"
	sim "github.com/koordinator-sh/koordinator/pkg/verifsim"
)

func TestVerifSim(t *testing.T) {
	// the code under test logs every dropped request and parse failure
	klog.SetLogger(logr.Discard())
	sim.Main(t, &nrEngine{})
}

type nrEngine struct{}

func (nrEngine) Name() string { return "nodeslorace" }

// ---------------------------------------------------------------- plan types

type nrCfg struct {
	Nodes      []map[string]string `json:"nodes"`               // labels of node n<i>
	Workers    int                 `json:"workers"`             // reconcile workers (MaxConcurrentReconciles)
	BootCM     bool                `json:"boot_cm"`             // the ConfigMap exists when the controller first starts
	BootData   map[string]string   `json:"boot_data,omitempty"` // ... with this content
	BootSynced bool                `json:"boot_synced"`         // the handler has seen the initial list before the workers start
}

type nrOp struct {
	K      string            `json:"k"`                // cm | touch | resync | barrier | restart
	Data   map[string]string `json:"data,omitempty"`   // cm: the content of the next revision
	Synced bool              `json:"synced,omitempty"` // restart: see nrCfg.BootSynced
}

var nrSectionKeys = []string{
	configuration.ResourceThresholdConfigKey,
	configuration.ResourceQOSConfigKey,
	configuration.CPUBurstConfigKey,
	configuration.SystemConfigKey,
	configuration.HostApplicationConfigKey,
}

var nrSectionNames = []string{"threshold", "qos", "cpuburst", "system", "hostapp"}

const nrSelA = `"name":"pool-a","nodeSelector":{"matchLabels":{"pool":"a"}}`

// nrSectionText: the text of section si in revision k. Every value carries k, so that any two revisions differ in every
// section both of them set. shape: 1 = cluster strategy only, 2 = cluster strategy + an entry for the nodes of pool a,
// 3 = text that cannot be parsed.
func nrSectionText(si, k, shape int) string {
	if shape == 3 {
		return fmt.Sprintf(`{"clusterStrategy":{"rev":%d`, k)
	}
	switch si {
	case 0:
		if shape == 2 {
			return fmt.Sprintf(`{"clusterStrategy":{"enable":true,"cpuSuppressThresholdPercent":%d},"nodeStrategies":[{%s,"cpuSuppressThresholdPercent":%d}]}`, 40+k, nrSelA, 10+k)
		}
		return fmt.Sprintf(`{"clusterStrategy":{"enable":true,"cpuSuppressThresholdPercent":%d}}`, 40+k)
	case 1:
		if shape == 2 {
			return fmt.Sprintf(`{"clusterStrategy":{"lsClass":{"memoryQOS":{"enable":true,"wmarkRatio":%d}}},"nodeStrategies":[{%s,"lsClass":{"memoryQOS":{"wmarkRatio":%d}}}]}`, 50+k, nrSelA, 10+k)
		}
		return fmt.Sprintf(`{"clusterStrategy":{"lsClass":{"memoryQOS":{"enable":true,"wmarkRatio":%d}}}}`, 50+k)
	case 2:
		if shape == 2 {
			return fmt.Sprintf(`{"clusterStrategy":{"policy":"auto","cpuBurstPercent":%d},"nodeStrategies":[{%s,"cpuBurstPercent":%d}]}`, 1000+k, nrSelA, 500+k)
		}
		return fmt.Sprintf(`{"clusterStrategy":{"policy":"auto","cpuBurstPercent":%d}}`, 1000+k)
	case 3:
		if shape == 2 {
			return fmt.Sprintf(`{"clusterStrategy":{"minFreeKbytesFactor":%d},"nodeStrategies":[{%s,"watermarkScaleFactor":%d}]}`, 100+k, nrSelA, 150+k)
		}
		return fmt.Sprintf(`{"clusterStrategy":{"minFreeKbytesFactor":%d}}`, 100+k)
	default:
		// the application list is set at ONE layer only
		if shape == 2 {
			return fmt.Sprintf(`{"nodeConfigs":[{%s,"applications":[{"name":"agent-%d"}]}]}`, nrSelA, k)
		}
		return fmt.Sprintf(`{"applications":[{"name":"daemon-%d"}]}`, k)
	}
}

func nrGenData(g *sim.Rng, k int, malformed bool) map[string]string {
	d := map[string]string{}
	for si, key := range nrSectionKeys {
		x := g.Intn(100)
		switch {
		case x < 18: // absent
		case malformed && x < 28:
			d[key] = nrSectionText(si, k, 3)
		case x < 62:
			d[key] = nrSectionText(si, k, 1)
		default:
			d[key] = nrSectionText(si, k, 2)
		}
	}
	if len(d) == 0 {
		d[nrSectionKeys[0]] = nrSectionText(0, k, 1)
	}
	return d
}

func (nrEngine) Generate(p *sim.Plan, g *sim.Rng) {
	thorough := p.Tier == "thorough"
	cfg := nrCfg{Workers: 1, BootSynced: g.Intn(2) == 0}
	if g.Intn(100) < 45 {
		cfg.Workers = 2
	}
	nNodes := 2 + g.Intn(2)
	if thorough && g.Intn(3) == 0 {
		nNodes = 4
	}
	for i := 0; i < nNodes; i++ {
		switch g.Intn(3) {
		case 0:
			cfg.Nodes = append(cfg.Nodes, map[string]string{"pool": "a"})
		case 1:
			cfg.Nodes = append(cfg.Nodes, map[string]string{"pool": "b"})
		default:
			cfg.Nodes = append(cfg.Nodes, map[string]string{})
		}
	}
	malformed := g.Intn(4) == 0
	rev := 0
	if g.Intn(100) < 55 {
		rev++
		cfg.BootCM, cfg.BootData = true, nrGenData(g, rev, malformed)
	}
	maxRev, maxOps := 2+g.Intn(5), 5+g.Intn(21)
	if thorough {
		maxRev, maxOps = 2+g.Intn(9), 5+g.Intn(36)
	}
	var ops []nrOp
	for len(ops) < maxOps {
		// one burst: 0-4 writes, most of them new revisions
		n := g.Intn(5)
		if len(ops) == 0 && n == 0 {
			n = 1
		}
		for i := 0; i < n && len(ops) < maxOps; i++ {
			x := g.Intn(100)
			switch {
			case x < 12:
				ops = append(ops, nrOp{K: "resync"})
			case x < 22:
				ops = append(ops, nrOp{K: "touch"})
			default:
				if rev >= maxRev {
					ops = append(ops, nrOp{K: "resync"})
					continue
				}
				rev++
				ops = append(ops, nrOp{K: "cm", Data: nrGenData(g, rev, malformed)})
			}
		}
		if len(ops) >= maxOps {
			break
		}
		if g.Intn(100) < 40 {
			ops = append(ops, nrOp{K: "restart", Synced: g.Intn(2) == 0})
		} else {
			ops = append(ops, nrOp{K: "barrier"})
		}
		if rev >= maxRev && g.Intn(3) == 0 {
			break
		}
	}
	p.SetCfg(cfg)
	p.SetOps(ops)
	p.FaultRate = 0
	if p.SwitchP < 0.05 {
		p.SwitchP = 0.2
	}
}

// ---------------------------------------------------------------- work queue

// nrQueue implements workqueue.TypedRateLimitingInterface[reconcile.Request] with the semantics of client-go's queue:
// an item is queued at most once; an item added while a worker processes it is marked dirty and queued again when that
// worker calls Done. Actors run one at a time, so no lock is needed.
type nrQueue struct {
	items      []reconcile.Request
	dirty      map[reconcile.Request]bool
	processing map[reconcile.Request]bool
	requeues   map[reconcile.Request]int
	redo       int // items queued again by Done
	adds       int // Add calls (labels only)
}

func newNrQueue() *nrQueue {
	return &nrQueue{dirty: map[reconcile.Request]bool{}, processing: map[reconcile.Request]bool{}, requeues: map[reconcile.Request]int{}}
}

func (q *nrQueue) Add(it reconcile.Request) {
	q.adds++
	if q.dirty[it] {
		return
	}
	q.dirty[it] = true
	if q.processing[it] {
		return
	}
	q.items = append(q.items, it)
}
func (q *nrQueue) Len() int { return len(q.items) }
func (q *nrQueue) Get() (reconcile.Request, bool) {
	if len(q.items) == 0 {
		return reconcile.Request{}, true
	}
	it := q.items[0]
	q.items = q.items[1:]
	q.processing[it] = true
	delete(q.dirty, it)
	return it, false
}
func (q *nrQueue) Done(it reconcile.Request) {
	delete(q.processing, it)
	if q.dirty[it] {
		q.items = append(q.items, it)
		q.redo++
	}
}
func (q *nrQueue) ShutDown()                                        {}
func (q *nrQueue) ShutDownWithDrain()                               {}
func (q *nrQueue) ShuttingDown() bool                               { return false }
func (q *nrQueue) AddAfter(it reconcile.Request, _ time.Duration)   { q.Add(it) }
func (q *nrQueue) AddRateLimited(it reconcile.Request)              { q.requeues[it]++; q.Add(it) }
func (q *nrQueue) Forget(it reconcile.Request)                      { delete(q.requeues, it) }
func (q *nrQueue) NumRequeues(it reconcile.Request) int             { return q.requeues[it] }
func (q *nrQueue) idle() bool                                       { return len(q.items) == 0 && len(q.processing) == 0 }

// ---------------------------------------------------------------- the API as the controller sees it

var (
	nrSchemeOnce sync.Once
	nrSchemeVal  *runtime.Scheme
)

func nrScheme() *runtime.Scheme {
	nrSchemeOnce.Do(func() {
		s := runtime.NewScheme()
		_ = corev1.AddToScheme(s)
		_ = slov1alpha1.AddToScheme(s)
		nrSchemeVal = s
	})
	return nrSchemeVal
}

func nrKindOf(obj any) string {
	switch obj.(type) {
	case *corev1.ConfigMap:
		return "configmap"
	case *corev1.Node:
		return "node"
	case *corev1.NodeList:
		return "nodes"
	case *slov1alpha1.NodeSLO:
		return "nodeslo"
	}
	return "other"
}

// nrClient is the client handed to the controller: the store plus a scheduling point before the call reaches the store
// and one before the answer reaches the caller. It never yields inside the fake's own critical sections. The yields are
// the simulator's in-code kind: an actor parked here sits inside the code under test.
type nrClient struct {
	client.Client
	s *nrSim
}

func (c *nrClient) Get(ctx context.Context, key client.ObjectKey, obj client.Object, opts ...client.GetOption) error {
	k := nrKindOf(obj)
	sim.Yield("api-get-" + k)
	err := c.Client.Get(ctx, key, obj, opts...)
	if k == "configmap" {
		c.s.lazyRead(obj.(*corev1.ConfigMap), err)
	}
	sim.Yield("api-got-" + k)
	return err
}

func (c *nrClient) List(ctx context.Context, list client.ObjectList, opts ...client.ListOption) error {
	k := nrKindOf(list)
	sim.Yield("api-list-" + k)
	err := c.Client.List(ctx, list, opts...)
	if nl, ok := list.(*corev1.NodeList); ok {
		// the informer cache lists in no particular order; keep it a function of the plan
		sort.Slice(nl.Items, func(i, j int) bool { return nl.Items[i].Name < nl.Items[j].Name })
	}
	sim.Yield("api-listed-" + k)
	return err
}

func (c *nrClient) Create(ctx context.Context, obj client.Object, opts ...client.CreateOption) error {
	k := nrKindOf(obj)
	sim.Yield("api-create-" + k)
	err := c.Client.Create(ctx, obj, opts...)
	sim.Yield("api-created-" + k)
	return err
}

func (c *nrClient) Update(ctx context.Context, obj client.Object, opts ...client.UpdateOption) error {
	k := nrKindOf(obj)
	sim.Yield("api-update-" + k)
	err := c.Client.Update(ctx, obj, opts...)
	sim.Yield("api-updated-" + k)
	return err
}

func (c *nrClient) Delete(ctx context.Context, obj client.Object, opts ...client.DeleteOption) error {
	k := nrKindOf(obj)
	sim.Yield("api-delete-" + k)
	err := c.Client.Delete(ctx, obj, opts...)
	sim.Yield("api-deleted-" + k)
	return err
}

// ---------------------------------------------------------------- the simulation

type nrEvent struct {
	old, obj *corev1.ConfigMap // old == nil: create event
	label    string
}

type nrSim struct {
	r     *sim.Run
	cfg   nrCfg
	ctx   context.Context
	base  client.WithWatch // API server == informer cache
	cl    client.Client    // what the controller is given
	nodes []*corev1.Node

	h   *SLOCfgHandlerForConfigMapEvent
	rec *NodeSLOReconciler
	q   *nrQueue
	// reference: a fresh handler that is fed, in order and by the driver alone, every revision the informer delivers
	ref    *SLOCfgHandlerForConfigMapEvent
	refRec *NodeSLOReconciler
	refQ   []*corev1.ConfigMap

	cmQ         []nrEvent
	apiDone     bool
	handlerBusy bool
	writes      int // revisions written so far (labels only)
	boot, burst int
	lazyWorkers int // workers inside a Reconcile that started while the cache was unavailable
	handled     int // ConfigMap events handled since the start of the run
	// what IsCfgAvailable's lazy reads have returned since the last (re)start ("" = not found). A second lazy read after
	// one start means that two workers were inside the lazy initialisation at the same time (the second one passed the
	// available check before the first one had set the flag).
	lazyReads []string
	tagged    bool
}

// nrTagLazy is the history class of the finding recorded for two reconcile workers (known_findings.jsonl): after one
// start, two workers are inside IsCfgAvailable's lazy initialisation at the same time and their reads of the ConfigMap
// return different states. The class ends with the next restart (every node is enqueued and reconciled afresh). The
// recorded pattern covers the NodeSLO objects only: the cache itself and the spec served from it are right at every
// quiescent point of such a history too (the event of the newer revision is always handled after both initialisations),
// so cache-not-latest / served-spec-not-latest / nodeslo-missing in a tagged run are still new violations.
const nrTagLazy = "concurrent-lazy-init-reads-differ"

// nrLazyInit: see reconcile(). Development aid: VERIF_NR_STRICT_DISCIPLINE=1 switches the suspension off (to be used with
// --patch findings/C20-concurrent-lazy-init-reads-differ.proposed-fix.diff: the repaired tree is green without it).
const nrLazyInit = "harness:reconcile-started-while-cache-unavailable"

var nrStrictDiscipline = os.Getenv("VERIF_NR_STRICT_DISCIPLINE") != ""

var nrCMKey = types.NamespacedName{Namespace: sloconfig.ConfigNameSpace, Name: sloconfig.SLOCtrlConfigMap}

func nrCopyData(d map[string]string) map[string]string {
	out := make(map[string]string, len(d))
	for k, v := range d {
		out[k] = v
	}
	return out
}

func (s *nrSim) currentCM() *corev1.ConfigMap {
	cm := &corev1.ConfigMap{}
	if err := s.base.Get(s.ctx, nrCMKey, cm); err != nil {
		if apierrors.IsNotFound(err) {
			return nil
		}
		s.r.HarnessFail("store: get configmap: %v", err)
	}
	return cm
}

// lazyRead: bookkeeping for the evidence (the only ConfigMap read of the controller is IsCfgAvailable's).
func (s *nrSim) lazyRead(cm *corev1.ConfigMap, err error) {
	switch {
	case err != nil && apierrors.IsNotFound(err):
		s.r.Probe("lazy-read:configmap-not-found")
	case err == nil:
		s.r.Probe("lazy-read:configmap-found")
	}
	rv := ""
	if err == nil {
		rv = "rv" + cm.ResourceVersion
	}
	for _, prev := range s.lazyReads {
		if prev != rv {
			s.r.Tag(nrTagLazy)
			s.tagged = true
		}
	}
	if len(s.lazyReads) > 0 {
		s.r.Probe("lazy-read:second-after-one-start")
	}
	s.lazyReads = append(s.lazyReads, rv)
	s.r.Event("lazy-read %s err=%v", rv, err != nil)
}

func (nrEngine) Execute(r *sim.Run) {
	s := &nrSim{r: r, ctx: context.Background()}
	r.Plan.GetCfg(&s.cfg)
	var ops []nrOp
	r.Plan.GetOps(&ops)
	if s.cfg.Workers < 1 {
		s.cfg.Workers = 1
	}
	if len(s.cfg.Nodes) == 0 {
		s.cfg.Nodes = []map[string]string{{}}
	}
	b := fake.NewClientBuilder().WithScheme(nrScheme())
	for i, l := range s.cfg.Nodes {
		n := &corev1.Node{ObjectMeta: metav1.ObjectMeta{Name: fmt.Sprintf("n%d", i), Labels: nrCopyData(l)}}
		s.nodes = append(s.nodes, n)
		b = b.WithObjects(n.DeepCopy())
	}
	if s.cfg.BootCM {
		b = b.WithObjects(&corev1.ConfigMap{ObjectMeta: metav1.ObjectMeta{Namespace: nrCMKey.Namespace, Name: nrCMKey.Name}, Data: nrCopyData(s.cfg.BootData)})
	}
	s.base = b.Build()
	s.cl = &nrClient{Client: s.base, s: s}
	r.Sample("nodes=%v workers=%d boot_cm=%v boot_synced=%v switch_p=%v", s.cfg.Nodes, s.cfg.Workers, s.cfg.BootCM, s.cfg.BootSynced, r.Plan.SwitchP)
	if s.cfg.BootCM {
		r.Sample("boot configmap %v", s.cfg.BootData)
	}

	// cut the history into bursts
	type nrBurst struct {
		restart *nrOp
		ops     []nrOp
	}
	bursts := []*nrBurst{{}}
	for i := range ops {
		op := ops[i]
		switch op.K {
		case "barrier":
			bursts = append(bursts, &nrBurst{})
		case "restart":
			bursts = append(bursts, &nrBurst{restart: &op})
		default:
			bursts[len(bursts)-1].ops = append(bursts[len(bursts)-1].ops, op)
		}
	}
	s.start(s.cfg.BootSynced)
	for bi, bu := range bursts {
		if bi > 0 && bu.restart == nil && len(bu.ops) == 0 {
			continue // two barriers in a row
		}
		s.burst = bi
		if bu.restart != nil {
			r.OpDone()
			r.Sample("restart synced=%v", bu.restart.Synced)
			s.start(bu.restart.Synced)
		}
		s.runBurst(bu.ops)
		s.checkQuiescent()
	}
}

// start is a process start of the controller: fresh instances of the real handler and reconciler, an empty queue, the
// configuration cache unavailable. The Node informer's initial list enqueues every node through the real handler. The
// ConfigMap informer's initial list produces one create event when the ConfigMap exists: with synced the handler has
// received it before the workers start (controller-runtime waits for the handler's registration to sync), otherwise it
// is delivered by the informer actor like any later event and races with the first reconciles.
func (s *nrSim) start(synced bool) {
	r := s.r
	s.boot++
	s.q = newNrQueue()
	s.h = NewSLOCfgHandlerForConfigMapEvent(s.cl, DefaultSLOCfg(), &record.FakeRecorder{})
	s.rec = &NodeSLOReconciler{Client: s.cl, sloCfgCache: s.h, Scheme: nrScheme(), Recorder: &record.FakeRecorder{}}
	s.ref = NewSLOCfgHandlerForConfigMapEvent(s.base, DefaultSLOCfg(), &record.FakeRecorder{})
	s.refRec = &NodeSLOReconciler{Client: s.base, sloCfgCache: s.ref, Scheme: nrScheme(), Recorder: &record.FakeRecorder{}}
	s.cmQ, s.refQ, s.lazyWorkers, s.lazyReads = nil, nil, 0, nil
	if s.tagged {
		r.Untag(nrTagLazy)
		s.tagged = false
	}
	nodeH := &nodemetric.EnqueueRequestForNode{Client: s.cl}
	idx := make([]int, len(s.nodes))
	for i := range idx {
		idx[i] = i
	}
	for len(idx) > 0 { // initial list: arbitrary order
		i := r.Choose(len(idx))
		nodeH.Create(s.ctx, event.CreateEvent{Object: s.nodes[idx[i]].DeepCopy()}, s.q)
		idx = append(idx[:i], idx[i+1:]...)
	}
	cm := s.currentCM()
	r.Event("start %d synced=%v cm=%v", s.boot, synced, cm != nil)
	if cm == nil {
		r.Probe("start:without-configmap")
		return
	}
	ev := nrEvent{obj: cm, label: fmt.Sprintf("initial-list@%d", s.writes)}
	s.refQ = append(s.refQ, cm.DeepCopy())
	if synced {
		r.Probe("start:handler-synced-before-workers")
		s.deliver(ev)
	} else {
		r.Probe("start:initial-event-races-with-workers")
		s.cmQ = append(s.cmQ, ev)
	}
}

func (s *nrSim) deliver(ev nrEvent) {
	r := s.r
	if !s.h.cfgCache.available {
		r.Probe("event-handled-while-cache-unavailable")
	}
	if s.lazyWorkers > 0 {
		r.Probe("event-handled-during-a-reconcile-that-started-unavailable")
	}
	before := s.q.adds
	if ev.old == nil {
		s.h.Create(s.ctx, event.CreateEvent{Object: ev.obj}, s.q)
	} else {
		s.h.Update(s.ctx, event.UpdateEvent{ObjectOld: ev.old, ObjectNew: ev.obj}, s.q)
	}
	s.handled++
	r.Event("handled %s enqueued %d", ev.label, s.q.adds-before)
}

// write is one operation of the API writer; it returns false when the operation does not apply.
func (s *nrSim) write(op *nrOp) bool {
	r := s.r
	cur := s.currentCM()
	switch op.K {
	case "cm":
		s.writes++
		label := fmt.Sprintf("rev%d", s.writes)
		if cur == nil {
			cm := &corev1.ConfigMap{ObjectMeta: metav1.ObjectMeta{Namespace: nrCMKey.Namespace, Name: nrCMKey.Name}, Data: nrCopyData(op.Data)}
			if err := s.base.Create(s.ctx, cm); err != nil {
				r.HarnessFail("store: create configmap: %v", err)
			}
			s.cmQ = append(s.cmQ, nrEvent{obj: cm.DeepCopy(), label: "create-" + label})
			s.refQ = append(s.refQ, cm.DeepCopy())
			r.Probe("write:configmap-created-after-start")
		} else {
			old := cur.DeepCopy()
			cur.Data = nrCopyData(op.Data)
			if err := s.base.Update(s.ctx, cur); err != nil {
				r.HarnessFail("store: update configmap: %v", err)
			}
			s.cmQ = append(s.cmQ, nrEvent{old: old, obj: cur.DeepCopy(), label: "update-" + label})
			s.refQ = append(s.refQ, cur.DeepCopy())
		}
		if s.lazyWorkers > 0 {
			r.Probe("write:during-a-reconcile-that-started-unavailable")
		}
		r.Sample("write %s %v", label, op.Data)
	case "touch": // a write that leaves the data alone
		if cur == nil {
			return false
		}
		old := cur.DeepCopy()
		if cur.Annotations == nil {
			cur.Annotations = map[string]string{}
		}
		cur.Annotations["touched"] = fmt.Sprint(s.handled, len(s.cmQ), s.burst)
		if err := s.base.Update(s.ctx, cur); err != nil {
			r.HarnessFail("store: touch configmap: %v", err)
		}
		s.cmQ = append(s.cmQ, nrEvent{old: old, obj: cur.DeepCopy(), label: "touch"})
	case "resync": // the informer's periodic resync: an update event with old == new
		if cur == nil {
			return false
		}
		s.cmQ = append(s.cmQ, nrEvent{old: cur.DeepCopy(), obj: cur.DeepCopy(), label: "resync"})
	default:
		return false
	}
	r.Event("api %s", op.K)
	return true
}

func (s *nrSim) quiet() bool {
	return s.apiDone && len(s.cmQ) == 0 && !s.handlerBusy && s.q.idle()
}

func (s *nrSim) runBurst(ops []nrOp) {
	r := s.r
	s.apiDone = false
	r.Spawn("api", func() {
		for i := range ops {
			op := ops[i]
			r.Yield("api:" + op.K)
			if s.write(&op) {
				r.OpDone()
			} else {
				r.OpSkipped()
			}
		}
		s.apiDone = true
	})
	r.Spawn("informer-configmap", func() {
		for {
			r.WaitUntil("inf-wait:configmap", func() bool { return len(s.cmQ) > 0 || s.apiDone })
			if len(s.cmQ) == 0 {
				return
			}
			ev := s.cmQ[0]
			s.cmQ = s.cmQ[1:]
			s.handlerBusy = true
			s.deliver(ev)
			s.handlerBusy = false
		}
	})
	for w := 0; w < s.cfg.Workers; w++ {
		w := w
		r.Spawn(fmt.Sprintf("worker-%d", w), func() {
			for {
				r.WaitUntil("worker-wait", func() bool { return s.q.Len() > 0 || s.quiet() })
				req, none := s.q.Get()
				if none {
					return
				}
				s.reconcile(w, req)
			}
		})
	}
	r.Drive()
	if !s.quiet() {
		r.HarnessFail("burst %d ended with work left: %d events, %d queued, %d processing", s.burst, len(s.cmQ), s.q.Len(), len(s.q.processing))
	}
}

// reconcile is what a controller-runtime worker does with one item.
func (s *nrSim) reconcile(w int, req reconcile.Request) {
	r := s.r
	lazy := !s.h.cfgCache.available
	if lazy {
		r.Probe("reconcile-started-while-cache-unavailable")
		s.lazyWorkers++
		if s.lazyWorkers > 1 {
			r.Probe("two-workers-started-while-cache-unavailable")
		}
	}
	r.Event("reconcile w%d %s lazy=%v", w, req.Name, lazy)
	if lazy {
		// IsCfgAvailable initialises the cache while it holds only the READ lock (recorded finding, see nrTagLazy): the
		// simulator's lock-discipline check would end every such run at that write. For the reconciles that start with
		// the cache unavailable - and only for those - the worker therefore registers a pseudo lock in exclusive mode,
		// which makes the discipline check skip this actor's writes; the writes stay scheduling points (split_rmw looks
		// at real lock addresses only), so everything such a write can race with is still explored and judged by value.
		// (repaired in /repo by "fix: nodeslo: run the lazy config initialisation once, under the write lock": the
		// suspension is off unless VERIF_NR_LAX_DISCIPLINE is set, which is only useful against a tree without that fix)
		if !nrStrictDiscipline && os.Getenv("VERIF_NR_LAX_DISCIPLINE") != "" {
			sim.Acquired(nrLazyInit, true)
		}
	}
	res, err := s.rec.Reconcile(s.ctx, req)
	if lazy {
		sim.Released(nrLazyInit)
		s.lazyWorkers--
	}
	if err != nil || res.Requeue || res.RequeueAfter > 0 {
		// nothing in this engine makes an API call fail
		r.Probe("reconcile-requeued")
		if s.q.NumRequeues(req) > 8 {
			s.fail("reconcile-keeps-failing", "", "reconcile of %s failed %d times in a row without any injected fault, last: result %+v err %v", req.Name, s.q.NumRequeues(req), res, err)
		}
		s.q.AddRateLimited(req)
	} else {
		s.q.Forget(req)
	}
	if s.q.dirty[req] {
		r.Probe("node-enqueued-again-while-being-reconciled")
	}
	s.q.Done(req)
	r.Event("reconciled w%d %s err=%v", w, req.Name, err != nil)
}

func (s *nrSim) fail(oracle, detail, format string, args ...any) {
	s.r.Fail(oracle, detail, format, args...)
}

// ---------------------------------------------------------------- oracle

func nrJSON(v any) string {
	b, err := json.Marshal(v)
	if err != nil {
		return "marshal error: " + err.Error()
	}
	return string(b)
}

func nrCfgSections(c *SLOCfg) []string {
	return []string{nrJSON(c.ThresholdCfgMerged), nrJSON(c.ResourceQOSCfgMerged), nrJSON(c.CPUBurstCfgMerged), nrJSON(c.SystemCfgMerged), nrJSON(c.HostAppCfgMerged)}
}

func nrSpecSections(sp *slov1alpha1.NodeSLOSpec) []string {
	// an empty application list does not survive the round trip through the API (omitempty): nil and [] are the same
	if len(sp.HostApplications) == 0 {
		sp = sp.DeepCopy()
		sp.HostApplications = nil
	}
	return []string{nrJSON(sp.ResourceUsedThresholdWithBE), nrJSON(sp.ResourceQOSStrategy), nrJSON(sp.CPUBurstStrategy), nrJSON(sp.SystemStrategy), nrJSON(sp.HostApplications)}
}

func (s *nrSim) latestLabel() string {
	if cm := s.currentCM(); cm != nil {
		return fmt.Sprintf("revision %d of the ConfigMap (resourceVersion %s)", s.writes, cm.ResourceVersion)
	}
	return "no ConfigMap"
}

// checkQuiescent: every event handled, queue drained, nobody inside the controller.
func (s *nrSim) checkQuiescent() {
	r := s.r
	for _, cm := range s.refQ {
		s.ref.syncNodeSLOSpecIfChanged(cm)
	}
	if s.currentCM() == nil {
		// no ConfigMap: every section is absent
		s.ref.syncNodeSLOSpecIfChanged(nil)
	}
	s.refQ = nil
	r.OracleEval()
	if !s.h.cfgCache.available {
		s.fail("cache-unavailable-at-quiescence", "", "burst %d: every node has been reconciled since start %d, but the configuration cache is still marked unavailable", s.burst, s.boot)
	}
	exp, got := nrCfgSections(s.ref.GetCfgCopy()), nrCfgSections(s.h.GetCfgCopy())
	for i, name := range nrSectionNames {
		if exp[i] != got[i] {
			s.fail("cache-not-latest", name, "burst %d (start %d, %d worker(s)): controller quiescent (all ConfigMap events handled, queue empty) but the cached %s configuration does not correspond to %s:\n cached   %s\n expected %s",
				s.burst, s.boot, s.cfg.Workers, name, s.latestLabel(), got[i], exp[i])
		}
	}
	var state []string
	for _, n := range s.nodes {
		want, _ := s.refRec.getNodeSLOSpec(n, nil)
		wantS := nrSpecSections(want)
		served, _ := s.rec.getNodeSLOSpec(n, nil)
		for i, sec := range nrSpecSections(served) {
			if sec != wantS[i] {
				s.fail("served-spec-not-latest", nrSectionNames[i], "burst %d: getNodeSLOSpec for node %s %v does not correspond to %s in section %s:\n served   %s\n expected %s",
					s.burst, n.Name, n.Labels, s.latestLabel(), nrSectionNames[i], sec, wantS[i])
			}
		}
		slo := &slov1alpha1.NodeSLO{}
		if err := s.base.Get(s.ctx, types.NamespacedName{Name: n.Name}, slo); err != nil {
			if !apierrors.IsNotFound(err) {
				r.HarnessFail("store: get nodeslo: %v", err)
			}
			s.fail("nodeslo-missing", "", "burst %d (start %d): controller quiescent but node %s has no NodeSLO", s.burst, s.boot, n.Name)
		}
		for i, sec := range nrSpecSections(&slo.Spec) {
			if sec != wantS[i] {
				s.fail("nodeslo-not-latest", nrSectionNames[i], "burst %d (start %d, %d worker(s)): controller quiescent (all ConfigMap events handled, queue empty) but the NodeSLO of node %s %v does not correspond to %s in section %s:\n stored   %s\n expected %s",
					s.burst, s.boot, s.cfg.Workers, n.Name, n.Labels, s.latestLabel(), nrSectionNames[i], sec, wantS[i])
			}
		}
		state = append(state, fmt.Sprintf("%s=%x", n.Name, sim.HashString(nrJSON(slo.Spec))))
	}
	if s.q.redo > 0 {
		r.Probe("burst-with-requeue-on-done")
	}
	r.Event("quiescent burst %d cache=%x %v", s.burst, sim.HashString(nrJSON(got)), state)
}
