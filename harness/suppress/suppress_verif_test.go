//go:build verif

package cpusuppress

// Engine `suppress` (C10): ROUNDS of the real CPUSuppress.suppressBECPU on the simulated clock against
// hand-written fakes of StatesInformer / MetricCache (time-window honouring) and the real resource executor,
// cgroup reader and updaters on a private temporary cgroup root. See /verif/DESIGN.md §4 C10.
//
// This file: plan types and workload generation. World/fakes: suppress_world_verif_test.go.
// Rounds and oracles: suppress_oracle_verif_test.go.

import (
	"sort"
	"testing"

	"github.com/go-logr/logr"
	"k8s.io/klog/v2"

	sim "github.com/koordinator-sh/koordinator/pkg/verifsim"
)

func init() {
	// the code under test logs every round with klog.Infof/Warningf: keep the workers quiet
	klog.SetLogger(logr.Discard())
}

func TestVerifSim(t *testing.T) { sim.Main(t, &spEngine{}) }

type spEngine struct{}

func (spEngine) Name() string { return "suppress" }

// ---------------------------------------------------------------- plan types

type spProc struct {
	CPU    int32 `json:"c"`
	Core   int32 `json:"k"`
	Socket int32 `json:"s"`
	Node   int32 `json:"n"`
}

type spSLO struct {
	Enable bool   `json:"en"`
	Thr    int64  `json:"thr"`
	Min    int64  `json:"min"` // -1 = unset
	Policy string `json:"pol"` // "cpuset" | "cfsQuota" | "" (unset = cpuset)
}

type spReserve struct {
	CPUs  []int `json:"cpus,omitempty"`
	Milli int64 `json:"milli,omitempty"`
	Bad   int   `json:"bad,omitempty"` // 1: reservedCPUs string does not parse, 2: annotation is not JSON
}

type spSysQoS struct {
	CPUs []int `json:"cpus,omitempty"`
	Excl int   `json:"excl,omitempty"` // 0 unset (= exclusive), 1 true, 2 false
	Bad  int   `json:"bad,omitempty"`  // 1: cpuset string does not parse, 2: annotation is not JSON
}

type spHostApp struct {
	Name    string `json:"name"`
	QoS     string `json:"qos"`
	UnderBE bool   `json:"under_be"` // cgroup base = KubepodsBesteffort
	Use     int64  `json:"use"`
}

type spCfg struct {
	Procs      []spProc    `json:"procs"`
	Driver     string      `json:"driver"`
	IntervalS  int         `json:"interval_s"`
	CollectMs  int         `json:"collect_ms"`
	ForceS     int         `json:"force_s"`
	Exact      bool        `json:"exact"` // every usage is a multiple of 125 milli-CPU: float arithmetic is exact
	InitBE     []int       `json:"init_be"`
	InitQuota  int64       `json:"init_quota"`
	KubeletRes int64       `json:"kubelet_res"`
	Slo        spSLO       `json:"slo"`
	Kubelet    string      `json:"kubelet"` // "" | "none" | "static"
	Reserve    spReserve   `json:"reserve"`
	SysQoS     spSysQoS    `json:"sysqos"`
	HostApps   []spHostApp `json:"host_apps,omitempty"`
	SysUse     int64       `json:"sys_use"`
	NodeLow    bool        `json:"node_low,omitempty"`  // the node usage metric under-reports (below the sum of the pods)
	StartLag   int         `json:"start_lag,omitempty"` // rounds before the first agent incarnation receives the NodeResourceTopology
}

type spOp struct {
	K string `json:"k"` // pod_add pod_del pod_term use_pod use_host use_sys use_fit slo kubelet reserve sysqos restart informer be_dir round

	Pod     int    `json:"pod,omitempty"`
	QoS     string `json:"qos,omitempty"`
	Kube    string `json:"kube,omitempty"`
	CPUs    []int  `json:"cpus,omitempty"`
	BadAnno bool   `json:"bad_anno,omitempty"`
	NC      int    `json:"nc,omitempty"`
	LateDir bool   `json:"late_dir,omitempty"`
	KeepDir bool   `json:"keep_dir,omitempty"`
	Use     int64  `json:"use,omitempty"`
	Host    int    `json:"host,omitempty"`

	Slo     *spSLO     `json:"slo,omitempty"`
	Kubelet string     `json:"kubelet,omitempty"`
	Reserve *spReserve `json:"reserve,omitempty"`
	SysQoS  *spSysQoS  `json:"sysqos,omitempty"`

	Lag     int  `json:"lag,omitempty"`  // round: age (ms) of the newest samples when the round runs
	Gap     bool `json:"gap,omitempty"`  // round: the collector did not run at all since the previous round
	Miss    int  `json:"miss,omitempty"` // round: 1 node series missing, 2 all pod series, 4 host apps, 8 one pod (MissPod)
	MissPod int  `json:"miss_pod,omitempty"`

	TopoLag int `json:"topo_lag,omitempty"` // restart: rounds before the new incarnation receives the NodeResourceTopology

	What string `json:"what,omitempty"` // informer: node | topo | slo | cpuinfo | pods
	On   bool   `json:"on,omitempty"`   // informer: object available again
}

// ---------------------------------------------------------------- generation

func spSortedInts(m map[int]bool) []int {
	out := make([]int, 0, len(m))
	for k, v := range m {
		if v {
			out = append(out, k)
		}
	}
	sort.Ints(out)
	return out
}

func spGenTopology(g *sim.Rng, thorough bool) []spProc {
	numa := g.PickInt(1, 1, 2, 2, 2, 3, 4)
	sockets := 1
	if numa >= 2 && g.Bool(0.6) {
		sockets = 2
	}
	cores := g.PickInt(1, 1, 2, 2, 3, 4, 4, 4, 6, 8, 8, 12, 16)
	if !thorough && g.Bool(0.5) && cores > 4 {
		cores = g.PickInt(2, 3, 4)
	}
	threads := g.PickInt(1, 2, 2)
	totalCores := numa * cores
	total := totalCores * threads
	scheme := g.Intn(4)
	base := g.PickInt(0, 1, 4)
	var pool []int
	if scheme == 3 {
		hole := g.Range(1, 8)
		perm := g.Perm(total + hole)
		pool = perm[:total]
	}
	perSocketCoreIDs := g.Bool(0.4)
	coresPerSocket := totalCores / sockets
	if coresPerSocket == 0 {
		coresPerSocket = 1
	}
	var procs []spProc
	idx := 0
	for n := 0; n < numa; n++ {
		for c := 0; c < cores; c++ {
			coreIdx := n*cores + c
			for t := 0; t < threads; t++ {
				id := idx
				switch scheme {
				case 1:
					id = coreIdx + t*totalCores
				case 2:
					id = base + 2*idx
				case 3:
					id = pool[idx]
				}
				coreID := coreIdx
				if perSocketCoreIDs {
					coreID = coreIdx % coresPerSocket
				}
				procs = append(procs, spProc{CPU: int32(id), Core: int32(coreID), Socket: int32(n * sockets / numa), Node: int32(n)})
				idx++
			}
		}
	}
	if g.Bool(0.7) {
		sort.Slice(procs, func(i, j int) bool { return procs[i].CPU < procs[j].CPU })
	}
	return procs
}

// spPickCPUs picks k CPUs out of the sorted list free: mostly a contiguous run, sometimes scattered.
func spPickCPUs(g *sim.Rng, free []int, k int) []int {
	if k >= len(free) {
		return append([]int(nil), free...)
	}
	var out []int
	if g.Bool(0.7) {
		st := g.Intn(len(free) - k + 1)
		out = append(out, free[st:st+k]...)
	} else {
		for _, i := range g.Perm(len(free))[:k] {
			out = append(out, free[i])
		}
		sort.Ints(out)
	}
	return out
}

func spGenReserve(g *sim.Rng, ids []int, usage func(int64) int64) spReserve {
	var rv spReserve
	x := g.Intn(100)
	switch {
	case x < 45:
	case x < 75:
		k := 1 + g.Intn(len(ids))
		if g.Bool(0.85) && k > 2 {
			k = 1 + g.Intn(2)
		}
		if k >= len(ids) && g.Bool(0.8) {
			k = len(ids) - 1
		}
		rv.CPUs = spPickCPUs(g, ids, k)
		if g.Bool(0.2) {
			rv.Milli = usage(2000)
		}
	case x < 90:
		rv.Milli = usage(int64(len(ids)) * 500)
	case x < 96:
		rv.CPUs = spPickCPUs(g, ids, 1+g.Intn(len(ids)))
		rv.Bad = 1
	default:
		rv.Bad = 2
	}
	return rv
}

func spGenSysQoS(g *sim.Rng, ids []int) spSysQoS {
	var sq spSysQoS
	x := g.Intn(100)
	switch {
	case x < 55:
	case x < 80:
		k := 1 + g.Intn(len(ids))
		if g.Bool(0.85) && k > 2 {
			k = 1 + g.Intn(2)
		}
		if k >= len(ids) && g.Bool(0.8) {
			k = len(ids) - 1
		}
		sq.CPUs = spPickCPUs(g, ids, k)
		sq.Excl = g.PickInt(0, 1)
	case x < 90:
		sq.CPUs = spPickCPUs(g, ids, 1+g.Intn(len(ids)))
		sq.Excl = 2
	case x < 96:
		sq.CPUs = spPickCPUs(g, ids, 1+g.Intn(len(ids)))
		sq.Bad = 1
	default:
		sq.Bad = 2
	}
	return sq
}

func spGenSLO(g *sim.Rng) spSLO {
	s := spSLO{Enable: g.Bool(0.92), Thr: 65, Min: -1}
	if g.Bool(0.6) {
		s.Thr = g.PickI64(0, 5, 10, 20, 30, 50, 65, 80, 90, 100, 100)
	}
	if g.Bool(0.3) {
		s.Min = g.PickI64(0, 5, 10, 25, 50, 100)
	}
	s.Policy = g.Pick("cpuset", "cpuset", "cpuset", "cfsQuota", "cfsQuota", "")
	return s
}

type spGenPod struct {
	id    int
	qos   string
	cpus  []int
	alive bool
}

func (spEngine) Generate(p *sim.Plan, g *sim.Rng) {
	thorough := p.Tier == "thorough"
	var cfg spCfg
	cfg.Procs = spGenTopology(g, thorough)
	n := len(cfg.Procs)
	ids := make([]int, 0, n)
	for _, pr := range cfg.Procs {
		ids = append(ids, int(pr.CPU))
	}
	sort.Ints(ids)
	cfg.Driver = g.Pick("systemd", "systemd", "cgroupfs")
	cfg.IntervalS = g.PickInt(1, 1, 1, 2, 5, 10)
	cfg.CollectMs = g.PickInt(1000, 1000, 1000, 500, 3000)
	cfg.ForceS = g.PickInt(60, 60, 5)
	cfg.Exact = g.Bool(0.5)
	usage := func(max int64) int64 {
		if max < 0 {
			max = 0
		}
		if cfg.Exact {
			return 125 * g.I64n(max/125+1)
		}
		return g.I64n(max + 1)
	}
	cfg.InitBE = append([]int(nil), ids...)
	if n > 2 && g.Bool(0.35) {
		cfg.InitBE = spPickCPUs(g, ids, g.Range(2, n))
	}
	cfg.InitQuota = -1
	if g.Bool(0.25) {
		cfg.InitQuota = g.PickI64(2000, 30000, 100000, int64(n)*20000, int64(n)*65000, int64(n)*100000)
	}
	if g.Bool(0.5) {
		cfg.KubeletRes = usage(int64(n) * 300)
	}
	cfg.Slo = spGenSLO(g)
	cfg.Slo.Enable = g.Bool(0.95)
	cfg.Kubelet = g.Pick("", "", "none", "none", "static", "static")
	cfg.Reserve = spGenReserve(g, ids, usage)
	cfg.SysQoS = spGenSysQoS(g, ids)
	for i, k := 0, g.PickInt(0, 0, 1, 2); i < k; i++ {
		cfg.HostApps = append(cfg.HostApps, spHostApp{Name: []string{"nginx", "agent"}[i], QoS: g.Pick("LS", "BE", "BE", ""),
			UnderBE: g.Bool(0.5), Use: usage(int64(n) * 150)})
	}
	cfg.SysUse = usage(int64(n) * 150)
	cfg.NodeLow = g.Bool(0.05)
	if g.Bool(0.1) {
		cfg.StartLag = g.PickInt(1, 1, 2)
	}

	// faults: ~40% of the runs are fault-free
	if g.Bool(0.6) {
		p.FaultRate = []float64{0.01, 0.03, 0.08}[g.Intn(3)]
		all := []string{"write-error", "dir-vanish", "dir-appear", "read-error"}
		for _, i := range g.Perm(len(all))[:g.Range(1, 2)] {
			p.Faults = append(p.Faults, all[i])
		}
		sort.Strings(p.Faults)
	}

	// generation-time picture of CPU ownership (only used to bias the workload; the run re-checks applicability)
	excl := map[int]bool{}   // owned by an LSE/LSR pod
	shared := map[int]bool{} // annotated by an LS/BE pod
	var pods []*spGenPod
	protectAll := g.Bool(0.08)
	freeCPUs := func() []int {
		var f []int
		for _, id := range ids {
			if !excl[id] && !shared[id] {
				f = append(f, id)
			}
		}
		return f
	}
	alive := func() []*spGenPod {
		var a []*spGenPod
		for _, q := range pods {
			if q.alive {
				a = append(a, q)
			}
		}
		return a
	}
	var ops []spOp
	genPodAdd := func() {
		id := len(pods) + 1
		op := spOp{K: "pod_add", Pod: id, NC: g.Range(1, 2)}
		op.QoS = g.Pick("LSE", "LSE", "LSE", "LSR", "LSR", "LS", "LS", "LS", "BE", "BE", "BE", "")
		free := freeCPUs()
		switch op.QoS {
		case "LSE", "LSR":
			op.Kube = "Guaranteed"
			if len(free) == 0 {
				op.QoS, op.Kube = "LS", "Burstable"
				break
			}
			k := 1 + g.Intn(len(free))
			if k > 4 && g.Bool(0.6) {
				k = 1 + g.Intn(4)
			}
			if g.Bool(0.05) || (protectAll && op.QoS == "LSE" && g.Bool(0.6)) {
				k = len(free)
			} else if k == len(free) {
				k-- // taking the last free CPU is left to the draws above
			}
			if k == 0 {
				op.QoS, op.Kube = "LS", "Burstable"
				break
			}
			op.CPUs = spPickCPUs(g, free, k)
			for _, c := range op.CPUs {
				excl[c] = true
			}
		case "LS":
			op.Kube = g.Pick("Burstable", "Burstable", "Burstable", "Burstable", "Guaranteed", "BestEffort")
			if len(free) > 0 && g.Bool(0.15) {
				op.CPUs = spPickCPUs(g, free, 1+g.Intn(len(free)))
			}
		case "BE":
			op.Kube = "BestEffort"
			if g.Bool(0.05) {
				op.Kube = "Burstable"
			}
			if len(free) > 0 && g.Bool(0.1) {
				op.CPUs = spPickCPUs(g, free, 1+g.Intn(len(free)))
			}
		default:
			op.Kube = g.Pick("Burstable", "BestEffort", "Guaranteed")
		}
		if op.QoS == "LS" || op.QoS == "BE" {
			for _, c := range op.CPUs {
				shared[c] = true
			}
		}
		if len(op.CPUs) > 0 && g.Bool(0.04) {
			op.BadAnno = true
		}
		if op.Kube == "BestEffort" && g.Bool(0.1) {
			op.LateDir = true
		}
		lim := int64(1000)
		if len(op.CPUs) > 0 {
			lim = int64(len(op.CPUs)) * 1000
		}
		op.Use = usage(lim)
		pods = append(pods, &spGenPod{id: id, qos: op.QoS, cpus: op.CPUs, alive: true})
		ops = append(ops, op)
	}
	genEvent := func(first bool) {
		x := g.Intn(100)
		if first && x >= 25 {
			x = 0
		}
		switch {
		case x < 28:
			genPodAdd()
		case x < 40:
			a := alive()
			if len(a) == 0 {
				genPodAdd()
				return
			}
			q := a[g.Intn(len(a))]
			if g.Bool(0.3) {
				// graceful delete: the pod keeps running (and keeps its CPUs) until a later pod_del
				ops = append(ops, spOp{K: "pod_term", Pod: q.id})
				return
			}
			q.alive = false
			for _, c := range q.cpus {
				delete(excl, c)
				delete(shared, c)
			}
			ops = append(ops, spOp{K: "pod_del", Pod: q.id, KeepDir: g.Bool(0.2)})
		case x < 60:
			a := alive()
			if len(a) == 0 {
				genPodAdd()
				return
			}
			q := a[g.Intn(len(a))]
			lim := int64(1500)
			if len(q.cpus) > 0 {
				lim = int64(len(q.cpus)) * 1000
			}
			if g.Bool(0.1) {
				lim = int64(n) * 1000
			}
			ops = append(ops, spOp{K: "use_pod", Pod: q.id, Use: usage(lim)})
		case x < 65:
			if len(cfg.HostApps) == 0 {
				ops = append(ops, spOp{K: "use_sys", Use: usage(int64(n) * 300)})
				return
			}
			ops = append(ops, spOp{K: "use_host", Host: g.Intn(len(cfg.HostApps)), Use: usage(int64(n) * 200)})
		case x < 68:
			ops = append(ops, spOp{K: "use_sys", Use: usage(int64(n) * 400)})
		case x < 72:
			// the system usage moves to where the budget lands on a boundary (0, the 2-CPU minimum, whole CPUs, 1% of the node)
			w := g.PickI64(0, 125, 250, 1000, 1875, 2000, 2125, 3000, 3125, 4000, int64(n)*5, int64(n)*1000)
			if !cfg.Exact {
				w += g.PickI64(0, 0, 1, -1, 30, 499)
			} else {
				w -= w % 125
			}
			ops = append(ops, spOp{K: "use_fit", Use: w})
		case x < 81:
			s := spGenSLO(g)
			ops = append(ops, spOp{K: "slo", Slo: &s})
		case x < 84:
			ops = append(ops, spOp{K: "kubelet", Kubelet: g.Pick("", "none", "static")})
		case x < 88:
			rv := spGenReserve(g, ids, usage)
			ops = append(ops, spOp{K: "reserve", Reserve: &rv})
		case x < 91:
			sq := spGenSysQoS(g, ids)
			ops = append(ops, spOp{K: "sysqos", SysQoS: &sq})
		case x < 95:
			// agent restart; in half of them the new incarnation's informer delivers the NodeResourceTopology only after the
			// first 1-3 rounds (GetNodeTopo()==nil meanwhile), while the cgroup files persist from before the restart
			op := spOp{K: "restart"}
			if g.Bool(0.5) {
				op.TopoLag = g.PickInt(1, 1, 2, 3)
			}
			ops = append(ops, op)
		case x < 98:
			ops = append(ops, spOp{K: "informer", What: g.Pick("node", "topo", "slo", "cpuinfo", "pods"), On: g.Bool(0.5)})
		default:
			ops = append(ops, spOp{K: "be_dir"})
		}
	}
	rounds := g.Range(3, 10)
	if thorough {
		rounds = g.Range(3, 40)
	}
	for i := 0; i < rounds; i++ {
		ne := g.PickInt(0, 1, 1, 2, 3)
		if i == 0 {
			ne = g.Range(1, 6)
		}
		for j := 0; j < ne; j++ {
			genEvent(i == 0)
		}
		op := spOp{K: "round", Lag: g.PickInt(0, 0, 100, 300, 700, 900)}
		if g.Bool(0.08) {
			op.Gap = true
		}
		if g.Bool(0.15) {
			op.Miss = g.PickInt(1, 2, 4, 8, 8, 3)
			if a := alive(); len(a) > 0 {
				op.MissPod = a[g.Intn(len(a))].id
			}
		}
		ops = append(ops, op)
	}
	p.SetCfg(cfg)
	p.SetOps(ops)
}
