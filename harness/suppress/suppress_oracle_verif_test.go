//go:build verif

package cpusuppress

// Execution of a plan: environment events between rounds, ROUNDS of the real suppressBECPU, and the oracles of C10
// (written from the property statement; constants below are the documented ones, not read from the code).

import (
	"fmt"
	"path/filepath"
	"sort"
	"strings"
	"time"

	corev1 "k8s.io/api/core/v1"

	"github.com/koordinator-sh/koordinator/pkg/koordlet/metriccache"
	"github.com/koordinator-sh/koordinator/pkg/koordlet/qosmanager/helpers"
	koordletutil "github.com/koordinator-sh/koordinator/pkg/koordlet/util"
	"github.com/koordinator-sh/koordinator/pkg/koordlet/util/system"
	sim "github.com/koordinator-sh/koordinator/pkg/verifsim"
)

// Documented constants of BE suppression (koordinator docs / statement): at least two CPUs, scale-up by at most 10% of
// the node's CPUs (rounded up) per round, CFS period 100ms, minimum quota 2000us, quota dead band 1% of the node.
const (
	spMinCPUs     = 2
	spCFSPeriodUs = 100000
	spMinQuotaUs  = 2000
)

func (spEngine) Execute(r *sim.Run) {
	s := spNewSim(r)
	if s.n == 0 {
		return
	}
	defer s.teardown()
	s.setup()
	var ops []spOp
	r.Plan.GetOps(&ops)
	r.Sample("cpus=%d driver=%s interval=%ds collect=%dms exact=%v slo=%+v kubelet=%q reserve=%+v sysqos=%+v initBE=%s quota=%d faults=%v",
		s.n, s.cfg.Driver, s.cfg.IntervalS, s.cfg.CollectMs, s.cfg.Exact, s.slo, s.kubelet, s.reserve, s.sysqos, spFmtCPUs(s.cfg.InitBE, true), s.cfg.InitQuota, r.Plan.Faults)
	for i := range ops {
		s.apply(&ops[i])
	}
}

func (s *spSim) apply(op *spOp) {
	r := s.r
	switch op.K {
	case "pod_add":
		if s.pods[op.Pod] != nil || op.Pod <= 0 {
			r.OpSkipped()
			return
		}
		for _, c := range op.CPUs {
			if !s.isID[c] {
				r.OpSkipped()
				return
			}
		}
		// exclusivity of LSE/LSR allocations is a precondition (C06): no CPU of an LSE/LSR pod is annotated by another pod
		want := spSet(op.CPUs)
		for _, id := range s.podIDs() {
			q := s.pods[id]
			exclusive := q.qos == "LSE" || q.qos == "LSR" || op.QoS == "LSE" || op.QoS == "LSR"
			if !exclusive {
				continue
			}
			for _, c := range q.cpus {
				if want[c] {
					r.OpSkipped()
					return
				}
			}
		}
		p := &spPod{id: op.Pod, uid: fmt.Sprintf("uid-%d", op.Pod), qos: op.QoS, kube: op.Kube, cpus: op.CPUs, badAnno: op.BadAnno,
			nc: op.NC, use: op.Use, visible: true}
		if p.nc < 1 {
			p.nc = 1
		}
		if p.kube == "" {
			p.kube = "Burstable"
		}
		s.buildPod(p)
		s.pods[p.id] = p
		if p.kube == "BestEffort" && !op.LateDir {
			s.mkPodDirs(p.meta.CgroupDir, s.containerIDs(p))
			p.hasDir, p.hadDir = true, true
		}
		r.Event("pod_add %d qos=%s kube=%s cpus=%s bad=%v dir=%v use=%d", p.id, p.qos, p.kube, spFmtCPUs(p.cpus, true), p.badAnno, p.hasDir, p.use)
		r.Sample("pod_add %d qos=%s kube=%s cpus=%s use=%dm", p.id, p.qos, p.kube, spFmtCPUs(p.cpus, true), p.use)
		r.Probe("pod-" + strings.ToLower(p.qos+"x"))
	case "pod_del":
		p := s.pods[op.Pod]
		if p == nil || !p.visible {
			r.OpSkipped()
			return
		}
		p.visible = false
		if p.hasDir && !op.KeepDir {
			s.rmPodDirs(p.meta.CgroupDir)
			p.hasDir = false
		}
		if !p.hasDir {
			delete(s.pods, op.Pod)
		} else {
			r.Probe("pod-deleted-dir-lingers")
		}
		r.Event("pod_del %d keepdir=%v", op.Pod, op.KeepDir)
	case "pod_term":
		p := s.pods[op.Pod]
		if p == nil || !p.visible || p.term {
			r.OpSkipped()
			return
		}
		s.markTerminating(p)
		r.Event("pod_term %d", op.Pod)
		r.Probe("pod-terminating-" + strings.ToLower(p.qos+"x"))
	case "use_pod":
		p := s.pods[op.Pod]
		if p == nil || !p.visible {
			r.OpSkipped()
			return
		}
		p.use = op.Use
		r.Event("use_pod %d %d", op.Pod, op.Use)
	case "use_host":
		if op.Host < 0 || op.Host >= len(s.hostApps) {
			r.OpSkipped()
			return
		}
		s.hostApps[op.Host].Use = op.Use
		r.Event("use_host %d %d", op.Host, op.Use)
	case "use_sys":
		s.sysUse = op.Use
		r.Event("use_sys %d", op.Use)
	case "use_fit":
		// system usage such that (with fresh metrics) the budget is op.Use milli-CPU
		var nonBE int64
		for _, p := range s.visiblePods() {
			if !s.podIsBE(p) {
				nonBE += p.use
			}
		}
		for _, h := range s.hostApps {
			if !spHostIsBE(h) {
				nonBE += h.Use
			}
		}
		v := int64(s.n)*1000*s.slo.Thr/100 - nonBE - op.Use
		if v < 0 || (s.cfg.Exact && v%125 != 0) {
			r.OpSkipped()
			return
		}
		s.sysUse = v
		r.Event("use_fit %d -> sys %d", op.Use, v)
		r.Probe("usage-fitted-to-boundary")
	case "slo":
		if op.Slo == nil {
			r.OpSkipped()
			return
		}
		if s.slo.Policy != op.Slo.Policy {
			r.Probe("policy-switch")
		}
		s.slo = *op.Slo
		r.Event("slo %+v", s.slo)
		r.Sample("slo %+v", s.slo)
	case "kubelet":
		s.kubelet = op.Kubelet
		r.Event("kubelet %q", s.kubelet)
		r.Sample("kubelet cpu manager policy %q", s.kubelet)
	case "reserve":
		if op.Reserve == nil {
			r.OpSkipped()
			return
		}
		for _, c := range op.Reserve.CPUs {
			if !s.isID[c] {
				r.OpSkipped()
				return
			}
		}
		s.reserve = *op.Reserve
		r.Event("reserve %+v", s.reserve)
		r.Sample("reserve %+v", s.reserve)
	case "sysqos":
		if op.SysQoS == nil {
			r.OpSkipped()
			return
		}
		for _, c := range op.SysQoS.CPUs {
			if !s.isID[c] {
				r.OpSkipped()
				return
			}
		}
		s.sysqos = *op.SysQoS
		r.Event("sysqos %+v", s.sysqos)
		r.Sample("sysqos %+v", s.sysqos)
	case "restart":
		// a new agent incarnation: fresh executor cache and policy statuses, the cgroup files stay as the old one left them.
		// Its informer may deliver the NodeResourceTopology only after the first rounds (TopoLag); the object in the API is
		// unaffected and keeps following the reserve / sysqos / kubelet ops.
		s.topoLag = 0
		if op.TopoLag > 0 {
			s.topoLag = op.TopoLag
			r.Probe("agent-restart-topo-lags")
		}
		s.newAgent()
		r.Event("agent restart topo_lag=%d", s.topoLag)
		r.Sample("agent restart (NodeResourceTopology delivered after %d rounds)", s.topoLag)
		r.Probe("agent-restart")
	case "informer":
		if s.off[op.What] == !op.On {
			r.OpSkipped()
			return
		}
		s.off[op.What] = !op.On
		r.Event("informer %s available=%v", op.What, op.On)
		r.Probe("informer-gap-" + op.What)
	case "be_dir":
		// between rounds: a lingering dir of a deleted pod goes away, else a BE pod cgroup appears
		for _, id := range s.podIDs() {
			if p := s.pods[id]; !p.visible && p.hasDir {
				s.rmPodDirs(p.meta.CgroupDir)
				delete(s.pods, id)
				r.Event("lingering dir of pod %d removed", id)
				r.OpDone()
				return
			}
		}
		s.appearDir()
	case "round":
		s.doRound(op)
	default:
		r.OpSkipped()
		return
	}
	r.OpDone()
}

// ---------------------------------------------------------------- the oracle's view of one round

type spExp struct {
	now        time.Time
	haveBudget bool
	budget     int64 // exact, milli-CPU
	tol        int64 // float truncation allowance of the code under test: budget .. budget+tol
	acts       bool  // every input the agent needs is available: a derived set / quota is expected
	mode       string
	topoSeen   bool // the agent's informer holds the NodeResourceTopology in this round
	reserved   map[int]bool
	sysx       map[int]bool
	lse        map[int]bool
	elig       []int
	step       int
	wLo, wHi   int // wanted number of CPUs for budget and budget+tol
	nodeFresh  bool
	podUse     map[int]int64
	hostUse    map[string]int64
	resMilli   int64
}

func (s *spSim) podIsBE(p *spPod) bool { return p.qos == "BE" || p.kube == "BestEffort" }

func spHostIsBE(h spHostApp) bool { return h.QoS == "BE" && h.UnderBE }

func (s *spSim) visiblePods() []*spPod {
	var out []*spPod
	if s.off["pods"] {
		return nil
	}
	for _, id := range s.podIDs() {
		if p := s.pods[id]; p.visible {
			out = append(out, p)
		}
	}
	return out
}

func (s *spSim) reservedMilli() int64 {
	res := s.cfg.KubeletRes
	var anno int64
	if s.reserve.Bad == 0 {
		anno = s.reserve.Milli
		if len(s.reserve.CPUs) > 0 {
			anno = int64(len(s.reserve.CPUs)) * 1000
		}
	}
	if anno > res {
		res = anno
	}
	return res
}

func spWanted(budget int64) int {
	w := 0
	if budget > 0 {
		w = int((budget + 999) / 1000)
	}
	if w < spMinCPUs {
		w = spMinCPUs
	}
	return w
}

func (s *spSim) expectation() *spExp {
	e := &spExp{now: time.Now(), podUse: map[int]int64{}, hostUse: map[string]int64{}}
	if !s.cfg.Exact {
		e.tol = 3
	}
	e.step = (s.n + 9) / 10
	pods := s.visiblePods()
	// Protected CPUs as DECLARED BY THE NODE'S OBJECTS, not as far as the agent has seen them: the reservation and the
	// system-QoS annotation of the NodeResourceTopology stored in the simulated API (s.reserve / s.sysqos, whether or not
	// this agent incarnation's informer has delivered the object yet), and the cpuset annotations of the LSE pods in the
	// pod list. For pods there is no "stored but not yet observed" window to judge: the agent's pod list is the kubelet's,
	// the real pods informer never hands out an empty list once it has synced (it ignores an empty kubelet answer,
	// statesinformer/impl/states_pods.go syncPods) and the QoS manager starts only after that sync. A round with an
	// unavailable pod list (informer op "pods") is an over-approximation kept for robustness (no crash, reserved and
	// system-QoS exclusions); judging it against the pods of the model reports the disabled-path recovery putting BE on
	// LSE CPUs - a history the real agent cannot be in.
	e.topoSeen = s.topoSeen()
	e.reserved, e.sysx, e.lse = map[int]bool{}, map[int]bool{}, map[int]bool{}
	if s.reserve.Bad == 0 {
		e.reserved = spSet(s.reserve.CPUs)
	}
	if s.sysqos.Bad == 0 && s.sysqos.Excl != 2 {
		e.sysx = spSet(s.sysqos.CPUs)
	}
	for _, p := range pods {
		if p.qos == "LSE" && !p.badAnno {
			for _, c := range p.cpus {
				e.lse[c] = true
			}
		}
	}
	for _, id := range s.ids {
		if !e.reserved[id] && !e.sysx[id] && !e.lse[id] {
			e.elig = append(e.elig, id)
		}
	}
	// budget
	nodeUse, fresh := s.lastInWindow(s.kNode, e.now)
	e.nodeFresh = fresh
	e.resMilli = s.reservedMilli()
	if fresh && !s.off["node"] && !s.off["slo"] {
		var nonBE, allPods, hostNonBE, hostAll int64
		for _, p := range pods {
			if u, ok := s.lastInWindow(s.podKey(p), e.now); ok {
				e.podUse[p.id] = u
				allPods += u
				if !s.podIsBE(p) {
					nonBE += u
				}
			}
		}
		for _, h := range s.hostApps {
			if u, ok := s.lastInWindow(s.hostKey(h.Name), e.now); ok {
				e.hostUse[h.Name] = u
				hostAll += u
				if !spHostIsBE(h) {
					hostNonBE += u
				}
			}
		}
		sys := nodeUse - allPods - hostAll
		if sys < 0 {
			sys = 0
		}
		if sys < e.resMilli {
			sys = e.resMilli
		}
		capMilli := int64(s.n) * 1000
		b := capMilli*s.slo.Thr/100 - nonBE - hostNonBE - sys
		if s.slo.Min >= 0 {
			if fl := capMilli * s.slo.Min / 100; b < fl {
				b = fl
			}
		}
		e.haveBudget, e.budget = true, b
		e.wLo, e.wHi = spWanted(b), spWanted(b+e.tol)
	}
	switch {
	case s.off["slo"]:
		e.mode = "idle"
	case !s.slo.Enable:
		e.mode = "disabled"
	case !e.haveBudget || len(pods) == 0 || s.off["cpuinfo"]:
		e.mode = "idle"
	case s.slo.Policy == "cfsQuota":
		// the quota needs nothing from the NodeResourceTopology: it is due also while the topology is not delivered
		e.mode, e.acts = "quota", true
	case !e.topoSeen:
		e.mode = "idle"
	case s.kubelet == "static":
		e.mode, e.acts = "cpuset-static", true
	default:
		e.mode, e.acts = "cpuset-none", true
	}
	return e
}

// ---------------------------------------------------------------- one round

func (s *spSim) doRound(op *spOp) {
	r := s.r
	interval := time.Duration(s.cfg.IntervalS) * time.Second
	lag := time.Duration(op.Lag) * time.Millisecond
	if lag >= interval {
		lag = interval - 100*time.Millisecond
	}
	if op.Gap {
		time.Sleep(interval)
		r.Probe("collector-gap-all")
	} else {
		time.Sleep(interval - lag)
		s.collect(op)
		time.Sleep(lag)
	}
	s.roundNo++
	before := s.snapshot()
	quotaBefore, _ := s.readQuota()
	e := s.expectation()
	s.observeBudget(e)
	s.samplePolicy(e)
	s.tagHistory(e, before, quotaBefore)

	s.journal, s.failed, s.appeared, s.roundFaults, s.readFailed = nil, map[string]bool{}, map[string]bool{}, 0, false
	s.wrote = map[string]bool{}
	if !e.topoSeen {
		r.Probe("round-topo-not-delivered")
		if len(e.reserved)+len(e.sysx) > 0 {
			r.Probe("round-topo-not-delivered-declares-protected-cpus")
			if s.topoLag > 0 && !s.off["slo"] && !s.off["cpuinfo"] && (!s.slo.Enable || (s.slo.Policy == "cfsQuota" && e.haveBudget && len(s.visiblePods()) > 0)) {
				r.Probe("round-topo-not-delivered-after-restart-on-recover-path")
			}
		}
	}
	s.inRound = true
	// REAL code under test. A panic here propagates to the framework, which reports it as C10/panic/<file:line>.
	s.cs.suppressBECPU()
	s.inRound = false

	after := s.snapshot()
	quotaAfter, _ := s.readQuota()
	s.checkRound(e, before, after, quotaBefore, quotaAfter)

	rootAfter := after[filepath.Clean(s.beRel)]
	r.Event("round %d mode=%s budget=%d/%v root=%s quota=%d writes=%d faults=%d", s.roundNo, e.mode, e.budget, e.haveBudget, rootAfter, quotaAfter, len(s.journal), s.roundFaults)
	dirs := make([]string, 0, len(after))
	for d := range after {
		dirs = append(dirs, d)
	}
	sort.Strings(dirs)
	for _, d := range dirs {
		r.Event(" %s=%s", d, after[d])
	}
	r.Sample("round %d mode=%s budget=%dm eligible=%d root %s -> %s quota %d -> %d", s.roundNo, e.mode, e.budget, len(e.elig), before[filepath.Clean(s.beRel)], rootAfter, quotaBefore, quotaAfter)
	r.Probe("round-" + e.mode)
	if s.roundFaults == 0 {
		r.Probe("round-fault-free")
	}
	if s.topoLag > 0 {
		if s.topoLag--; s.topoLag == 0 {
			r.Event("NodeResourceTopology delivered to the agent")
			r.Probe("topo-delivered-after-lag")
		}
	}
}

// observeBudget runs the real metric helpers and the real calculateBESuppressCPU on the same inputs suppressBECPU is
// about to read, and compares the quantity with the independent integer recomputation; then the paired monotonicity check.
func (s *spSim) observeBudget(e *spExp) {
	r := s.r
	collect := time.Duration(s.cfg.CollectMs) * time.Millisecond
	qm, err := metriccache.NodeCPUUsageMetric.BuildQueryMeta(nil)
	if err != nil {
		r.HarnessFail("query meta: %v", err)
	}
	nodeUsage, nerr := helpers.CollectorNodeMetricLast(s.mc, qm, collect)
	if (nerr == nil) != e.nodeFresh {
		// the fake serves exactly the samples inside the queried window: a disagreement means the agent looked at another
		// window than [now - 2 x collect interval, now]
		r.OracleEval()
		if nerr == nil {
			r.Fail("metric-window", "stale-node-metric-used", "node CPU usage %.3f was read although the newest sample is older than 2 x %dms", nodeUsage, s.cfg.CollectMs)
		}
		r.Fail("metric-window", "fresh-node-metric-ignored", "node CPU usage not found (%v) although a sample lies within the last 2 x %dms", nerr, s.cfg.CollectMs)
	}
	if !e.nodeFresh {
		r.Probe("node-metric-stale")
	}
	if !e.haveBudget {
		return
	}
	node := s.inf.GetNode()
	slo := s.inf.GetNodeSLO()
	podMetas := s.inf.GetAllPods()
	podMetrics := helpers.CollectAllPodMetricsLast(s.inf, s.mc, metriccache.PodCPUUsageMetric, collect)
	hostM := helpers.CollectAllHostAppMetricsLast(slo.Spec.HostApplications, s.mc, metriccache.HostAppCPUUsageMetric, collect)
	if len(podMetrics) != len(e.podUse) || len(hostM) != len(e.hostUse) {
		r.OracleEval()
		r.Fail("metric-window", "pod-or-hostapp-series", "the agent found %d pod / %d host application usages, %d / %d have a sample within the last 2 x %dms", len(podMetrics), len(hostM), len(e.podUse), len(e.hostUse), s.cfg.CollectMs)
	}
	if len(e.podUse) < len(s.visiblePods()) {
		r.Probe("pod-metric-stale")
	}
	st := slo.Spec.ResourceUsedThresholdWithBE
	got := s.cs.calculateBESuppressCPU(node, nodeUsage, podMetrics, podMetas, slo.Spec.HostApplications, hostM, *st.CPUSuppressThresholdPercent, st.CPUSuppressMinPercent).MilliValue()
	r.OracleEval()
	if got < e.budget {
		r.Fail("budget", "below", "calculateBESuppressCPU=%dm, statement gives %dm (cap %d thr %d%% min %d reserved %dm node/pods/hostapps per fakes)", got, e.budget, s.n, s.slo.Thr, s.slo.Min, e.resMilli)
	}
	if got > e.budget+e.tol {
		r.Fail("budget", "above", "calculateBESuppressCPU=%dm, statement gives %dm (+%d float allowance) (cap %d thr %d%% min %d reserved %dm)", got, e.budget, e.tol, s.n, s.slo.Thr, s.slo.Min, e.resMilli)
	}
	if e.budget < 2000 {
		r.Probe("budget-below-2")
	}
	if int(e.budget/1000) > len(e.elig) {
		r.Probe("budget-above-eligible")
	}
	if s.slo.Min >= 0 && e.budget == int64(s.n)*1000*s.slo.Min/100 {
		r.Probe("budget-floored-by-min")
	}

	// paired evaluation: the same inputs with one non-BE consumption grown must not give a larger budget
	// (non-exact runs: each of the three float->milli truncations of the code may differ by one between the two calls,
	// because the pod sum runs over a Go map in a different order)
	deltas := []int64{5, 37, 250, 1111, 4000}
	if s.cfg.Exact {
		deltas = []int64{125, 250, 1000, 4000}
	}
	d := deltas[r.Choose(len(deltas))]
	df := float64(d) / 1000
	pm2 := map[string]float64{}
	for k, v := range podMetrics {
		pm2[k] = v
	}
	hm2 := map[string]float64{}
	for k, v := range hostM {
		hm2[k] = v
	}
	node2, usage2, allow, what := node, nodeUsage, e.tol, ""
	var nonBE []*spPod
	for _, p := range s.visiblePods() {
		if _, ok := e.podUse[p.id]; ok && !s.podIsBE(p) {
			nonBE = append(nonBE, p)
		}
	}
	var nonBEHost []string
	for _, h := range s.hostApps {
		if _, ok := e.hostUse[h.Name]; ok && !spHostIsBE(h) {
			nonBEHost = append(nonBEHost, h.Name)
		}
	}
	switch k := r.Choose(5); {
	case k == 0 && len(nonBE) > 0:
		p := nonBE[r.Choose(len(nonBE))]
		pm2[p.uid] += df
		usage2 += df
		what = "non-BE pod usage (and node usage)"
	case k == 1 && len(nonBE) > 0:
		p := nonBE[r.Choose(len(nonBE))]
		pm2[p.uid] += df
		what = "non-BE pod usage (node usage unchanged)"
	case k == 2 && len(nonBEHost) > 0:
		hm2[nonBEHost[r.Choose(len(nonBEHost))]] += df
		usage2 += df
		what = "host application usage (and node usage)"
	case k == 3:
		save := s.cfg.KubeletRes
		s.cfg.KubeletRes += d
		node2 = s.nodeObj()
		s.cfg.KubeletRes = save
		what = "node reservation"
	default:
		usage2 += df
		what = "system usage"
	}
	got2 := s.cs.calculateBESuppressCPU(node2, usage2, pm2, podMetas, slo.Spec.HostApplications, hm2, *st.CPUSuppressThresholdPercent, st.CPUSuppressMinPercent).MilliValue()
	r.OracleEval()
	if got2 > got+allow {
		r.Fail("budget-monotone", "", "budget grew from %dm to %dm when %s grew by %dm", got, got2, what, d)
	}
}

// samplePolicy calls the real calculateBESuppressCPUSetPolicy on the eligible pool of this round with a sampled count.
func (s *spSim) samplePolicy(e *spExp) {
	if len(e.elig) == 0 {
		return
	}
	r := s.r
	el := spSet(e.elig)
	var pool []koordletutil.ProcessorInfo
	for _, p := range s.cfg.Procs {
		if el[int(p.CPU)] {
			pool = append(pool, koordletutil.ProcessorInfo{CPUID: p.CPU, CoreID: p.Core, SocketID: p.Socket, NodeID: p.Node})
		}
	}
	k := 1 + r.Choose(len(pool))
	got := calculateBESuppressCPUSetPolicy(int32(k), pool)
	r.OracleEval()
	seen := map[int32]bool{}
	for _, c := range got {
		if seen[c] {
			r.Fail("policy-list", "duplicate", "calculateBESuppressCPUSetPolicy(%d, %d CPUs) returned CPU %d twice: %v", k, len(pool), c, got)
		}
		seen[c] = true
		if !el[int(c)] {
			r.Fail("policy-list", "foreign", "calculateBESuppressCPUSetPolicy(%d, ...) returned CPU %d which is not in the given pool: %v", k, c, got)
		}
	}
	if len(got) != k {
		r.Fail("policy-list", "count", "calculateBESuppressCPUSetPolicy(%d, %d CPUs) returned %d CPUs: %v", k, len(pool), len(got), got)
	}
}

func spMin(a, b int) int {
	if a < b {
		return a
	}
	return b
}

// containersOf lists container-level dirs present in snap (sorted).
func (s *spSim) dirsAtDepth(snap map[string]string, depth int) []string {
	var out []string
	for d := range snap {
		if s.depth(d) == depth {
			out = append(out, d)
		}
	}
	sort.Strings(out)
	return out
}

func spSize(content string) int {
	c, _ := spParseCPUs(content)
	return len(c)
}

// tagHistory marks histories that meet a recorded defect (conditions on the inputs/history only, never on the outcome).
func (s *spSim) tagHistory(e *spExp, before map[string]string, quotaBefore int64) {
	r := s.r
	root := filepath.Clean(s.beRel)
	switch {
	case !e.acts:
	case e.mode == "cpuset-none" || e.mode == "cpuset-static":
		if len(e.elig) == 0 {
			// no CPU is eligible: nothing can be derived (see checkRound); no recorded defect is attached to this history any more
			return
		}
		if e.mode == "cpuset-none" {
			if t := spMin(e.wHi, spSize(before[root])+e.step); len(e.elig) < t {
				r.Tag("eligible-below-wanted")
			}
			return
		}
		// static kubelet policy: the derived set goes to the container cgroups; the agent reads the size of the BE root
		if t := spMin(e.wHi, spSize(before[root])+e.step); len(e.elig) < t {
			r.Tag("eligible-below-wanted")
		}
		// Recorded defect: the agent limits the growth to (size of the BE ROOT's cpuset + step), the statement to (size of the
		// set the BE containers run on + step). The history class is every round in which the two limits give different
		// targets for some container - in either direction: normally the root holds every unprotected CPU and the containers
		// jump past their step; with a root left smaller than the containers (its write failed in an earlier round) the
		// containers get fewer CPUs than the budget and their own step allow. Same size of root and container (e.g. right
		// after the none policy, or a cgroup just created from its parent) is not in the class.
		rootSize := spSize(before[root])
		for _, c := range s.dirsAtDepth(before, 2) {
			own := spSize(before[c])
			for _, w := range []int{e.wLo, e.wHi} {
				if spMin(w, rootSize+e.step) != spMin(w, own+e.step) {
					r.Tag("static-policy-scale-up")
					if rootSize < own {
						r.Probe("static-policy-root-smaller-than-container")
					}
				}
			}
		}
	case e.mode == "quota":
		band := int64(s.n) * spCFSPeriodUs / 100
		for b := e.budget; b <= e.budget+e.tol; b++ {
			if t := spQuotaTarget(b); quotaBefore == -1 && t != spMinQuotaUs && t+1 <= band {
				r.Tag("quota-unset-within-deadband")
			}
		}
	}
}

func (s *spSim) topoWhy() string {
	if s.topoLag > 0 {
		return fmt.Sprintf("%d more round(s) after the agent's start", s.topoLag)
	}
	return "informer object unavailable"
}

func spQuotaTarget(budget int64) int64 {
	t := budget * spCFSPeriodUs / 1000
	if t < spMinQuotaUs {
		t = spMinQuotaUs
	}
	return t
}

func (s *spSim) checkSet(e *spExp, where, dir, content string) []int {
	r := s.r
	cpus, ok := spParseCPUs(content)
	if !ok {
		r.Fail("cpuset-malformed", where, "%s: cpuset.cpus %q is not a list of distinct CPUs", dir, content)
	}
	for _, c := range cpus {
		if !s.isID[c] {
			r.Fail("cpu-not-existing", where, "%s: cpuset.cpus %q contains CPU %d which the node does not have", dir, content, c)
		}
		kind, what := "", ""
		switch {
		case e.lse[c]:
			kind, what = "lse", "exclusively owned by an LSE pod"
		case e.reserved[c]:
			kind, what = "reserved", "reserved for the node"
		case e.sysx[c]:
			kind, what = "system-qos", "exclusive to system QoS"
		default:
			continue
		}
		if !e.topoSeen {
			// The agent wrote this cgroup although its informer had not delivered the NodeResourceTopology: the reservation /
			// system-QoS exclusivity is declared by the object in the API all the same. None of the recorded defects is
			// about such a round (they all need the derived set, which needs the topology; without it the agent is to leave
			// the cpusets alone), so their history tags do not belong to this signature.
			for _, t := range []string{"eligible-below-wanted", "static-policy-scale-up", "quota-unset-within-deadband"} {
				r.Untag(t)
			}
			r.Fail("protected-cpu", kind+"/"+where+"/topology-not-delivered", "%s: cpuset.cpus %q written by the agent contains CPU %d %s (declared by the node's objects in the API; the agent's informer had not delivered the NodeResourceTopology yet: %s)",
				dir, content, c, what, s.topoWhy())
		}
		r.Fail("protected-cpu", kind+"/"+where, "%s: cpuset.cpus %q contains CPU %d %s", dir, content, c, what)
	}
	return cpus
}

// checkDerived: the full statement for a cgroup that received the derived set.
func (s *spSim) checkDerived(e *spExp, where, dir, beforeC, afterC string) {
	r := s.r
	r.OracleEval()
	cpus := s.checkSet(e, where, dir, afterC)
	prev := spSize(beforeC)
	tLo, tHi := spMin(e.wLo, prev+e.step), spMin(e.wHi, prev+e.step)
	if len(cpus) > e.wHi {
		r.Fail("size-above-budget", where, "%s: %d CPUs (%s) for a budget of %dm (at most %d)", dir, len(cpus), afterC, e.budget, e.wHi)
	}
	if len(cpus) > prev+e.step {
		r.Fail("step-exceeded", where, "%s: grew from %d to %d CPUs (%s -> %s), step limit %d", dir, prev, len(cpus), beforeC, afterC, e.step)
	}
	if len(e.elig) >= tHi && len(cpus) != tLo && len(cpus) != tHi {
		r.Fail("size-not-exact", where, "%s: %d CPUs (%s), want exactly %d (budget %dm, previous %d, step %d, eligible %d)", dir, len(cpus), afterC, tHi, e.budget, prev, e.step, len(e.elig))
	}
	if len(e.elig) >= tHi {
		r.Probe("derived-exact")
	}
	if tHi < e.wHi {
		r.Probe("step-limit-binds")
	}
}

func (s *spSim) checkRound(e *spExp, before, after map[string]string, quotaBefore, quotaAfter int64) {
	r := s.r
	root := filepath.Clean(s.beRel)
	dirs := make([]string, 0, len(after))
	for d := range after {
		dirs = append(dirs, d)
	}
	sort.Strings(dirs)
	where := func(d string) string { return []string{"root", "pod", "container"}[s.depth(d)] }
	failed := func(d string) bool { return s.failed[d+"/"+system.CPUSetCPUSName] }

	// 1. whatever the agent wrote this round is made of existing CPUs that the node's objects do not declare protected
	//    (LSE-owned, node-reserved, system-QoS exclusive) - whether or not the agent has observed those objects yet.
	//    "Wrote": the file differs from before the round, or the agent's last write to it in this round went through (a
	//    fresh incarnation rewrites everything, also with the value the file already had).
	for _, d := range dirs {
		b, had := before[d]
		if !had || failed(d) || s.appeared[d] || (b == after[d] && !s.wrote[d]) {
			continue
		}
		r.OracleEval()
		if !e.topoSeen {
			r.Probe("cpuset-written-before-topo-delivered")
		}
		s.checkSet(e, where(d), d, after[d])
	}
	if !e.acts {
		if len(s.journal) == 0 {
			r.Probe("round-no-writes")
		}
		return
	}
	if s.readFailed {
		return // the agent could not read its own previous state this round
	}
	applied := false
	if (e.mode == "cpuset-none" || e.mode == "cpuset-static") && len(e.elig) == 0 {
		// Every CPU is LSE-owned, node-reserved or system-QoS exclusive. A BE cgroup cannot have an empty cpuset, so the
		// exclusion and size clauses are unsatisfiable for this round: the statement only demands that the agent does not
		// crash (a panic in suppressBECPU above is still reported) and whatever it did write was checked in step 1.
		// Nothing is carried over: the next round with an eligible CPU is checked in full against the files as they are.
		r.Probe("skip:no-eligible-cpu-round")
		return
	}
	switch e.mode {
	case "cpuset-none":
		if _, ok := after[root]; ok && !failed(root) {
			s.checkDerived(e, "root", root, before[root], after[root])
			applied = len(e.elig) >= spMin(e.wHi, spSize(before[root])+e.step)
		}
	case "cpuset-static":
		applied = len(e.elig) >= spMin(e.wHi, spSize(before[root])+e.step)
		for _, c := range s.dirsAtDepth(after, 2) {
			if _, had := before[c]; !had || failed(c) || s.appeared[c] || failed(filepath.Dir(c)) || failed(root) {
				continue
			}
			s.checkDerived(e, "container", c, before[c], after[c])
			r.Probe("static-container-checked")
		}
	case "quota":
		s.checkQuota(e, quotaBefore, quotaAfter)
		applied = e.topoSeen // the cpusets are recovered to the unprotected CPUs only once the topology is known
		if !e.topoSeen {
			r.Probe("quota-checked-before-topo-delivered")
		}
	}
	// 2. children within parents once a fault-free round applied a set
	if applied && s.roundFaults == 0 {
		r.OracleEval()
		for _, d := range dirs {
			if d == root || s.appeared[d] {
				continue
			}
			if _, had := before[d]; !had {
				continue
			}
			par := filepath.Dir(d)
			pc, ok1 := spParseCPUs(after[par])
			cc, ok2 := spParseCPUs(after[d])
			if !ok1 || !ok2 {
				r.Fail("cpuset-malformed", where(d), "%s: %q / parent %q", d, after[d], after[par])
			}
			ps := spSet(pc)
			for _, c := range cc {
				if !ps[c] {
					r.Fail("child-outside-parent", where(d), "%s has cpuset %q, its parent %q (CPU %d is not in the parent)", d, after[d], after[par], c)
				}
			}
		}
		r.Probe("hierarchy-checked")
	}
}

func (s *spSim) checkQuota(e *spExp, prev, got int64) {
	r := s.r
	r.OracleEval()
	if s.failed[filepath.Clean(s.beRel)+"/"+system.CPUCFSQuotaName] && got == prev {
		return
	}
	capCores := int64(s.n)
	stepQ := capCores * spCFSPeriodUs / 10
	band := capCores * spCFSPeriodUs / 100
	for b := e.budget; b <= e.budget+e.tol; b++ {
		t := spQuotaTarget(b)
		switch {
		case got == t:
			r.Probe("quota-exact")
			return
		case prev >= 0 && t-prev > stepQ && got == prev+stepQ:
			r.Probe("quota-step-limited")
			return
		case prev >= 0 && t != spMinQuotaUs && got == prev && t-prev <= band && prev-t <= band:
			r.Probe("quota-within-deadband")
			return
		}
	}
	t := spQuotaTarget(e.budget)
	detail := "mismatch"
	if got == -1 {
		detail = "unlimited"
	} else if got > t && got > prev {
		detail = "above-budget"
	}
	r.Fail("quota", detail, "BE cpu.cfs_quota_us is %d after the round (was %d); budget %dm x period %dus floored by %dus gives %d (step limit %d, dead band %d)",
		got, prev, e.budget, spCFSPeriodUs, spMinQuotaUs, t, stepQ, band)
}

var _ = corev1.PodQOSBestEffort
var _ sim.Engine = spEngine{}
