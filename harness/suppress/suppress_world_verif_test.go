//go:build verif

package cpusuppress

// World model, hand-written fakes (StatesInformer, MetricCache honouring the query time window),
// the kubelet/runtime stub that creates and removes cgroup directories, and the seam around the
// real cgroup update functions (fault injection + write journal).

import (
	"fmt"
	"os"
	"path/filepath"
	"sort"
	"strconv"
	"strings"
	"sync"
	"time"

	topov1alpha1 "github.com/k8stopologyawareschedwg/noderesourcetopology-api/pkg/apis/topology/v1alpha1"
	"github.com/prometheus/prometheus/model/labels"
	promstorage "github.com/prometheus/prometheus/storage"
	"github.com/prometheus/prometheus/tsdb/chunkenc"
	corev1 "k8s.io/api/core/v1"
	"k8s.io/apimachinery/pkg/api/resource"
	metav1 "k8s.io/apimachinery/pkg/apis/meta/v1"
	"k8s.io/apimachinery/pkg/types"

	apiext "github.com/koordinator-sh/koordinator/apis/extension"
	slov1alpha1 "github.com/koordinator-sh/koordinator/apis/slo/v1alpha1"
	"github.com/koordinator-sh/koordinator/pkg/koordlet/metriccache"
	"github.com/koordinator-sh/koordinator/pkg/koordlet/resourceexecutor"
	"github.com/koordinator-sh/koordinator/pkg/koordlet/statesinformer"
	koordletutil "github.com/koordinator-sh/koordinator/pkg/koordlet/util"
	"github.com/koordinator-sh/koordinator/pkg/koordlet/util/system"
	utilcache "github.com/koordinator-sh/koordinator/pkg/util/cache"
	"github.com/koordinator-sh/koordinator/pkg/util/cpuset"
	sim "github.com/koordinator-sh/koordinator/pkg/verifsim"
)

type spPod struct {
	id      int
	uid     string
	qos     string
	kube    string
	cpus    []int
	badAnno bool
	term    bool // graceful deletion started (deletionTimestamp set); the pod still runs on its CPUs until it is removed
	nc      int
	use     int64
	hasDir  bool
	hadDir  bool // its cgroup existed once: a removed pod cgroup (terminated pod) never comes back under the same path
	visible bool // reported by the informer
	obj     *corev1.Pod
	meta    *statesinformer.PodMeta
}

type spSample struct {
	ts    int64
	milli int64
}

type spWrite struct {
	dir   string // cgroup parent dir (relative)
	file  string
	value string
	err   string
}

type spSim struct {
	r    *sim.Run
	cfg  spCfg
	root string
	n    int
	ids  []int
	isID map[int]bool

	slo      spSLO
	kubelet  string
	reserve  spReserve
	sysqos   spSysQoS
	hostApps []spHostApp
	sysUse   int64
	pods     map[int]*spPod
	ghosts   int             // counter of BE cgroup dirs of pods the informer never reported
	off      map[string]bool // informer objects currently unavailable
	topoLag  int             // rounds for which this agent incarnation has not received the NodeResourceTopology yet

	samples map[string][]spSample
	kNode   string
	inf     *spInformer
	mc      *spMetricCache
	cs      *CPUSuppress
	stop    chan struct{}

	beRel   string // BE qos dir relative to the subsystem root
	roundNo int

	inRound     bool
	journal     []spWrite
	failed      map[string]bool // dir/file -> a write to it failed in this round
	wrote       map[string]bool // dir -> the agent's last cpuset.cpus write to it in this round succeeded
	appeared    map[string]bool // dir -> created by the kubelet stub during this round
	roundFaults int
	readFailed  bool

	saveRoot    string
	saveV2      bool
	saveFmt     system.Formatter
	saveFactory resourceexecutor.ResourceUpdaterFactory
}

// ---------------------------------------------------------------- small helpers

func spFmtCPUs(cpus []int, ranges bool) string {
	c := append([]int(nil), cpus...)
	sort.Ints(c)
	var parts []string
	for i := 0; i < len(c); {
		j := i
		if ranges {
			for j+1 < len(c) && c[j+1] == c[j]+1 {
				j++
			}
		}
		if j > i {
			parts = append(parts, fmt.Sprintf("%d-%d", c[i], c[j]))
		} else {
			parts = append(parts, strconv.Itoa(c[i]))
		}
		i = j + 1
	}
	return strings.Join(parts, ",")
}

// spParseCPUs is the oracle's own parser of a Linux CPU list ("0-3,5").
func spParseCPUs(s string) ([]int, bool) {
	s = strings.TrimSpace(s)
	if s == "" {
		return nil, true
	}
	seen := map[int]bool{}
	var out []int
	for _, part := range strings.Split(s, ",") {
		b := strings.Split(part, "-")
		lo, err := strconv.Atoi(b[0])
		if err != nil || len(b) > 2 {
			return nil, false
		}
		hi := lo
		if len(b) == 2 {
			if hi, err = strconv.Atoi(b[1]); err != nil {
				return nil, false
			}
		}
		for c := lo; c <= hi; c++ {
			if seen[c] {
				return nil, false // a CPU listed twice is not a list of distinct CPUs
			}
			seen[c] = true
			out = append(out, c)
		}
	}
	sort.Ints(out)
	return out, true
}

func spSet(xs []int) map[int]bool {
	m := make(map[int]bool, len(xs))
	for _, x := range xs {
		m[x] = true
	}
	return m
}

func spSeriesKey(kind string, props map[string]string) string {
	ks := make([]string, 0, len(props))
	for k := range props {
		ks = append(ks, k)
	}
	sort.Strings(ks)
	var sb strings.Builder
	sb.WriteString(kind)
	for _, k := range ks {
		sb.WriteString("|" + k + "=" + props[k])
	}
	return sb.String()
}

func spMetaKey(res metriccache.MetricResource, props map[metriccache.MetricProperty]string) string {
	m, err := res.BuildQueryMeta(props)
	if err != nil {
		panic(fmt.Sprintf("suppress harness: query meta: %v", err))
	}
	return spSeriesKey(m.GetKind(), m.GetProperties())
}

// ---------------------------------------------------------------- set-up / tear-down

func spNewSim(r *sim.Run) *spSim {
	s := &spSim{r: r, pods: map[int]*spPod{}, off: map[string]bool{}, samples: map[string][]spSample{},
		failed: map[string]bool{}, appeared: map[string]bool{}, wrote: map[string]bool{}}
	r.Plan.GetCfg(&s.cfg)
	s.n = len(s.cfg.Procs)
	for _, p := range s.cfg.Procs {
		s.ids = append(s.ids, int(p.CPU))
	}
	sort.Ints(s.ids)
	s.isID = spSet(s.ids)
	s.slo, s.kubelet, s.reserve, s.sysqos, s.sysUse = s.cfg.Slo, s.cfg.Kubelet, s.cfg.Reserve, s.cfg.SysQoS, s.cfg.SysUse
	s.hostApps = append([]spHostApp(nil), s.cfg.HostApps...)
	return s
}

// spTmpBase: the private cgroup roots live on tmpfs when the machine has one (cgroupfs itself is memory backed; the
// runs are dominated by small-file syscalls), else under $TMPDIR. Roots left behind by killed workers are swept once.
var spTmpBaseOnce sync.Once
var spTmpBase string

func spTempBase() string {
	spTmpBaseOnce.Do(func() {
		if st, err := os.Stat("/dev/shm"); err == nil && st.IsDir() {
			if d, err := os.MkdirTemp("/dev/shm", "verif-suppress-probe-"); err == nil {
				_ = os.Remove(d)
				spTmpBase = "/dev/shm"
			}
		}
		if spTmpBase == "" {
			return
		}
		ents, _ := os.ReadDir(spTmpBase)
		for _, e := range ents {
			parts := strings.Split(e.Name(), "-")
			if len(parts) < 4 || parts[0] != "verif" || parts[1] != "suppress" {
				continue
			}
			if pid, err := strconv.Atoi(parts[2]); err == nil && pid != os.Getpid() {
				if _, err := os.Stat(fmt.Sprintf("/proc/%d", pid)); os.IsNotExist(err) {
					_ = os.RemoveAll(filepath.Join(spTmpBase, e.Name()))
				}
			}
		}
	})
	return spTmpBase
}

func (s *spSim) setup() {
	root, err := os.MkdirTemp(spTempBase(), fmt.Sprintf("verif-suppress-%d-", os.Getpid()))
	if err != nil {
		s.r.HarnessFail("mkdtemp: %v", err)
	}
	s.root = root
	s.saveRoot, s.saveV2, s.saveFmt = system.Conf.CgroupRootDir, system.UseCgroupsV2.Load(), system.CgroupPathFormatter
	s.saveFactory = resourceexecutor.DefaultCgroupUpdaterFactory
	system.Conf.CgroupRootDir = root
	system.UseCgroupsV2.Store(false)
	if s.cfg.Driver == "cgroupfs" {
		system.SetupCgroupPathFormatter(system.Cgroupfs)
	} else {
		system.SetupCgroupPathFormatter(system.Systemd)
	}
	// same registrations as resourceexecutor's init() for the two files the plugin writes, with the real update
	// functions wrapped by the fault/journal seam
	f := resourceexecutor.NewCgroupUpdaterFactory()
	f.Register(resourceexecutor.NewMergeableCgroupUpdaterWithConditionFunc(s.hook(resourceexecutor.CommonCgroupUpdateFunc),
		resourceexecutor.MergeConditionIfCPUSetIsLooser), system.CPUSetCPUSName)
	f.Register(resourceexecutor.NewMergeableCgroupUpdaterWithConditionFunc(s.hook(resourceexecutor.CgroupUpdateWithUnlimitedFunc),
		resourceexecutor.MergeConditionIfCFSQuotaIsLarger), system.CPUCFSQuotaName)
	resourceexecutor.DefaultCgroupUpdaterFactory = f

	s.beRel = koordletutil.GetPodQoSRelativePath(corev1.PodQOSBestEffort)
	all := spFmtCPUs(s.ids, true)
	s.writeFile(system.CPUSet.Path(filepath.Dir(s.beRel)), all)
	s.writeFile(system.CPUSet.Path(s.beRel), spFmtCPUs(s.cfg.InitBE, true))
	s.writeFile(system.CPUCFSQuota.Path(s.beRel), strconv.FormatInt(s.cfg.InitQuota, 10))
	s.writeFile(system.CPUCFSPeriod.Path(s.beRel), "100000")

	s.kNode = spMetaKey(metriccache.NodeCPUUsageMetric, nil)
	s.inf = &spInformer{s: s}
	s.mc = &spMetricCache{s: s, kv: map[interface{}]interface{}{}}
	info := &metriccache.NodeCPUInfo{}
	for _, p := range s.cfg.Procs {
		info.ProcessorInfos = append(info.ProcessorInfos, koordletutil.ProcessorInfo{CPUID: p.CPU, CoreID: p.Core, SocketID: p.Socket, NodeID: p.Node})
	}
	s.mc.kv[metriccache.NodeCPUInfoKey] = info
	time.Sleep(137 * time.Millisecond) // rounds never coincide with the cache GC ticks of the executor
	// the cgroup files above are what an earlier agent incarnation left behind; this one may start before its informer
	// has the NodeResourceTopology
	if s.cfg.StartLag > 0 {
		s.topoLag = s.cfg.StartLag
	}
	s.newAgent()
}

func (s *spSim) teardown() {
	if s.stop != nil {
		close(s.stop)
		s.stop = nil
	}
	if s.saveFactory != nil {
		resourceexecutor.DefaultCgroupUpdaterFactory = s.saveFactory
		system.Conf.CgroupRootDir = s.saveRoot
		system.UseCgroupsV2.Store(s.saveV2)
		system.CgroupPathFormatter = s.saveFmt
	}
	if s.root != "" {
		_ = os.RemoveAll(s.root)
	}
}

// newAgent constructs a fresh plugin instance the way New() does, with a fresh executor (empty cache) instead of
// the process-wide singleton, and runs the real init (executor cache GC goroutine inside the bubble).
func (s *spSim) newAgent() {
	if s.stop != nil {
		close(s.stop)
		time.Sleep(13 * time.Millisecond)
	}
	s.stop = make(chan struct{})
	s.cs = &CPUSuppress{
		interval:              time.Duration(s.cfg.IntervalS) * time.Second,
		metricCollectInterval: time.Duration(s.cfg.CollectMs) * time.Millisecond,
		statesInformer:        s.inf,
		metricCache:           s.mc,
		executor: &resourceexecutor.ResourceUpdateExecutorImpl{ResourceCache: utilcache.NewCacheDefault(),
			Config: &resourceexecutor.Config{ResourceForceUpdateSeconds: s.cfg.ForceS}},
		cgroupReader:           &spReader{CgroupReader: resourceexecutor.NewCgroupReader(), s: s},
		suppressPolicyStatuses: map[string]suppressPolicyStatus{},
	}
	s.cs.init(s.stop)
	time.Sleep(7 * time.Millisecond)
}

// ---------------------------------------------------------------- disk (kubelet / runtime stub)

func (s *spSim) writeFile(path, content string) {
	if err := os.MkdirAll(filepath.Dir(path), 0o755); err != nil {
		s.r.HarnessFail("mkdir: %v", err)
	}
	if err := os.WriteFile(path, []byte(content), 0o644); err != nil {
		s.r.HarnessFail("write: %v", err)
	}
}

func (s *spSim) readCPUSetFile(dir string) (string, bool) {
	b, err := os.ReadFile(system.CPUSet.Path(dir))
	if err != nil {
		return "", false
	}
	return strings.TrimSpace(string(b)), true
}

func (s *spSim) readQuota() (int64, bool) {
	b, err := os.ReadFile(system.CPUCFSQuota.Path(s.beRel))
	if err != nil {
		return 0, false
	}
	v, err := strconv.ParseInt(strings.TrimSpace(string(b)), 10, 64)
	return v, err == nil
}

func (s *spSim) containerIDs(p *spPod) []string {
	ids := []string{fmt.Sprintf("containerd://sandbox%d", p.id)}
	for i := 0; i < p.nc; i++ {
		ids = append(ids, fmt.Sprintf("containerd://c%dx%d", p.id, i))
	}
	return ids
}

// mkPodDirs: the kubelet/runtime creates the pod and container cpuset cgroups; a new cpuset cgroup starts with its
// parent's CPUs.
func (s *spSim) mkPodDirs(podRel string, cids []string) {
	parent, _ := s.readCPUSetFile(s.beRel)
	s.writeFile(system.CPUSet.Path(podRel), parent)
	if s.inRound {
		s.appeared[filepath.Clean(podRel)] = true
	}
	for _, cid := range cids {
		cdir, err := koordletutil.GetContainerCgroupParentDirByID(podRel, cid)
		if err != nil {
			s.r.HarnessFail("container dir: %v", err)
		}
		s.writeFile(system.CPUSet.Path(cdir), parent)
		if s.inRound {
			s.appeared[filepath.Clean(cdir)] = true
		}
	}
}

func (s *spSim) rmPodDirs(podRel string) {
	_ = os.RemoveAll(filepath.Dir(system.CPUSet.Path(podRel)))
}

// snapshot returns dir (relative, cleaned) -> cpuset.cpus content for the BE tree (root, pods, containers).
func (s *spSim) snapshot() map[string]string {
	out := map[string]string{}
	var walk func(rel string, depth int)
	walk = func(rel string, depth int) {
		if c, ok := s.readCPUSetFile(rel); ok {
			out[filepath.Clean(rel)] = c
		}
		if depth >= 2 {
			return
		}
		ents, err := os.ReadDir(filepath.Dir(system.CPUSet.Path(rel)))
		if err != nil {
			return
		}
		for _, e := range ents {
			if e.IsDir() {
				walk(filepath.Join(rel, e.Name()), depth+1)
			}
		}
	}
	walk(s.beRel, 0)
	return out
}

func (s *spSim) depth(dir string) int {
	rel, err := filepath.Rel(filepath.Clean(s.beRel), dir)
	if err != nil || rel == "." {
		return 0
	}
	return strings.Count(rel, string(os.PathSeparator)) + 1
}

// bePodDirs lists the pod-level BE cgroup dirs currently on disk (sorted).
func (s *spSim) bePodDirs() []string {
	var out []string
	for d := range s.snapshot() {
		if s.depth(d) == 1 {
			out = append(out, d)
		}
	}
	sort.Strings(out)
	return out
}

// ---------------------------------------------------------------- the seam around the real update functions

func (s *spSim) hook(real resourceexecutor.UpdateFunc) resourceexecutor.UpdateFunc {
	return func(u resourceexecutor.ResourceUpdater) error {
		r := s.r
		path := u.Path()
		dir := filepath.Clean(strings.TrimSuffix(strings.TrimPrefix(filepath.Dir(path), filepath.Join(s.root, "cpuset")+"/"), "/"))
		file := filepath.Base(path)
		if file != system.CPUSetCPUSName {
			dir = filepath.Clean(s.beRel)
		}
		switch r.Fault("cgroup-write", "write-error", "dir-vanish", "dir-appear") {
		case "write-error":
			s.roundFaults++
			s.failed[dir+"/"+file] = true
			if file == system.CPUSetCPUSName {
				s.wrote[dir] = false
			}
			s.journal = append(s.journal, spWrite{dir, file, u.Value(), "injected"})
			r.Event("write %s/%s=%s injected-error", dir, file, u.Value())
			r.Probe("fault-write-error")
			return fmt.Errorf("write %s: input/output error (injected)", file)
		case "dir-vanish":
			if pd := s.bePodDirs(); len(pd) > 0 {
				d := pd[r.Choose(len(pd))]
				s.rmPodDirs(d)
				for _, p := range s.pods {
					if p.hasDir && filepath.Clean(koordletutil.GetPodCgroupParentDir(p.obj)) == d {
						p.hasDir = false
					}
				}
				s.roundFaults++
				r.Event("mid-round: BE pod dir %s vanished", d)
				r.Probe("fault-dir-vanish")
			}
		case "dir-appear":
			s.roundFaults++
			s.appearDir()
			r.Probe("fault-dir-appear")
		}
		err := real(u)
		es := ""
		if err != nil {
			es = "err"
			if !resourceexecutor.IsCgroupDirErr(err) {
				s.failed[dir+"/"+file] = true
			}
		}
		if file == system.CPUSetCPUSName {
			s.wrote[dir] = err == nil
		}
		s.journal = append(s.journal, spWrite{dir, file, u.Value(), es})
		r.Event("write %s/%s=%s %s", dir, file, u.Value(), es)
		return err
	}
}

// appearDir: a BE pod cgroup appears: of a visible pod whose dir was late, or of a pod the informer has not reported yet.
func (s *spSim) appearDir() {
	for _, id := range s.podIDs() {
		p := s.pods[id]
		if p.kube == "BestEffort" && !p.hasDir && !p.hadDir && p.visible {
			s.mkPodDirs(p.meta.CgroupDir, s.containerIDs(p))
			p.hasDir, p.hadDir = true, true
			s.r.Event("BE pod dir of pod %d appeared", p.id)
			return
		}
	}
	s.ghosts++
	g := &corev1.Pod{ObjectMeta: metav1.ObjectMeta{UID: types.UID(fmt.Sprintf("ghost%d", s.ghosts))}, Status: corev1.PodStatus{QOSClass: corev1.PodQOSBestEffort}}
	s.mkPodDirs(koordletutil.GetPodCgroupParentDir(g), []string{fmt.Sprintf("containerd://g%d", s.ghosts)})
	s.r.Event("BE pod dir of unreported pod ghost%d appeared", s.ghosts)
}

type spReader struct {
	resourceexecutor.CgroupReader
	s *spSim
}

func (rd *spReader) ReadCPUSet(parentDir string) (*cpuset.CPUSet, error) {
	if rd.s.r.Fault("cgroup-read", "read-error") != "" {
		rd.s.roundFaults++
		rd.s.readFailed = true
		rd.s.r.Probe("fault-read-error")
		return nil, fmt.Errorf("read cpuset.cpus: input/output error (injected)")
	}
	return rd.CgroupReader.ReadCPUSet(parentDir)
}

func (rd *spReader) ReadCPUQuota(parentDir string) (int64, error) {
	if rd.s.r.Fault("cgroup-read", "read-error") != "" {
		rd.s.roundFaults++
		rd.s.readFailed = true
		rd.s.r.Probe("fault-read-error")
		return -1, fmt.Errorf("read cpu.cfs_quota_us: input/output error (injected)")
	}
	return rd.CgroupReader.ReadCPUQuota(parentDir)
}

// ---------------------------------------------------------------- API objects

func (s *spSim) podIDs() []int {
	ids := make([]int, 0, len(s.pods))
	for id := range s.pods {
		ids = append(ids, id)
	}
	sort.Ints(ids)
	return ids
}

func (s *spSim) reserveAnno() string {
	rv := s.reserve
	if rv.Bad == 2 {
		return `{"reservedCPUs":`
	}
	var parts []string
	if rv.Milli > 0 {
		parts = append(parts, fmt.Sprintf(`"resources":{"cpu":"%dm"}`, rv.Milli))
	}
	if rv.Bad == 1 {
		parts = append(parts, `"reservedCPUs":"0-x"`)
	} else if len(rv.CPUs) > 0 {
		parts = append(parts, fmt.Sprintf(`"reservedCPUs":"%s"`, spFmtCPUs(rv.CPUs, len(rv.CPUs)%2 == 0)))
	}
	if len(parts) == 0 {
		return ""
	}
	return "{" + strings.Join(parts, ",") + "}"
}

func (s *spSim) nodeObj() *corev1.Node {
	node := &corev1.Node{ObjectMeta: metav1.ObjectMeta{Name: "n0", Annotations: map[string]string{}}}
	node.Status.Capacity = corev1.ResourceList{
		corev1.ResourceCPU:    *resource.NewQuantity(int64(s.n), resource.DecimalSI),
		corev1.ResourceMemory: resource.MustParse("64Gi"),
	}
	node.Status.Allocatable = corev1.ResourceList{
		corev1.ResourceCPU:    *resource.NewMilliQuantity(int64(s.n)*1000-s.cfg.KubeletRes, resource.DecimalSI),
		corev1.ResourceMemory: resource.MustParse("64Gi"),
	}
	if a := s.reserveAnno(); a != "" {
		node.Annotations[apiext.AnnotationNodeReservation] = a
	}
	return node
}

func (s *spSim) topoObj() *topov1alpha1.NodeResourceTopology {
	t := &topov1alpha1.NodeResourceTopology{ObjectMeta: metav1.ObjectMeta{Name: "n0", Annotations: map[string]string{}}}
	if a := s.reserveAnno(); a != "" {
		t.Annotations[apiext.AnnotationNodeReservation] = a
	}
	sq := s.sysqos
	switch {
	case sq.Bad == 2:
		t.Annotations[apiext.AnnotationNodeSystemQOSResource] = `{"cpuset":`
	case sq.Bad == 1 || len(sq.CPUs) > 0:
		cs := "3-z"
		if sq.Bad == 0 {
			cs = spFmtCPUs(sq.CPUs, len(sq.CPUs)%2 == 1)
		}
		a := fmt.Sprintf(`{"cpuset":"%s"`, cs)
		if sq.Excl == 1 {
			a += `,"cpusetExclusive":true`
		} else if sq.Excl == 2 {
			a += `,"cpusetExclusive":false`
		}
		t.Annotations[apiext.AnnotationNodeSystemQOSResource] = a + "}"
	}
	if s.kubelet != "" {
		t.Annotations[apiext.AnnotationKubeletCPUManagerPolicy] = fmt.Sprintf(`{"policy":"%s"}`, s.kubelet)
	}
	return t
}

func (s *spSim) sloObj() *slov1alpha1.NodeSLO {
	thr := s.slo.Thr
	en := s.slo.Enable
	st := &slov1alpha1.ResourceThresholdStrategy{Enable: &en, CPUSuppressThresholdPercent: &thr,
		CPUSuppressPolicy: slov1alpha1.CPUSuppressPolicy(s.slo.Policy)}
	if s.slo.Min >= 0 {
		m := s.slo.Min
		st.CPUSuppressMinPercent = &m
	}
	o := &slov1alpha1.NodeSLO{ObjectMeta: metav1.ObjectMeta{Name: "n0"}}
	o.Spec.ResourceUsedThresholdWithBE = st
	for _, h := range s.hostApps {
		ha := slov1alpha1.HostApplicationSpec{Name: h.Name, QoS: apiext.QoSClass(h.QoS)}
		if h.UnderBE {
			ha.CgroupPath = &slov1alpha1.CgroupPath{Base: slov1alpha1.CgroupBaseTypeKubeBesteffort, RelativePath: h.Name}
		}
		o.Spec.HostApplications = append(o.Spec.HostApplications, ha)
	}
	return o
}

func (s *spSim) buildPod(p *spPod) {
	pod := &corev1.Pod{ObjectMeta: metav1.ObjectMeta{Name: fmt.Sprintf("pod%d", p.id), Namespace: "default", UID: types.UID(p.uid),
		Labels: map[string]string{}, Annotations: map[string]string{}}}
	if p.qos != "" {
		pod.Labels[apiext.LabelPodQoS] = p.qos
	}
	if p.badAnno {
		pod.Annotations[apiext.AnnotationResourceStatus] = `{"cpuset":`
	} else if len(p.cpus) > 0 {
		pod.Annotations[apiext.AnnotationResourceStatus] = fmt.Sprintf(`{"cpuset":"%s"}`, spFmtCPUs(p.cpus, p.id%2 == 0))
	}
	pod.Status.Phase = corev1.PodRunning
	pod.Status.QOSClass = corev1.PodQOSClass(p.kube)
	for i, cid := range s.containerIDs(p)[1:] {
		pod.Spec.Containers = append(pod.Spec.Containers, corev1.Container{Name: fmt.Sprintf("c%d", i)})
		pod.Status.ContainerStatuses = append(pod.Status.ContainerStatuses, corev1.ContainerStatus{Name: fmt.Sprintf("c%d", i), ContainerID: cid})
	}
	p.obj = pod
	p.meta = &statesinformer.PodMeta{Pod: pod, CgroupDir: koordletutil.GetPodCgroupParentDir(pod)}
}

// markTerminating: the API server has accepted a graceful delete; kubelet (and therefore the agent's pod list) keeps the pod,
// with its containers and CPU allocation, until the grace period is over (modelled by the later pod_del).
func (s *spSim) markTerminating(p *spPod) {
	p.term = true
	now := metav1.NewTime(time.Now())
	grace := int64(30)
	p.obj.DeletionTimestamp = &now
	p.obj.DeletionGracePeriodSeconds = &grace
}

// ---------------------------------------------------------------- fake StatesInformer

// topoSeen: the agent's informer holds the NodeResourceTopology. The object itself (topoObj: reservation, system-QoS and
// kubelet-policy annotations) always exists in the simulated API; what varies is whether this agent incarnation has
// received it: not while the informer object is unavailable, and not in the first rounds after a (re)start whose topology
// delivery lags (the real informer plugin answers nil until its first successful report cycle after the start).
func (s *spSim) topoSeen() bool { return !s.off["topo"] && s.topoLag == 0 }

type spInformer struct{ s *spSim }

func (i *spInformer) Run(<-chan struct{}) error { return nil }
func (i *spInformer) HasSynced() bool           { return true }
func (i *spInformer) GetNode() *corev1.Node {
	if i.s.off["node"] {
		return nil
	}
	return i.s.nodeObj()
}
func (i *spInformer) GetNodeSLO() *slov1alpha1.NodeSLO {
	if i.s.off["slo"] {
		return nil
	}
	return i.s.sloObj()
}
func (i *spInformer) GetNodeMetricSpec() *slov1alpha1.NodeMetricSpec { return nil }
func (i *spInformer) GetAllPods() []*statesinformer.PodMeta {
	if i.s.off["pods"] {
		return nil
	}
	var out []*statesinformer.PodMeta
	for _, id := range i.s.podIDs() {
		if p := i.s.pods[id]; p.visible {
			out = append(out, p.meta)
		}
	}
	return out
}
func (i *spInformer) GetNodeTopo() *topov1alpha1.NodeResourceTopology {
	if !i.s.topoSeen() {
		return nil
	}
	return i.s.topoObj()
}
func (i *spInformer) GetVolumeName(string, string) string { return "" }
func (i *spInformer) RegisterCallbacks(statesinformer.RegisterType, string, string, statesinformer.UpdateCbFn) {
}

// ---------------------------------------------------------------- fake MetricCache

type spMetricCache struct {
	s  *spSim
	kv map[interface{}]interface{}
}

type spAppender struct{}

func (spAppender) Append([]metriccache.MetricSample) error { return nil }
func (spAppender) Commit() error                           { return nil }

func (m *spMetricCache) Run(<-chan struct{}) error      { return nil }
func (m *spMetricCache) Appender() metriccache.Appender { return spAppender{} }
func (m *spMetricCache) Close() error                   { return nil }
func (m *spMetricCache) Set(key, value interface{})     { m.kv[key] = value }
func (m *spMetricCache) Get(key interface{}) (interface{}, bool) {
	if key == metriccache.NodeCPUInfoKey && m.s.off["cpuinfo"] {
		return nil, false
	}
	v, ok := m.kv[key]
	return v, ok
}
func (m *spMetricCache) Querier(start, end time.Time) (metriccache.Querier, error) {
	return &spQuerier{s: m.s, start: start.UnixMilli(), end: end.UnixMilli()}, nil
}

// spQuerier serves exactly the samples whose timestamp lies in [start, end] (milliseconds, both inclusive), as the TSDB does.
type spQuerier struct {
	s          *spSim
	start, end int64
}

func (q *spQuerier) Query(meta metriccache.MetricMeta, _ *metriccache.QueryHints, result metriccache.MetricResult) error {
	var ts []int64
	var vs []float64
	for _, sm := range q.s.samples[spSeriesKey(meta.GetKind(), meta.GetProperties())] {
		if sm.ts >= q.start && sm.ts <= q.end {
			ts = append(ts, sm.ts)
			vs = append(vs, float64(sm.milli)/1000)
		}
	}
	if len(ts) == 0 {
		return nil
	}
	lbl := map[string]string{"__name__": meta.GetKind()}
	for k, v := range meta.GetProperties() {
		lbl[k] = v
	}
	return result.AddSeries(&spSeries{lbls: labels.FromMap(lbl), ts: ts, vs: vs})
}
func (q *spQuerier) QueryAndClose(meta metriccache.MetricMeta, h *metriccache.QueryHints, result metriccache.MetricResult) error {
	return q.Query(meta, h, result)
}
func (q *spQuerier) Close() {}

type spSeries struct {
	lbls labels.Labels
	ts   []int64
	vs   []float64
}

var _ promstorage.Series = &spSeries{}

func (s *spSeries) Labels() labels.Labels       { return s.lbls }
func (s *spSeries) Iterator() chunkenc.Iterator { return &spIter{s: s, i: -1} }

type spIter struct {
	s *spSeries
	i int
}

func (it *spIter) Next() bool { it.i++; return it.i < len(it.s.ts) }
func (it *spIter) Seek(t int64) bool {
	for it.i < 0 || (it.i < len(it.s.ts) && it.s.ts[it.i] < t) {
		it.i++
	}
	return it.i < len(it.s.ts)
}
func (it *spIter) At() (int64, float64) { return it.s.ts[it.i], it.s.vs[it.i] }
func (it *spIter) Err() error           { return nil }

// ---------------------------------------------------------------- metric collector stub

func (s *spSim) addSample(key string, milli int64) {
	xs := append(s.samples[key], spSample{ts: time.Now().UnixMilli(), milli: milli})
	if len(xs) > 16 {
		xs = xs[len(xs)-16:]
	}
	s.samples[key] = xs
}

func (s *spSim) podKey(p *spPod) string {
	return spMetaKey(metriccache.PodCPUUsageMetric, metriccache.MetricPropertiesFunc.Pod(p.uid))
}

func (s *spSim) hostKey(name string) string {
	return spMetaKey(metriccache.HostAppCPUUsageMetric, metriccache.MetricPropertiesFunc.HostApplication(name))
}

// collect: one tick of the metric collectors at the current simulated time (what the round's Miss mask leaves out is a collector gap).
func (s *spSim) collect(op *spOp) {
	var total int64
	for _, id := range s.podIDs() {
		p := s.pods[id]
		if !p.visible {
			continue
		}
		total += p.use
		if op.Miss&2 != 0 || (op.Miss&8 != 0 && op.MissPod == id) {
			s.r.Probe("collector-gap-pod")
			continue
		}
		s.addSample(s.podKey(p), p.use)
	}
	for _, h := range s.hostApps {
		total += h.Use
		if op.Miss&4 != 0 {
			s.r.Probe("collector-gap-hostapp")
			continue
		}
		s.addSample(s.hostKey(h.Name), h.Use)
	}
	total += s.sysUse
	if s.cfg.NodeLow {
		total = total / 2
		if s.cfg.Exact {
			total -= total % 125
		}
	}
	if op.Miss&1 != 0 {
		s.r.Probe("collector-gap-node")
		return
	}
	s.addSample(s.kNode, total)
}

// lastInWindow is the oracle's reading of a series: newest sample with now-window <= ts <= now.
func (s *spSim) lastInWindow(key string, now time.Time) (int64, bool) {
	lo := now.Add(-2 * time.Duration(s.cfg.CollectMs) * time.Millisecond).UnixMilli()
	hi := now.UnixMilli()
	var best *spSample
	for i := range s.samples[key] {
		sm := &s.samples[key][i]
		if sm.ts >= lo && sm.ts <= hi && (best == nil || sm.ts > best.ts) {
			best = sm
		}
	}
	if best == nil {
		return 0, false
	}
	return best.milli, true
}
