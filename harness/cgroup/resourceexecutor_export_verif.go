//go:build verif

package resourceexecutor

// Export shim for the /verif engine `cgroupbe` (C12, BE cpuset two-phase rewrite in pkg/koordlet/qosmanager/plugins/cpusuppress).
// ResourceUpdater has an unexported method, so the seam around updater calls can only be defined in this package.
// Only ADDS identifiers; reaches the compiler through `go test -overlay` only.

import (
	"github.com/koordinator-sh/koordinator/pkg/koordlet/audit"
	sysutil "github.com/koordinator-sh/koordinator/pkg/koordlet/util/system"
	"github.com/koordinator-sh/koordinator/pkg/util/cache"
)

// VerifSeam plays the cgroupfs side of one forwarded updater call. It must invoke do() at most once.
type VerifSeam interface {
	Call(w *VerifUpdater, pass string, do func() (ResourceUpdater, error)) (ResourceUpdater, error)
}

// VerifUpdater wraps a real updater; update() and MergeUpdate() are forwarded through the seam.
type VerifUpdater struct {
	ResourceUpdater
	Seam VerifSeam
}

func (w *VerifUpdater) update() error {
	_, err := w.Seam.Call(w, "update", func() (ResourceUpdater, error) { return nil, w.ResourceUpdater.update() })
	return err
}

func (w *VerifUpdater) MergeUpdate() (ResourceUpdater, error) {
	return w.Seam.Call(w, "merge", func() (ResourceUpdater, error) {
		m, err := w.ResourceUpdater.MergeUpdate()
		if m == w.ResourceUpdater {
			m = w
		}
		return m, err
	})
}

func (w *VerifUpdater) Clone() ResourceUpdater {
	return &VerifUpdater{ResourceUpdater: w.ResourceUpdater.Clone(), Seam: w.Seam}
}

// VerifFactory wraps every updater the real factory produces.
type VerifFactory struct {
	Inner ResourceUpdaterFactory
	Seam  VerifSeam
}

func (f *VerifFactory) Register(g NewResourceUpdaterFunc, resourceTypes ...sysutil.ResourceType) {
	f.Inner.Register(g, resourceTypes...)
}

func (f *VerifFactory) New(resourceType sysutil.ResourceType, parentDir string, value string, e *audit.EventHelper) (ResourceUpdater, error) {
	u, err := f.Inner.New(resourceType, parentDir, value, e)
	if err != nil {
		return nil, err
	}
	return &VerifUpdater{ResourceUpdater: u, Seam: f.Seam}, nil
}

// VerifNewExecutor returns a fresh executor with an empty ResourceCache (a restarted agent), already running.
func VerifNewExecutor(forceUpdateSeconds int, stop <-chan struct{}) ResourceUpdateExecutor {
	e := &ResourceUpdateExecutorImpl{
		ResourceCache: cache.NewCacheDefault(),
		Config:        &Config{ResourceForceUpdateSeconds: forceUpdateSeconds},
	}
	e.Run(stop)
	return e
}
