//go:build verif

package cpusuppress

// Engine `cgroupbe` (C12, second path): the best-effort cpuset two-phase rewrite.
//
// Real code in the loop: CPUSuppress.applyBESuppressCPUSet (dispatch on the kubelet cpu manager policy reported in the
// NodeResourceTopology annotation: none -> applyCPUSetWithNonePolicy; static -> recoverCPUSetIfNeed(pod depth) +
// applyCPUSetWithStaticPolicy, with the real calcBECPUSet) -> writeBECgroupsCPUSet -> ResourceUpdateExecutorImpl.UpdateBatch
// (cacheable) -> updateByCache/needUpdate/ResourceCache -> the cpuset updater -> cgroupFileWriteIfDifferent on a private
// temp cgroup root (cgroup v1 and v2 layouts), koordletutil.GetBECPUSetPathsByMaxDepth (directory walk), and the real
// CgroupReader.ReadCPUSet for the "old" CPU set (as adjustByCPUSet reads it from the BE root cgroup).
// Stub: the kernel (file formatting, cpuset.cpus.effective on v2, parent/child rule) through the seam exported by
// resourceexecutor/zz_verif_export.go.
//
// Crash axis = enumeration: every prefix of the uninterrupted round's write sequence is put back on disk and a fresh
// agent (new CPUSuppress, new executor with an empty ResourceCache) repeats the round with the same target.
//
// Cgroup churn between rounds: BE pod / container cgroups that do not exist at the start are created by the runtime between
// two rounds (holding the parent's CPU set or a subset of it), others are removed (a removed path never comes back). The
// set of directories is fixed during a round. Everything is stated over the cgroups that exist.

import (
	"encoding/json"
	"fmt"
	"os"
	"path/filepath"
	"strconv"
	"strings"
	"testing"
	"testing/synctest"
	"time"

	topov1alpha1 "github.com/k8stopologyawareschedwg/noderesourcetopology-api/pkg/apis/topology/v1alpha1"
	corev1 "k8s.io/api/core/v1"

	apiext "github.com/koordinator-sh/koordinator/apis/extension"
	"github.com/koordinator-sh/koordinator/pkg/koordlet/metriccache"
	"github.com/koordinator-sh/koordinator/pkg/koordlet/resourceexecutor"
	"github.com/koordinator-sh/koordinator/pkg/koordlet/statesinformer"
	koordletutil "github.com/koordinator-sh/koordinator/pkg/koordlet/util"
	sysutil "github.com/koordinator-sh/koordinator/pkg/koordlet/util/system"
	sim "github.com/koordinator-sh/koordinator/pkg/verifsim"
)

func TestVerifSim(t *testing.T) { sim.Main(t, &cgbEngine{}) }

type cgbEngine struct{}

func (cgbEngine) Name() string { return "cgroupbe" }

type cgbSet uint64

func cgbString(m cgbSet) string {
	var parts []string
	for i := 0; i < 64; i++ {
		if m&(1<<uint(i)) == 0 {
			continue
		}
		j := i
		for j+1 < 64 && m&(1<<uint(j+1)) != 0 {
			j++
		}
		if j == i {
			parts = append(parts, strconv.Itoa(i))
		} else {
			parts = append(parts, fmt.Sprintf("%d-%d", i, j))
		}
		i = j
	}
	return strings.Join(parts, ",")
}

// cgbParse: the kernel's cpulist_parse.
func cgbParse(s string) (cgbSet, bool) {
	s = strings.TrimSpace(s)
	if s == "" {
		return 0, true
	}
	var m cgbSet
	for _, p := range strings.Split(s, ",") {
		ab := strings.Split(strings.TrimSpace(p), "-")
		if len(ab) > 2 {
			return 0, false
		}
		a, err := strconv.Atoi(ab[0])
		if err != nil || a < 0 || a > 63 {
			return 0, false
		}
		b := a
		if len(ab) == 2 {
			b, err = strconv.Atoi(ab[1])
			if err != nil || b < a || b > 63 {
				return 0, false
			}
		}
		for i := a; i <= b; i++ {
			m |= 1 << uint(i)
		}
	}
	return m, true
}

// ---------------------------------------------------------------- plan

type cgbCfg struct {
	V2      bool     `json:"v2"`
	Kernel  bool     `json:"kernel"` // kernel-like configuration: a write that breaks the subset rule is a rejected write
	NCPU    int      `json:"ncpu"`
	Parents []int    `json:"parents"` // node 0 = kubepods root (fixed, all CPUs), node 1 = BE QoS cgroup, then pods (parent 1) and containers
	Init    []string `json:"init"`
	Force   int      `json:"force"`
	MidJump bool     `json:"mid_jump"`
	Crash2  bool     `json:"crash2"`
	Absent  []int    `json:"absent,omitempty"` // pod / container cgroups that do not exist at the start (everything below an absent node is absent)
}

type cgbOp struct {
	K    string `json:"k"` // suppress | create (the runtime creates the cgroup of Node holding Cpus, cut down to its parent's set) | remove (Node and everything below it)
	Jump int    `json:"jump,omitempty"`
	Cpus string `json:"cpus,omitempty"` // suppress: the BE CPU set decided by the suppress policy for this round
	Node int    `json:"node,omitempty"`
	// suppress: the kubelet cpu manager policy reported for this round is static: only the container cgroups are suppressed,
	// the BE QoS and pod cgroups are kept at the full BE CPU set (every CPU of the node: no LSE pods, nothing reserved)
	Static bool `json:"static,omitempty"`
}

func cgbSubset(g *sim.Rng, p cgbSet, equalBias int) cgbSet {
	var bits []int
	for i := 0; i < 64; i++ {
		if p&(1<<uint(i)) != 0 {
			bits = append(bits, i)
		}
	}
	if len(bits) <= 1 || g.Intn(10) < equalBias {
		return p
	}
	if g.Bool(0.5) {
		a := g.Intn(len(bits))
		n := 1 + g.Intn(len(bits)-a)
		var m cgbSet
		for _, b := range bits[a : a+n] {
			m |= 1 << uint(b)
		}
		return m
	}
	var m cgbSet
	for _, b := range bits {
		if g.Bool(0.5) {
			m |= 1 << uint(b)
		}
	}
	if m == 0 {
		m = 1 << uint(bits[g.Intn(len(bits))])
	}
	return m
}

func (cgbEngine) Generate(p *sim.Plan, g *sim.Rng) {
	thorough := p.Tier == "thorough"
	cfg := cgbCfg{V2: g.Bool(0.5), Kernel: g.Bool(0.4), NCPU: g.PickInt(4, 8, 8, 16), Force: g.PickInt(60, 60, 1, 10, 300), MidJump: g.Bool(0.15)}
	cfg.Crash2 = g.Bool(0.1) || (thorough && g.Bool(0.4))
	cfg.Parents = []int{-1, 0}
	npods := g.Range(0, 3)
	if thorough {
		npods = g.Range(0, 5)
	}
	for i := 0; i < npods; i++ {
		cfg.Parents = append(cfg.Parents, 1)
		pod := len(cfg.Parents) - 1
		for j, nc := 0, g.Range(0, 3); j < nc; j++ {
			cfg.Parents = append(cfg.Parents, pod)
		}
	}
	all := cgbSet(1)<<uint(cfg.NCPU) - 1
	// start state: hierarchy-valid; in the common case every BE cgroup holds the BE root's set (what the previous round left)
	vals := make([]cgbSet, len(cfg.Parents))
	vals[0] = all
	uniform := g.Bool(0.5)
	for i := 1; i < len(vals); i++ {
		if i > 1 && uniform {
			vals[i] = vals[cfg.Parents[i]]
		} else {
			vals[i] = cgbSubset(g, vals[cfg.Parents[i]], 5)
		}
	}
	for _, v := range vals {
		cfg.Init = append(cfg.Init, cgbString(v))
	}
	n := g.PickInt(1, 2, 2, 3)
	if thorough {
		n = g.Range(1, 6)
	}
	nn := len(cfg.Parents)
	present := make([]bool, nn)
	gone := make([]bool, nn)
	for i := range present {
		present[i] = true
	}
	churn := nn > 2 && g.Bool(0.3)
	if churn {
		for i := 2; i < nn; i++ {
			if !present[cfg.Parents[i]] || g.Bool(0.4) {
				present[i] = false
				cfg.Absent = append(cfg.Absent, i)
			}
		}
		if n < 2 {
			n = 2
		}
	}
	cur := vals[1]
	var ops []cgbOp
	// the kubelet policy: none for the whole run / static for the whole run / changes between rounds (a reconfigured kubelet;
	// the agent's own restart with state left by the other path is covered by the crash axis)
	policyMode := g.PickInt(0, 0, 0, 1, 2, 2)
	static := policyMode == 1 || (policyMode == 2 && g.Bool(0.3))
	for k := 0; k < n; k++ {
		if policyMode == 2 && k > 0 && g.Bool(0.6) {
			static = !static
		}
		if churn && k > 0 {
			// after a completed round every existing BE cgroup holds cur; new cgroups start from their parent's set
			held := make([]cgbSet, nn)
			for i := range held {
				held[i] = cur
			}
			for i := 2; i < nn; i++ {
				if present[i] || gone[i] || !present[cfg.Parents[i]] || !g.Bool(0.6) {
					continue
				}
				held[i] = cgbSubset(g, held[cfg.Parents[i]], 6)
				present[i] = true
				ops = append(ops, cgbOp{K: "create", Node: i, Cpus: cgbString(held[i])})
			}
			if g.Bool(0.12) {
				var cands []int
				for i := 2; i < nn; i++ {
					if present[i] {
						cands = append(cands, i)
					}
				}
				if len(cands) > 0 {
					x := cands[g.Intn(len(cands))]
					ops = append(ops, cgbOp{K: "remove", Node: x})
					for i := x; i < nn; i++ {
						if i == x || (cfg.Parents[i] >= x && gone[cfg.Parents[i]]) {
							present[i], gone[i] = false, true
						}
					}
				}
			}
		}
		op := cgbOp{K: "suppress"}
		if k > 0 || g.Bool(0.2) {
			f := cfg.Force
			op.Jump = g.PickInt(0, 1, 1, f-1, f, f+1, 119, 120, 121, 300)
			if op.Jump < 0 {
				op.Jump = 0
			}
		}
		var t cgbSet
		switch g.Intn(6) {
		case 0: // shrink
			t = cgbSubset(g, cur, 1)
		case 1: // grow
			t = cur | cgbSubset(g, all, 2)
		case 2: // same again
			t = cur
		default: // shift
			t = cgbSubset(g, all, 1)
		}
		op.Cpus = cgbString(t)
		op.Static = static
		cur = t
		ops = append(ops, op)
	}
	p.SetCfg(cfg)
	p.SetOps(ops)
}

// ---------------------------------------------------------------- simulated cgroupfs + seam

var cgbSentinel = time.Unix(1_000_000_000, 0)

type cgbSub struct {
	name     string
	start    []cgbSet
	target   cgbSet
	want     []cgbSet // node -> what it must hold when the round is complete
	writes   int
	snaps    [][]cgbSet
	keepSnap bool
	calls    int
	detail   string // "" for none-policy rounds, "/static" for static-policy rounds
}

type cgbH struct {
	r       *sim.Run
	cfg     cgbCfg
	root    string
	kids    [][]int
	dirs    []string // node -> cgroup parent dir relative to the controller root
	path    []string // node -> cpuset.cpus
	byPath  map[string]int
	val     []cgbSet
	sub     *cgbSub
	stops   []chan struct{}
	pending *[3]string
	present []bool
	gone    []bool
	static  bool // the kubelet cpu manager policy the states informer reports right now
}

func (h *cgbH) nodeDir(n int) string {
	if h.cfg.V2 {
		return filepath.Join(h.root, h.dirs[n])
	}
	return filepath.Join(h.root, "cpuset", h.dirs[n])
}

func (h *cgbH) put(n int, v cgbSet) {
	if err := os.WriteFile(h.path[n], []byte(cgbString(v)+"\n"), 0o644); err != nil {
		h.r.HarnessFail("write: %v", err)
	}
	if err := os.Chtimes(h.path[n], cgbSentinel, cgbSentinel); err != nil {
		h.r.HarnessFail("chtimes: %v", err)
	}
	h.val[n] = v
	if h.cfg.V2 {
		h.effective(n)
	}
}

// effective keeps cpuset.cpus.effective (cgroup v2, read by the agent) in step: cpus ∩ the parent's effective set.
func (h *cgbH) effective(n int) {
	eff := h.val[n]
	for p := h.cfg.Parents[n]; p >= 0; p = h.cfg.Parents[p] {
		eff &= h.val[p]
	}
	if err := os.WriteFile(filepath.Join(h.nodeDir(n), "cpuset.cpus.effective"), []byte(cgbString(eff)+"\n"), 0o644); err != nil {
		h.r.HarnessFail("write effective: %v", err)
	}
	for _, c := range h.kids[n] {
		if h.present[c] {
			h.effective(c)
		}
	}
}

func (h *cgbH) restore(snap []cgbSet) {
	for n, v := range snap {
		if h.present[n] && h.val[n] != v {
			h.put(n, v)
		}
	}
}

func (h *cgbH) scan() []int {
	var out []int
	for n, p := range h.path {
		if !h.present[n] {
			continue
		}
		st, err := os.Lstat(p)
		if err != nil {
			h.r.HarnessFail("stat: %v", err)
		}
		if !st.ModTime().Equal(cgbSentinel) {
			out = append(out, n)
		}
	}
	return out
}

func (h *cgbH) conflict(n int, v cgbSet) (string, string) {
	if p := h.cfg.Parents[n]; p >= 0 && v&^h.val[p] != 0 {
		return "child-exceeds-parent", fmt.Sprintf("cpuset of node %d becomes %s, its parent node %d holds %s", n, cgbString(v), p, cgbString(h.val[p]))
	}
	for _, c := range h.kids[n] {
		if h.present[c] && h.val[c]&^v != 0 {
			return "parent-below-child", fmt.Sprintf("cpuset of node %d becomes %s, its child node %d still holds %s", n, cgbString(v), c, cgbString(h.val[c]))
		}
	}
	return "", ""
}

func (h *cgbH) deferFail(oracle, detail, format string, args ...any) {
	if h.pending == nil {
		h.pending = &[3]string{oracle, detail, fmt.Sprintf(format, args...)}
	}
}

func (h *cgbH) sleep(d time.Duration) {
	time.Sleep(d)
	synctest.Wait()
}

// Call is the seam (resourceexecutor.VerifSeam): one forwarded updater call followed by the kernel's side of it.
func (h *cgbH) Call(w *resourceexecutor.VerifUpdater, pass string, do func() (resourceexecutor.ResourceUpdater, error)) (resourceexecutor.ResourceUpdater, error) {
	r, s := h.r, h.sub
	if s == nil {
		r.HarnessFail("updater call outside a round")
	}
	n, ok := h.byPath[w.Path()]
	if !ok {
		r.Fail("stray-write", "unknown-path", "%s: an updater for %s was created, which is not a cpuset.cpus file of the BE tree", s.name, w.Path())
	}
	if !h.present[n] {
		r.Fail("stray-write", "absent-cgroup", "%s: an updater for %s was created, a BE cgroup that does not exist", s.name, w.Path())
	}
	s.calls++
	if h.cfg.MidJump && r.Flip(0.05) {
		d := []int{1, h.cfg.Force + 1, 61, 121, 130}[r.Choose(5)]
		h.sleep(time.Duration(d) * time.Second)
		r.Probe("jump:mid-round")
		r.Event("midjump %d", d)
	}
	m, err := do()
	// executions whose per-write snapshots become crash points look at the whole tree after every call, restarts at the
	// call's own file (the rest of the tree is verified untouched at the end of the round)
	var written []int
	if s.keepSnap {
		written = h.scan()
	} else if st, serr := os.Lstat(h.path[n]); serr != nil {
		r.HarnessFail("stat: %v", serr)
	} else if !st.ModTime().Equal(cgbSentinel) {
		written = []int{n}
	}
	if len(written) == 0 {
		r.Probe("call:no-write")
		r.Event("%s call n%d nowrite err=%v", s.name, n, err != nil)
		return m, err
	}
	r.OracleEval()
	for _, o := range written {
		if o != n {
			r.Fail("stray-write", "cpuset", "%s: the call for node %d wrote node %d", s.name, n, o)
		}
	}
	raw, rerr := os.ReadFile(h.path[n])
	if rerr != nil {
		r.HarnessFail("read back: %v", rerr)
	}
	if err != nil {
		r.HarnessFail("the call for node %d wrote the file and returned an error: %v", n, err)
	}
	nv, okp := cgbParse(string(raw))
	if !okp || nv == 0 {
		r.Fail("kernel-rejected", "cpuset/malformed-text", "%s: %q written into cpuset.cpus of node %d is not something the kernel accepts", s.name, raw, n)
	}
	if class, msg := h.conflict(n, nv); class != "" {
		if h.cfg.Kernel {
			r.Fail("kernel-rejected", "cpuset/"+class+s.detail, "%s: write #%d: %s: the kernel rejects the write", s.name, s.writes+1, msg)
		}
		r.Fail("hierarchy-invalid", "cpuset/"+class+s.detail, "%s: after write #%d: %s", s.name, s.writes+1, msg)
	}
	if s.start[n] == s.want[n] {
		h.deferFail("unchanged-rewritten", "be-cpuset"+s.detail, "%s: cpuset of node %d held %s at the start, which is its target, yet %q was written into it (write #%d)",
			s.name, n, cgbString(s.start[n]), raw, s.writes+1)
	}
	if nv == h.val[n] {
		r.Probe("write:same-value")
	}
	h.put(n, nv)
	s.writes++
	if s.keepSnap {
		s.snaps = append(s.snaps, append([]cgbSet(nil), h.val...))
	}
	r.Probe("write")
	r.Event("%s write n%d %s", s.name, n, cgbString(nv))
	return m, err
}

// ---------------------------------------------------------------- execution

func (h *cgbH) newAgent() *CPUSuppress {
	stop := make(chan struct{})
	h.stops = append(h.stops, stop)
	return &CPUSuppress{
		executor:               resourceexecutor.VerifNewExecutor(h.cfg.Force, stop),
		cgroupReader:           resourceexecutor.NewCgroupReader(),
		suppressPolicyStatuses: map[string]suppressPolicyStatus{},
		statesInformer:         &cgbStates{h: h},
		metricCache:            &cgbMetrics{h: h},
	}
}

// cgbStates / cgbMetrics: the two inputs applyBESuppressCPUSet and calcBECPUSet read besides the cgroup tree: the
// NodeResourceTopology (kubelet cpu manager policy of the round; no reserved / system-exclusive CPUs), the pod list (no LSE
// pods) and the node's CPU list. Any other method of the interfaces is not reachable from the code under test (nil embed).
type cgbStates struct {
	statesinformer.StatesInformer
	h *cgbH
}

func (s *cgbStates) GetNodeTopo() *topov1alpha1.NodeResourceTopology {
	pol := apiext.KubeletCPUManagerPolicyNone
	if s.h.static {
		pol = apiext.KubeletCPUManagerPolicyStatic
	}
	b, _ := json.Marshal(&apiext.KubeletCPUManagerPolicy{Policy: pol})
	t := &topov1alpha1.NodeResourceTopology{}
	t.Annotations = map[string]string{apiext.AnnotationKubeletCPUManagerPolicy: string(b)}
	return t
}

func (s *cgbStates) GetAllPods() []*statesinformer.PodMeta { return nil }

type cgbMetrics struct {
	metriccache.MetricCache
	h *cgbH
}

func (m *cgbMetrics) Get(key interface{}) (interface{}, bool) {
	if key != metriccache.NodeCPUInfoKey {
		return nil, false
	}
	info := &metriccache.NodeCPUInfo{}
	for i := 0; i < m.h.cfg.NCPU; i++ {
		info.ProcessorInfos = append(info.ProcessorInfos, koordletutil.ProcessorInfo{CPUID: int32(i), CoreID: int32(i / 2)})
	}
	return info, true
}

// round: what adjustByCPUSet does once the BE CPU set of the round is decided.
func (h *cgbH) round(agent *CPUSuppress, target cgbSet, static bool, s *cgbSub) {
	r := h.r
	s.start = append([]cgbSet(nil), h.val...)
	s.target = target
	s.want = make([]cgbSet, len(h.val))
	for n := 1; n < len(h.val); n++ {
		s.want[n] = target
		if static && (n == 1 || h.cfg.Parents[n] == 1) {
			s.want[n] = h.val[0] // static policy: the QoS and pod levels are kept at the full BE CPU set
		}
	}
	if static {
		s.detail = "/static"
	}
	h.static = static
	if s.keepSnap {
		s.snaps = [][]cgbSet{s.start}
	}
	merged := s.start[1] | target
	for n := 1; n < len(s.start); n++ {
		// history class of the recorded finding: the union phase of the none-policy path
		if !static && h.present[n] && s.start[n] == target && merged != target {
			r.Tag("be-cgroup-at-target-while-root-differs")
		}
	}
	h.sub = s
	r.Event("%s begin", s.name)
	beDir := koordletutil.GetPodQoSRelativePath(corev1.PodQOSBestEffort)
	old, err := agent.cgroupReader.ReadCPUSet(beDir)
	if err != nil {
		r.HarnessFail("ReadCPUSet(%s): %v", beDir, err)
	}
	var cpus []int32
	for i := 0; i < 64; i++ {
		if target&(1<<uint(i)) != 0 {
			cpus = append(cpus, int32(i))
		}
	}
	if err := agent.applyBESuppressCPUSet(cpus, old.ToInt32Slice()); err != nil {
		r.HarnessFail("applyBESuppressCPUSet: %v", err)
	}
	h.sub = nil
	if late := h.scan(); len(late) > 0 {
		r.Fail("stray-write", "cpuset", "%s: node %d was written outside an updater call", s.name, late[0])
	}
	// completion: every BE cgroup holds its target
	r.OracleEval()
	for n := 1; n < len(h.val); n++ {
		if h.present[n] && h.val[n] != s.want[n] {
			h.deferFail("target-not-reached", "be-cpuset"+s.detail, "%s: the round returned but node %d holds %s, target %s (held %s at the start; BE root held %s; %d calls, %d writes)",
				s.name, n, cgbString(h.val[n]), cgbString(s.want[n]), cgbString(s.start[n]), cgbString(s.start[1]), s.calls, s.writes)
			break
		}
	}
	r.Event("%s end writes=%d", s.name, s.writes)
}

func (h *cgbH) enumerate(of *cgbSub, target cgbSet, static bool, depth int) {
	r := h.r
	for k := 0; k < len(of.snaps); k++ {
		h.restore(of.snaps[k])
		agent := h.newAgent()
		s := &cgbSub{name: fmt.Sprintf("%s/restart@%d", strings.TrimSuffix(of.name, "/main"), k), keepSnap: depth > 1}
		h.round(agent, target, static, s)
		close(h.stops[len(h.stops)-1])
		h.stops = h.stops[:len(h.stops)-1]
		if strings.Count(s.name, "/restart@") > 1 {
			r.Probe("crashpoint:restart-second-order")
		} else {
			r.Probe("crashpoint:restart")
		}
		if s.writes == 0 {
			r.Probe("crashpoint:restart-no-write")
		}
		if depth > 1 && s.writes > 0 {
			h.enumerate(s, target, static, depth-1)
		}
	}
}

func cgbTempBase() string {
	if v := os.Getenv("VERIF_CGROUP_TMP"); v != "" {
		if v == "-" {
			return ""
		}
		return v
	}
	st, err := os.Stat("/dev/shm")
	if err != nil || !st.IsDir() {
		return ""
	}
	b := filepath.Join("/dev/shm", fmt.Sprintf("verifcg-%016x", sim.HashString(os.TempDir())))
	if err := os.MkdirAll(b, 0o700); err != nil {
		return ""
	}
	return b
}

func (cgbEngine) Execute(r *sim.Run) {
	h := &cgbH{r: r, byPath: map[string]int{}}
	r.Plan.GetCfg(&h.cfg)
	var ops []cgbOp
	r.Plan.GetOps(&ops)
	cfg := &h.cfg
	if len(cfg.Parents) < 2 || len(cfg.Init) != len(cfg.Parents) {
		r.HarnessFail("bad cfg")
	}
	base := cgbTempBase()
	root, err := os.MkdirTemp(base, "verifcgbe")
	if err != nil {
		r.HarnessFail("mkdtemp: %v", err)
	}
	h.root = root
	oldRoot, oldV2, oldFactory, oldFmt := sysutil.Conf.CgroupRootDir, sysutil.UseCgroupsV2.Load(), resourceexecutor.DefaultCgroupUpdaterFactory, sysutil.CgroupPathFormatter
	sysutil.Conf.CgroupRootDir = root
	sysutil.UseCgroupsV2.Store(cfg.V2)
	sysutil.SetupCgroupPathFormatter(sysutil.Systemd)
	resourceexecutor.DefaultCgroupUpdaterFactory = &resourceexecutor.VerifFactory{Inner: oldFactory, Seam: h}
	defer func() {
		for _, c := range h.stops {
			close(c)
		}
		sysutil.Conf.CgroupRootDir = oldRoot
		sysutil.UseCgroupsV2.Store(oldV2)
		sysutil.CgroupPathFormatter = oldFmt
		resourceexecutor.DefaultCgroupUpdaterFactory = oldFactory
		_ = os.RemoveAll(root)
		if base != "" {
			_ = os.Remove(base)
		}
	}()
	h.kids = make([][]int, len(cfg.Parents))
	for i := 1; i < len(cfg.Parents); i++ {
		h.kids[cfg.Parents[i]] = append(h.kids[cfg.Parents[i]], i)
	}
	h.dirs = make([]string, len(cfg.Parents))
	h.dirs[0] = "kubepods.slice"
	h.dirs[1] = koordletutil.GetPodQoSRelativePath(corev1.PodQOSBestEffort)
	for i := 2; i < len(cfg.Parents); i++ {
		p := cfg.Parents[i]
		if p == 1 {
			h.dirs[i] = filepath.Join(h.dirs[1], fmt.Sprintf("kubepods-besteffort-pod%04d.slice", i))
		} else {
			h.dirs[i] = filepath.Join(h.dirs[p], fmt.Sprintf("cri-containerd-%08x.scope", i))
		}
	}
	h.path = make([]string, len(cfg.Parents))
	h.val = make([]cgbSet, len(cfg.Parents))
	h.present = make([]bool, len(cfg.Parents))
	h.gone = make([]bool, len(cfg.Parents))
	for n := range h.present {
		h.present[n] = true
	}
	for _, a := range cfg.Absent {
		if a >= 2 && a < len(cfg.Parents) { // the kubepods and BE QoS cgroups always exist
			h.present[a] = false
		}
	}
	for n := 2; n < len(cfg.Parents); n++ {
		if !h.present[cfg.Parents[n]] {
			h.present[n] = false
		}
	}
	for n := range cfg.Parents {
		h.path[n] = filepath.Join(h.nodeDir(n), "cpuset.cpus")
		h.byPath[h.path[n]] = n
		if !h.present[n] {
			r.Probe("node:absent-at-start")
			continue
		}
		if err := os.MkdirAll(h.nodeDir(n), 0o755); err != nil {
			r.HarnessFail("mkdir: %v", err)
		}
	}
	for n := range cfg.Parents {
		v, ok := cgbParse(cfg.Init[n])
		if !ok || v == 0 {
			r.HarnessFail("bad init")
		}
		if h.present[n] {
			h.put(n, v)
		}
	}
	for n := 1; n < len(h.val); n++ {
		if h.present[n] && h.val[n]&^h.val[cfg.Parents[n]] != 0 {
			r.HarnessFail("start state not hierarchy-valid")
		}
	}
	r.Probe("cfg:churn=" + strconv.FormatBool(len(cfg.Absent) > 0))
	r.Probe("cfg:v2=" + strconv.FormatBool(cfg.V2))
	r.Probe("cfg:kernel=" + strconv.FormatBool(cfg.Kernel))
	r.Sample("v2=%v kernel=%v nodes=%d init=%v force=%ds", cfg.V2, cfg.Kernel, len(cfg.Parents), cfg.Init, cfg.Force)

	agent := h.newAgent()
	all := h.val[0]
	lastStatic := -1
	for oi, op := range ops {
		t, ok := cgbParse(op.Cpus)
		switch n := op.Node; {
		case op.K == "create":
			// the runtime creates the cgroup: applicable when it does not exist, never existed and its parent exists
			if n < 2 || n >= len(cfg.Parents) || h.present[n] || h.gone[n] || !h.present[cfg.Parents[n]] || !ok {
				r.OpSkipped()
				continue
			}
			pv := h.val[cfg.Parents[n]]
			if t &= pv; t == 0 {
				t = pv // a new cgroup never starts outside its parent
			}
			if err := os.MkdirAll(h.nodeDir(n), 0o755); err != nil {
				r.HarnessFail("mkdir: %v", err)
			}
			h.present[n] = true
			h.put(n, t)
			r.OpDone()
			r.Probe("op:create")
			if t != h.val[1] {
				r.Probe("create:differs-from-be-root")
			}
			r.Event("create n%d %s", n, cgbString(t))
			r.Sample("op%d create n%d(p%d)=%s", oi, n, cfg.Parents[n], cgbString(t))
			continue
		case op.K == "remove":
			if n < 2 || n >= len(cfg.Parents) || !h.present[n] {
				r.OpSkipped()
				continue
			}
			if err := os.RemoveAll(h.nodeDir(n)); err != nil {
				r.HarnessFail("rmdir: %v", err)
			}
			var mark func(x int)
			mark = func(x int) {
				h.present[x], h.gone[x] = false, true
				for _, c := range h.kids[x] {
					mark(c)
				}
			}
			mark(n)
			r.OpDone()
			r.Probe("op:remove")
			r.Event("remove n%d", n)
			r.Sample("op%d remove n%d", oi, n)
			continue
		}
		if op.K != "suppress" || !ok || t == 0 || t&^all != 0 {
			r.OpSkipped()
			continue
		}
		if op.Jump > 0 {
			h.sleep(time.Duration(op.Jump) * time.Second)
			switch {
			case op.Jump > 120:
				r.Probe("jump:across-cache-expiry")
			case op.Jump > cfg.Force:
				r.Probe("jump:across-force-update")
			default:
				r.Probe("jump:short")
			}
			r.Event("jump %d", op.Jump)
		}
		r.OpDone()
		o := h.val[1]
		switch {
		case o == t:
			r.Probe("round:same")
		case t&^o == 0:
			r.Probe("round:shrink")
		case o&^t == 0:
			r.Probe("round:grow")
		default:
			r.Probe("round:shift")
		}
		var st []string
		for n := 1; n < len(h.val); n++ {
			if !h.present[n] {
				continue
			}
			st = append(st, fmt.Sprintf("n%d(p%d)=%s", n, cfg.Parents[n], cgbString(h.val[n])))
		}
		r.Sample("op%d jump=%ds static=%v target=%s tree: %s", oi, op.Jump, op.Static, op.Cpus, strings.Join(st, " "))
		main := &cgbSub{name: fmt.Sprintf("op%d/main", oi), keepSnap: true}
		h.round(agent, t, op.Static, main)
		r.Probe("round:policy-static=" + strconv.FormatBool(op.Static))
		if oi > 0 && lastStatic >= 0 && (lastStatic == 1) != op.Static {
			r.Probe("round:policy-changed:to-static=" + strconv.FormatBool(op.Static))
		}
		lastStatic = 0
		if op.Static {
			lastStatic = 1
		}
		final := append([]cgbSet(nil), h.val...)
		r.Sample("op%d main: %d calls, %d writes", oi, main.calls, main.writes)
		r.Probe("main:L=" + cgbBucket(main.writes))
		depth := 1
		if cfg.Crash2 && main.writes <= 8 {
			depth = 2
		}
		h.enumerate(main, t, op.Static, depth)
		h.restore(final)
	}
	if h.pending != nil {
		r.Fail(h.pending[0], h.pending[1], "%s", h.pending[2])
	}
}

func cgbBucket(n int) string {
	switch {
	case n == 0:
		return "0"
	case n <= 2:
		return "1-2"
	case n <= 5:
		return "3-5"
	case n <= 10:
		return "6-10"
	}
	return ">10"
}
