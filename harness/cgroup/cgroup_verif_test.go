//go:build verif

package resourceexecutor

// Engine `cgroup` (C12): hierarchical cgroup rewrites never pass through an invalid hierarchy.
//
// Real code in the loop: ResourceUpdateExecutorImpl.LeveledUpdateBatch (merge pass top-down, exact pass
// bottom-up), needUpdate + ResourceCache (with its GC goroutine on the bubble clock), the cgroup
// ResourceUpdaters produced by DefaultCgroupUpdaterFactory with their merge conditions, and the real cgroup
// file reader/writer working on a private temp cgroup root (cgroup v1 and v2 layouts and file formats).
//
// The only stub is the kernel: an in-package wrapper around every ResourceUpdater (cgW) forwards
// update()/MergeUpdate() to the real updater and then plays the cgroupfs side of the call: it detects the
// (at most one) file write the call performed (every file carries a sentinel mtime; in the uninterrupted
// execution the whole tree is examined after every call, in restart executions the call's own file after every
// call and the whole tree at the end), re-formats the file the way the kernel would show it, refuses text the
// kernel cannot parse, checks the parent/child rules, can make the write fail without a trace in the file, can
// crash the agent at that point, and keeps a write log plus one snapshot of the whole tree per write.
//
// Crash axis = enumeration: for every rewrite the uninterrupted run yields a write sequence of length L; for
// EVERY k in 0..L the tree as it was after the k-th write is put back on disk and a fresh executor (empty
// ResourceCache) is run on it with the same target; all oracles apply to that run as well.
//
// Cgroup churn: pod and container cgroups may not exist yet when a rewrite names them (the agent builds its request from
// the pod list, the container runtime creates the directories in its own time) and appear BETWEEN two rewrites with
// whatever the runtime put into them (a value that is valid under the parent as it is on disk, in general not the agent's
// target); cgroups may also be removed between rewrites (a removed path never comes back: pod UIDs and container IDs are
// unique). The statement quantifies over the cgroups that exist: the parent/child rule after every write, and on
// completion every EXISTING cgroup of the request holds its target.
// See /verif/DESIGN.md §4 C12.

import (
	"fmt"
	"math"
	"os"
	"path/filepath"
	"sort"
	"strconv"
	"strings"
	"syscall"
	"testing"
	"testing/synctest"
	"time"

	sysutil "github.com/koordinator-sh/koordinator/pkg/koordlet/util/system"
	"github.com/koordinator-sh/koordinator/pkg/util/cache"
	sim "github.com/koordinator-sh/koordinator/pkg/verifsim"
)

func TestVerifSim(t *testing.T) { sim.Main(t, &cgEngine{}) }

type cgEngine struct{}

func (cgEngine) Name() string { return "cgroup" }

// ---------------------------------------------------------------- resources (kernel ABI, written down independently of the repo's tables)

type cgResDef struct {
	name   string               // name used in plans
	typ    sysutil.ResourceType // how the repo's updater factory is asked for it
	isSet  bool                 // CPU set (subset rule) or scalar limit/protection (<= rule)
	subfs  string               // cgroup-v1 controller directory
	fileV1 string
	fileV2 string
}

var cgResDefs = []cgResDef{
	{"cpuset", sysutil.CPUSetCPUSName, true, "cpuset", "cpuset.cpus", "cpuset.cpus"},
	{"cfs", sysutil.CPUCFSQuotaName, false, "cpu", "cpu.cfs_quota_us", "cpu.max"},
	{"mmin", sysutil.MemoryMinName, false, "memory", "memory.min", "memory.min"},
	{"mlow", sysutil.MemoryLowName, false, "memory", "memory.low", "memory.low"},
	{"mhigh", sysutil.MemoryHighName, false, "memory", "memory.high", "memory.high"},
}

func cgDef(name string) *cgResDef {
	for i := range cgResDefs {
		if cgResDefs[i].name == name {
			return &cgResDefs[i]
		}
	}
	return nil
}

// cgVal is the meaning of a file: a CPU bit mask for sets, an int64 for limits (cgInf = unlimited).
type cgVal uint64

const cgInf = cgVal(math.MaxInt64)
const cgPeriod = "100000"

func cgWithin(isSet bool, child, parent cgVal) bool {
	if isSet {
		return child&^parent == 0
	}
	return int64(child) <= int64(parent)
}

// canonical plan spelling: "0-3,6" for sets; decimal or "max" for limits
func cgSetString(m cgVal, list bool) string {
	var parts []string
	for i := 0; i < 64; i++ {
		if m&(1<<uint(i)) == 0 {
			continue
		}
		j := i
		if !list {
			for j+1 < 64 && m&(1<<uint(j+1)) != 0 {
				j++
			}
		}
		if j == i {
			parts = append(parts, strconv.Itoa(i))
		} else {
			parts = append(parts, fmt.Sprintf("%d-%d", i, j))
		}
		i = j
	}
	return strings.Join(parts, ",")
}

// cgParseSet parses a Linux cpu list the way the kernel's cpulist_parse does (numbers and a-b ranges separated by commas).
func cgParseSet(s string) (cgVal, bool) {
	s = strings.TrimSpace(s)
	if s == "" {
		return 0, true
	}
	var m cgVal
	for _, p := range strings.Split(s, ",") {
		p = strings.TrimSpace(p)
		ab := strings.Split(p, "-")
		if len(ab) > 2 {
			return 0, false
		}
		a, err := strconv.Atoi(ab[0])
		if err != nil || a < 0 || a > 63 {
			return 0, false
		}
		b := a
		if len(ab) == 2 {
			b, err = strconv.Atoi(ab[1])
			if err != nil || b < a || b > 63 {
				return 0, false
			}
		}
		for i := a; i <= b; i++ {
			m |= 1 << uint(i)
		}
	}
	return m, true
}

func cgPlanString(isSet bool, v cgVal) string {
	if isSet {
		return cgSetString(v, false)
	}
	if v == cgInf {
		return "max"
	}
	return strconv.FormatInt(int64(v), 10)
}

func cgParsePlan(isSet bool, s string) (cgVal, bool) {
	if isSet {
		v, ok := cgParseSet(s)
		return v, ok && v != 0
	}
	if s == "max" {
		return cgInf, true
	}
	n, err := strconv.ParseInt(s, 10, 64)
	if err != nil || n < 0 {
		return 0, false
	}
	return cgVal(n), true
}

// cgKernelText is what reading the file returns on a real kernel for value v (without the trailing newline).
func cgKernelText(d *cgResDef, v2 bool, v cgVal) string {
	switch {
	case d.isSet:
		return cgSetString(v, false)
	case d.name == "cfs" && v2:
		if v == cgInf {
			return "max " + cgPeriod
		}
		return strconv.FormatInt(int64(v), 10) + " " + cgPeriod
	case d.name == "cfs":
		if v == cgInf {
			return "-1"
		}
		return strconv.FormatInt(int64(v), 10)
	default:
		if v == cgInf {
			return "max"
		}
		return strconv.FormatInt(int64(v), 10)
	}
}

// cgKernelParse interprets what a process wrote into the file, as the kernel's write handler would. ok=false: the kernel
// answers EINVAL because the text is malformed for that file.
func cgKernelParse(d *cgResDef, v2 bool, raw string) (cgVal, bool) {
	s := strings.TrimSpace(raw)
	switch {
	case d.isSet:
		v, ok := cgParseSet(s)
		return v, ok
	case d.name == "cfs" && v2:
		// cpu.max: "$MAX [$PERIOD]", $MAX = "max" or microseconds
		f := strings.Fields(s)
		if len(f) < 1 || len(f) > 2 {
			return 0, false
		}
		if len(f) == 2 && f[1] != cgPeriod {
			return 0, false // the workload never changes the period
		}
		if f[0] == "max" {
			return cgInf, true
		}
		n, err := strconv.ParseInt(f[0], 10, 64)
		if err != nil || n < 1000 {
			return 0, false
		}
		return cgVal(n), true
	case d.name == "cfs":
		n, err := strconv.ParseInt(s, 10, 64)
		if err != nil {
			return 0, false
		}
		if n < 0 {
			return cgInf, true
		}
		if n < 1000 {
			return 0, false
		}
		return cgVal(n), true
	default:
		if s == "max" {
			return cgInf, true
		}
		n, err := strconv.ParseInt(s, 10, 64)
		if err != nil || n < 0 {
			return 0, false
		}
		if n >= math.MaxInt64-4095 { // page_counter clamps to PAGE_COUNTER_MAX and shows "max"
			return cgInf, true
		}
		return cgVal(n), true
	}
}

// ---------------------------------------------------------------- plan

type cgCfg struct {
	V2      bool       `json:"v2"`
	Mode    string     `json:"mode"` // crash | crash-kernel | fault-strict | fault-lenient
	NCPU    int        `json:"ncpu"`
	Parents []int      `json:"parents"` // node 0 = kubepods root (never rewritten), Parents[i] < i
	Res     []string   `json:"res"`
	Init    [][]string `json:"init"`             // [resource][node] canonical value on disk at start
	Force   int        `json:"force"`            // ResourceForceUpdateSeconds
	MidJump bool       `json:"mid_jump"`         // simulated time may pass inside a batch (slow cgroupfs)
	Crash2  bool       `json:"crash2"`           // also enumerate the crash points of every restarted rewrite (second order)
	Absent  []int      `json:"absent,omitempty"` // pod/container cgroups that do not exist at the start (a node below an absent node is absent too)
}

type cgOp struct {
	K       string     `json:"k"`                // rewrite | create (the runtime creates the cgroup of Node) | remove (the cgroup of Node and everything below it goes away)
	Jump    int        `json:"jump,omitempty"`   // simulated seconds that pass before the call
	Res     []string   `json:"res,omitempty"`    // resources rewritten by this call (subset of cfg.Res)
	Target  [][]string `json:"target,omitempty"` // [index in Res][node] canonical target (entry 0, the root, is ignored)
	Omit    []int      `json:"omit,omitempty"`
	CSList  bool       `json:"cs_list,omitempty"` // CPU sets are handed over as "0,1,2,3" instead of "0-3"
	MaxNum  bool       `json:"max_num,omitempty"` // unlimited memory values are handed over as MaxInt64 instead of "max"
	Shuffle uint64     `json:"shuffle,omitempty"`
	Pattern string     `json:"pattern,omitempty"`
	Node    int        `json:"node,omitempty"`  // create / remove
	Nodes   []int      `json:"nodes,omitempty"` // update: a plain cacheable Update / UpdateBatch (the non-leveled entry points other plugins use) of Res[0] of these cgroups to Val[i]
	Batch   bool       `json:"batch,omitempty"` // update: one UpdateBatch(true, ...) instead of one Update(true, .) per cgroup
	Val     []string   `json:"val,omitempty"`   // create: [index in cfg.Res] canonical value the runtime puts into the new cgroup (cut down to the parent's value on disk when it exceeds it)
}

func cgFaulty(mode string) bool { return strings.HasPrefix(mode, "fault") }

// ---------------------------------------------------------------- generation

func cgLevels(parents []int) []int {
	lv := make([]int, len(parents))
	for i := 1; i < len(parents); i++ {
		lv[i] = lv[parents[i]] + 1
	}
	return lv
}

func cgGenTree(g *sim.Rng, maxNodes int) []int {
	depth := g.PickInt(1, 2, 2, 3, 3, 3)
	parents := []int{-1}
	nq := g.Range(1, 3)
	var level []int
	for i := 0; i < nq; i++ {
		parents = append(parents, 0)
		level = append(level, len(parents)-1)
	}
	for d := 2; d <= depth; d++ {
		var next []int
		for _, p := range level {
			k := g.Range(1, 4)
			if g.Bool(0.15) {
				k = 0
			}
			if g.Bool(0.5) && k > 2 {
				k = 2
			}
			for j := 0; j < k && len(parents) < maxNodes; j++ {
				parents = append(parents, p)
				next = append(next, len(parents)-1)
			}
		}
		level = next
	}
	return parents
}

// cgSubset: a non-empty subset of p.
func cgSubset(g *sim.Rng, p cgVal) cgVal {
	var bits []int
	for i := 0; i < 64; i++ {
		if p&(1<<uint(i)) != 0 {
			bits = append(bits, i)
		}
	}
	if len(bits) <= 1 {
		return p
	}
	switch g.Intn(10) {
	case 0, 1, 2, 3:
		return p
	case 4, 5, 6:
		a := g.Intn(len(bits))
		n := 1 + g.Intn(len(bits)-a)
		var m cgVal
		for _, b := range bits[a : a+n] {
			m |= 1 << uint(b)
		}
		return m
	default:
		var m cgVal
		for _, b := range bits {
			if g.Bool(0.5) {
				m |= 1 << uint(b)
			}
		}
		if m == 0 {
			m = 1 << uint(bits[g.Intn(len(bits))])
		}
		return m
	}
}

func cgUnit(d *cgResDef) int64 {
	if d.name == "cfs" {
		return 10000
	}
	return 1 << 20
}

// cgScalarLE: a limit <= p (p may be unlimited).
func cgScalarLE(g *sim.Rng, d *cgResDef, p cgVal) cgVal {
	u := cgUnit(d)
	lo := int64(1)
	if d.name == "mmin" || d.name == "mlow" {
		lo = 0
	}
	if p == cgInf {
		if g.Bool(0.4) {
			return cgInf
		}
		return cgVal(u * (lo + g.I64n(40)))
	}
	k := int64(p) / u
	if k < lo {
		return p
	}
	if g.Bool(0.35) {
		return p
	}
	return cgVal(u * (lo + g.I64n(k-lo+1)))
}

func cgGenAssign(g *sim.Rng, d *cgResDef, parents []int, ncpu int) []cgVal {
	a := make([]cgVal, len(parents))
	if d.isSet {
		a[0] = cgVal(1)<<uint(ncpu) - 1
	} else {
		a[0] = cgInf
		if g.Bool(0.2) {
			a[0] = cgVal(cgUnit(d) * int64(g.Range(8, 40)))
		}
	}
	for i := 1; i < len(parents); i++ {
		if d.isSet {
			a[i] = cgSubset(g, a[parents[i]])
		} else {
			a[i] = cgScalarLE(g, d, a[parents[i]])
		}
	}
	return a
}

var cgPatterns = []string{"keep", "shrink", "grow", "shift", "unlimit", "mixed"}

// cgDecimal: a limit whose decimal spelling is a prefix of old's, or of which old's is a prefix (200000 -> 20000 -> 2000,
// 30000 -> 300000): numerically far apart, textually "the same beginning". 0 = no such value is admissible.
func cgDecimal(g *sim.Rng, d *cgResDef, o, p cgVal) cgVal {
	if o == cgInf || o == 0 {
		return 0
	}
	ok := func(x int64) bool {
		if x <= 0 || int64(cgVal(x)) > int64(p) {
			return false
		}
		if d.name == "cfs" {
			return x >= 1000 // the kernel's minimum quota
		}
		return x%4096 == 0 // memory values are page multiples
	}
	var cands []int64
	for _, q := range []int64{10, 100} {
		if int64(o)%q == 0 && ok(int64(o)/q) {
			cands = append(cands, int64(o)/q)
		}
		if int64(o) < math.MaxInt64/4/q && ok(int64(o)*q) {
			cands = append(cands, int64(o)*q)
		}
	}
	if len(cands) == 0 {
		return 0
	}
	return cgVal(cands[g.Intn(len(cands))])
}

// cgDerive: a hierarchy-valid target derived from old (itself valid) by a dominant pattern with per-node deviations.
// sticky (may be nil): nodes whose target mostly stays what it was (the agent's wish for a cgroup that does not exist yet
// or has just been created comes from the pod spec and does not move because the directory appeared).
func cgDerive(g *sim.Rng, d *cgResDef, parents []int, old []cgVal, pattern string, sticky []bool) []cgVal {
	t := make([]cgVal, len(old))
	t[0] = old[0]
	// half of the CPU-set rewrites keep every cgroup's old and new set nested (one contains the other) wherever possible
	nested := d.isSet && pattern != "shift" && g.Bool(0.6)
	for i := 1; i < len(old); i++ {
		p := t[parents[i]]
		m := pattern
		if m == "mixed" || g.Bool(0.25) {
			m = cgPatterns[g.Intn(5)]
		}
		if sticky != nil && sticky[i] && g.Bool(0.7) {
			m = "keep"
		}
		o := old[i]
		if d.isSet {
			switch m {
			case "keep":
				t[i] = o & p
			case "shrink":
				if o&p != 0 {
					t[i] = cgSubset(g, o&p)
					if t[i] == o&p && g.Bool(0.5) { // really take something away when possible
						t[i] &= t[i] - 1
					}
				}
			case "grow":
				t[i] = (o | cgSubset(g, p)) & p
			case "shift":
				t[i] = cgSubset(g, p)
			case "unlimit":
				t[i] = p
			}
			if t[i] == 0 {
				t[i] = cgSubset(g, p)
			}
			if nested && t[i]&^o != 0 && o&^t[i] != 0 {
				if o&^p == 0 {
					t[i] |= o // grow instead
				} else if o&p != 0 {
					t[i] = o & p // shrink instead
				}
			}
		} else {
			le := func(x cgVal) cgVal {
				if int64(x) > int64(p) {
					return p
				}
				return x
			}
			switch m {
			case "keep":
				t[i] = le(o)
			case "shrink":
				t[i] = cgScalarLE(g, d, le(o))
				if t[i] == cgInf {
					t[i] = cgVal(cgUnit(d) * int64(g.Range(1, 40)))
				}
			case "grow":
				if o == cgInf {
					t[i] = le(o)
				} else {
					t[i] = le(cgVal(int64(o) + cgUnit(d)*int64(g.Range(1, 10))))
					if g.Bool(0.2) {
						t[i] = p
					}
				}
			case "shift":
				t[i] = cgScalarLE(g, d, p)
			case "unlimit":
				t[i] = p
			}
			if m != "keep" && g.Bool(0.08) {
				if x := cgDecimal(g, d, o, p); x != 0 {
					t[i] = x
				}
			}
		}
	}
	return t
}

func cgStrings(d *cgResDef, a []cgVal) []string {
	out := make([]string, len(a))
	for i, v := range a {
		out[i] = cgPlanString(d.isSet, v)
	}
	return out
}

func (cgEngine) Generate(p *sim.Plan, g *sim.Rng) {
	thorough := p.Tier == "thorough"
	maxNodes := 11
	if thorough {
		maxNodes = 26
	}
	cfg := cgCfg{V2: g.Bool(0.5), NCPU: g.PickInt(4, 8, 8, 16)}
	cfg.Mode = []string{"crash", "crash", "crash", "crash-kernel", "crash-kernel", "fault-strict", "fault-lenient"}[g.Intn(7)]
	cfg.Parents = cgGenTree(g, maxNodes)
	lv := cgLevels(cfg.Parents)
	n := len(cfg.Parents)
	// cgroup churn (one run in three when the tree has pods): some pod / container cgroups do not exist at the start
	present := make([]bool, n)
	gone := make([]bool, n)
	for i := range present {
		present[i] = true
	}
	churn := false
	for i := range lv {
		if lv[i] >= 2 {
			churn = true
		}
	}
	churn = churn && g.Bool(0.35)
	if churn {
		for i := 1; i < n; i++ {
			if lv[i] >= 2 && (!present[cfg.Parents[i]] || g.Bool([]float64{0, 0, 0.3, 0.45}[lv[i]])) {
				present[i] = false
				cfg.Absent = append(cfg.Absent, i)
			}
		}
	}
	cfg.Force = g.PickInt(60, 60, 60, 1, 10, 300)
	cfg.MidJump = g.Bool(0.15)
	cfg.Crash2 = g.Bool(0.1) || (thorough && g.Bool(0.4))
	// which files exist / are rewritten: mostly one resource, sometimes several in one batch
	perm := g.Perm(len(cgResDefs))
	nres := g.PickInt(1, 1, 1, 2, 2, 3)
	if g.Bool(0.45) { // the CPU set has the richest merge rule: make sure it is frequent
		for i, x := range perm {
			if cgResDefs[x].name == "cpuset" {
				perm[0], perm[i] = perm[i], perm[0]
			}
		}
	}
	cur := map[string][]cgVal{}  // the agent's latest wish per cgroup (= what is on disk once a rewrite has completed)
	disk := map[string][]cgVal{} // the generator's idea of what the files hold (differs from cur for freshly created cgroups)
	for _, x := range perm[:nres] {
		d := &cgResDefs[x]
		cfg.Res = append(cfg.Res, d.name)
		a := cgGenAssign(g, d, cfg.Parents, cfg.NCPU)
		cur[d.name] = a
		disk[d.name] = append([]cgVal(nil), a...)
		cfg.Init = append(cfg.Init, cgStrings(d, a))
	}
	if cgFaulty(cfg.Mode) {
		p.FaultRate = []float64{0.08, 0.15, 0.3}[g.Intn(3)]
		all := []string{"EIO", "EINVAL", "ENOSPC", "EBUSY", "EACCES", "crash"}
		for _, k := range all {
			if g.Bool(0.5) {
				p.Faults = append(p.Faults, k)
			}
		}
		if len(p.Faults) == 0 {
			p.Faults = []string{all[g.Intn(len(all))]}
		}
	}
	nops := g.PickInt(1, 1, 2, 2, 3)
	if thorough {
		nops = g.Range(1, 5)
	}
	if churn {
		nops = g.PickInt(2, 2, 3, 3)
		if thorough {
			nops = g.Range(2, 5)
		}
	}
	var ops []cgOp
	fresh := make([]bool, n) // created since the last rewrite
	for k := 0; k < nops; k++ {
		if churn && g.Bool([]float64{0.3, 0.5}[min(k, 1)]) {
			// another plugin of the agent sets single files through the plain cacheable entry points of the same executor, also
			// for cgroups that do not exist yet (it works from the pod list as well); the value is the agent's current wish
			name := cfg.Res[g.Intn(len(cfg.Res))]
			d := cgDef(name)
			uop := cgOp{K: "update", Res: []string{name}, Batch: g.Bool(0.5)}
			for i := 1; i < n; i++ {
				if (!present[i] && !gone[i] && g.Bool(0.6)) || (present[i] && g.Bool(0.15)) {
					uop.Nodes = append(uop.Nodes, i)
					uop.Val = append(uop.Val, cgPlanString(d.isSet, cur[name][i]))
					if present[i] {
						disk[name][i] = cur[name][i]
					}
				}
			}
			if len(uop.Nodes) > 0 {
				ops = append(ops, uop)
			}
		}
		if churn && k > 0 {
			// between two rewrites the runtime creates cgroups (parents first) and, rarely, removes some
			for i := 1; i < n; i++ {
				if present[i] || gone[i] || !present[cfg.Parents[i]] || !g.Bool(0.55) {
					continue
				}
				cop := cgOp{K: "create", Node: i}
				for _, name := range cfg.Res {
					d := cgDef(name)
					pv := disk[name][cfg.Parents[i]]
					var v cgVal
					switch g.Intn(10) {
					case 0, 1, 2: // what the parent holds (runc copies the parent's cpuset; no limit of its own)
						v = pv
					case 3, 4, 5, 6: // whatever the container spec says, valid under the parent
						if d.isSet {
							v = cgSubset(g, pv)
						} else {
							v = cgScalarLE(g, d, pv)
						}
					case 7: // already what the agent wants
						v = cur[name][i]
						if !cgWithin(d.isSet, v, pv) {
							v = pv
						}
					default: // the kernel's default for a new cgroup where the rule admits it
						v = pv
						if d.name == "mmin" || d.name == "mlow" {
							v = 0
						}
					}
					disk[name][i] = v
					cop.Val = append(cop.Val, cgPlanString(d.isSet, v))
				}
				present[i], fresh[i] = true, true
				ops = append(ops, cop)
			}
			if g.Bool(0.12) {
				var cands []int
				for i := 1; i < n; i++ {
					if present[i] && lv[i] >= 2 {
						cands = append(cands, i)
					}
				}
				if len(cands) > 0 {
					x := cands[g.Intn(len(cands))]
					ops = append(ops, cgOp{K: "remove", Node: x})
					for i := x; i < n; i++ {
						if i == x || (cfg.Parents[i] >= x && gone[cfg.Parents[i]]) {
							present[i], gone[i] = false, true
						}
					}
				}
			}
		}
		op := cgOp{K: "rewrite", Shuffle: g.U64(), CSList: g.Bool(0.4), MaxNum: g.Bool(0.4)}
		if k > 0 || g.Bool(0.2) {
			f := cfg.Force
			op.Jump = g.PickInt(0, 0, 1, f-1, f, f+1, f+30, 119, 120, 121, 125, 300, 1000)
			if churn && g.Bool(0.5) { // the next reconcile round comes soon after
				op.Jump = g.PickInt(0, 0, 1, 5, f-1)
			}
			if op.Jump < 0 {
				op.Jump = 0
			}
		}
		op.Pattern = cgPatterns[g.Intn(len(cgPatterns))]
		// resources of this call
		for _, name := range cfg.Res {
			if len(cfg.Res) == 1 || g.Bool(0.7) {
				op.Res = append(op.Res, name)
			}
		}
		if len(op.Res) == 0 {
			op.Res = []string{cfg.Res[g.Intn(len(cfg.Res))]}
		}
		unchanged := make([]bool, len(cfg.Parents))
		for i := range unchanged {
			unchanged[i] = true
		}
		for _, name := range op.Res {
			d := cgDef(name)
			pat := op.Pattern
			if k > 0 && g.Bool(0.15) {
				pat = "keep" // the same request again (a reconcile loop repeats itself)
			}
			var sticky []bool
			if churn {
				sticky = make([]bool, n)
				for i := range sticky {
					sticky[i] = !present[i] || fresh[i]
				}
			}
			t := cgDerive(g, d, cfg.Parents, cur[name], pat, sticky)
			for i := range t {
				if t[i] != cur[name][i] || (present[i] && t[i] != disk[name][i]) {
					unchanged[i] = false
				}
				if present[i] {
					disk[name][i] = t[i]
				}
			}
			cur[name] = t
			op.Target = append(op.Target, cgStrings(d, t))
		}
		for i := range fresh {
			fresh[i] = false
		}
		// nodes the caller does not mention at all (only ever honoured for nodes that are already at their target or do not exist)
		for i := 1; i < n; i++ {
			if (gone[i] && g.Bool(0.5)) || (!present[i] && !gone[i] && g.Bool(0.25)) {
				unchanged[i] = false
				op.Omit = append(op.Omit, i) // the agent's pod list has caught up with the removal / does not know the container yet
			}
		}
		switch g.Intn(5) {
		case 0:
			for i := 1; i < len(unchanged); i++ {
				if unchanged[i] {
					op.Omit = append(op.Omit, i)
				}
			}
		case 1:
			for i := 1; i < len(unchanged); i++ {
				if unchanged[i] && g.Bool(0.5) {
					op.Omit = append(op.Omit, i)
				}
			}
		}
		ops = append(ops, op)
	}
	p.SetCfg(cfg)
	p.SetOps(ops)
}

// ---------------------------------------------------------------- the simulated cgroupfs + the seam

var cgSentinel = time.Unix(1_000_000_000, 0)

type cgCrash struct{}

type cgWrite struct {
	fi   int
	val  cgVal
	pass string
}

// cgSub is one execution of the rewrite (the uninterrupted one, a restart at a crash point, a faulted attempt ...).
type cgSub struct {
	name     string
	start    []cgVal       // tree at the beginning
	target   map[int]cgVal // file -> target (files addressed by an updater)
	writes   []cgWrite     // successful writes in order
	snaps    [][]cgVal     // tree after each write (only recorded for the uninterrupted run)
	keepSnap bool
	inject   bool   // write failures / crashes may be injected in this execution
	strict   bool   // the full statement applies (fault-free execution from a valid tree)
	onBad    string // a write that breaks a parent/child rule is: a violation with this oracle name, or "" = rejected by the kernel model (EINVAL, file untouched) and counted
	calls    int
	rejected int
	failed   int
	crashed  bool
}

type cgH struct {
	r       *sim.Run
	cfg     cgCfg
	root    string
	levels  []int
	kids    [][]int
	defs    []*cgResDef // cfg.Res resolved
	dirs    []string    // node -> cgroup parent dir relative to the controller root
	path    []string    // file index -> absolute path
	val     []cgVal     // file index -> current meaning on disk
	sub     *cgSub
	stops   []chan struct{}
	pending *cgDeferred
	nfiles  int
	present []bool // node -> its cgroup directory exists
	gone    []bool // node -> removed (a removed path never comes back)
	// wished: file -> the target of the latest rewrite on the long-lived agent that named the file while its cgroup did not
	// exist, and when (evidence only: how often the "created inside the force-update window, target kept" history occurs)
	wished map[int]cgWish
}

type cgWish struct {
	v  cgVal
	at time.Time
}

func (h *cgH) has(fi int) bool { return h.present[h.nodeOf(fi)] }

type cgDeferred struct{ oracle, detail, msg string }

func (h *cgH) fi(node, ri int) int         { return node*len(h.defs) + ri }
func (h *cgH) nodeOf(fi int) int           { return fi / len(h.defs) }
func (h *cgH) defOf(fi int) *cgResDef      { return h.defs[fi%len(h.defs)] }
func (h *cgH) fname(fi int) string         { return fmt.Sprintf("n%d/%s", h.nodeOf(fi), h.defOf(fi).name) }
func (h *cgH) show(fi int, v cgVal) string { return cgPlanString(h.defOf(fi).isSet, v) }

func (h *cgH) filePath(node int, d *cgResDef) string {
	if h.cfg.V2 {
		return filepath.Join(h.root, h.dirs[node], d.fileV2)
	}
	return filepath.Join(h.root, d.subfs, h.dirs[node], d.fileV1)
}

func (h *cgH) putFile(fi int, v cgVal) {
	txt := cgKernelText(h.defOf(fi), h.cfg.V2, v) + "\n"
	if err := os.WriteFile(h.path[fi], []byte(txt), 0o644); err != nil {
		h.r.HarnessFail("write %s: %v", h.path[fi], err)
	}
	if err := os.Chtimes(h.path[fi], cgSentinel, cgSentinel); err != nil {
		h.r.HarnessFail("chtimes %s: %v", h.path[fi], err)
	}
	h.val[fi] = v
}

// restore puts a recorded tree back on disk.
func (h *cgH) restore(snap []cgVal) {
	for fi, v := range snap {
		if h.has(fi) && h.val[fi] != v {
			h.putFile(fi, v)
		}
	}
}

// scan returns the files written since they were last stamped.
func (h *cgH) scan() []int {
	var out []int
	for fi, p := range h.path {
		if !h.has(fi) {
			continue // no directory, nothing that could be written
		}
		st, err := os.Lstat(p)
		if err != nil {
			h.r.HarnessFail("stat %s: %v", p, err)
		}
		if !st.ModTime().Equal(cgSentinel) {
			out = append(out, fi)
		}
	}
	return out
}

func (h *cgH) touched(fi int) bool {
	st, err := os.Lstat(h.path[fi])
	if err != nil {
		h.r.HarnessFail("stat %s: %v", h.path[fi], err)
	}
	return !st.ModTime().Equal(cgSentinel)
}

// conflict reports the parent/child rule that value v in file fi would break, given the rest of the tree ("" = none).
func (h *cgH) conflict(fi int, v cgVal) (class, msg string) {
	n, d := h.nodeOf(fi), h.defOf(fi)
	ri := fi % len(h.defs)
	if p := h.cfg.Parents[n]; p >= 0 {
		pv := h.val[h.fi(p, ri)]
		if !cgWithin(d.isSet, v, pv) {
			return "child-exceeds-parent", fmt.Sprintf("%s of node %d becomes %s, its parent node %d holds %s", d.name, n, h.show(fi, v), p, h.show(fi, pv))
		}
	}
	for _, c := range h.kids[n] {
		if !h.present[c] {
			continue
		}
		cv := h.val[h.fi(c, ri)]
		if !cgWithin(d.isSet, cv, v) {
			return "parent-below-child", fmt.Sprintf("%s of node %d becomes %s, its child node %d still holds %s", d.name, n, h.show(fi, v), c, h.show(fi, cv))
		}
	}
	return "", ""
}

func (h *cgH) treeValid() string {
	for fi := range h.val {
		if !h.has(fi) {
			continue
		}
		if c, msg := h.conflict(fi, h.val[fi]); c != "" {
			return msg
		}
	}
	return ""
}

func (h *cgH) deferFail(oracle, detail, format string, args ...any) {
	if h.pending == nil {
		h.pending = &cgDeferred{oracle, detail, fmt.Sprintf(format, args...)}
	}
}

func (h *cgH) sleep(d time.Duration) {
	time.Sleep(d)
	synctest.Wait() // let the cache GC goroutines that woke up meanwhile finish their round
}

// cgW wraps a real updater; it is what the executor sees.
type cgW struct {
	ResourceUpdater
	h  *cgH
	fi int
}

func (w *cgW) update() error {
	_, err := w.h.call(w, "exact", func() (ResourceUpdater, error) { return nil, w.ResourceUpdater.update() })
	return err
}

func (w *cgW) MergeUpdate() (ResourceUpdater, error) {
	return w.h.call(w, "merge", func() (ResourceUpdater, error) {
		m, err := w.ResourceUpdater.MergeUpdate()
		if m == w.ResourceUpdater { // the real updater returned itself: keep the identity the executor would see
			m = w
		}
		return m, err
	})
}

func (w *cgW) Clone() ResourceUpdater {
	return &cgW{ResourceUpdater: w.ResourceUpdater.Clone(), h: w.h, fi: w.fi}
}

func cgErrno(kind string) syscall.Errno {
	switch kind {
	case "EIO":
		return syscall.EIO
	case "ENOSPC":
		return syscall.ENOSPC
	case "EBUSY":
		return syscall.EBUSY
	case "EACCES":
		return syscall.EACCES
	}
	return syscall.EINVAL
}

// call is the seam: one forwarded update()/MergeUpdate() of the real updater, followed by the kernel's side of it.
func (h *cgH) call(w *cgW, pass string, do func() (ResourceUpdater, error)) (ResourceUpdater, error) {
	r, s := h.r, h.sub
	s.calls++
	if h.cfg.MidJump && r.Flip(0.05) {
		// a slow cgroupfs: simulated time passes in the middle of the batch
		d := []int{1, h.cfg.Force + 1, 61, 121, 130}[r.Choose(5)]
		h.sleep(time.Duration(d) * time.Second)
		r.Probe("jump:mid-batch")
		r.Event("midjump %d", d)
	}
	m, err := do()
	// Which file did the call write? In restart executions only the updater's own file is looked at after every call; the
	// rest of the tree is verified untouched once per execution (run: "late"), which keeps the per-call cost independent
	// of the tree size.
	if s.keepSnap {
		// executions whose per-write snapshots become crash points: look at the whole tree after every call
		for _, o := range h.scan() {
			if o != w.fi {
				r.Fail("stray-write", h.defOf(o).name, "%s: the %s call for %s wrote %s", s.name, pass, h.fname(w.fi), h.fname(o))
			}
		}
	}
	if !h.has(w.fi) {
		// the cgroup does not exist (yet / any more): there is no file the call could have written
		if _, serr := os.Lstat(h.path[w.fi]); serr == nil {
			r.Fail("stray-write", h.defOf(w.fi).name+"/absent-cgroup", "%s: the %s call for %s created the file although the cgroup does not exist", s.name, pass, h.fname(w.fi))
		}
		r.Probe("call:" + pass + ":absent-cgroup")
		r.Event("%s call %s %s absent err=%v", s.name, h.fname(w.fi), pass, err != nil)
		return m, err
	}
	if !h.touched(w.fi) {
		r.Probe("call:" + pass + ":no-write")
		r.Event("%s call %s %s nowrite err=%v", s.name, h.fname(w.fi), pass, err != nil)
		return m, err
	}
	fi := w.fi
	d := h.defOf(fi)
	raw, rerr := os.ReadFile(h.path[fi])
	if rerr != nil {
		r.HarnessFail("read back %s: %v", h.path[fi], rerr)
	}
	old := h.val[fi]
	revert := func() { h.putFile(fi, old) }
	r.OracleEval()
	nv, ok := cgKernelParse(d, h.cfg.V2, string(raw))
	if ok && d.isSet && nv == 0 {
		ok = false // an empty cpuset.cpus is refused for a populated cgroup (ENOSPC)
	}
	malformed := ""
	if !ok {
		// the kernel's write handler cannot parse the text: EINVAL, the file keeps its value
		malformed = fmt.Sprintf("%q written into %s of node %d (cgroup v2=%v) is not something the kernel accepts for that file", raw, d.name, h.nodeOf(fi), h.cfg.V2)
		nv = old
	}
	if err != nil {
		r.HarnessFail("the %s call for %s wrote the file and returned an error: %v", pass, h.fname(fi), err)
	}
	tv, addressed := s.target[fi]
	// ---- injected write failure / crash (separate configuration)
	if s.inject {
		switch k := r.Fault("write:"+pass, "EIO", "EINVAL", "ENOSPC", "EBUSY", "EACCES", "crash"); k {
		case "":
		case "crash":
			// the write reached the kernel (if the kernel accepts it), then the agent died
			if c, _ := h.conflict(fi, nv); c != "" || malformed != "" {
				revert()
			} else {
				h.putFile(fi, nv)
				s.writes = append(s.writes, cgWrite{fi, nv, pass})
			}
			s.crashed = true
			r.Probe("fault:crash")
			r.Event("%s crash at %s %s", s.name, h.fname(fi), pass)
			panic(cgCrash{})
		default:
			revert()
			s.failed++
			r.Probe("fault:write-failed:" + pass)
			r.Event("%s write %s %s fails %s", s.name, h.fname(fi), pass, k)
			h.classifyFailedWrite(fi, nv, pass)
			return w, &os.PathError{Op: "write", Path: h.path[fi], Err: cgErrno(k)}
		}
	}
	// ---- the parent/child rules
	class, msg := h.conflict(fi, nv)
	if malformed != "" {
		class, msg = "malformed-text", malformed
	}
	if class != "" {
		oracle := s.onBad
		if class == "malformed-text" && oracle == "hierarchy-invalid" {
			oracle = "" // without the kernel-like rules only the file format is enforced: the write fails, the tree is unchanged
			r.Probe("kernel:malformed-text-refused")
		}
		if s.inject && s.failed == 0 && oracle != "" {
			oracle = "kernel-rejected" // nothing has been injected so far: this is the fault-free claim
		}
		switch oracle {
		case "":
			revert()
			s.rejected++
			r.Probe("fault:kernel-rejected-attempt:" + pass)
			r.Event("%s write %s %s rejected", s.name, h.fname(fi), pass)
			return w, &os.PathError{Op: "write", Path: h.path[fi], Err: syscall.EINVAL}
		case "hierarchy-invalid":
			r.Fail(oracle, d.name+"/"+pass+"/"+class, "%s: after write #%d (%s pass): %s", s.name, len(s.writes)+1, pass, msg)
		case "kernel-rejected":
			r.Fail(oracle, d.name+"/"+pass+"/"+class, "%s: no write has failed, write #%d (%s pass): %s: the kernel rejects the write", s.name, len(s.writes)+1, pass, msg)
		default:
			r.Fail(oracle, d.name+"/"+pass+"/"+class, "%s: after %d failed write(s) the executor attempts a write the kernel rejects given the files as they are: %s", s.name, s.failed, msg)
		}
	}
	// ---- the write is accepted
	if s.strict {
		if !addressed {
			r.Fail("stray-write", d.name, "%s: %s is not part of the request but was written", s.name, h.fname(fi))
		}
		if s.start[fi] == tv {
			h.deferFail("unchanged-rewritten", h.unchangedDetail(d)+"/"+pass, "%s: %s held %s at the start, its target is %s, yet the %s pass wrote %q into it",
				s.name, h.fname(fi), h.show(fi, s.start[fi]), h.show(fi, tv), pass, raw)
		}
	}
	if nv == old {
		r.Probe("write:same-value")
	}
	h.putFile(fi, nv) // the kernel's own formatting ("0,1,2" -> "0-2", "50000" -> "50000 100000", MaxInt64 -> "max")
	s.writes = append(s.writes, cgWrite{fi, nv, pass})
	if s.keepSnap {
		s.snaps = append(s.snaps, append([]cgVal(nil), h.val...))
	}
	r.Probe("write:" + pass)
	r.Event("%s write %s %s %s", s.name, h.fname(fi), pass, h.show(fi, nv))
	return m, err
}

func (h *cgH) unchangedDetail(d *cgResDef) string {
	if d.name == "cfs" && h.cfg.V2 {
		return "cfs-v2"
	}
	return d.name
}

// classifyFailedWrite tags the history class "a write failed whose success a later write of the same batch depends on":
// the executor carries on with the relatives of the node although the value it just tried to establish is not there.
func (h *cgH) classifyFailedWrite(fi int, intended cgVal, pass string) {
	n, d := h.nodeOf(fi), h.defOf(fi)
	ri := fi % len(h.defs)
	actual := h.val[fi]
	dep := false
	// descendants (direct children are enough: rules are per edge) whose target or merged value needs the intended value
	for _, c := range h.kids[n] {
		if !h.present[c] {
			continue
		}
		cf := h.fi(c, ri)
		if tv, ok := h.sub.target[cf]; ok {
			need := tv
			if d.isSet {
				need |= h.val[cf]
			}
			if !cgWithin(d.isSet, need, actual) {
				dep = true
			}
		}
	}
	// the parent is lowered later in the exact pass, assuming this node has been lowered already
	if p := h.cfg.Parents[n]; p > 0 {
		pf := h.fi(p, ri)
		if tv, ok := h.sub.target[pf]; ok && !cgWithin(d.isSet, actual, tv) {
			dep = true
		}
	}
	// the node itself: after a failed merge write the exact pass writes the bare target, skipping the widening step
	if pass == "merge" {
		if tv, ok := h.sub.target[fi]; ok {
			for _, c := range h.kids[n] {
				if h.present[c] && !cgWithin(d.isSet, h.val[h.fi(c, ri)], tv) {
					dep = true
				}
			}
		}
	}
	_ = intended
	if dep {
		h.r.Tag("failed-write-needed-by-relative")
	}
}

// ---------------------------------------------------------------- execution

func (h *cgH) newExecutor() *ResourceUpdateExecutorImpl {
	e := &ResourceUpdateExecutorImpl{
		ResourceCache: cache.NewCacheDefault(),
		Config:        &Config{ResourceForceUpdateSeconds: h.cfg.Force},
	}
	stop := make(chan struct{})
	h.stops = append(h.stops, stop)
	e.Run(stop)
	return e
}

func (h *cgH) stopAll() {
	for _, c := range h.stops {
		close(c)
	}
	h.stops = nil
}

type cgReq struct {
	op     *cgOp
	ris    []int         // index into h.defs for every op.Res entry
	target map[int]cgVal // file -> target for every file of the request's resources (including omitted nodes)
	omit   map[int]bool  // nodes without updater
}

// build creates fresh updaters (as a caller would on every reconcile round), wrapped, grouped by level.
func (h *cgH) build(q *cgReq) ([][]ResourceUpdater, map[int]cgVal) {
	depth := 0
	for _, l := range h.levels {
		if l > depth {
			depth = l
		}
	}
	levels := make([][]ResourceUpdater, depth)
	addressed := map[int]cgVal{}
	g := sim.NewRng(q.op.Shuffle)
	for lv := 1; lv <= depth; lv++ {
		var us []ResourceUpdater
		for n := 1; n < len(h.levels); n++ {
			if h.levels[n] != lv || q.omit[n] {
				continue
			}
			for k, ri := range q.ris {
				_ = k
				fi := h.fi(n, ri)
				d := h.defs[ri]
				tv := q.target[fi]
				var s string
				switch {
				case d.isSet:
					s = cgSetString(tv, q.op.CSList)
				case tv == cgInf && d.name == "cfs":
					s = "-1"
				case tv == cgInf && q.op.MaxNum:
					s = strconv.FormatInt(math.MaxInt64, 10)
				case tv == cgInf:
					s = "max"
				default:
					s = strconv.FormatInt(int64(tv), 10)
				}
				u, err := DefaultCgroupUpdaterFactory.New(d.typ, h.dirs[n], s, nil)
				if err != nil {
					h.r.HarnessFail("updater factory: %v", err)
				}
				if u.Path() != h.path[fi] {
					h.r.HarnessFail("path model mismatch: updater %s, harness %s", u.Path(), h.path[fi])
				}
				us = append(us, &cgW{ResourceUpdater: u, h: h, fi: fi})
				addressed[fi] = tv
			}
		}
		// callers list the cgroups of one level in no particular order
		perm := g.Perm(len(us))
		sh := make([]ResourceUpdater, len(us))
		for i, j := range perm {
			sh[i] = us[j]
		}
		levels[lv-1] = sh
	}
	return levels, addressed
}

// run executes one LeveledUpdateBatch of request q on executor e.
func (h *cgH) run(e *ResourceUpdateExecutorImpl, q *cgReq, s *cgSub) {
	r := h.r
	levels, addressed := h.build(q)
	s.start = append([]cgVal(nil), h.val...)
	s.target = addressed
	if s.keepSnap {
		s.snaps = [][]cgVal{s.start}
	}
	h.sub = s
	// History classes of the three findings that have been repaired in /repo (known_findings.jsonl, status fixed): counted
	// as evidence only. They are no longer history TAGS: a fixed finding needs no signature of its own, and a violation on
	// such a history is reported under its plain signature.
	if s.keepSnap {
		hist := map[string]bool{}
		for fi, tv := range addressed {
			if !h.has(fi) {
				continue
			}
			d := h.defOf(fi)
			if d.isSet && s.start[fi]&^tv != 0 && tv&^s.start[fi] != 0 {
				hist["hist:cpuset-neither-subset"] = true
			}
			if d.name == "cfs" && h.cfg.V2 && s.start[fi] == tv {
				hist["hist:cfs-v2-unchanged"] = true
			}
			if d.name == "cfs" && h.cfg.V2 && tv == cgInf && s.start[fi] != cgInf {
				hist["hist:cfs-v2-to-unlimited"] = true
			}
		}
		for _, k := range []string{"hist:cpuset-neither-subset", "hist:cfs-v2-unchanged", "hist:cfs-v2-to-unlimited"} {
			if hist[k] {
				r.Probe(k)
			}
		}
		for _, ri := range q.ris {
			if !h.defs[ri].isSet {
				continue
			}
			cls := "op:cpuset:all-nested"
			for fi, tv := range addressed {
				if h.has(fi) && fi%len(h.defs) == ri && s.start[fi]&^tv != 0 && tv&^s.start[fi] != 0 {
					cls = "op:cpuset:has-neither-subset"
				}
			}
			r.Probe(cls)
		}
	}
	r.Event("%s begin", s.name)
	func() {
		defer func() {
			if x := recover(); x != nil {
				if _, ok := x.(cgCrash); ok {
					return
				}
				panic(x)
			}
		}()
		e.LeveledUpdateBatch(levels)
	}()
	h.sub = nil
	if late := h.scan(); len(late) > 0 {
		// every call's own file has been dealt with: these were written by a call made for a different file (or outside any call)
		r.Fail("stray-write", h.defOf(late[0]).name, "%s: %s was written although no call for it was in progress", s.name, h.fname(late[0]))
	}
	if s.crashed {
		return
	}
	if s.strict {
		h.checkReached(s, "")
	}
	r.Event("%s end writes=%d", s.name, len(s.writes))
}

// checkReached: on completion every file of the request whose cgroup exists holds its target.
func (h *cgH) checkReached(s *cgSub, phase string) {
	h.r.OracleEval()
	var fis []int
	for fi := range s.target {
		fis = append(fis, fi)
	}
	sort.Ints(fis)
	for _, fi := range fis {
		tv := s.target[fi]
		if !h.has(fi) || h.val[fi] == tv {
			continue
		}
		d := h.defOf(fi)
		st := s.start[fi]
		rel := "grow"
		switch {
		case d.isSet && st&^tv != 0 && tv&^st != 0:
			rel = "neither-subset"
		case cgWithin(d.isSet, tv, st):
			rel = "shrink"
		}
		if phase != "" {
			rel += "/" + phase
		}
		h.deferFail("target-not-reached", d.name+"/"+rel, "%s: the rewrite returned but %s holds %s, target %s (held %s at the start; %d calls, %d writes)",
			s.name, h.fname(fi), h.show(fi, h.val[fi]), h.show(fi, tv), h.show(fi, st), s.calls, len(s.writes))
		return
	}
}

// cgTempBase: where the private cgroup root of a run is created. Default: $TMPDIR (private per worker). When $TMPDIR is
// on a disk file system and /dev/shm is available, a per-worker directory named after $TMPDIR is used there instead:
// os.WriteFile on an existing ext4 file (truncate + close) makes ext4 flush the data at close (auto_da_alloc), which turns
// every cgroup write of the run into synchronous disk I/O (measured: 15 runs/s on ext4, 180 runs/s on tmpfs).
// "" = os.MkdirTemp default. VERIF_CGROUP_TMP overrides (set it to "-" to force $TMPDIR).
func cgTempBase() string {
	if v := os.Getenv("VERIF_CGROUP_TMP"); v != "" {
		if v == "-" {
			return ""
		}
		return v
	}
	st, err := os.Stat("/dev/shm")
	if err != nil || !st.IsDir() {
		return ""
	}
	b := filepath.Join("/dev/shm", fmt.Sprintf("verifcg-%016x", sim.HashString(os.TempDir())))
	if err := os.MkdirAll(b, 0o700); err != nil {
		return ""
	}
	return b
}

func (cgEngine) Execute(r *sim.Run) {
	h := &cgH{r: r}
	r.Plan.GetCfg(&h.cfg)
	var ops []cgOp
	r.Plan.GetOps(&ops)
	cfg := &h.cfg
	if len(cfg.Parents) < 2 || len(cfg.Res) == 0 || len(cfg.Init) != len(cfg.Res) {
		r.HarnessFail("bad cfg")
	}
	for _, name := range cfg.Res {
		d := cgDef(name)
		if d == nil {
			r.HarnessFail("unknown resource %q", name)
		}
		h.defs = append(h.defs, d)
	}
	h.levels = cgLevels(cfg.Parents)
	h.kids = make([][]int, len(cfg.Parents))
	for i := 1; i < len(cfg.Parents); i++ {
		h.kids[cfg.Parents[i]] = append(h.kids[cfg.Parents[i]], i)
	}
	// ---- the private cgroup root
	base := cgTempBase()
	root, err := os.MkdirTemp(base, "verifcg")
	if err != nil {
		r.HarnessFail("mkdtemp: %v", err)
	}
	h.root = root
	oldRoot, oldV2 := sysutil.Conf.CgroupRootDir, sysutil.UseCgroupsV2.Load()
	sysutil.Conf.CgroupRootDir = root
	sysutil.UseCgroupsV2.Store(cfg.V2)
	defer func() {
		h.stopAll()
		sysutil.Conf.CgroupRootDir = oldRoot
		sysutil.UseCgroupsV2.Store(oldV2)
		_ = os.RemoveAll(root)
		if base != "" {
			_ = os.Remove(base) // only succeeds when empty
		}
	}()
	// "supported" verdicts are cached process-wide by the repo's resource table: forget what an earlier run concluded
	for _, d := range h.defs {
		for _, v := range []sysutil.CgroupVersion{sysutil.CgroupVersionV1, sysutil.CgroupVersionV2} {
			if res, ok := sysutil.DefaultRegistry.Get(v, d.typ); ok {
				if cr, ok := res.(*sysutil.CgroupResource); ok && cr.CheckSupported != nil {
					cr.Supported = nil
				}
			}
		}
	}
	// directory names as the systemd cgroup driver lays them out
	h.dirs = make([]string, len(cfg.Parents))
	h.dirs[0] = "kubepods.slice"
	qos := []string{"burstable", "besteffort", "extra"}
	qn := 0
	for i := 1; i < len(cfg.Parents); i++ {
		p := cfg.Parents[i]
		switch h.levels[i] {
		case 1:
			h.dirs[i] = filepath.Join(h.dirs[0], "kubepods-"+qos[qn%len(qos)]+".slice")
			qn++
		case 2:
			base := strings.TrimSuffix(filepath.Base(h.dirs[p]), ".slice")
			h.dirs[i] = filepath.Join(h.dirs[p], fmt.Sprintf("%s-pod%04d.slice", base, i))
		default:
			h.dirs[i] = filepath.Join(h.dirs[p], fmt.Sprintf("cri-containerd-%08x.scope", i))
		}
	}
	nf := len(cfg.Parents) * len(h.defs)
	h.path = make([]string, nf)
	h.val = make([]cgVal, nf)
	h.present = make([]bool, len(cfg.Parents))
	h.gone = make([]bool, len(cfg.Parents))
	h.wished = map[int]cgWish{}
	for n := range h.present {
		h.present[n] = true
	}
	for _, a := range cfg.Absent {
		if a > 0 && a < len(cfg.Parents) && h.levels[a] >= 2 { // the kubepods and QoS cgroups always exist
			h.present[a] = false
		}
	}
	for n := 1; n < len(cfg.Parents); n++ {
		if !h.present[cfg.Parents[n]] {
			h.present[n] = false
		}
	}
	for n := range cfg.Parents {
		for ri, d := range h.defs {
			fi := h.fi(n, ri)
			h.path[fi] = h.filePath(n, d)
			if len(cfg.Init[ri]) != len(cfg.Parents) {
				r.HarnessFail("bad init")
			}
			v, ok := cgParsePlan(d.isSet, cfg.Init[ri][n])
			if !ok {
				r.HarnessFail("bad init value %q", cfg.Init[ri][n])
			}
			if !h.present[n] {
				r.Probe("node:absent-at-start")
				continue
			}
			if err := os.MkdirAll(filepath.Dir(h.path[fi]), 0o755); err != nil {
				r.HarnessFail("mkdir: %v", err)
			}
			h.val[fi] = v + 1 // force putFile
			h.putFile(fi, v)
		}
	}
	if msg := h.treeValid(); msg != "" {
		r.HarnessFail("generated start state is not hierarchy-valid: %s", msg)
	}
	r.Probe("cfg:v2=" + strconv.FormatBool(cfg.V2))
	r.Probe("cfg:mode=" + cfg.Mode)
	depth := 0
	for _, l := range h.levels {
		if l > depth {
			depth = l
		}
	}
	r.Probe(fmt.Sprintf("cfg:depth=%d", depth))
	r.Probe("cfg:churn=" + strconv.FormatBool(len(cfg.Absent) > 0))
	r.Sample("v2=%v mode=%s nodes=%d depth=%d res=%v force=%ds faults=%v", cfg.V2, cfg.Mode, len(cfg.Parents), depth, cfg.Res, cfg.Force, r.Plan.Faults)

	exec := h.newExecutor() // the long-lived agent
	for oi := range ops {
		op := &ops[oi]
		switch op.K {
		case "create":
			h.createOp(oi, op)
			continue
		case "remove":
			h.removeOp(oi, op)
			continue
		case "update":
			h.plainOp(exec, oi, op)
			continue
		}
		if op.K != "rewrite" {
			r.OpSkipped()
			continue
		}
		q := h.request(op)
		if q == nil {
			r.OpSkipped()
			continue
		}
		if op.Jump > 0 {
			h.sleep(time.Duration(op.Jump) * time.Second)
			switch {
			case op.Jump > 120:
				r.Probe("jump:across-cache-expiry")
			case op.Jump > cfg.Force:
				r.Probe("jump:across-force-update")
			default:
				r.Probe("jump:short")
			}
			r.Event("jump %d", op.Jump)
		}
		r.OpDone()
		for _, name := range op.Res {
			r.Probe("res:" + name)
		}
		r.Probe("pattern:" + op.Pattern)
		h.describe(oi, op, q)
		for fi, tv := range q.target {
			switch n := h.nodeOf(fi); {
			case q.omit[n]:
			case !h.present[n]:
				h.wished[fi] = cgWish{tv, time.Now()}
			default:
				delete(h.wished, fi)
			}
		}
		if cgFaulty(cfg.Mode) {
			exec = h.faultedOp(exec, oi, q)
		} else {
			h.crashEnumOp(exec, oi, q)
		}
	}
	// violations that do not concern the validity of the tree are raised once the whole plan has been executed, so that
	// a recorded finding of that kind does not hide the validity checks of the remaining crash points and operations
	if h.pending != nil {
		r.Fail(h.pending.oracle, h.pending.detail, "%s", h.pending.msg)
	}
}

// createOp: the container runtime creates the cgroup of op.Node between two rewrites. Applicable when the cgroup does not
// exist, never existed before (paths are unique) and its parent exists. The files hold what the plan says, cut down to
// what the parent holds on disk at this moment (a new cgroup never starts outside its parent).
func (h *cgH) createOp(oi int, op *cgOp) {
	r := h.r
	n := op.Node
	if n <= 0 || n >= len(h.cfg.Parents) || h.levels[n] < 2 || h.present[n] || h.gone[n] || !h.present[h.cfg.Parents[n]] || len(op.Val) != len(h.defs) {
		r.OpSkipped()
		return
	}
	vals := make([]cgVal, len(h.defs))
	for ri, d := range h.defs {
		v, ok := cgParsePlan(d.isSet, op.Val[ri])
		if !ok {
			r.OpSkipped()
			return
		}
		pv := h.val[h.fi(h.cfg.Parents[n], ri)]
		if d.isSet {
			if v &= pv; v == 0 {
				v = pv
			}
		} else if int64(v) > int64(pv) {
			v = pv
		}
		vals[ri] = v
	}
	h.present[n] = true
	var sb strings.Builder
	for ri := range h.defs {
		fi := h.fi(n, ri)
		if err := os.MkdirAll(filepath.Dir(h.path[fi]), 0o755); err != nil {
			r.HarnessFail("mkdir: %v", err)
		}
		h.val[fi] = vals[ri] + 1 // force putFile
		h.putFile(fi, vals[ri])
		fmt.Fprintf(&sb, " %s=%s", h.defs[ri].name, h.show(fi, vals[ri]))
		if w, ok := h.wished[fi]; ok && w.v != vals[ri] {
			r.Probe("create:differs-from-agents-wish")
		}
	}
	if msg := h.treeValid(); msg != "" {
		r.HarnessFail("cgroup creation produced an invalid tree: %s", msg)
	}
	r.OpDone()
	r.Probe("op:create")
	r.Event("create n%d%s", n, sb.String())
	r.Sample("op%d create n%d(p%d)%s", oi, n, h.cfg.Parents[n], sb.String())
}

// plainOp: a plain cacheable Update / UpdateBatch on the long-lived executor (the entry points the non-leveled plugins use)
// for single files, cgroups that do not exist included. An existing cgroup is only named when writing the value keeps the
// tree valid as it is on disk (a single-file update has no way to order itself against relatives). Fault-free; the full
// statement applies: the rule after the write, the existing files hold the value afterwards, unchanged files are not written.
func (h *cgH) plainOp(exec *ResourceUpdateExecutorImpl, oi int, op *cgOp) {
	r := h.r
	ri := -1
	for i, d := range h.defs {
		if len(op.Res) == 1 && d.name == op.Res[0] {
			ri = i
		}
	}
	if ri < 0 || len(op.Nodes) == 0 || len(op.Nodes) != len(op.Val) {
		r.OpSkipped()
		return
	}
	d := h.defs[ri]
	onBad := "hierarchy-invalid"
	if h.cfg.Mode != "crash" {
		onBad = "kernel-rejected"
	}
	s := &cgSub{name: fmt.Sprintf("op%d/plain", oi), strict: true, onBad: onBad, target: map[int]cgVal{}}
	var us []ResourceUpdater
	seen := map[int]bool{}
	for i, n := range op.Nodes {
		if n <= 0 || n >= len(h.cfg.Parents) || seen[n] {
			continue
		}
		seen[n] = true
		v, ok := cgParsePlan(d.isSet, op.Val[i])
		if !ok {
			continue
		}
		fi := h.fi(n, ri)
		if h.present[n] {
			if c, _ := h.conflict(fi, v); c != "" {
				r.Probe("plain:node-dropped-not-valid-alone")
				continue
			}
		}
		var str string
		switch {
		case d.isSet:
			str = cgSetString(v, false)
		case v == cgInf && d.name == "cfs":
			str = "-1"
		case v == cgInf:
			str = "max"
		default:
			str = strconv.FormatInt(int64(v), 10)
		}
		u, err := DefaultCgroupUpdaterFactory.New(d.typ, h.dirs[n], str, nil)
		if err != nil {
			r.HarnessFail("updater factory: %v", err)
		}
		us = append(us, &cgW{ResourceUpdater: u, h: h, fi: fi})
		s.target[fi] = v
		if !h.present[n] {
			h.wished[fi] = cgWish{v, time.Now()}
			r.Probe("plain:absent-cgroup-addressed")
		} else {
			r.Probe("plain:existing-cgroup-addressed")
		}
	}
	if len(us) == 0 {
		r.OpSkipped()
		return
	}
	r.OpDone()
	r.Probe("op:update")
	s.start = append([]cgVal(nil), h.val...)
	h.sub = s
	r.Event("%s begin batch=%v n=%d", s.name, op.Batch, len(us))
	if op.Batch {
		exec.UpdateBatch(true, us...)
	} else {
		for _, u := range us {
			if _, err := exec.Update(true, u); err != nil {
				r.Fail("plain-update-failed", d.name, "%s: Update(%s) of a fault-free cgroupfs returned %v", s.name, u.Key(), err)
			}
		}
	}
	h.sub = nil
	if late := h.scan(); len(late) > 0 {
		r.Fail("stray-write", h.defOf(late[0]).name, "%s: %s was written although no call for it was in progress", s.name, h.fname(late[0]))
	}
	h.checkReached(s, "plain")
	r.Event("%s end writes=%d", s.name, len(s.writes))
	r.Sample("op%d plain update %s nodes=%v val=%v batch=%v: %d calls, %d writes", oi, d.name, op.Nodes, op.Val, op.Batch, s.calls, len(s.writes))
}

// removeOp: the cgroup of op.Node and everything below it goes away between two rewrites (pod deleted, container exited).
func (h *cgH) removeOp(oi int, op *cgOp) {
	r := h.r
	n := op.Node
	if n <= 0 || n >= len(h.cfg.Parents) || h.levels[n] < 2 || !h.present[n] {
		r.OpSkipped()
		return
	}
	for ri := range h.defs {
		if err := os.RemoveAll(filepath.Dir(h.path[h.fi(n, ri)])); err != nil {
			r.HarnessFail("rmdir: %v", err)
		}
	}
	var mark func(x int)
	mark = func(x int) {
		h.present[x], h.gone[x] = false, true
		for _, c := range h.kids[x] {
			mark(c)
		}
	}
	mark(n)
	r.OpDone()
	r.Probe("op:remove")
	r.Event("remove n%d", n)
	r.Sample("op%d remove n%d", oi, n)
}

// request validates an op against the tree as it is (ops must stay meaningful when the shrinker removes earlier ones).
func (h *cgH) request(op *cgOp) *cgReq {
	q := &cgReq{op: op, target: map[int]cgVal{}, omit: map[int]bool{}}
	if len(op.Res) == 0 || len(op.Res) != len(op.Target) {
		return nil
	}
	for k, name := range op.Res {
		ri := -1
		for i, d := range h.defs {
			if d.name == name {
				ri = i
			}
		}
		if ri < 0 || len(op.Target[k]) != len(h.cfg.Parents) {
			return nil
		}
		q.ris = append(q.ris, ri)
		d := h.defs[ri]
		for n := 1; n < len(h.cfg.Parents); n++ {
			v, ok := cgParsePlan(d.isSet, op.Target[k][n])
			if !ok {
				return nil
			}
			q.target[h.fi(n, ri)] = v
		}
		// the target must be hierarchy-valid (the root keeps its value)
		for n := 1; n < len(h.cfg.Parents); n++ {
			p := h.cfg.Parents[n]
			pv := h.val[h.fi(0, ri)]
			if p > 0 {
				pv = q.target[h.fi(p, ri)]
			}
			if !cgWithin(d.isSet, q.target[h.fi(n, ri)], pv) {
				return nil
			}
		}
	}
	for _, n := range op.Omit {
		if n <= 0 || n >= len(h.cfg.Parents) {
			continue
		}
		if !h.present[n] {
			q.omit[n] = true // the caller's pod list does not (any longer / yet) contain the cgroup
			h.r.Probe("req:absent-node-omitted")
			continue
		}
		same := true
		for _, ri := range q.ris {
			if h.val[h.fi(n, ri)] != q.target[h.fi(n, ri)] {
				same = false
			}
		}
		if same {
			q.omit[n] = true
			h.r.Probe("req:node-omitted")
		}
	}
	return q
}

func (h *cgH) describe(oi int, op *cgOp, q *cgReq) {
	r := h.r
	for _, ri := range q.ris {
		d := h.defs[ri]
		var sb strings.Builder
		for n := 1; n < len(h.cfg.Parents); n++ {
			fi := h.fi(n, ri)
			o, t := h.val[fi], q.target[fi]
			if !h.present[n] {
				fmt.Fprintf(&sb, " n%d(p%d):absent->%s", n, h.cfg.Parents[n], h.show(fi, t))
				if !q.omit[n] {
					r.Probe("node:absent-addressed")
				}
				continue
			}
			fmt.Fprintf(&sb, " n%d(p%d):%s->%s", n, h.cfg.Parents[n], h.show(fi, o), h.show(fi, t))
			if w, ok := h.wished[fi]; ok && !q.omit[n] {
				// the cgroup was named by an earlier rewrite of this agent while it did not exist and has been created since
				age := time.Since(w.at)
				switch {
				case w.v == t && o != t && age <= time.Duration(h.cfg.Force)*time.Second:
					r.Probe("churn:created-off-target:wish-kept:inside-force-window")
				case w.v == t && o != t:
					r.Probe("churn:created-off-target:wish-kept:after-force-window")
				case o != t:
					r.Probe("churn:created-off-target:wish-changed")
				default:
					r.Probe("churn:created-at-target")
				}
			}
			if !d.isSet && o != t && o != cgInf && t != cgInf && (strings.HasPrefix(h.show(fi, o), h.show(fi, t)) || strings.HasPrefix(h.show(fi, t), h.show(fi, o))) {
				// numerically different limits, one's decimal spelling the beginning of the other's (200000 -> 20000)
				r.Probe("node:decimal-prefix:" + h.unchangedDetail(d))
			}
			switch {
			case o == t:
				r.Probe("node:unchanged")
			case !d.isSet && o == cgInf:
				r.Probe("node:unlimited->limited")
			case !d.isSet && t == cgInf:
				r.Probe("node:limited->unlimited")
			case d.isSet && o&^t != 0 && t&^o != 0:
				r.Probe("node:cpuset-shift")
			case cgWithin(d.isSet, t, o):
				r.Probe("node:shrink")
			default:
				r.Probe("node:grow")
			}
		}
		r.Sample("op%d jump=%ds %s (root %s)%s omit=%v", oi, op.Jump, d.name, h.show(h.fi(0, ri), h.val[h.fi(0, ri)]), sb.String(), op.Omit)
	}
}

// crashEnumOp: the uninterrupted rewrite on the long-lived executor, then a restart at every crash point.
func (h *cgH) crashEnumOp(exec *ResourceUpdateExecutorImpl, oi int, q *cgReq) {
	r := h.r
	onBad := "hierarchy-invalid"
	if h.cfg.Mode == "crash-kernel" {
		onBad = "kernel-rejected"
	}
	main := &cgSub{name: fmt.Sprintf("op%d/main", oi), keepSnap: true, strict: true, onBad: onBad}
	h.run(exec, q, main)
	L := len(main.writes)
	final := append([]cgVal(nil), h.val...)
	r.Probe(fmt.Sprintf("main:L=%s", cgBucket(L)))
	if main.calls == 0 {
		r.Probe("main:all-skipped-by-cache")
	}
	r.Sample("op%d main: %d calls, %d writes", oi, main.calls, L)
	// second-order crash points (a crash during the rewrite that follows a crash) for short sequences
	depth := 1
	if h.cfg.Crash2 && L <= 8 {
		depth = 2
	}
	h.enumerate(q, main, onBad, depth)
	h.restore(final)
}

// enumerate: for EVERY k in 0..L put the tree as it was after the k-th write of execution `of` back on disk and run a
// fresh executor (empty ResourceCache) with the same request on it; all oracles of the statement apply to that run.
func (h *cgH) enumerate(q *cgReq, of *cgSub, onBad string, depth int) {
	r := h.r
	for k := 0; k < len(of.snaps); k++ {
		h.restore(of.snaps[k])
		fresh := h.newExecutor()
		s := &cgSub{name: fmt.Sprintf("%s/restart@%d", strings.TrimSuffix(of.name, "/main"), k), strict: true, onBad: onBad, keepSnap: depth > 1}
		h.run(fresh, q, s)
		// the restarted agent is done with: its GC goroutine ends
		close(h.stops[len(h.stops)-1])
		h.stops = h.stops[:len(h.stops)-1]
		if strings.Count(s.name, "/restart@") > 1 {
			r.Probe("crashpoint:restart-second-order")
		} else {
			r.Probe("crashpoint:restart")
		}
		switch {
		case len(s.writes) == 0 && k == len(of.snaps)-1:
			r.Probe("crashpoint:restart-after-completion-no-write")
		case len(s.writes) == 0:
			r.Probe("crashpoint:restart-no-write")
		}
		if depth > 1 && len(s.writes) > 0 {
			h.enumerate(q, s, onBad, depth-1)
		}
	}
}

func cgBucket(n int) string {
	switch {
	case n == 0:
		return "0"
	case n <= 2:
		return "1-2"
	case n <= 5:
		return "3-5"
	case n <= 10:
		return "6-10"
	}
	return ">10"
}

// faultedOp: the rewrite with failing writes / a crash under kernel-like rejection (only the weaker claim is checked
// there), then the agent is restarted (fresh executor, no faults) on whatever is on disk: that tree is hierarchy-valid,
// so the full statement applies to the restarted rewrite.
func (h *cgH) faultedOp(exec *ResourceUpdateExecutorImpl, oi int, q *cgReq) *ResourceUpdateExecutorImpl {
	r := h.r
	s := &cgSub{name: fmt.Sprintf("op%d/faulted", oi), inject: true}
	if h.cfg.Mode == "fault-strict" {
		s.onBad = "faulted-attempt-rejected"
	}
	h.run(exec, q, s)
	r.Probe("faultcfg:attempt")
	r.Sample("op%d faulted: %d calls, %d writes, %d failed, %d rejected, crashed=%v", oi, s.calls, len(s.writes), s.failed, s.rejected, s.crashed)
	if msg := h.treeValid(); msg != "" {
		r.HarnessFail("kernel model let an invalid tree through: %s", msg)
	}
	if s.failed == 0 && s.rejected == 0 && !s.crashed {
		// nothing was injected: the full statement applies to this execution as well
		r.Probe("faultcfg:attempt-without-fault")
		h.checkReached(s, "nofault")
	} else if !s.crashed && r.Flip(0.5) {
		// same agent, same request again, nothing injected: observed only (the statement does not cover it)
		again := &cgSub{name: fmt.Sprintf("op%d/retry", oi)}
		h.run(exec, q, again)
		reached := true
		for fi, tv := range again.target {
			if h.has(fi) && h.val[fi] != tv {
				reached = false
			}
		}
		switch {
		case again.rejected > 0:
			r.Probe("faultcfg:retry-attempt-rejected")
		case reached:
			r.Probe("faultcfg:retry-reached-target")
		default:
			r.Probe("faultcfg:retry-missed-target")
		}
		if msg := h.treeValid(); msg != "" {
			r.HarnessFail("kernel model let an invalid tree through: %s", msg)
		}
	}
	// restart
	fresh := h.newExecutor()
	rs := &cgSub{name: fmt.Sprintf("op%d/restart-after-faults", oi), strict: true, onBad: "kernel-rejected"}
	h.run(fresh, q, rs)
	r.Probe("faultcfg:restart")
	return fresh
}
