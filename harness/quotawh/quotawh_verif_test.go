//go:build verif

package elasticquota

// Engine `quotawh` (C15): the real quota admission logic (fillQuotaDefaultInformation,
// ValidAddQuota / ValidUpdateQuota / ValidDeleteQuota and the informer handlers
// OnQuotaAdd/Update/Delete of quotaTopology) driven by simulated admission requests,
// an API-server commit step that may fail after admission, and an informer echo that
// may lag, duplicate or be replayed after a webhook restart. The oracle looks only at
// the set of objects that were accepted AND committed: it must always be a well-formed
// quota forest. See /verif/DESIGN.md §4 C15.

import (
	"encoding/json"
	"fmt"
	"sort"
	"strings"
	"testing"

	corev1 "k8s.io/api/core/v1"
	"k8s.io/apimachinery/pkg/api/resource"
	metav1 "k8s.io/apimachinery/pkg/apis/meta/v1"
	"k8s.io/apimachinery/pkg/runtime"
	clientgoscheme "k8s.io/client-go/kubernetes/scheme"
	"sigs.k8s.io/controller-runtime/pkg/client"
	"sigs.k8s.io/controller-runtime/pkg/client/fake"

	"github.com/koordinator-sh/koordinator/apis/extension"
	"github.com/koordinator-sh/koordinator/apis/thirdparty/scheduler-plugins/pkg/apis/scheduling/v1alpha1"
	sim "github.com/koordinator-sh/koordinator/pkg/verifsim"
)

func TestVerifSim(t *testing.T) { sim.Main(t, &whEngine{}) }

type whEngine struct{}

func (whEngine) Name() string { return "quotawh" }

const whRoot = extension.RootQuotaName

type whCfg struct {
	Lag  bool `json:"lag"`  // informer echo may lag behind several admissions (otherwise delivered right after the commit)
	Conc bool `json:"conc"` // consecutive admission requests are handled by two concurrent webhook goroutines (lock-level interleaving)
}

type whRL map[string]int64

type whOp struct {
	K      string   `json:"k"` // create | update | delete | pod_add | pod_del | restart | echo
	Q      string   `json:"q,omitempty"`
	Parent string   `json:"parent,omitempty"`
	IsPar  bool     `json:"is_parent,omitempty"`
	Min    whRL     `json:"min,omitempty"`
	Max    whRL     `json:"max,omitempty"`
	NS     []string `json:"ns,omitempty"`
	Tree   string   `json:"tree,omitempty"`
	P      string   `json:"p,omitempty"`
	PodNS  string   `json:"pod_ns,omitempty"`
	// LoseCommit: the API server does not persist this request after admission (generated fault, like the "commit-fails"
	// fault of the fault tape, but placed by the generator inside a retry scenario)
	LoseCommit bool `json:"lose_commit,omitempty"`
}

// mq is one committed ElasticQuota as the API server stores it.
type mq struct {
	Name, Parent, Tree string
	IsPar              bool
	Min, Max           whRL
	NS                 []string
	ver                int
	obj                *v1alpha1.ElasticQuota
}

func whToRL(m whRL) corev1.ResourceList {
	if m == nil {
		return nil
	}
	out := corev1.ResourceList{}
	for k, v := range m {
		out[corev1.ResourceName(k)] = *resource.NewQuantity(v, resource.DecimalSI)
	}
	return out
}

func (op *whOp) object() *v1alpha1.ElasticQuota {
	eq := &v1alpha1.ElasticQuota{
		TypeMeta:   metav1.TypeMeta{Kind: "ElasticQuota", APIVersion: "scheduling.sigs.k8s.io/v1alpha1"},
		ObjectMeta: metav1.ObjectMeta{Name: op.Q, Namespace: "default", Labels: map[string]string{}, Annotations: map[string]string{}},
		Spec:       v1alpha1.ElasticQuotaSpec{Min: whToRL(op.Min), Max: whToRL(op.Max)},
	}
	if op.Parent != "" {
		eq.Labels[extension.LabelQuotaParent] = op.Parent
	}
	eq.Labels[extension.LabelQuotaIsParent] = fmt.Sprint(op.IsPar)
	if op.Tree != "" {
		eq.Labels[extension.LabelQuotaTreeID] = op.Tree
	}
	if len(op.NS) > 0 {
		b, _ := json.Marshal(op.NS)
		eq.Annotations[extension.AnnotationQuotaNamespaces] = string(b)
	}
	return eq
}

// ---------------------------------------------------------------- generation

var whNames = []string{"a", "b", "c", "d", "e", "f", "g", "h"}
var whVals = []int64{0, 1, 2, 3, 5, 8, 10, 20}

func whGenRL(g *sim.Rng, dims []string, cap whRL) whRL {
	out := whRL{}
	for _, d := range dims {
		v := whVals[g.Intn(len(whVals))]
		if cap != nil && g.Bool(0.8) {
			if c, ok := cap[d]; ok && v > c {
				v = g.I64n(c + 1)
			}
		}
		out[d] = v
	}
	return out
}

func (whEngine) Generate(p *sim.Plan, g *sim.Rng) {
	cfg := whCfg{Lag: g.Bool(0.3)}
	cfg.Conc = !cfg.Lag && g.Bool(0.35)
	if g.Bool(0.3) {
		p.FaultRate = 0.08
		p.Faults = []string{"commit-fails"}
	}
	n := g.Range(6, 30)
	if p.Tier == "thorough" {
		n = g.Range(6, 60)
	}
	// a generation-time picture of what an ideal webhook would have admitted, only used to bias requests towards
	// interesting ones (re-parenting below a descendant, sums at the boundary, ...); the run never trusts it
	have := map[string]*mq{}
	// tryApply: would an ideal webhook admit it? (keeps the generation-time picture close to the real committed set)
	tryApply := func(name string, q *mq) bool {
		old, had := have[name]
		if q == nil {
			delete(have, name)
		} else {
			have[name] = q
		}
		if c, _ := whWellFormed(have); c != "" {
			if had {
				have[name] = old
			} else {
				delete(have, name)
			}
			return false
		}
		return true
	}
	dimsets := [][]string{{"cpu", "memory"}, {"cpu", "memory"}, {"cpu"}, {"cpu", "memory", "gpu"}}
	var ops []whOp
	npods := 0
	for len(ops) < n {
		if cfg.Conc && g.Bool(0.12) {
			// a racing pair aimed at one parent: its deletion against a request that puts a child below it. Whichever is
			// admitted first must make the other one fail; the "echo" in front keeps the pair together in Execute's pairing.
			var cands []string
			for _, pn := range whNames {
				if q := have[pn]; q != nil && q.IsPar {
					kids := false
					for _, c := range have {
						if c.Parent == pn {
							kids = true
						}
					}
					if !kids {
						cands = append(cands, pn)
					}
				}
			}
			xn := whNames[g.Intn(len(whNames))]
			if len(cands) > 0 {
				pn := cands[g.Intn(len(cands))]
				pq := have[pn]
				var other *whOp
				var after *mq
				if cur := have[xn]; xn != pn && cur != nil && cur.Parent != pn {
					other = &whOp{K: "update", Q: xn, Parent: pn, IsPar: cur.IsPar, Min: cur.Min, Max: cur.Max, NS: cur.NS, Tree: cur.Tree}
					after = &mq{Name: xn, Parent: pn, Tree: cur.Tree, IsPar: cur.IsPar, Min: cur.Min, Max: cur.Max, NS: cur.NS}
				} else if xn != pn && cur == nil {
					var dims []string
					for d := range pq.Max {
						dims = append(dims, d)
					}
					sort.Strings(dims)
					max := whGenRL(g, dims, nil)
					min := whRL{}
					for _, d := range dims {
						min[d] = pq.Min[d] / int64(1+g.Intn(4))
						if max[d] < min[d] {
							max[d] = min[d] + g.I64n(5)
						}
					}
					other = &whOp{K: "create", Q: xn, Parent: pn, Min: min, Max: max, Tree: pq.Tree}
					after = &mq{Name: xn, Parent: pn, Tree: pq.Tree, Min: min, Max: max}
				}
				if other != nil {
					del := whOp{K: "delete", Q: pn}
					if g.Bool(0.5) {
						ops = append(ops, whOp{K: "echo"}, del, *other)
						delete(have, pn)
					} else {
						ops = append(ops, whOp{K: "echo"}, *other, del)
						tryApply(xn, after)
					}
					continue
				}
			}
		}
		if len(p.Faults) > 0 && g.Bool(0.08) {
			// retry after a lost commit: a re-parenting update is admitted but not persisted, the client then sends ANOTHER
			// update of the same quota (old object = what is stored) and finally the old parent is deleted
			var xs []string
			for _, xn := range whNames {
				if q := have[xn]; q != nil && q.Parent != whRoot && have[q.Parent] != nil {
					xs = append(xs, xn)
				}
			}
			var pars []string
			for _, pn := range whNames {
				if q := have[pn]; q != nil && q.IsPar {
					pars = append(pars, pn)
				}
			}
			if len(xs) > 0 && len(pars) > 0 {
				xn := xs[g.Intn(len(xs))]
				cur := have[xn]
				p2 := pars[g.Intn(len(pars))]
				if g.Bool(0.3) {
					p2 = whRoot
				}
				if p2 != xn && p2 != cur.Parent {
					lost := whOp{K: "update", Q: xn, Parent: p2, IsPar: cur.IsPar, Min: cur.Min, Max: cur.Max, NS: cur.NS, Tree: cur.Tree, LoseCommit: true}
					var dims []string
					for d := range cur.Max {
						dims = append(dims, d)
					}
					sort.Strings(dims)
					retry := whOp{K: "update", Q: xn, Parent: cur.Parent, IsPar: cur.IsPar, Min: whGenRL(g, dims, cur.Max), Max: cur.Max, NS: cur.NS, Tree: cur.Tree}
					ops = append(ops, lost, retry)
					tryApply(xn, &mq{Name: xn, Parent: cur.Parent, Tree: cur.Tree, IsPar: cur.IsPar, Min: retry.Min, Max: cur.Max, NS: cur.NS})
					if g.Bool(0.7) {
						ops = append(ops, whOp{K: "delete", Q: cur.Parent})
					}
					continue
				}
			}
		}
		x := g.Intn(100)
		name := whNames[g.Intn(len(whNames))]
		switch {
		case x < 35: // create
			parent := whRoot
			if g.Bool(0.7) {
				parent = whNames[g.Intn(len(whNames))]
				// mostly below an existing parent quota, so that families grow
				var pars []string
				for _, n := range whNames {
					if q := have[n]; q != nil && q.IsPar {
						pars = append(pars, n)
					}
				}
				if len(pars) > 0 && g.Bool(0.8) {
					parent = pars[g.Intn(len(pars))]
				}
			}
			dims := dimsets[g.Intn(len(dimsets))]
			var pcap whRL
			if pq := have[parent]; pq != nil {
				pcap = pq.Min
				if g.Bool(0.85) {
					dims = nil
					for d := range pq.Max {
						dims = append(dims, d)
					}
					sort.Strings(dims)
				}
			}
			max := whGenRL(g, dims, nil)
			mindims := dims
			if g.Bool(0.2) && len(dims) > 1 {
				mindims = dims[:len(dims)-1]
			}
			min := whGenRL(g, mindims, max)
			if pcap != nil && g.Bool(0.8) {
				// a share of the parent's min: siblings then sum up to around the parent's min (the boundary)
				for d := range min {
					min[d] = pcap[d] / int64(1+g.Intn(4))
					if min[d] > max[d] {
						max[d] = min[d] + g.I64n(5)
					}
				}
			}
			isPar := g.Bool(0.5)
			if isPar && g.Bool(0.6) {
				for d := range min { // parents with room below them
					min[d] = []int64{8, 10, 12, 20}[g.Intn(4)]
					if max[d] < min[d] {
						max[d] = min[d] + g.I64n(10)
					}
				}
			}
			op := whOp{K: "create", Q: name, Parent: parent, IsPar: isPar, Min: min, Max: max}
			if g.Bool(0.2) {
				op.NS = []string{fmt.Sprintf("ns%d", g.Intn(3))}
			}
			if g.Bool(0.1) {
				op.Tree = "t1"
			}
			if g.Bool(0.1) {
				op.Parent = "" // defaulted to root by the mutating step
			}
			ops = append(ops, op)
			if have[name] == nil {
				par := op.Parent
				if par == "" {
					par = whRoot
				}
				tryApply(name, &mq{Name: name, Parent: par, Tree: op.Tree, IsPar: op.IsPar, Min: min, Max: max, NS: op.NS})
			}
		case x < 70: // update
			cur := have[name]
			if cur == nil {
				continue
			}
			op := whOp{K: "update", Q: name, Parent: cur.Parent, IsPar: cur.IsPar, Min: cur.Min, Max: cur.Max, NS: cur.NS, Tree: cur.Tree}
			switch g.Intn(6) {
			case 0, 1: // re-parent: anywhere, including itself and its own descendants
				op.Parent = whNames[g.Intn(len(whNames))]
				var pars []string
				for _, n := range whNames {
					if q := have[n]; q != nil && q.IsPar {
						pars = append(pars, n)
					}
				}
				if len(pars) > 0 && g.Bool(0.7) {
					op.Parent = pars[g.Intn(len(pars))]
				}
				if g.Bool(0.15) {
					op.Parent = whRoot
				}
			case 2:
				dims := []string{}
				for d := range cur.Max {
					dims = append(dims, d)
				}
				sort.Strings(dims)
				if len(dims) > 1 && g.Bool(0.25) {
					// the update withdraws the guarantee for one dimension (children may still declare one, possibly an explicit 0)
					i := g.Intn(len(dims))
					dims = append(append([]string{}, dims[:i]...), dims[i+1:]...)
				}
				op.Min = whGenRL(g, dims, cur.Max)
			case 3:
				dims := []string{}
				for d := range cur.Max {
					dims = append(dims, d)
				}
				sort.Strings(dims)
				if g.Bool(0.2) {
					dims = dimsets[g.Intn(len(dimsets))]
				}
				op.Max = whGenRL(g, dims, nil)
			case 4:
				op.IsPar = !cur.IsPar
			case 5:
				if g.Bool(0.5) {
					op.NS = []string{fmt.Sprintf("ns%d", g.Intn(3))}
				} else {
					op.Tree = "t1"
				}
			}
			ops = append(ops, op)
			tryApply(name, &mq{Name: name, Parent: op.Parent, Tree: op.Tree, IsPar: op.IsPar, Min: op.Min, Max: op.Max, NS: op.NS})
		case x < 80:
			if have[name] == nil {
				continue
			}
			ops = append(ops, whOp{K: "delete", Q: name})
			kids := false
			for _, q := range have {
				if q.Parent == name {
					kids = true
				}
			}
			if !kids {
				delete(have, name)
			}
		case x < 87:
			npods++
			op := whOp{K: "pod_add", P: fmt.Sprintf("p%d", npods), Q: name, PodNS: "default"}
			ops = append(ops, op)
		case x < 91:
			if npods == 0 {
				continue
			}
			ops = append(ops, whOp{K: "pod_del", P: fmt.Sprintf("p%d", 1+g.Intn(npods))})
		case x < 94:
			ops = append(ops, whOp{K: "restart"})
		default:
			ops = append(ops, whOp{K: "echo"})
		}
	}
	p.SetCfg(cfg)
	p.SetOps(ops)
}

// ---------------------------------------------------------------- execution

type whEvent struct {
	kind     string
	old, new *v1alpha1.ElasticQuota
	ver      int
	name     string
}

type whSim struct {
	r         *sim.Run
	cfg       whCfg
	qt        *quotaTopology
	cl        client.Client
	committed map[string]*mq
	pods      map[string]string // pod name -> quota label
	echo      []whEvent
	ver       int
	admitted  map[string]int // quota -> version of the latest admitted (accepted) request
	phantom   bool           // some accepted request was never committed
	admSeq    int            // number of admissions completed (accepted or rejected)
	// quotas whose entry in the webhook's topology is known to differ from the committed object because of a recorded
	// defect, until the webhook itself rewrites the entry: unhealed = an admitted request on it was never committed;
	// staleEcho = an echo older than the latest admitted request overwrote it
	nsAdmitted map[string]int  // namespace -> version of the latest admitted request that binds or unbinds it
	unhealed   map[string]bool // value true: the entry can never be rewritten by a later request (see markUnhealed)
	staleEcho  map[string]bool
}

func whScheme() *runtime.Scheme {
	s := runtime.NewScheme()
	_ = clientgoscheme.AddToScheme(s)
	_ = v1alpha1.AddToScheme(s)
	return s
}

func (s *whSim) newTopology() {
	s.qt = NewQuotaTopology(s.cl)
}

func topoString(t *QuotaTopologySummary) string {
	var sb strings.Builder
	names := make([]string, 0, len(t.QuotaInfoMap))
	for n := range t.QuotaInfoMap {
		names = append(names, n)
	}
	sort.Strings(names)
	for _, n := range names {
		q := t.QuotaInfoMap[n]
		b, _ := json.Marshal(q)
		sb.Write(b)
		sb.WriteString(";")
	}
	hs := make([]string, 0, len(t.QuotaHierarchyInfo))
	for n := range t.QuotaHierarchyInfo {
		hs = append(hs, n)
	}
	sort.Strings(hs)
	for _, n := range hs {
		c := append([]string(nil), t.QuotaHierarchyInfo[n]...)
		sort.Strings(c)
		fmt.Fprintf(&sb, "%s->%v;", n, c)
	}
	return sb.String()
}

// markUnhealed: an admitted request on op.Q was not committed. The webhook rewrites a quota's entry from a later request only
// on the full update / delete path, and takes the namespaces to unbind from the request's old object, not from its own
// record: the entry is rewritable (value false) only when the lost request was an update that kept the namespaces.
func (s *whSim) markUnhealed(op *whOp, cur *mq) {
	permanent := op.K != "update" || cur == nil || fmt.Sprint(cur.NS) != fmt.Sprint(op.NS)
	if old, ok := s.unhealed[op.Q]; ok {
		permanent = permanent || old
	}
	s.unhealed[op.Q] = permanent
	s.retag()
}

// retag keeps the two history tags equal to "some quota's topology entry is currently corrupted by the recorded defect".
func (s *whSim) retag() {
	if len(s.unhealed) > 0 {
		s.r.Tag("commit-failed-after-admission")
	} else {
		s.r.Untag("commit-failed-after-admission")
	}
	if len(s.staleEcho) > 0 {
		s.r.Tag("stale-echo-overwrite")
	} else {
		s.r.Untag("stale-echo-overwrite")
	}
}

func (s *whSim) deliverEcho(k int) {
	for i := 0; i < k && len(s.echo) > 0; i++ {
		ev := s.echo[0]
		s.echo = s.echo[1:]
		// an echo older than the latest admitted request for the same quota overwrites the webhook's newer view
		stale := ev.ver < s.admitted[ev.name]
		// the echo handlers also bind / unbind the namespaces named by the event's objects, whoever owns them by now: an
		// echo older than the latest admitted request that touched one of those namespaces (of ANY quota) is stale too
		for _, o := range []*v1alpha1.ElasticQuota{ev.old, ev.new} {
			if o == nil {
				continue
			}
			for _, ns := range extension.GetAnnotationQuotaNamespaces(o) {
				if ev.ver < s.nsAdmitted[ns] {
					stale = true
				}
			}
		}
		if stale {
			// not withdrawn before the next restart: a stale delete echo also drops the quota's children links, which no
			// later event of the quota itself restores
			s.staleEcho[ev.name] = true
		}
		s.retag()
		switch ev.kind {
		case "add":
			s.qt.OnQuotaAdd(ev.new)
		case "update":
			s.qt.OnQuotaUpdate(ev.old, ev.new)
		case "delete":
			s.qt.OnQuotaDelete(ev.old)
		}
		s.r.Event("echo %s %s", ev.kind, ev.name)
		if s.r.Flip(0.05) && ev.kind != "delete" { // resync duplicate
			s.qt.OnQuotaUpdate(ev.new, ev.new)
			s.r.Probe("resync-duplicate")
		}
	}
}

func (whEngine) Execute(r *sim.Run) {
	s := &whSim{r: r, committed: map[string]*mq{}, pods: map[string]string{}, admitted: map[string]int{}, unhealed: map[string]bool{}, staleEcho: map[string]bool{}, nsAdmitted: map[string]int{}}
	r.Plan.GetCfg(&s.cfg)
	var ops []whOp
	r.Plan.GetOps(&ops)
	s.cl = fake.NewClientBuilder().WithScheme(whScheme()).WithIndex(&corev1.Pod{}, "label.quotaName", func(o client.Object) []string {
		p := o.(*corev1.Pod)
		if p.Labels[extension.LabelQuotaName] == "" {
			return []string{}
		}
		return []string{p.Labels[extension.LabelQuotaName]}
	}).Build()
	s.newTopology()
	r.Sample("cfg %+v faults=%v", s.cfg, r.Plan.Faults)
	for i := 0; i < len(ops); i++ {
		op := ops[i]
		isReq := func(o whOp) bool { return o.K == "create" || o.K == "update" || o.K == "delete" }
		if s.cfg.Conc && isReq(op) && i+1 < len(ops) && isReq(ops[i+1]) && ops[i+1].Q != op.Q {
			// two admission requests in flight at the same time, each on its own webhook goroutine
			s.deliverEcho(len(s.echo))
			a, b := ops[i], ops[i+1]
			i++
			r.Spawn("admission-0", func() { s.request(&a) })
			r.Spawn("admission-1", func() { s.request(&b) })
			r.Drive()
			r.Probe("concurrent-admission-pair")
			continue
		}
		if !s.cfg.Lag {
			s.deliverEcho(len(s.echo))
		} else if len(s.echo) > 0 && r.Flip(0.4) {
			s.deliverEcho(1 + r.Choose(len(s.echo)))
		}
		switch op.K {
		case "echo":
			s.deliverEcho(len(s.echo))
			r.OpDone()
		case "restart":
			// webhook restart: empty topology, informer replays every committed object as an add, in any order
			s.deliverEcho(len(s.echo))
			s.newTopology()
			names := make([]string, 0, len(s.committed))
			for n := range s.committed {
				names = append(names, n)
			}
			sort.Strings(names)
			for len(names) > 0 {
				i := r.Choose(len(names))
				s.qt.OnQuotaAdd(s.committed[names[i]].obj)
				names = append(names[:i], names[i+1:]...)
			}
			s.phantom = false
			s.admitted = map[string]int{}
			s.unhealed, s.staleEcho, s.nsAdmitted = map[string]bool{}, map[string]bool{}, map[string]int{}
			s.retag()
			r.Event("restart")
			r.Probe("restart")
			r.OpDone()
		case "pod_add":
			if _, ok := s.pods[op.P]; ok {
				r.OpSkipped()
				continue
			}
			pod := &corev1.Pod{ObjectMeta: metav1.ObjectMeta{Name: op.P, Namespace: op.PodNS, Labels: map[string]string{extension.LabelQuotaName: op.Q}}}
			if err := s.cl.Create(r.T.Context(), pod); err != nil {
				r.HarnessFail("pod create: %v", err)
			}
			s.pods[op.P] = op.Q
			r.OpDone()
		case "pod_del":
			if _, ok := s.pods[op.P]; !ok {
				r.OpSkipped()
				continue
			}
			_ = s.cl.Delete(r.T.Context(), &corev1.Pod{ObjectMeta: metav1.ObjectMeta{Name: op.P, Namespace: "default"}})
			delete(s.pods, op.P)
			r.OpDone()
		case "create", "update", "delete":
			s.request(&op)
		}
	}
	s.deliverEcho(len(s.echo))
	s.checkConverged()
}

func (s *whSim) request(op *whOp) {
	r := s.r
	cur := s.committed[op.Q]
	if (op.K == "update" || op.K == "delete") && cur == nil {
		r.OpSkipped() // the API server answers 404 before admission
		return
	}
	before := topoString(s.qt.getQuotaTopologyInfo())
	seqAtStart := s.admSeq
	// the verdict is attributable to the recorded defect when some entry was corrupted at ANY time of the validation
	// window: the tags are widened to (state at the start) or (state now) until this request's checks are done
	dirtyAtStart := len(s.unhealed) > 0
	var err error
	var obj *v1alpha1.ElasticQuota
	switch op.K {
	case "create":
		obj = op.object()
		err = s.qt.fillQuotaDefaultInformation(obj) // mutating admission (AdmitQuota)
		if err == nil {
			err = s.qt.ValidAddQuota(obj)
		}
	case "update":
		obj = op.object()
		// an update keeps the defaults filled in at creation unless the request changes them
		if obj.Labels[extension.LabelQuotaParent] == "" {
			obj.Labels[extension.LabelQuotaParent] = whRoot
		}
		if sw, ok := cur.obj.Annotations[extension.AnnotationSharedWeight]; ok {
			obj.Annotations[extension.AnnotationSharedWeight] = sw
		}
		err = s.qt.ValidUpdateQuota(cur.obj, obj)
	case "delete":
		err = s.qt.ValidDeleteQuota(cur.obj)
	}
	if dirtyAtStart {
		r.Tag("commit-failed-after-admission")
	}
	defer s.retag()                       // (not reached when a check fails: Fail aborts the run)
	undisturbed := s.admSeq == seqAtStart // no other admission completed while this one was being validated
	s.admSeq++
	mySeq := s.admSeq
	r.OpDone()
	r.Event("%s %s parent=%s -> %v", op.K, op.Q, op.Parent, err == nil)
	r.Sample("%s %s parent=%s isParent=%v min=%v max=%v ns=%v tree=%s -> accepted=%v", op.K, op.Q, op.Parent, op.IsPar, op.Min, op.Max, op.NS, op.Tree, err == nil)
	if err != nil {
		r.Probe("rejected")
		if w := strings.Fields(err.Error()); len(w) > 0 {
			// coarse rejection reason (reach counters)
			msg := err.Error()
			for _, key := range []string{"already exist", "already bound", "min", "not find parentInfo", "IsParent is false", "max keys", "min keys", "tree id", "has children", "bound pods", "child quotas", "child pods", "MinQuota", "descendants", "not exist"} {
				if strings.Contains(msg, key) {
					r.Probe("reject:" + op.K + ":" + strings.ReplaceAll(key, " ", "-"))
					break
				}
			}
		}
		r.OracleEval()
		// (taking the snapshot is itself a scheduling point: only compare when no other admission completed in the whole window)
		if after := topoString(s.qt.getQuotaTopologyInfo()); undisturbed && s.admSeq == mySeq && after != before {
			r.Fail("rejected-changes-topology", op.K, "rejected %s of %s (%v) changed the recorded topology:\nbefore %s\nafter  %s", op.K, op.Q, err, before, after)
		}
		return
	}
	r.Probe("accepted-" + op.K)
	s.ver++
	s.admitted[op.Q] = s.ver
	// namespaces this admitted request binds or unbinds (the webhook records both at admission time)
	for _, ns := range op.NS {
		s.nsAdmitted[ns] = s.ver
	}
	if cur != nil {
		for _, ns := range cur.NS {
			s.nsAdmitted[ns] = s.ver
		}
	}
	// the API server's commit step
	if op.K == "create" && cur != nil {
		// AlreadyExists is detected by storage after admission: the webhook must have rejected it
		r.Fail("accepted-duplicate-create", "", "create of existing quota %s was admitted", op.Q)
	}
	if s.committed[op.Q] != cur {
		// the stored object changed while the request was in admission (a concurrent request committed first): the API
		// server answers 409 / AlreadyExists after admission, nothing is persisted
		s.phantom = true
		s.markUnhealed(op, cur)
		r.Probe("commit-conflict-with-concurrent-request")
		r.Event("commit conflict")
		return
	}
	if f := r.Fault("commit", "commit-fails"); f != "" || op.LoseCommit {
		if op.LoseCommit {
			r.Probe("generated-lost-commit")
		}
		// another admission plugin / a 409 on a stale resourceVersion / storage error: admitted but never persisted, no watch event
		s.phantom = true
		s.markUnhealed(op, cur)
		r.Event("commit failed")
		return
	}
	// an admitted AND committed request rewrites the quota's whole entry (object, parent link, namespaces) from the
	// request itself: whatever an earlier failed commit or stale echo left there is gone
	// an admitted AND committed request that takes the full path (a delete, or an update that differs from the stored
	// object in one of the fields the webhook compares) rewrites the quota's entry from the request
	healed := false
	if permanent, ok := s.unhealed[op.Q]; ok && !permanent {
		full := op.K == "delete"
		if op.K == "update" && cur != nil {
			np := extension.GetParentQuotaName(obj)
			full = cur.Parent != np || cur.IsPar != op.IsPar || cur.Tree != obj.Labels[extension.LabelQuotaTreeID] ||
				fmt.Sprint(cur.NS) != fmt.Sprint(op.NS) || fmt.Sprint(whToRL(cur.Min)) != fmt.Sprint(whToRL(op.Min)) || fmt.Sprint(whToRL(cur.Max)) != fmt.Sprint(whToRL(op.Max))
			if fmt.Sprint(cur.NS) != fmt.Sprint(op.NS) {
				full = false // (conservative) namespaces are unbound by the request's old object
			}
		}
		if full {
			delete(s.unhealed, op.Q)
			r.Probe("entry-healed-by-later-committed-request")
			healed = true
		} else {
			// the FIRST committed request after the loss decides: a request the webhook lets through without rewriting the
			// entry is followed by its echo, which overwrites the recorded object but not the stale parent link; nothing
			// later repairs that
			s.unhealed[op.Q] = true
		}
	}
	switch op.K {
	case "create", "update":
		pl := extension.GetParentQuotaName(obj)
		m := &mq{Name: op.Q, Parent: pl, Tree: obj.Labels[extension.LabelQuotaTreeID], IsPar: op.IsPar, Min: op.Min, Max: op.Max, NS: op.NS, ver: s.ver, obj: obj}
		obj.ResourceVersion = fmt.Sprint(s.ver)
		if op.K == "create" {
			s.echo = append(s.echo, whEvent{"add", nil, obj, s.ver, op.Q})
		} else {
			s.echo = append(s.echo, whEvent{"update", cur.obj, obj, s.ver, op.Q})
		}
		s.committed[op.Q] = m
	case "delete":
		// statement: a quota with children or pods is not deleted
		for _, c := range s.committed {
			if c.Parent == op.Q && c.Name != op.Q {
				r.Fail("deleted-with-children", "", "quota %s deleted although %s is its child", op.Q, c.Name)
			}
		}
		for p, q := range s.pods {
			if q == op.Q {
				r.Fail("deleted-with-pods", "", "quota %s deleted although pod %s is bound to it", op.Q, p)
			}
		}
		delete(s.committed, op.Q)
		s.echo = append(s.echo, whEvent{"delete", cur.obj, nil, s.ver, op.Q})
	}
	s.checkWellFormed(op)
	_ = healed
}

// checkWellFormed is the statement of C15 evaluated on the committed objects only.
func (s *whSim) checkWellFormed(op *whOp) {
	s.r.OracleEval()
	if class, msg := whWellFormed(s.committed); class != "" {
		s.r.Fail(class, "", "after accepted %s of %s: %s", op.K, op.Q, msg)
	}
}

// whWellFormed returns ("", "") when the quota set is a well-formed forest per the statement, else the violated clause.
func whWellFormed(committed map[string]*mq) (string, string) {
	names := make([]string, 0, len(committed))
	for n := range committed {
		names = append(names, n)
	}
	sort.Strings(names)
	nsOwner := map[string]string{}
	for _, n := range names {
		q := committed[n]
		for _, d := range whKeys(q.Min) {
			v := q.Min[d]
			mx, ok := q.Max[d]
			if !ok {
				return "min-outside-max-dims", fmt.Sprintf("quota %s declares min for %s which max does not declare", n, d)
			}
			if v > mx {
				return "min-above-max", fmt.Sprintf("quota %s min[%s]=%d > max=%d", n, d, v, mx)
			}
		}
		if q.Parent != whRoot {
			p := committed[q.Parent]
			if p == nil {
				return "parent-missing", fmt.Sprintf("quota %s has parent %s which does not exist", n, q.Parent)
			}
			if !p.IsPar {
				return "parent-not-marked-parent", fmt.Sprintf("quota %s has parent %s which is not marked as a parent", n, q.Parent)
			}
			same := len(p.Max) == len(q.Max)
			for d := range q.Max {
				if _, ok := p.Max[d]; !ok {
					same = false
				}
			}
			if !same {
				return "dimension-mismatch", fmt.Sprintf("quota %s declares max dims %v, its parent %s %v", n, whKeys(q.Max), q.Parent, whKeys(p.Max))
			}
			// "resource dimensions agree along the tree", min side: a guarantee is only declared below a parent that declares
			// a guarantee for the same dimension (an explicit 0 is a declaration)
			for _, d := range whKeys(q.Min) {
				if _, ok := p.Min[d]; !ok {
					return "min-dimension-mismatch", fmt.Sprintf("quota %s declares min for %s, its parent %s declares min only for %v", n, d, q.Parent, whKeys(p.Min))
				}
			}
			if p.Tree != q.Tree {
				return "tree-id-mismatch", fmt.Sprintf("quota %s is in tree %q, its parent %s in %q", n, q.Tree, q.Parent, p.Tree)
			}
		}
		seen := map[string]bool{}
		for x := n; x != whRoot; {
			if seen[x] {
				return "cycle", fmt.Sprintf("following parent links from quota %s never reaches the root (cycle through %s)", n, x)
			}
			seen[x] = true
			c := committed[x]
			if c == nil {
				break
			}
			x = c.Parent
		}
		for _, ns := range q.NS {
			if o, ok := nsOwner[ns]; ok && o != n {
				return "namespace-bound-twice", fmt.Sprintf("namespace %s is bound to both %s and %s", ns, o, n)
			}
			nsOwner[ns] = n
		}
	}
	for _, n := range names {
		p := committed[n]
		sum := whRL{}
		kids := 0
		for _, c := range names {
			if committed[c].Parent == n && c != n {
				kids++
				for d, v := range committed[c].Min {
					sum[d] += v
				}
			}
		}
		if kids == 0 {
			continue
		}
		for _, d := range whKeys(sum) {
			if sum[d] > p.Min[d] {
				return "children-min-above-parent-min", fmt.Sprintf("children of %s have min[%s] summing to %d > parent's min %d", n, d, sum[d], p.Min[d])
			}
		}
	}
	return "", ""
}

func whKeys(m whRL) []string {
	ks := make([]string, 0, len(m))
	for k := range m {
		ks = append(ks, k)
	}
	sort.Strings(ks)
	return ks
}

// checkConverged: once every echo is delivered (and nothing admitted was left uncommitted) the webhook's record
// names exactly the committed quotas with their committed parents.
func (s *whSim) checkConverged() {
	if len(s.unhealed) > 0 {
		return // (recorded finding) an admitted request that was never committed is still recorded in the topology
	}
	s.r.OracleEval()
	t := s.qt.getQuotaTopologyInfo()
	for n, q := range s.committed {
		ti := t.QuotaInfoMap[n]
		if ti == nil {
			s.r.Fail("not-converged", "missing", "committed quota %s is not in the webhook's topology after all echoes", n)
		}
		if ti.ParentName != q.Parent || ti.IsParent != q.IsPar {
			s.r.Fail("not-converged", "stale", "quota %s: webhook records parent=%s isParent=%v, committed parent=%s isParent=%v", n, ti.ParentName, ti.IsParent, q.Parent, q.IsPar)
		}
	}
	for n := range t.QuotaInfoMap {
		if s.committed[n] == nil {
			s.r.Fail("not-converged", "ghost", "webhook's topology still records quota %s which is not committed", n)
		}
	}
}
