//go:build verif

package runtime

// Export shim for the `evictcap` engine (C16, /verif/DESIGN.md §4): it only ADDS
// a constructor for the unexported evictorProxy so that the harness can drive the
// real AllowEvict -> evict plugin -> Done protocol of evictorProxy.Evict instead
// of re-implementing it. Nothing else of frameworkImpl is used by that path.

import (
	"github.com/koordinator-sh/koordinator/pkg/descheduler/framework"
)

// VerifNewEvictorProxy builds the real evictorProxy over one evict plugin.
func VerifNewEvictorProxy(dryRun bool, limiter EvictionLimiter, plugin framework.EvictPlugin) framework.Evictor {
	return &evictorProxy{
		dryRun:          dryRun,
		evictionLimiter: limiter,
		handle:          &frameworkImpl{dryRun: dryRun, evictPlugins: []framework.EvictPlugin{plugin}},
	}
}
