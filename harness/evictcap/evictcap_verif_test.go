//go:build verif

package evictions

// Engine `evictcap` (C16, half b): the real PodEvictor.Evict / NodeEvicted /
// NamespaceEvicted / TotalEvicted and the real EvictionLimiter (AllowEvict / Done /
// Reset, driven through the real evictorProxy.Evict of framework/runtime) run under
// the token-passing scheduler. 1 (sequential baseline) or 2-16 evictor actors issue a
// multiset of eviction requests; they interleave at every lock of the package and at
// the eviction API call (the client wrapper yields BEFORE delegating to the fake
// clientset, whose reactor records every request and injects faults).
// See /verif/DESIGN.md §4 C16 (b) and §7 item 3.

import (
	"context"
	"fmt"
	"sort"
	"strings"
	"testing"

	"github.com/go-logr/logr"
	corev1 "k8s.io/api/core/v1"
	policy "k8s.io/api/policy/v1"
	apierrors "k8s.io/apimachinery/pkg/api/errors"
	metav1 "k8s.io/apimachinery/pkg/apis/meta/v1"
	"k8s.io/apimachinery/pkg/runtime"
	"k8s.io/apimachinery/pkg/runtime/schema"
	clientset "k8s.io/client-go/kubernetes"
	"k8s.io/client-go/kubernetes/fake"
	policyv1client "k8s.io/client-go/kubernetes/typed/policy/v1"
	clienttesting "k8s.io/client-go/testing"
	"k8s.io/client-go/tools/events"
	"k8s.io/klog/v2"

	"github.com/koordinator-sh/koordinator/pkg/descheduler/framework"
	frameworkruntime "github.com/koordinator-sh/koordinator/pkg/descheduler/framework/runtime"
	sim "github.com/koordinator-sh/koordinator/pkg/verifsim"
)

func TestVerifSim(t *testing.T) {
	// the code under test logs every refusal with klog.ErrorS: keep the workers quiet
	klog.SetLogger(logr.Discard())
	sim.Main(t, &evictcapEngine{})
}

type evictcapEngine struct{}

func (evictcapEngine) Name() string { return "evictcap" }

// history class of the recorded defect (see known_findings.jsonl): more Evict calls are in
// flight at the same time on one capped key (node / namespace / total) than that key has head-room left.
const ecTagRace = "concurrent-evictors-beyond-cap-headroom"

// ---------------------------------------------------------------- plan types

type ecPod struct {
	Node int `json:"node"` // -1: not assigned to a node
	NS   int `json:"ns"`
}

type ecCfg struct {
	Subject    string  `json:"subject"` // podevictor | limiter
	DryRun     bool    `json:"dry_run"`
	Actors     int     `json:"actors"`
	Nodes      int     `json:"nodes"`
	Namespaces int     `json:"namespaces"`
	CapNode    int     `json:"cap_node"`  // -1 = unset
	CapNS      int     `json:"cap_ns"`    // -1 = unset
	CapTotal   int     `json:"cap_total"` // -1 = unset (always for podevictor: it has no total cap)
	Pods       []ecPod `json:"pods"`
}

type ecOp struct {
	K string `json:"k"` // evict | read | cycle
	A int    `json:"a,omitempty"`
	P int    `json:"p,omitempty"`
	R string `json:"r,omitempty"` // read: node | ns | total
	I int    `json:"i,omitempty"` // read: index of the node / namespace
}

// ---------------------------------------------------------------- generation

func (evictcapEngine) Generate(p *sim.Plan, g *sim.Rng) {
	cfg := ecCfg{Subject: g.Pick("podevictor", "limiter"), DryRun: g.Bool(0.12)}
	cfg.Nodes = g.Range(1, 4)
	cfg.Namespaces = g.Range(1, 3)
	if g.Bool(0.25) {
		cfg.Actors = 1
	} else {
		cfg.Actors = g.PickInt(2, 2, 3, 3, 4, 5, 6, 8, 10, 12, 16)
	}
	capGen := func(hi int) int {
		switch g.Intn(10) {
		case 0, 1, 2:
			return -1
		case 3:
			return 0
		}
		return g.Range(1, hi)
	}
	cfg.CapNode, cfg.CapNS, cfg.CapTotal = capGen(5), capGen(6), -1
	if cfg.Subject == "limiter" {
		cfg.CapTotal = capGen(10)
	}
	nReq := g.Range(5, 40)
	if p.Tier == "thorough" || g.Bool(0.15) {
		nReq = g.Range(5, 60)
	}
	nPods := nReq - g.Intn(nReq/3+1)
	if nPods < 3 {
		nPods = 3
	}
	hot := g.Bool(0.5)
	for i := 0; i < nPods; i++ {
		pd := ecPod{Node: g.Intn(cfg.Nodes), NS: g.Intn(cfg.Namespaces)}
		if hot && g.Bool(0.6) {
			pd.Node = 0
		}
		if g.Bool(0.03) {
			pd.Node = -1
		}
		cfg.Pods = append(cfg.Pods, pd)
	}
	cycles := 1
	if g.Bool(0.3) {
		cycles++
		if g.Bool(0.3) {
			cycles++
		}
	}
	cut := map[int]bool{}
	for c := 1; c < cycles; c++ {
		cut[g.Range(1, nReq-1)] = true
	}
	var ops []ecOp
	next := 0
	for i := 0; i < nReq; i++ {
		if cut[i] {
			ops = append(ops, ecOp{K: "cycle"})
		}
		op := ecOp{K: "evict", A: g.Intn(cfg.Actors), P: next % nPods}
		next++
		if g.Bool(0.1) {
			op.P = g.Intn(nPods) // the same pod requested again (by another plugin / a retry)
		}
		ops = append(ops, op)
		if g.Bool(0.15) {
			rd := ecOp{K: "read", A: g.Intn(cfg.Actors), R: g.Pick("node", "ns", "total")}
			switch rd.R {
			case "node":
				rd.I = g.Intn(cfg.Nodes)
			case "ns":
				rd.I = g.Intn(cfg.Namespaces)
			}
			ops = append(ops, rd)
		}
	}
	p.SetCfg(cfg)
	p.SetOps(ops)
	if g.Bool(0.3) {
		p.FaultRate = 0
	} else {
		p.FaultRate = []float64{0.05, 0.15, 0.3}[g.Intn(3)]
		kinds := []string{"err-before", "429", "404"}
		for _, k := range kinds {
			if g.Bool(0.5) {
				p.Faults = append(p.Faults, k)
			}
		}
		if len(p.Faults) == 0 {
			p.Faults = []string{kinds[g.Intn(len(kinds))]}
		}
	}
}

// ---------------------------------------------------------------- simulation state

type ecRec struct {
	id       int
	pod      int
	name     string
	node, ns string
	actor    int
	keys     []string // every counter this request contributes to
	capKeys  []string // the subset that has a cap configured
	inv, ret uint64
	ok       bool
	attempts int // API calls made on behalf of this request
	accepted int // ... of which the API accepted
	pending  bool
	failed   bool // an API call of this request was rejected
	apiErr   string
}

type ecCtxKey struct{}

type ecSim struct {
	r   *sim.Run
	cfg ecCfg

	// simulated API server
	exists map[string]bool // ns/name -> the pod object exists (possibly terminating)
	caller *ecRec          // request on whose behalf the call that is inside the fake clientset is made
	apiLog []string

	// code under test
	pe      *PodEvictor      // subject (podevictor) or the cap-less evictor behind the limiter (as defaultevictor builds it)
	lim     *EvictionLimiter // subject (limiter)
	evictor framework.Evictor

	// per-cycle tallies, keyed "node/<name>", "ns/<name>", "total"
	acc       map[string]int // evictions accepted by the API
	granted   map[string]int // Evict calls that returned true
	completed map[string]int // ... (same thing, counted at return; lower bound for concurrent reads)
	invoked   map[string]int
	inflight  map[string]int
	pendingNA map[string]int // in flight and not (yet) accepted by the API
	failing   map[string]int // in flight with a rejected API call
	failCount map[string]int // rejected API calls so far
	monoLower map[string]int // largest value a finished read of the counter returned (since the last failed API call on it)
	cum       map[string]int // accepted over all cycles (the inner PodEvictor of the limiter wiring is never reset)
	nextID    int
	cycle     int
}

func ecNode(i int) string {
	if i < 0 {
		return ""
	}
	return fmt.Sprintf("n%d", i)
}
func ecNS(i int) string { return fmt.Sprintf("ns%d", i) }

// ecKind: "node/n1" -> "node", "total" -> "total"
func ecKind(k string) string { return k[:strings.IndexAny(k+"/", "/")] }

func (h *ecSim) capOf(key string) int {
	switch {
	case strings.HasPrefix(key, "node/"):
		return h.cfg.CapNode
	case strings.HasPrefix(key, "ns/"):
		return h.cfg.CapNS
	}
	return h.cfg.CapTotal
}

func ecUintPtr(v int) *uint {
	if v < 0 {
		return nil
	}
	u := uint(v)
	return &u
}

// ---- API: client wrapper (scheduling point) + reactor of the fake clientset (records, faults)

type ecClient struct {
	clientset.Interface
	h *ecSim
}

func (c *ecClient) PolicyV1() policyv1client.PolicyV1Interface {
	return &ecPolicy{PolicyV1Interface: c.Interface.PolicyV1(), h: c.h}
}

type ecPolicy struct {
	policyv1client.PolicyV1Interface
	h *ecSim
}

func (p *ecPolicy) Evictions(ns string) policyv1client.EvictionInterface {
	return &ecEvictions{inner: p.PolicyV1Interface.Evictions(ns), h: p.h}
}

type ecEvictions struct {
	inner policyv1client.EvictionInterface
	h     *ecSim
}

func (e *ecEvictions) Evict(ctx context.Context, ev *policy.Eviction) error {
	h := e.h
	rec, _ := ctx.Value(ecCtxKey{}).(*ecRec)
	if rec == nil {
		h.r.HarnessFail("eviction API call without a request record in the context")
	}
	// the window between the cap check and the counter increment: a scheduling point, taken BEFORE
	// delegating (the fake clientset runs its reactors under its own mutex)
	h.r.Yield("evict-api")
	h.caller = rec
	err := e.inner.Evict(ctx, ev)
	h.caller = nil
	if h.cfg.DryRun {
		h.r.Fail("dry-run-api-call", h.cfg.Subject, "dry-run: eviction request for %s/%s reached the API (request #%d)", ev.Namespace, ev.Name, rec.id)
	}
	if err == nil {
		// oracle: evictions received by the API per node / namespace / in total never exceed the caps
		for _, k := range rec.capKeys {
			if c := h.capOf(k); h.acc[k] > c {
				h.r.Fail("cap-exceeded", h.cfg.Subject+"/"+ecKind(k),
					"cycle %d: the API accepted eviction #%d for key %s but the configured cap is %d (request #%d pod %s node %q ns %s by actor %d; api log: %s)",
					h.cycle, h.acc[k], k, c, rec.id, rec.name, rec.node, rec.ns, rec.actor, strings.Join(h.apiLog, " "))
			}
		}
	}
	return err
}

var ecPodGR = schema.GroupResource{Resource: "pods"}

// react runs under the fake clientset's mutex: it never yields.
func (h *ecSim) react(action clienttesting.Action) (bool, runtime.Object, error) {
	if action.GetSubresource() != "eviction" {
		return false, nil, nil
	}
	ca, ok := action.(clienttesting.CreateAction)
	if !ok {
		return false, nil, nil
	}
	ev, ok := ca.GetObject().(*policy.Eviction)
	rec := h.caller
	if !ok || rec == nil {
		h.r.HarnessFail("unexpected eviction action %#v", action)
	}
	rec.attempts++
	key := ev.Namespace + "/" + ev.Name
	if ev.Namespace != rec.ns || ev.Name != rec.name || action.GetNamespace() != rec.ns {
		h.r.Fail("wrong-eviction-target", h.cfg.Subject, "request #%d for pod %s/%s produced an eviction of %s (action namespace %s)", rec.id, rec.ns, rec.name, key, action.GetNamespace())
	}
	fail := func() {
		if !rec.failed {
			rec.failed = true
			for _, k := range rec.keys {
				h.failing[k]++
				h.failCount[k]++
			}
		}
	}
	switch h.r.Fault("evict-api", "err-before", "429", "404") {
	case "err-before":
		fail()
		rec.apiErr = "500"
		h.r.Event("api #%d %s -> 500", rec.id, key)
		return true, nil, apierrors.NewInternalError(fmt.Errorf("injected: etcd request timed out"))
	case "429":
		fail()
		rec.apiErr = "429"
		h.r.Event("api #%d %s -> 429", rec.id, key)
		return true, nil, apierrors.NewTooManyRequests("Cannot evict pod as it would violate the pod's disruption budget.", 0)
	case "404":
		// the pod was deleted by somebody else just before the request arrived
		delete(h.exists, key)
		fail()
		rec.apiErr = "404"
		h.r.Event("api #%d %s -> 404 (vanished)", rec.id, key)
		return true, nil, apierrors.NewNotFound(ecPodGR, ev.Name)
	}
	if !h.exists[key] {
		fail()
		rec.apiErr = "404"
		h.r.Probe("api-404-pod-already-gone")
		h.r.Event("api #%d %s -> 404", rec.id, key)
		return true, nil, apierrors.NewNotFound(ecPodGR, ev.Name)
	}
	// accepted: the eviction is issued
	rec.accepted++
	if rec.pending {
		rec.pending = false
		for _, k := range rec.keys {
			h.pendingNA[k]--
		}
	}
	for _, k := range rec.keys {
		h.acc[k]++
		h.cum[k]++
	}
	h.apiLog = append(h.apiLog, fmt.Sprintf("#%d:%s@%s", rec.id, key, rec.node))
	if h.r.Flip(0.2) {
		// graceful deletion: the pod object stays (terminating); a second eviction of it is accepted again
		h.r.Probe("pod-stays-terminating")
	} else {
		delete(h.exists, key)
	}
	h.r.Event("api #%d %s -> accepted", rec.id, key)
	return true, ev, nil
}

type ecYieldRecorder struct {
	r         *sim.Run
	h         *ecSim
	announced int
}

var _ events.EventRecorder = (*ecYieldRecorder)(nil)

func (y *ecYieldRecorder) Eventf(regarding runtime.Object, related runtime.Object, eventtype, reason, action, note string, args ...interface{}) {
	// "the reported counters equal the evictions issued": by the time an eviction is announced with an event, a reader of
	// the PodEvictor's counters must see it counted (reads are sequentially consistent here: one actor runs at a time)
	y.announced++
	if pe := y.h.pe; pe != nil {
		if got := pe.TotalEvicted(); got < y.announced {
			y.r.Fail("counter-read", "podevictor/below-announced", "eviction #%d of this cycle has been announced with an event but TotalEvicted() reports %d", y.announced, got)
		}
	}
	y.r.Yield("event-recorder")
}

// evict plugin as pkg/descheduler/framework/plugins/kubernetes/defaultevictor wires it: a pass-through to PodEvictor.Evict
type ecPlugin struct{ pe *PodEvictor }

func (p *ecPlugin) Name() string { return "DefaultEvictor" }
func (p *ecPlugin) Evict(ctx context.Context, pod *corev1.Pod, o framework.EvictOptions) bool {
	return p.pe.Evict(ctx, pod, o)
}

func (h *ecSim) newCycleSubject(cs clientset.Interface) {
	// the event recorder is a scheduling point (the real recorder hands the event to a broadcaster and may block briefly):
	// other evictors can run while one is between its API call and its return
	rec := &ecYieldRecorder{r: h.r, h: h}
	switch h.cfg.Subject {
	case "podevictor":
		// a PodEvictor lives for one descheduling cycle
		h.pe = NewPodEvictor(cs, rec, "v1", h.cfg.DryRun, ecUintPtr(h.cfg.CapNode), ecUintPtr(h.cfg.CapNS))
		h.evictor = nil
	default:
		if h.lim == nil {
			h.pe = NewPodEvictor(cs, rec, "v1", false, nil, nil)
			h.lim = NewEvictionLimiter(ecUintPtr(h.cfg.CapNode), ecUintPtr(h.cfg.CapNS), ecUintPtr(h.cfg.CapTotal))
			h.evictor = frameworkruntime.VerifNewEvictorProxy(h.cfg.DryRun, h.lim, &ecPlugin{pe: h.pe})
		} else {
			// Descheduler.deschedulerOnce: Reset at the start of every cycle (nothing is in flight then)
			h.lim.Reset()
			h.r.Probe("limiter-reset")
			for _, k := range h.allKeys() {
				if v := h.counter(k); v != 0 {
					h.r.Fail("reset", "counter-not-zero", "after Reset counter %s reads %d", k, v)
				}
			}
		}
	}
}

func (h *ecSim) doEvict(ctx context.Context, pod *corev1.Pod) bool {
	o := framework.EvictOptions{PluginName: "verif", Reason: "verif"}
	if h.cfg.Subject == "podevictor" {
		return h.pe.Evict(ctx, pod, o)
	}
	return h.evictor.Evict(ctx, pod, o)
}

// counter reads the subject's reported counter for a key through the real accessors.
func (h *ecSim) counter(key string) int {
	lim := h.cfg.Subject == "limiter"
	switch {
	case strings.HasPrefix(key, "node/"):
		if lim {
			return int(h.lim.NodeEvicted(key[5:]))
		}
		return int(h.pe.NodeEvicted(key[5:]))
	case strings.HasPrefix(key, "ns/"):
		if lim {
			return int(h.lim.NamespaceEvicted(key[3:]))
		}
		return int(h.pe.NamespaceEvicted(key[3:]))
	}
	if lim {
		return int(h.lim.TotalEvicted())
	}
	return h.pe.TotalEvicted()
}

func (h *ecSim) innerCounter(key string) int {
	switch {
	case strings.HasPrefix(key, "node/"):
		return int(h.pe.NodeEvicted(key[5:]))
	case strings.HasPrefix(key, "ns/"):
		return int(h.pe.NamespaceEvicted(key[3:]))
	}
	return h.pe.TotalEvicted()
}

// allKeys: every node and namespace of the run, one node and one namespace nobody uses, and the total.
func (h *ecSim) allKeys() []string {
	var ks []string
	for i := 0; i <= h.cfg.Nodes; i++ {
		ks = append(ks, "node/"+ecNode(i))
	}
	for i := 0; i <= h.cfg.Namespaces; i++ {
		ks = append(ks, "ns/"+ecNS(i))
	}
	return append(ks, "total")
}

func (h *ecSim) snapshot() map[string]int {
	m := map[string]int{}
	for _, k := range h.allKeys() {
		m[k] = h.counter(k)
	}
	return m
}

func (h *ecSim) evictOp(op ecOp) {
	r := h.r
	if op.P < 0 || op.P >= len(h.cfg.Pods) {
		r.OpSkipped()
		return
	}
	pd := h.cfg.Pods[op.P]
	if pd.Node >= h.cfg.Nodes || pd.NS < 0 || pd.NS >= h.cfg.Namespaces {
		r.OpSkipped()
		return
	}
	rec := &ecRec{id: h.nextID, pod: op.P, name: fmt.Sprintf("p%d", op.P), node: ecNode(pd.Node), ns: ecNS(pd.NS), actor: op.A % h.cfg.Actors}
	h.nextID++
	if rec.node != "" {
		rec.keys = append(rec.keys, "node/"+rec.node)
	} else {
		r.Probe("request-for-unassigned-pod")
	}
	rec.keys = append(rec.keys, "ns/"+rec.ns, "total")
	for _, k := range rec.keys {
		if h.capOf(k) >= 0 {
			rec.capKeys = append(rec.capKeys, k)
		}
	}
	pod := &corev1.Pod{ObjectMeta: metav1.ObjectMeta{Name: rec.name, Namespace: rec.ns}, Spec: corev1.PodSpec{NodeName: rec.node}}
	sequential := h.cfg.Actors == 1
	var before map[string]int
	if sequential {
		before = h.snapshot()
	}
	// history class of the recorded defect: with this request, more evictors are in flight on a capped key than it has head-room
	if !h.cfg.DryRun {
		for _, k := range rec.capKeys {
			if h.inflight[k] >= 1 {
				r.Probe("concurrent-evictors-on-capped-key")
				if h.acc[k]+h.pendingNA[k]+1 > h.capOf(k) {
					r.Tag(ecTagRace)
				}
			}
		}
	}
	rec.pending = true
	for _, k := range rec.keys {
		h.invoked[k]++
		h.inflight[k]++
		h.pendingNA[k]++
	}
	rec.inv = r.Seq()
	r.Event("invoke #%d actor %d pod %s/%s node %q", rec.id, rec.actor, rec.ns, rec.name, rec.node)

	rec.ok = h.doEvict(context.WithValue(context.Background(), ecCtxKey{}, rec), pod)

	rec.ret = r.Seq()
	for _, k := range rec.keys {
		h.inflight[k]--
		if rec.pending {
			h.pendingNA[k]--
		}
		if rec.ok {
			h.granted[k]++
			h.completed[k]++
		}
	}
	rec.pending = false
	if rec.failed {
		// an implementation that reserves before the call and rolls back after a failed call may legitimately show a counter going back
		for _, k := range rec.keys {
			h.monoLower[k] = 0
			h.failing[k]--
		}
	}
	r.Event("return #%d -> %v attempts=%d accepted=%d %s", rec.id, rec.ok, rec.attempts, rec.accepted, rec.apiErr)
	r.Sample("evict #%d actor %d pod %s/%s node %q -> %v (api calls %d, accepted %d %s)", rec.id, rec.actor, rec.ns, rec.name, rec.node, rec.ok, rec.attempts, rec.accepted, rec.apiErr)
	r.OpDone()
	r.OracleEval()

	// ---- operation-level oracles
	sub := h.cfg.Subject
	if h.cfg.DryRun && rec.attempts > 0 {
		r.Fail("dry-run-api-call", sub, "dry-run: request #%d made %d API call(s)", rec.id, rec.attempts)
	}
	if rec.ok && !h.cfg.DryRun {
		if rec.accepted == 0 {
			r.Fail("granted-without-eviction", sub, "request #%d (pod %s/%s) reported success but the API accepted no eviction for it (api calls %d, last error %q)", rec.id, rec.ns, rec.name, rec.attempts, rec.apiErr)
		}
		if rec.accepted > 1 {
			r.Fail("evicted-twice", sub, "request #%d issued %d accepted evictions", rec.id, rec.accepted)
		}
	}
	if !rec.ok {
		if rec.accepted > 0 {
			r.Fail("refused-with-side-effect", sub+"/eviction-issued", "request #%d was reported as not evicted but the API accepted %d eviction(s) for it", rec.id, rec.accepted)
		}
		if rec.attempts == 0 {
			r.Probe("refused-by-cap")
			headroom := true
			for _, k := range rec.capKeys {
				if h.acc[k] >= h.capOf(k) {
					headroom = false
				}
			}
			if headroom && !h.cfg.DryRun && rec.node != "" {
				// not part of the statement (safety only): counted, never failed
				if sequential {
					r.Probe("refused-although-headroom-sequential")
				} else {
					r.Probe("refused-although-headroom-concurrent")
				}
			}
		} else {
			r.Probe("api-call-failed")
		}
	}
	if sequential {
		// strict per-operation oracle of the sequential baseline
		after := h.snapshot()
		for _, k := range h.allKeys() {
			want := before[k]
			if rec.ok && !h.cfg.DryRun {
				for _, rk := range rec.keys {
					if rk == k {
						want++
					}
				}
			}
			if rec.ok && h.cfg.DryRun {
				// dry-run may or may not count simulated evictions; checked as a whole at the end of the cycle
				continue
			}
			if after[k] != want {
				what := "refused-with-side-effect"
				if rec.ok {
					what = "counters"
				}
				r.Fail(what, sub+"/sequential", "request #%d (ok=%v, api calls %d) moved counter %s from %d to %d, expected %d", rec.id, rec.ok, rec.attempts, k, before[k], after[k], want)
			}
		}
	}
}

func (h *ecSim) readOp(op ecOp) {
	r := h.r
	var key string
	switch op.R {
	case "node":
		if op.I < 0 || op.I >= h.cfg.Nodes {
			r.OpSkipped()
			return
		}
		key = "node/" + ecNode(op.I)
	case "ns":
		if op.I < 0 || op.I >= h.cfg.Namespaces {
			r.OpSkipped()
			return
		}
		key = "ns/" + ecNS(op.I)
	case "total":
		key = "total"
	default:
		r.OpSkipped()
		return
	}
	// a concurrent read may or may not include the evictions that are in flight: it must lie between the successful
	// evictions that had returned (and the earlier reads of this counter) when it started, and the evictions issued or in flight when it ends
	lower := h.completed[key]
	prev, fails, quiet := h.monoLower[key], h.failCount[key], h.failing[key] == 0
	v := h.counter(key)
	upper := h.acc[key] + h.pendingNA[key]
	// monotonic between reads, unless a request on this counter had an API call rejected meanwhile (possible roll-back of a reservation)
	mono := quiet && h.failing[key] == 0 && fails == h.failCount[key]
	if mono && v > h.monoLower[key] {
		h.monoLower[key] = v
	}
	if h.cfg.DryRun {
		// dry-run issues nothing; an implementation may count the simulated evictions it granted
		lower, upper = 0, h.invoked[key]
	}
	r.Event("read %s = %d [%d,%d]", key, v, lower, upper)
	r.Probe("counter-read")
	r.OpDone()
	r.OracleEval()
	if v < lower {
		r.Fail("counter-read", h.cfg.Subject+"/below-completed", "counter %s read %d although %d successful evictions on it had already returned", key, v, lower)
	}
	if mono && v < prev {
		r.Fail("counter-read", h.cfg.Subject+"/went-backwards", "counter %s read %d after an earlier read had returned %d (no eviction on it failed in between)", key, v, prev)
	}
	if v > upper {
		r.Fail("counter-read", h.cfg.Subject+"/above-issued", "counter %s read %d although only %d evictions on it had been issued", key, v, upper)
	}
}

func (h *ecSim) checkQuiescent() {
	r := h.r
	r.OracleEval()
	sub := h.cfg.Subject
	keys := h.allKeys()
	got := h.snapshot()
	for _, k := range keys {
		if h.inflight[k] != 0 || h.pendingNA[k] != 0 {
			r.HarnessFail("in-flight bookkeeping not balanced for %s", k)
		}
		// caps over the whole cycle (also asserted at every accepted call)
		if c := h.capOf(k); c >= 0 && h.acc[k] > c {
			r.Fail("cap-exceeded", sub+"/"+ecKind(k), "cycle %d: %d evictions issued for %s, cap %d", h.cycle, h.acc[k], k, c)
		}
	}
	if !h.cfg.DryRun {
		for _, k := range keys {
			if got[k] != h.acc[k] {
				r.Fail("counters", sub+"/"+ecKind(k), "cycle %d: counter %s reports %d, evictions issued (accepted by the API) %d; api log: %s", h.cycle, k, got[k], h.acc[k], strings.Join(h.apiLog, " "))
			}
		}
	} else {
		// dry-run: nothing was issued. The counters either stay at zero or count the simulated (granted) evictions - consistently.
		zero, sim := true, true
		for _, k := range keys {
			if got[k] != 0 {
				zero = false
			}
			if got[k] != h.granted[k] {
				sim = false
			}
		}
		if !zero && !sim {
			r.Fail("counters", sub+"/dry-run", "cycle %d: dry-run counters %v are neither all zero nor the granted requests %v", h.cycle, got, h.granted)
		}
		if len(h.apiLog) != 0 {
			r.Fail("dry-run-api-call", sub, "dry-run: %d evictions reached the API", len(h.apiLog))
		}
	}
	if sub == "limiter" {
		// the evictor behind the limiter (no caps, never reset) must have counted exactly what it issued
		for _, k := range keys {
			if v := h.innerCounter(k); v != h.cum[k] {
				r.Fail("counters", "podevictor-behind-limiter/"+ecKind(k), "PodEvictor counter %s reports %d, evictions issued %d", k, v, h.cum[k])
			}
		}
	}
	var sb strings.Builder
	for _, k := range keys {
		fmt.Fprintf(&sb, "%s=%d/%d ", k, got[k], h.acc[k])
	}
	r.Event("quiescent cycle %d: %s", h.cycle, sb.String())
	r.Sample("cycle %d end: counter/issued %s", h.cycle, sb.String())
}

// ---------------------------------------------------------------- execution

func (evictcapEngine) Execute(r *sim.Run) {
	h := &ecSim{r: r, exists: map[string]bool{}, cum: map[string]int{}}
	r.Plan.GetCfg(&h.cfg)
	var ops []ecOp
	r.Plan.GetOps(&ops)
	cfg := &h.cfg
	if cfg.Actors < 1 {
		cfg.Actors = 1
	}
	if cfg.Subject != "limiter" {
		cfg.Subject = "podevictor"
		cfg.CapTotal = -1
	}
	for i, pd := range cfg.Pods {
		if pd.NS >= 0 && pd.NS < cfg.Namespaces {
			h.exists[ecNS(pd.NS)+"/"+fmt.Sprintf("p%d", i)] = true
		}
	}
	r.Sample("cfg subject=%s dryRun=%v actors=%d nodes=%d namespaces=%d caps node=%d ns=%d total=%d pods=%d faults=%v@%.2f",
		cfg.Subject, cfg.DryRun, cfg.Actors, cfg.Nodes, cfg.Namespaces, cfg.CapNode, cfg.CapNS, cfg.CapTotal, len(cfg.Pods), r.Plan.Faults, r.Plan.FaultRate)
	if cfg.Actors == 1 {
		r.Probe("sequential-baseline")
	}
	if cfg.DryRun {
		r.Probe("dry-run")
	}
	for _, c := range []int{cfg.CapNode, cfg.CapNS, cfg.CapTotal} {
		if c == 0 {
			r.Probe("cap-zero")
		}
	}

	fk := &fake.Clientset{}
	fk.AddReactor("create", "pods", h.react)
	cs := &ecClient{Interface: fk, h: h}

	var cycles [][]ecOp
	var cur []ecOp
	for _, op := range ops {
		if op.K == "cycle" {
			if len(cur) > 0 {
				cycles = append(cycles, cur)
				cur = nil
			}
			continue
		}
		cur = append(cur, op)
	}
	if len(cur) > 0 {
		cycles = append(cycles, cur)
	}
	for ci, cyc := range cycles {
		h.cycle = ci
		h.acc, h.granted, h.completed, h.invoked = map[string]int{}, map[string]int{}, map[string]int{}, map[string]int{}
		h.inflight, h.pendingNA, h.monoLower, h.failing, h.failCount = map[string]int{}, map[string]int{}, map[string]int{}, map[string]int{}, map[string]int{}
		h.apiLog = nil
		if ci > 0 {
			// workload controllers recreate some of the evicted pods between cycles
			for i, pd := range cfg.Pods {
				key := ecNS(pd.NS) + "/" + fmt.Sprintf("p%d", i)
				if pd.NS >= 0 && pd.NS < cfg.Namespaces && !h.exists[key] && r.Flip(0.3) {
					h.exists[key] = true
				}
			}
		}
		h.newCycleSubject(cs)
		r.Event("cycle %d", ci)
		perActor := map[int][]ecOp{}
		var order []int
		for _, op := range cyc {
			a := op.A % cfg.Actors
			if a < 0 {
				a = 0
			}
			if _, ok := perActor[a]; !ok {
				order = append(order, a)
			}
			perActor[a] = append(perActor[a], op)
		}
		sort.Ints(order)
		for _, a := range order {
			mine := perActor[a]
			r.Spawn(fmt.Sprintf("evictor%d", a), func() {
				for _, op := range mine {
					r.Yield("next-request")
					switch op.K {
					case "evict":
						h.evictOp(op)
					case "read":
						h.readOp(op)
					default:
						r.OpSkipped()
					}
				}
			})
		}
		r.Drive()
		h.checkQuiescent()
	}
}
