//go:build verif

package reservation

// Engine `resv` (C05), part 3: execution. Informer transport, the global-handler stub, the scheduler stub
// that drives the plugin's real Filter / NominateReservation / Reserve / PreBind / Unreserve, and the driver.

import (
	"context"
	"fmt"
	"sort"
	"strings"

	corev1 "k8s.io/api/core/v1"
	"k8s.io/apimachinery/pkg/api/resource"
	metav1 "k8s.io/apimachinery/pkg/apis/meta/v1"
	"k8s.io/apimachinery/pkg/types"
	quotav1 "k8s.io/apiserver/pkg/quota/v1"
	listercorev1 "k8s.io/client-go/listers/core/v1"
	"k8s.io/client-go/tools/cache"
	resourceapi "k8s.io/component-helpers/resource"
	fwktype "k8s.io/kube-scheduler/framework"
	"k8s.io/kubernetes/pkg/scheduler/framework"

	apiext "github.com/koordinator-sh/koordinator/apis/extension"
	schedulingv1alpha1 "github.com/koordinator-sh/koordinator/apis/scheduling/v1alpha1"
	listerschedulingv1alpha1 "github.com/koordinator-sh/koordinator/pkg/client/listers/scheduling/v1alpha1"
	"github.com/koordinator-sh/koordinator/pkg/scheduler/frameworkext"
	"github.com/koordinator-sh/koordinator/pkg/util"
	reservationutil "github.com/koordinator-sh/koordinator/pkg/util/reservation"
	sim "github.com/koordinator-sh/koordinator/pkg/verifsim"
)

// ---------------------------------------------------------------- informer transport

type idxEntry struct {
	snap any // *sResv | *sPod
}

type tEvent struct {
	kind       string // add | update | delete
	oldS, newS any
	tomb       bool // delete delivered as DeletedFinalStateUnknown
	echo       bool // the update that echoes a bind of this scheduler (the ledger already holds the pod as assumed)
}

type stream struct {
	typ string
	q   []tEvent
	cur map[string]int       // listener -> next event
	idx map[string]*idxEntry // the informer's indexer (state after the last emitted event)
	gap bool                 // the watch is broken: changes are not seen until the relist
	lst cache.Indexer        // what the listers read
}

func snapObj(s any) any {
	switch v := s.(type) {
	case *sResv:
		return v.obj()
	case *sPod:
		return v.obj()
	}
	return nil
}

func (st *stream) push(ev tEvent) {
	st.q = append(st.q, ev)
	switch ev.kind {
	case "add", "update":
		_ = st.lst.Update(snapObj(ev.newS))
	case "delete":
		_ = st.lst.Delete(snapObj(ev.oldS))
	}
}

func (st *stream) pending(listener string) bool { return st.cur[listener] < len(st.q) }

func (st *stream) caughtUp() bool {
	for _, c := range st.cur {
		if c < len(st.q) {
			return false
		}
	}
	return !st.gap
}

// ---------------------------------------------------------------- fake framework pieces

type vfNodeInfoLister struct {
	fwktype.NodeInfoLister
	infos map[string]fwktype.NodeInfo
}

func (l *vfNodeInfoLister) Get(name string) (fwktype.NodeInfo, error) {
	if ni, ok := l.infos[name]; ok {
		return ni, nil
	}
	return nil, fmt.Errorf("node %q not found", name)
}

type vfSharedLister struct {
	fwktype.SharedLister
	nl *vfNodeInfoLister
}

func (l *vfSharedLister) NodeInfos() fwktype.NodeInfoLister { return l.nl }

// vfExtender stands for the kube-scheduler framework runtime + koordinator's FrameworkExtender: it only
// dispatches to this plugin's own extension points.
type vfExtender struct {
	frameworkext.FrameworkExtender
	pl     *Plugin
	lister *vfSharedLister
}

func (f *vfExtender) SnapshotSharedLister() fwktype.SharedLister { return f.lister }
func (f *vfExtender) GetReservationNominator() frameworkext.ReservationNominator {
	return f.pl
}
func (f *vfExtender) RunReservationFilterPlugins(ctx context.Context, cs fwktype.CycleState, pod *corev1.Pod, ri *frameworkext.ReservationInfo, ni fwktype.NodeInfo) *fwktype.Status {
	return f.pl.FilterReservation(ctx, cs, pod, ri, ni)
}
func (f *vfExtender) RunNominateReservationFilterPlugins(ctx context.Context, cs fwktype.CycleState, pod *corev1.Pod, ri *frameworkext.ReservationInfo, nodeName string) *fwktype.Status {
	return f.pl.FilterNominateReservation(ctx, cs, pod, ri, nodeName)
}
func (f *vfExtender) RunReservationScorePlugins(ctx context.Context, cs fwktype.CycleState, pod *corev1.Pod, ris []*frameworkext.ReservationInfo, nodeName string) (frameworkext.PluginToReservationScores, *fwktype.Status) {
	list := make(frameworkext.ReservationScoreList, len(ris))
	for i, ri := range ris {
		sc, st := f.pl.ScoreReservation(ctx, cs, pod, ri, nodeName)
		if !st.IsSuccess() {
			return nil, st
		}
		list[i] = frameworkext.ReservationScore{Name: ri.GetName(), Namespace: ri.GetNamespace(), UID: ri.UID(), Score: sc}
	}
	return frameworkext.PluginToReservationScores{Name: list}, nil
}

// ---------------------------------------------------------------- the simulation

type cycleCtx struct {
	op      rOp
	pod     *corev1.Pod
	ps      *sPod
	cs      *framework.CycleState
	node    string
	ownerOK map[string]bool // independent owner verdict at snapshot time, by reservation uid
	fitOK   map[string]bool // model fit verdict at snapshot time (restricted reservations)
	restr   map[string]bool
	busy    map[string]bool // allocate-once and already serving a pod at snapshot time
}

type bindTask struct {
	kind string // pod | resv
	c    *cycleCtx
	ruid string
	// resv
	assumedR *schedulingv1alpha1.Reservation
	rsnap    *sResv
	phase    string
	fail     bool
}

type rSim struct {
	r     *sim.Run
	cfg   rCfg
	st    *rStore
	model *rModel

	cache *reservationCache
	rh    *reservationEventHandler
	ph    *podEventHandler
	pl    *Plugin
	nodes map[string]*framework.NodeInfo

	resvStream, podStream *stream

	ops   []rOp
	opi   int
	cycle *cycleCtx
	binds []*bindTask
	// pods this scheduler has in flight / has bound (never scheduled twice); pods bound by somebody else
	inflight, placed, foreign map[string]bool
	everSched               map[string]bool
	globDeleted             map[string]bool // reservation uids the global handler has already deleted from the cache
	// reservation uids that a delete+add merged into one update has replaced by a namesake, where the global
	// handler has already handled that update and has not deleted the old uid (neither then nor earlier): no
	// later event of either listener will ever issue a DeleteReservation for it
	globReplacedKept map[string]bool
	lateReplaced     bool // the plugin-side route of "reservation-replaced-in-merged-update-unhandled" was taken
	drainUntil              bool

	// C19 mode (resv_c19_verif_test.go)
	c19      bool
	tagged   bool // the history meets the trigger of a defect recorded for C05
	anyBind  bool // at least one bind of this scheduler has succeeded
	forks    int
	forkNow  string // set by a successful bind: the run forks right after this step
}

func newStream(typ string, listeners ...string) *stream {
	st := &stream{typ: typ, cur: map[string]int{}, idx: map[string]*idxEntry{}}
	for _, l := range listeners {
		st.cur[l] = 0
	}
	st.lst = cache.NewIndexer(cache.MetaNamespaceKeyFunc, cache.Indexers{cache.NamespaceIndex: cache.MetaNamespaceIndexFunc})
	return st
}

func (resvEngine) Execute(r *sim.Run) {
	s := &rSim{r: r, st: newRStore(), model: newRModel(), nodes: map[string]*framework.NodeInfo{},
		inflight: map[string]bool{}, placed: map[string]bool{}, foreign: map[string]bool{}, everSched: map[string]bool{}, globDeleted: map[string]bool{}, globReplacedKept: map[string]bool{}}
	r.Plan.GetCfg(&s.cfg)
	r.Plan.GetOps(&s.ops)
	s.c19 = r.Prop == "C19"
	if s.c19 {
		// a C05 oracle that fails in a C19 run ends the history (see rSim.fail)
		defer func() {
			if e := recover(); e != nil {
				if _, ok := e.(endOfHistory); !ok {
					panic(e)
				}
			}
		}()
	}
	if s.cfg.Nodes < 1 {
		s.cfg.Nodes = 1
	}
	for _, w := range []*int{&s.cfg.WPlug, &s.cfg.WGlob, &s.cfg.WPod, &s.cfg.WCyc, &s.cfg.WBind, &s.cfg.WOp} {
		if *w < 1 {
			*w = 1
		}
	}
	s.resvStream = newStream("resv", "plug", "glob")
	s.podStream = newStream("pod", "pod")
	rLister := listerschedulingv1alpha1.NewReservationLister(s.resvStream.lst)
	podLister := listercorev1.NewPodLister(s.podStream.lst)
	s.cache = newReservationCache(rLister)
	nm := newNominator(podLister, rLister)
	s.rh = &reservationEventHandler{cache: s.cache, rrNominator: nm}
	s.ph = &podEventHandler{cache: s.cache, nominator: nm}
	nl := &vfNodeInfoLister{infos: map[string]fwktype.NodeInfo{}}
	for i := 0; i < s.cfg.Nodes; i++ {
		big := corev1.ResourceList{
			corev1.ResourceCPU: *resource.NewQuantity(1<<20, resource.DecimalSI), corev1.ResourceMemory: *resource.NewQuantity(1<<50, resource.BinarySI),
			corev1.ResourcePods: *resource.NewQuantity(1<<20, resource.DecimalSI), "example.com/foo": *resource.NewQuantity(1<<30, resource.DecimalSI),
			"example.com/bar": *resource.NewQuantity(1<<30, resource.DecimalSI), corev1.ResourceEphemeralStorage: *resource.NewQuantity(1<<50, resource.BinarySI)}
		ni := framework.NewNodeInfo()
		ni.SetNode(&corev1.Node{ObjectMeta: metav1.ObjectMeta{Name: nodeName(i)}, Status: corev1.NodeStatus{Allocatable: big, Capacity: big}})
		s.nodes[nodeName(i)] = ni
		nl.infos[nodeName(i)] = ni
	}
	s.pl = &Plugin{rLister: rLister, podLister: podLister, reservationCache: s.cache, nominator: nm}
	s.pl.handle = &vfExtender{pl: s.pl, lister: &vfSharedLister{nl: nl}}
	r.Sample("cfg %+v", s.cfg)

	for steps := 0; ; steps++ {
		if steps > 5000 {
			r.HarnessFail("driver did not terminate")
		}
		acts := s.enabled()
		if len(acts) == 0 {
			break
		}
		total := 0
		for _, a := range acts {
			total += a.w
		}
		v := r.Choose(total)
		var pick *action
		for i := range acts {
			if v < acts[i].w {
				pick = &acts[i]
				break
			}
			v -= acts[i].w
		}
		r.Event("step %s", pick.name)
		after := pick.fn()
		s.checkAll(after)
		r.Event("state %s", s.digest())
		if s.quiescent() {
			s.checkQuiescent()
		}
		if s.c19 {
			s.c19AfterStep(pick.name)
		}
	}
	if !s.quiescent() {
		r.HarnessFail("driver stopped in a non-quiescent state")
	}
	s.checkQuiescent()
	if s.lateReplaced {
		// exactness monitor of the plugin-side tag route: every such history must have failed by now
		// (the replaced uid is in the cache for good); must stay at zero
		s.r.Probe("replaced-uid-cached-after-global-passed:run-ended-green")
	}
	if s.c19 && s.anyBind {
		s.fork("end-of-history")
	}
}

type action struct {
	name string
	w    int
	fn   func() string
}

func (s *rSim) quiescent() bool {
	return s.resvStream.caughtUp() && s.podStream.caughtUp() && s.cycle == nil && len(s.binds) == 0
}

// enabled lists what can happen next, most "synchronous" party first (choice 0 = no lag).
func (s *rSim) enabled() []action {
	var acts []action
	if s.resvStream.pending("plug") {
		acts = append(acts, action{"deliver-resv-plugin", s.cfg.WPlug, s.deliverPlug})
	}
	if s.resvStream.pending("glob") {
		acts = append(acts, action{"deliver-resv-global", s.cfg.WGlob, s.deliverGlob})
	}
	if s.podStream.pending("pod") {
		acts = append(acts, action{"deliver-pod", s.cfg.WPod, s.deliverPod})
	}
	if s.cycle != nil {
		acts = append(acts, action{"reserve", s.cfg.WCyc, s.reserveStep})
	}
	if len(s.binds) > 0 {
		acts = append(acts, action{"bind", s.cfg.WBind, s.bindStep})
	}
	if s.drainUntil {
		// a drain op: nothing new happens until everything pending has been processed
		if len(acts) > 0 {
			return acts
		}
		s.drainUntil = false
	}
	if s.opi < len(s.ops) {
		if !(s.cycle != nil && s.ops[s.opi].K == "sched") {
			acts = append(acts, action{"op", s.cfg.WOp, s.nextOp})
		}
	} else if s.resvStream.gap || s.podStream.gap {
		// the watch always comes back eventually
		acts = append(acts, action{"final-relist", 1, func() string {
			for _, st := range []*stream{s.resvStream, s.podStream} {
				if st.gap {
					s.relist(st)
				}
			}
			return "final-relist"
		}})
	}
	return acts
}

func (s *rSim) digest() string {
	var sb strings.Builder
	var us []string
	for u := range s.cache.reservationInfos {
		us = append(us, string(u))
	}
	sort.Strings(us)
	for _, u := range us {
		ri := s.cache.reservationInfos[types.UID(u)]
		a, _ := fromRL(ri.Allocated)
		var ps []string
		for p := range ri.AssignedPods {
			ps = append(ps, string(p))
		}
		sort.Strings(ps)
		fmt.Fprintf(&sb, "%s@%s m=%v %v %s;", u, ri.GetNodeName(), ri.IsMatchable(), ps, fmtRL(a))
	}
	return sb.String()
}

// ---------------------------------------------------------------- store -> informer

func (s *rSim) streamOf(typ string) *stream {
	if typ == "resv" {
		return s.resvStream
	}
	return s.podStream
}

// notify: the informer sees a change of the store (unless its watch is broken).
func (s *rSim) notify(ch sChange) {
	st := s.streamOf(ch.typ)
	if st.gap {
		s.r.Probe("change-during-watch-gap")
		return
	}
	old := st.idx[ch.key]
	switch {
	case ch.snap == nil:
		if old == nil {
			return
		}
		delete(st.idx, ch.key)
		st.push(tEvent{kind: "delete", oldS: old.snap})
	case old == nil:
		st.idx[ch.key] = &idxEntry{snap: ch.snap}
		st.push(tEvent{kind: "add", newS: ch.snap})
	default:
		st.idx[ch.key] = &idxEntry{snap: ch.snap}
		st.push(tEvent{kind: "update", oldS: old.snap, newS: ch.snap})
	}
}

func (s *rSim) storeKeys(typ string) []string {
	if typ == "resv" {
		return sortedKeys(s.st.resvs)
	}
	return sortedKeys(s.st.pods)
}

func (s *rSim) storeGet(typ, key string) any {
	if typ == "resv" {
		if v := s.st.resvs[key]; v != nil {
			return v
		}
		return nil
	}
	if v := s.st.pods[key]; v != nil {
		return v
	}
	return nil
}

// relist: Replace() of a shared informer after a watch gap. Every listed object is delivered as add (unknown
// key) or update against the informer's cached copy (possibly with another UID); keys that vanished are
// delivered as DeletedFinalStateUnknown carrying the last state the informer saw.
func (s *rSim) relist(st *stream) {
	st.gap = false
	for _, k := range s.storeKeys(st.typ) {
		nw := s.storeGet(st.typ, k)
		old := st.idx[k]
		st.idx[k] = &idxEntry{snap: nw}
		if old == nil {
			st.push(tEvent{kind: "add", newS: nw})
		} else {
			st.push(tEvent{kind: "update", oldS: old.snap, newS: nw})
			if old.snap != nw {
				s.r.Probe("relist-coalesced-update")
			}
		}
	}
	for _, k := range sortedKeys(st.idx) {
		if s.storeGet(st.typ, k) == nil {
			old := st.idx[k]
			delete(st.idx, k)
			st.push(tEvent{kind: "delete", oldS: old.snap, tomb: true})
			s.r.Probe("tombstone-emitted")
		}
	}
}

// ---------------------------------------------------------------- deliveries

func evName(ev tEvent) string {
	id := func(x any) string {
		switch v := x.(type) {
		case *sResv:
			return v.uid() + "/" + v.Phase + "@" + v.Node
		case *sPod:
			return v.uid() + "@" + v.Node
		}
		return "-"
	}
	return fmt.Sprintf("%s %s -> %s", ev.kind, id(ev.oldS), id(ev.newS))
}

func (s *rSim) deliverPlug() string {
	st := s.resvStream
	ev := st.q[st.cur["plug"]]
	st.cur["plug"]++
	md := s.model
	grew := false
	if n, ok := ev.newS.(*sResv); ok && n.active() && s.globDeleted[n.uid()] {
		// history class of finding "reservation-event-after-global-delete": the plugin's listener handles an
		// older add/update of a reservation after the global handler (another listener of the same informer)
		// has already removed it from the cache for a later termination/deletion: the entry is resurrected
		s.tag("reservation-event-after-global-delete")
	}
	if n, ok := ev.newS.(*sResv); ok && n.active() && s.globReplacedKept[n.uid()] {
		// history class of finding "reservation-replaced-in-merged-update-unhandled", seen from the plugin's side:
		// the global handler (the faster listener here) has already handled the merged update that replaced this
		// uid by a namesake and matched none of its deleting transition cases; the plugin's listener now handles
		// an older active add/update of the replaced uid and puts it into the cache, where its own handling of the
		// merged update (updateReservation(new) only) leaves it. Same (old, new) pair, same outcome as when the
		// plugin's listener is the faster one (tagged in deliverGlob); only the order of the two listeners differs.
		s.r.Probe("replaced-uid-cached-after-global-passed")
		s.lateReplaced = true
		s.tag("reservation-replaced-in-merged-update-unhandled")
	}
	switch ev.kind {
	case "add":
		n := ev.newS.(*sResv)
		if m := md.resvs[n.uid()]; m != nil {
			s.r.Probe("resv-duplicate-add")
		}
		s.rh.OnAdd(n.obj(), false)
		if n.active() {
			grew = md.upsert(n)
		}
	case "update":
		o, n := ev.oldS.(*sResv), ev.newS.(*sResv)
		if o.uid() != n.uid() {
			s.r.Probe("resv-update-uid-changed")
		}
		s.rh.OnUpdate(o.obj(), n.obj())
		if n.active() {
			grew = md.upsert(n)
		} else if n.Phase == "Failed" || n.Phase == "Succeeded" {
			if m := md.resvs[n.uid()]; m != nil && len(m.assigned) > 0 {
				s.r.Probe("resv-terminated-while-pods-assigned")
			}
			grew = md.updateIfExists(n)
		}
	case "delete":
		o := ev.oldS.(*sResv)
		var obj any = o.obj()
		if ev.tomb {
			obj = cache.DeletedFinalStateUnknown{Key: o.Name, Obj: o.obj()}
			s.r.Probe("resv-tombstone-delivered")
		}
		s.rh.OnDelete(obj)
		n := o
		if o.available() {
			n = o.clone()
			n.Phase = "Failed"
		}
		grew = md.updateIfExists(n)
	}
	if grew {
		s.r.Probe("dims-grew-while-assigned")
		s.tag("dims-grew-while-assigned")
	}
	s.r.Event("plugin %s", evName(ev))
	return "plugin handler: " + evName(ev)
}

// deliverGlob: the global scheduler-cache handler of frameworkext/eventhandlers, reduced to the
// DeleteReservation calls it issues into the reservation cache.
func (s *rSim) deliverGlob() string {
	st := s.resvStream
	ev := st.q[st.cur["glob"]]
	st.cur["glob"]++
	del := func(o *sResv) {
		if o.Node == "" {
			return
		}
		if m := s.model.resvs[o.uid()]; m != nil && len(m.assigned) > 0 {
			s.r.Probe("resv-deleted-while-pods-assigned")
		}
		s.pl.DeleteReservation(o.obj())
		delete(s.model.resvs, o.uid())
		s.globDeleted[o.uid()] = true
		s.r.Probe("global-delete-reservation")
	}
	switch ev.kind {
	case "update":
		o, n := ev.oldS.(*sResv), ev.newS.(*sResv)
		oT, nT := o.terminal(), n.terminal()
		unassigned := func(x *sResv) bool { return x.Node == "" && !x.terminal() }
		switch {
		case oT && nT:
		case o.available() && n.available():
			if o.uid() != n.uid() || o.Node != n.Node {
				del(o)
			}
		case unassigned(o) && n.available():
		case o.available() && nT:
			del(o)
		case o.available() && unassigned(n):
			del(o)
		}
		if o.uid() != n.uid() && s.model.resvs[o.uid()] != nil {
			// history class of finding "reservation-replaced-in-merged-update-unhandled": a delete+add of the same
			// name merged into one update (relist) replaces a cached reservation, and the (old, new) pair matches
			// none of the global handler's transition cases that delete the old object (old Waiting or terminated,
			// or old Available and new Waiting): no handler removes the old uid
			s.tag("reservation-replaced-in-merged-update-unhandled")
		}
		if o.uid() != n.uid() && !s.globDeleted[o.uid()] {
			// the same class when the plugin's listener lags behind this one: the old uid is not cached yet, but an
			// older active add/update of it is still on its way to the plugin's listener (evaluated there, when and
			// if it is handled: deliverPlug)
			s.globReplacedKept[o.uid()] = true
		}
	case "delete":
		o := ev.oldS.(*sResv)
		if m := s.model.resvs[o.uid()]; m != nil && o.Node == "" && m.node != "" {
			// history class of finding "reservation-deleted-via-object-without-node": the delete notification
			// carries a state from before this scheduler placed the reservation (relist tombstone after a watch
			// gap that swallowed the bind), so neither handler removes the assumed entry
			s.tag("reservation-deleted-via-object-without-node")
		}
		del(o)
	}
	s.r.Event("global %s", evName(ev))
	return "global handler: " + evName(ev)
}

func (s *rSim) deliverPod() string {
	st := s.podStream
	ev := st.q[st.cur["pod"]]
	st.cur["pod"]++
	switch ev.kind {
	case "add":
		n := ev.newS.(*sPod)
		s.tagStaleRequests(nil, n)
		s.ph.OnAdd(n.obj(), false)
		s.model.podEvent(nil, n)
	case "update":
		o, n := ev.oldS.(*sPod), ev.newS.(*sPod)
		if o.uid() != n.uid() {
			s.r.Probe("pod-update-uid-changed")
		}
		s.tagStaleRequests(o, n)
		if o.uid() != n.uid() {
			// delete+add merged: the old incarnation is gone; it is released only when the handler looks at the
			// old object's record (new pod not terminated and one of the two bound)
			rec := "<none>"
			if !n.terminated() && (o.Node != "" || n.Node != "") {
				rec = o.RUID
			}
			s.tagStaleDelete(&sPod{Name: o.Name, Gen: o.Gen, RUID: rec})
		}
		if n.terminated() {
			s.tagStaleDelete(n)
		} else if n.Node == "" && o.Node != "" && o.uid() == n.uid() {
			s.tagStaleDelete(o)
		}
		s.ph.OnUpdate(o.obj(), n.obj())
		s.model.podEvent(o, n)
	case "delete":
		o := ev.oldS.(*sPod)
		var obj any = o.obj()
		if ev.tomb {
			obj = cache.DeletedFinalStateUnknown{Key: o.key(), Obj: o.obj()}
			s.r.Probe("pod-tombstone-delivered")
		}
		s.tagStaleDelete(o)
		s.ph.OnDelete(obj)
		s.model.podGone(o)
	}
	s.r.Event("podhandler %s", evName(ev))
	return "pod handler: " + evName(ev)
}

// tagStaleRequests recognises the history class of finding "assigned-pod-requests-changed-in-merged-event":
// a pod that is already assigned to the reservation (assumed, or added by an earlier event) is delivered with
// other requests by an event whose old object does not carry the allocation record of that reservation
// (an add, or an update merged over the bind), so the ledger is not told to replace the pod's entry.
func (s *rSim) tagStaleRequests(o, n *sPod) {
	if n.terminated() || n.Node == "" || n.RUID == "" {
		return
	}
	m := s.model.resvs[n.RUID]
	if m == nil {
		return
	}
	a := m.assigned[n.uid()]
	if a == nil || eqRL(a.req, n.Req) {
		return
	}
	if o == nil || o.RUID != n.RUID || o.uid() != n.uid() {
		s.tag("assigned-pod-requests-changed-in-merged-event")
	}
}

// tagStaleDelete recognises the history class of finding "assigned-pod-released-via-object-without-record":
// the pod handler learns that a pod is gone (deleted, terminated, lost) from an object that does not carry the
// allocation record of the reservation the pod is assigned to in the cache (a relist tombstone holding the
// pre-bind state, a merged delete+add).
func (s *rSim) tagStaleDelete(gone *sPod) {
	for _, u := range sortedKeys(s.model.resvs) {
		if _, ok := s.model.resvs[u].assigned[gone.uid()]; ok && gone.RUID != u {
			s.tag("assigned-pod-released-via-object-without-record")
		}
	}
}

// ---------------------------------------------------------------- operations

func (s *rSim) nextOp() string {
	op := s.ops[s.opi]
	s.opi++
	r := s.r
	desc := fmt.Sprintf("op %s r=%s p=%s", op.K, op.R, op.P)
	switch op.K {
	case "sched":
		if !s.startCycle(op) {
			r.OpSkipped()
		} else {
			r.OpDone()
		}
		return desc
	case "resv_sched":
		if !s.schedResv(op) {
			r.OpSkipped()
		} else {
			r.OpDone()
		}
		return desc
	case "gap":
		st := s.streamOf(op.T)
		if st.gap {
			r.OpSkipped()
			return desc
		}
		st.gap = true
		r.OpDone()
		return desc
	case "relist":
		s.relist(s.streamOf(op.T))
		r.OpDone()
		return desc
	case "resync":
		st := s.streamOf(op.T)
		if st.gap {
			r.OpSkipped()
			return desc
		}
		for _, k := range sortedKeys(st.idx) {
			e := st.idx[k]
			st.push(tEvent{kind: "update", oldS: e.snap, newS: e.snap})
		}
		r.Probe("resync")
		r.OpDone()
		return desc
	case "dup_add":
		st := s.streamOf(op.T)
		k := op.R
		if op.T == "pod" {
			k = op.P
		}
		e := st.idx[k]
		if e == nil || st.gap {
			r.OpSkipped()
			return desc
		}
		st.push(tEvent{kind: "add", newS: e.snap})
		r.OpDone()
		return desc
	case "drain":
		s.drainUntil = true
		r.OpDone()
		return desc
	case "opmode":
		if s.c19 || len(op.Script) == 0 || len(op.Alloc) == 0 {
			r.OpSkipped()
			return desc
		}
		s.opmodeScenario(op)
		r.OpDone()
		return desc
	case "pod_bind_ext":
		// somebody else binds a pod: only pods this scheduler never tried to place; a reservation-allocated
		// record only for a reservation this scheduler's cache knows (single-scheduler assumption)
		cur := s.st.pods[op.P]
		if cur == nil || s.everSched[cur.uid()] {
			r.OpSkipped()
			return desc
		}
		if op.R != "" {
			rr := s.st.resvs[op.R]
			if rr == nil || s.model.resvs[rr.uid()] == nil {
				r.OpSkipped()
				return desc
			}
		}
	case "pod_resize":
		if cur := s.st.pods[op.P]; cur != nil && s.inflight[cur.uid()] {
			r.OpSkipped()
			return desc
		}
	}
	ch, ok := s.st.apply(&op)
	if !ok {
		r.OpSkipped()
		return desc
	}
	if op.K == "pod_bind_ext" {
		s.foreign[s.st.pods[op.P].uid()] = true
		r.Probe("pod-bound-externally")
	}
	r.OpDone()
	r.Sample("%s r=%s p=%s phase=%s", op.K, op.R, op.P, op.Phase)
	r.Event("api %s %s%s %s", op.K, op.R, op.P, op.Phase)
	for _, c := range ch {
		s.notify(c)
	}
	return desc
}

// schedResv: the scheduling of a reserve pod as far as the reservation cache sees it: Reserve assumes the
// reservation on the node; binding makes it Available (or Waiting) through the API, a failure forgets it.
func (s *rSim) schedResv(op rOp) bool {
	e := s.resvStream.idx[op.R]
	if e == nil {
		return false
	}
	sn := e.snap.(*sResv)
	if sn.Node != "" || sn.Phase != "Pending" || sn.Terminating || s.model.resvs[sn.uid()] != nil {
		return false
	}
	// the scheduling queue hands out a reserve pod only after this scheduler's listeners have seen the
	// reservation's latest state (an unassigned reservation is requeued by the global handler)
	if !s.resvStream.caughtUp() {
		return false
	}
	for _, b := range s.binds {
		if b.kind == "resv" && b.ruid == sn.uid() {
			return false
		}
	}
	node := nodeName(op.N % s.cfg.Nodes)
	assumed := sn.obj().DeepCopy()
	assumed.Status.NodeName = node
	s.cache.assumeReservation(assumed)
	ms := sn.clone()
	ms.Node = node
	s.model.upsert(ms)
	s.binds = append(s.binds, &bindTask{kind: "resv", ruid: sn.uid(), assumedR: assumed, rsnap: ms, phase: op.Phase, fail: op.Fail})
	s.r.Probe("reservation-assumed")
	s.r.Event("assume-reservation %s %s", sn.uid(), node)
	return true
}

func (s *rSim) bindStep() string {
	i := s.r.Choose(len(s.binds))
	b := s.binds[i]
	s.binds = append(append([]*bindTask{}, s.binds[:i]...), s.binds[i+1:]...)
	if b.kind == "resv" {
		cur := s.st.resvs[b.rsnap.Name]
		if b.fail || cur == nil || cur.uid() != b.ruid || cur.Node != "" || cur.Phase != "Pending" {
			s.cache.forgetReservation(b.assumedR)
			delete(s.model.resvs, b.ruid)
			s.r.Probe("reservation-bind-failed")
			s.r.Event("forget-reservation %s", b.ruid)
			return "forget reservation " + b.ruid
		}
		n := cur.clone()
		n.Node = b.assumedR.Status.NodeName
		n.Phase = "Available"
		if b.phase == "Waiting" {
			n.Phase = "Waiting"
		}
		s.st.rv++
		n.rv = s.st.rv
		s.st.resvs[n.Name] = n
		if s.c19 {
			s.c19ReservationBound(cur, n)
		}
		s.notify(sChange{"resv", n.Name, n})
		s.r.Event("bound-reservation %s", b.ruid)
		return "bind reservation " + b.ruid
	}
	c := b.c
	ctx := context.TODO()
	puid := c.ps.uid()
	cur := s.st.pods[c.ps.Name]
	if c.op.Fail || cur == nil || cur.uid() != puid || cur.Node != "" || cur.Phase != "Pending" {
		// binding cycle failed: Unreserve, then the scheduler forgets the assumed pod (forget-pod handler)
		s.pl.Unreserve(ctx, c.cs, c.pod, c.node)
		s.ph.deletePod(c.pod)
		s.pl.nominator.DeleteNominatedReservePodOrReservation(c.pod)
		s.model.unassign(b.ruid, puid)
		delete(s.inflight, puid)
		s.r.Probe("pod-bind-failed-unreserve")
		s.r.Event("unreserve %s from %s", puid, b.ruid)
		return fmt.Sprintf("unreserve %s from %s", puid, b.ruid)
	}
	if st := s.pl.PreBind(ctx, c.cs, c.pod, c.node); !st.IsSuccess() {
		s.r.Fail("prebind", "", "PreBind of an assumed pod failed: %v", st.Message())
	}
	ra, err := apiext.GetReservationAllocated(c.pod)
	if s.c19 {
		s.c19CodecRoundTrip(c, b.ruid, ra, err)
	}
	if err != nil || ra == nil || string(ra.UID) != b.ruid {
		s.r.Fail("allocation-record", "", "PreBind recorded %+v (err %v) on pod %s, the pod was assumed into %s", ra, err, puid, b.ruid)
	}
	n := cur.clone()
	n.Node, n.Phase, n.RName, n.RUID = c.node, "Running", ra.Name, string(ra.UID)
	s.st.rv++
	n.rv = s.st.rv
	s.st.pods[n.Name] = n
	delete(s.inflight, puid)
	s.placed[puid] = true
	nq := len(s.podStream.q)
	s.notify(sChange{"pod", n.Name, n})
	if len(s.podStream.q) == nq+1 {
		s.podStream.q[nq].echo = true
	}
	if s.c19 {
		s.anyBind, s.forkNow = true, "pod-bind"
	}
	s.r.Probe("pod-bound-with-reservation")
	s.r.Event("bound %s to %s on %s", puid, b.ruid, c.node)
	return fmt.Sprintf("bind %s to %s", puid, b.ruid)
}

// ---------------------------------------------------------------- the scheduling cycle

// beforePreFilter stands for the PreFilterTransformer's node walk: per node with matchable reservations it
// enumerates them through the real cache API and classifies each with the real matcher.
func (s *rSim) beforePreFilter(c *cycleCtx) *stateData {
	pod, ps := c.pod, c.ps
	aff, err := reservationutil.GetRequiredReservationAffinity(pod)
	if err != nil {
		s.r.HarnessFail("bad affinity annotation: %v", err)
	}
	podRequests := resourceapi.PodRequests(pod, resourceapi.PodResourcesOptions{})
	state := &stateData{schedulingStateData: schedulingStateData{
		hasAffinity:              aff != nil,
		reservationName:          aff.GetName(),
		podRequests:              podRequests,
		podRequestsResources:     framework.NewResource(podRequests),
		podResourceNames:         quotav1.ResourceNames(podRequests),
		preemptible:              map[string]corev1.ResourceList{},
		preemptibleInRRs:         map[string]map[types.UID]corev1.ResourceList{},
		nodeReservationStates:    map[string]*nodeReservationState{},
		nodeReservationDiagnosis: map[string]*nodeDiagnosisState{},
	}}
	nodes := append([]string(nil), s.cache.ListAllNodes(true)...)
	sort.Strings(nodes)
	for _, n := range nodes {
		ni := s.nodes[n]
		if ni == nil {
			continue
		}
		diag := &nodeDiagnosisState{nodeName: n, taintsUnmatchedReasons: map[string]int{}}
		var matched, unmatched []*frameworkext.ReservationInfo
		s.cache.ForEachMatchableReservationOnNode(n, func(ri *frameworkext.ReservationInfo) (bool, *fwktype.Status) {
			ok := checkReservationMatchedOrIgnored(pod, ri, diag, ni.Node(), podRequests, aff, nil, aff.GetName(), false)
			uid := string(ri.UID())
			m := s.model.resvs[uid]
			if m == nil {
				s.fail("enumeration", "unknown-reservation", "reservation %s is offered on %s but does not exist", uid, n)
			}
			owner := ownersMatch(m.snap, ps)
			c.ownerOK[uid] = owner
			c.busy[uid] = m.snap.once() && len(m.assigned) > 0
			if ok && !owner {
				s.fail("owner", "offered-to-non-owner", "pod %s (ns=%s labels=%v ctrl=%+v) was matched to reservation %s whose owners %+v it does not satisfy", ps.uid(), ps.NS, ps.Labels, ps.Ctrl, uid, m.snap.Owners)
			}
			// the other documented conditions of a match: schedulable (not unschedulable / terminating), affinity
			other := !(m.snap.Unsch || m.snap.Terminating)
			if ps.Aff != nil {
				if ps.Aff.Name != "" {
					other = ps.Aff.Name == m.snap.Name
				} else {
					for k, v := range ps.Aff.Sel {
						if k != "grp" || m.snap.Grp != v {
							other = false
						}
					}
				}
			}
			if !ok && owner && other {
				s.fail("owner", "owner-refused", "pod %s satisfies the owners of reservation %s (and its other match conditions) but was not matched", ps.uid(), uid)
			}
			if ok {
				s.r.Probe("reservation-matched")
				if m.snap.once() && len(m.assigned) > 0 {
					s.r.Probe("allocate-once-with-pod-matched-at-prefilter")
					if ps.Aff != nil {
						// history class of finding "affinity-pod-vs-busy-allocate-once": a pod with a reservation affinity
						// is scheduled while an allocate-once reservation it matches already serves a pod
						s.tag("affinity-pod-vs-busy-allocate-once")
					}
				}
				matched = append(matched, ri.Clone())
				c.restr[uid] = m.snap.Policy == "Restricted"
				c.fitOK[uid] = m.modelFit(ps.Req, nil)
			} else {
				if owner {
					s.r.Probe("owner-but-unschedulable-or-affinity")
				}
				if ri.GetAllocatedPods() > 0 {
					unmatched = append(unmatched, ri.Clone())
				}
			}
			return true, nil
		})
		if len(matched) == 0 && len(unmatched) == 0 {
			continue
		}
		if aff != nil && len(matched) == 0 {
			continue
		}
		rAllocated := corev1.ResourceList{}
		for _, ri := range matched {
			util.AddResourceList(rAllocated, ri.Allocated)
		}
		state.nodeReservationStates[n] = &nodeReservationState{nodeName: n, matchedOrIgnored: matched, unmatched: unmatched,
			podRequested: framework.NewResource(nil), rAllocated: framework.NewResource(rAllocated), preRestored: true, finalRestored: true}
		state.nodeReservationDiagnosis[n] = diag
	}
	return state
}

// fitVerdicts compares every verdict of the real restricted fit check with the inequality of the statement.
func (s *rSim) fitVerdicts(c *cycleCtx, state *stateData, seeded rl) {
	for _, n := range sortedKeys(state.nodeReservationStates) {
		for _, ri := range state.nodeReservationStates[n].matchedOrIgnored {
			uid := string(ri.UID())
			m := s.model.resvs[uid]
			if m == nil || m.snap.Policy != "Restricted" {
				continue
			}
			pres := []corev1.ResourceList{state.preemptibleInRRs[n][ri.UID()]}
			if len(seeded) > 0 {
				pres = append(pres, toRL(seeded))
			}
			for _, pre := range pres {
				reasons := fitsReservation(state.podRequests, ri, pre, false, nil, nil)
				prl, _ := fromRL(pre)
				want := m.modelFit(c.ps.Req, prl)
				s.r.Probe("fit-verdict")
				if len(pre) > 0 {
					s.r.Probe("fit-verdict-with-preemptible")
				}
				if len(reasons) == 0 && !want {
					s.fail("fit", "accepted-over-capacity", "restricted reservation %s (reserved %s inner %s dims %v, assigned pods request %s) accepted pod %s requesting %s with preemptible %s", uid, fmtRL(m.snap.Alloc), fmtRL(m.snap.Inner), m.snap.dims(), fmtRL(m.expectedAllocated()), c.ps.uid(), fmtRL(c.ps.Req), fmtRL(prl))
				}
				if len(reasons) > 0 && want {
					s.fail("fit", "refused-with-room", "restricted reservation %s (reserved %s inner %s dims %v, assigned pods request %s) refused pod %s requesting %s with preemptible %s: %v", uid, fmtRL(m.snap.Alloc), fmtRL(m.snap.Inner), m.snap.dims(), fmtRL(m.expectedAllocated()), c.ps.uid(), fmtRL(c.ps.Req), fmtRL(prl), reasons)
				}
				if len(reasons) > 0 {
					s.r.Probe("fit-refused")
				} else {
					s.r.Probe("fit-accepted")
				}
			}
		}
	}
}

func (s *rSim) endCycle(c *cycleCtx) {
	// the error handler drops the pod's nomination when the attempt ends without a binding
	s.pl.nominator.DeleteNominatedReservePodOrReservation(c.pod)
	delete(s.inflight, c.ps.uid())
}

func (s *rSim) startCycle(op rOp) bool {
	e := s.podStream.idx[op.P]
	if e == nil {
		return false
	}
	ps := e.snap.(*sPod)
	if ps.Node != "" || ps.Phase != "Pending" || s.inflight[ps.uid()] || s.placed[ps.uid()] || s.foreign[ps.uid()] {
		return false
	}
	if cur := s.st.pods[op.P]; cur != nil && cur.uid() == ps.uid() && cur.Node != "" {
		return false // bound meanwhile by somebody else (the event is still on its way)
	}
	s.everSched[ps.uid()] = true
	ctx := context.TODO()
	c := &cycleCtx{op: op, pod: ps.obj().DeepCopy(), ps: ps, cs: framework.NewCycleState(), ownerOK: map[string]bool{}, fitOK: map[string]bool{}, restr: map[string]bool{}, busy: map[string]bool{}}
	state := s.beforePreFilter(c)
	c.cs.Write(stateKey, state)
	s.r.Event("cycle %s", ps.uid())
	_, st := s.pl.PreFilter(ctx, c.cs, c.pod, nil)
	if !st.IsSuccess() {
		if st.Code() == fwktype.Skip {
			s.r.Probe("cycle-no-reservation-in-sight")
		} else {
			s.r.Probe("cycle-prefilter-rejected")
		}
		s.endCycle(c)
		return true
	}
	if op.Vict > 0 {
		// preemption dry run: victims are removed through the real RemovePod; the verdicts are checked, nothing is reserved
		for _, n := range sortedKeys(state.nodeReservationStates) {
			var cands []*sPod
			for _, k := range sortedKeys(s.podStream.idx) {
				p := s.podStream.idx[k].snap.(*sPod)
				if p.Node == n && p.RUID != "" && !p.terminated() {
					cands = append(cands, p)
				}
			}
			for v := 0; v < op.Vict && len(cands) > 0; v++ {
				i := s.r.Choose(len(cands))
				pi, _ := framework.NewPodInfo(cands[i].obj())
				cands = append(append([]*sPod{}, cands[:i]...), cands[i+1:]...)
				s.pl.RemovePod(ctx, c.cs, c.pod, pi, s.nodes[n])
				s.r.Probe("preemption-victim-removed")
			}
		}
	}
	s.fitVerdicts(c, state, op.Pre)
	var feasible []string
	for _, n := range sortedKeys(state.nodeReservationStates) {
		if len(state.nodeReservationStates[n].matchedOrIgnored) == 0 {
			continue
		}
		if st := s.pl.Filter(ctx, c.cs, c.pod, s.nodes[n]); st.IsSuccess() {
			feasible = append(feasible, n)
		} else {
			s.r.Probe("filter-rejected-node")
		}
	}
	if op.Vict > 0 {
		s.r.Probe("cycle-preemption-dry-run")
		s.endCycle(c)
		return true
	}
	// PreScore: nominate a reservation on every feasible node
	var cands []string
	for _, n := range feasible {
		ri, st := s.pl.NominateReservation(ctx, c.cs, c.pod, n)
		if !st.IsSuccess() {
			s.fail("nominate", "error", "NominateReservation failed: %v", st.Message())
		}
		if ri != nil {
			s.pl.AddNominatedReservation(c.pod, n, ri)
			cands = append(cands, n)
		}
	}
	if len(cands) == 0 {
		s.r.Probe("cycle-nothing-nominated")
		s.endCycle(c)
		return true
	}
	c.node = cands[s.r.Choose(len(cands))]
	s.inflight[ps.uid()] = true
	s.cycle = c
	return true
}

func (s *rSim) reserveStep() string {
	c := s.cycle
	s.cycle = nil
	ctx := context.TODO()
	puid := c.ps.uid()
	c.pod.Spec.NodeName = c.node
	st := s.pl.Reserve(ctx, c.cs, c.pod, c.node)
	state := getStateData(c.cs)
	if state.assumed == nil {
		if st.IsSuccess() {
			s.r.Probe("reserve-without-reservation")
		} else {
			s.r.Probe("reserve-failed")
			s.pl.Unreserve(ctx, c.cs, c.pod, c.node)
		}
		s.endCycle(c)
		s.r.Event("reserve %s none", puid)
		return fmt.Sprintf("reserve %s: nothing assumed (%v)", puid, st.Message())
	}
	uid := string(state.assumed.UID())
	m := s.model.resvs[uid]
	if m == nil {
		s.fail("assume", "into-missing-reservation", "pod %s was assumed into %s which is not in the cache", puid, uid)
	}
	if m.snap.Terminating {
		s.fail("assume", "into-terminating-reservation", "pod %s was assumed into %s which is terminating", puid, uid)
	}
	if c.busy[uid] {
		s.fail("allocate-once", "second-pod-assumed", "allocate-once reservation %s already served a pod when it was nominated for pod %s; it now serves %v and the pod was assumed into it", uid, puid, sortedKeys(m.assigned))
	}
	if _, dup := m.assigned[puid]; !dup && m.snap.once() && len(m.assigned) > 0 {
		s.r.Probe("allocate-once-raced-after-nomination")
	}
	if ok, seen := c.ownerOK[uid]; !seen || !ok {
		s.fail("owner", "assumed-non-owner", "pod %s was assumed into reservation %s whose owner specification it does not satisfy (seen at snapshot: %v)", puid, uid, seen)
	}
	if c.restr[uid] && !c.fitOK[uid] {
		s.fail("fit", "assumed-over-capacity", "pod %s requesting %s was let into restricted reservation %s although sum+request exceeded the reserved amount when it was checked", puid, fmtRL(c.ps.Req), uid)
	}
	s.model.assign(uid, c.ps, false)
	s.binds = append(s.binds, &bindTask{kind: "pod", c: c, ruid: uid})
	s.r.Probe("pod-assumed")
	if !m.snap.available() {
		s.r.Probe("pod-assumed-into-unavailable-reservation")
	}
	s.r.Event("reserve %s %s", puid, uid)
	return fmt.Sprintf("reserve %s into %s", puid, uid)
}

// ---------------------------------------------------------------- reservation-operating-mode pods

// opmodeScenario: a pod in reservation operating mode (it acts as a reservation; its owner specification is the
// reservation-owners annotation) is added to a cache of its own through the real pod handler and then updated
// through the versions of op.Script. After every version each live pod of the run is presented to the real
// MatchOwners and, as the PreFilter transformer does, to ForEachMatchableReservationOnNode +
// checkReservationMatchedOrIgnored. Statement: a pod is only ever matched to a reservation whose owner
// specification it satisfies - the CURRENT one; a reservation without a usable owner specification serves nobody.
// The cache is a separate instance: the ledgers and indexes of the main history are not touched.
func (s *rSim) opmodeScenario(op rOp) {
	r := s.r
	node := nodeName(op.N % s.cfg.Nodes)
	rLister := listerschedulingv1alpha1.NewReservationLister(s.resvStream.lst)
	podLister := listercorev1.NewPodLister(s.podStream.lst)
	h := &podEventHandler{cache: newReservationCache(rLister), nominator: newNominator(podLister, rLister)}
	uid := fmt.Sprintf("op-%d", s.opi)
	build := func(i int) *corev1.Pod {
		st := op.Script[i]
		p := &corev1.Pod{
			ObjectMeta: metav1.ObjectMeta{Name: uid, Namespace: "default", UID: types.UID(uid), ResourceVersion: fmt.Sprint(i + 1),
				Labels: map[string]string{apiext.LabelPodOperatingMode: string(apiext.ReservationPodOperatingMode)}, Annotations: map[string]string{}},
			Spec:   corev1.PodSpec{NodeName: node, Containers: []corev1.Container{{Name: "c", Resources: corev1.ResourceRequirements{Requests: toRL(op.Alloc)}}}},
			Status: corev1.PodStatus{Phase: corev1.PodRunning, Conditions: []corev1.PodCondition{{Type: corev1.PodReady, Status: corev1.ConditionTrue}}},
		}
		if st.Ready != nil && !*st.Ready {
			p.Status.Conditions[0].Status = corev1.ConditionFalse
		}
		switch st.Mode {
		case "owners":
			var owners []schedulingv1alpha1.ReservationOwner
			for _, o := range st.Owners {
				owners = append(owners, o.api())
			}
			if err := apiext.SetReservationOwners(p, owners); err != nil {
				r.HarnessFail("SetReservationOwners: %v", err)
			}
		case "empty":
			p.Annotations[apiext.AnnotationReservationOwners] = ""
		case "broken":
			p.Annotations[apiext.AnnotationReservationOwners] = "{not-a-list"
		case "emptylist":
			p.Annotations[apiext.AnnotationReservationOwners] = "[]"
		}
		return p
	}
	var prev *corev1.Pod
	for i := range op.Script {
		st := op.Script[i]
		cur := build(i)
		if prev == nil {
			h.OnAdd(cur, false)
		} else {
			h.OnUpdate(prev, cur)
		}
		prev = cur
		r.OracleEval()
		r.Probe("opmode-version:" + st.Mode)
		ri := h.cache.reservationInfos[types.UID(uid)]
		if ri == nil {
			s.fail("opmode", "not-cached", "operating-mode pod %s on %s (version %d, %s) is not in the reservation cache", uid, node, i, st.Mode)
		}
		spec := &sResv{}
		if st.Mode == "owners" {
			spec.Owners = st.Owners
		}
		ready := st.Ready == nil || *st.Ready
		offered := map[string]bool{}
		for _, k := range sortedKeys(s.st.pods) {
			ps := s.st.pods[k]
			pod := ps.obj()
			want := ownersMatch(spec, ps)
			if got := ri.MatchOwners(pod); got != want {
				d := "non-owner-matched"
				if want {
					d = "owner-refused"
				}
				s.fail("opmode-owner", d, "operating-mode pod %s, version %d of its owner specification is %s %+v: MatchOwners(pod %s ns=%s labels=%v ctrl=%+v)=%v", uid, i, st.Mode, st.Owners, ps.uid(), ps.NS, ps.Labels, ps.Ctrl, got)
			}
			if want {
				r.Probe("opmode-owner-matched")
			}
			podRequests := resourceapi.PodRequests(pod, resourceapi.PodResourcesOptions{})
			diag := &nodeDiagnosisState{nodeName: node, taintsUnmatchedReasons: map[string]int{}}
			h.cache.ForEachMatchableReservationOnNode(node, func(x *frameworkext.ReservationInfo) (bool, *fwktype.Status) {
				offered[string(x.UID())] = true
				if checkReservationMatchedOrIgnored(pod, x, diag, s.nodes[node].Node(), podRequests, nil, nil, "", false) && !want {
					s.fail("opmode-owner", "offered-to-non-owner", "pod %s (ns=%s labels=%v ctrl=%+v) was matched to operating-mode pod %s whose current owner specification (version %d: %s %+v) it does not satisfy", ps.uid(), ps.NS, ps.Labels, ps.Ctrl, uid, i, st.Mode, st.Owners)
				}
				return true, nil
			})
		}
		if len(s.st.pods) > 0 {
			// offered at all <=> Running and Ready with a parsable owner specification
			if want := ready && spec.parseOK(); offered[uid] != want {
				s.fail("opmode-enumeration", fmt.Sprintf("offered=%v", offered[uid]), "operating-mode pod %s (version %d: %s, ready=%v, owner specification parsable=%v) offered on %s: %v", uid, i, st.Mode, ready, spec.parseOK(), node, offered[uid])
			}
		}
		if _, ok := h.cache.reservationsOnNode[node][types.UID(uid)]; !ok {
			s.fail("opmode-index", "live-reservation-not-listed", "operating-mode pod %s is placed on %s but reservationsOnNode[%s]=%v", uid, node, node, uidSet(h.cache.reservationsOnNode[node]))
		}
	}
	h.OnDelete(prev)
	if n := len(h.cache.reservationInfos) + len(h.cache.reservationsOnNode) + len(h.cache.matchableOnNode) + len(h.cache.allocatedOnNode); n != 0 {
		s.fail("opmode-index", "references-deleted-reservation", "operating-mode pod %s was deleted but the cache keeps reservationInfos=%d reservationsOnNode=%v matchableOnNode=%v", uid, len(h.cache.reservationInfos), h.cache.reservationsOnNode, h.cache.matchableOnNode)
	}
	r.Event("opmode %s %s versions=%d", uid, node, len(op.Script))
}
