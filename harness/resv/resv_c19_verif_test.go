//go:build verif

package reservation

// Engine `resv`, C19 mode ("scheduler allocation state survives a restart unchanged").
//
// The allocation history is the one of C05 (same store, informer transport, scheduler stub with the real
// Filter / NominateReservation / Reserve / PreBind path). The crash axis is ENUMERATED: after every successful
// bind of this scheduler (pod bind = PreBind wrote the reservation-allocated record, reservation bind = status
// node/phase/allocatable as SetReservationAvailable writes them), plus a seeded sample of later points and the
// end of the history, the run forks:
//
//  1. the expected post-restart state is computed from the API store only (active reservations; their bound,
//     live pods by the persisted record);
//  2. a FRESH reservationCache + both real event handlers are fed every object of the store as a start-up
//     delivery (adds of the two informers in a seeded order of the run's order class), the state is checked,
//     then duplicates / Update(obj,obj) / updates carrying the same allocation are delivered and it is checked again;
//  3. when the history carries no tag of a defect recorded for C05 and the live cache is not lagging behind the
//     store, the rebuilt ledgers are compared with the live ones restricted to bound objects;
//  4. a probe request for "what is left + 1" is put to the real fit check on every rebuilt ledger.

import (
	"fmt"
	"sort"
	"strings"

	corev1 "k8s.io/api/core/v1"
	metav1 "k8s.io/apimachinery/pkg/apis/meta/v1"
	"k8s.io/apimachinery/pkg/types"
	listercorev1 "k8s.io/client-go/listers/core/v1"
	"k8s.io/client-go/tools/cache"

	apiext "github.com/koordinator-sh/koordinator/apis/extension"
	schedulingv1alpha1 "github.com/koordinator-sh/koordinator/apis/scheduling/v1alpha1"
	listerschedulingv1alpha1 "github.com/koordinator-sh/koordinator/pkg/client/listers/scheduling/v1alpha1"
	"github.com/koordinator-sh/koordinator/pkg/scheduler/frameworkext"
	reservationutil "github.com/koordinator-sh/koordinator/pkg/util/reservation"
)

// endOfHistory ends a C19 run early (not a verdict).
type endOfHistory struct{}

// fail: the oracles of C05. In a C05 run they are verdicts. In a C19 run they are not C19's subject: the live
// cache has left the reference model (normally a history class recorded for C05), nothing more can be learnt
// from this history, so it ends here.
func (s *rSim) fail(oracle, detail, format string, args ...any) {
	if !s.c19 {
		s.r.Fail(oracle, detail, format, args...)
	}
	s.r.Probe("c19-history-ended-by-c05-oracle")
	if !s.tagged {
		s.r.Probe("c19-history-ended-by-c05-oracle-UNTAGGED:" + oracle)
	}
	panic(endOfHistory{})
}

// tag: a history class of a defect recorded for C05.
func (s *rSim) tag(name string) {
	s.tagged = true
	s.r.Tag(name)
}

// ---------------------------------------------------------------- (a) codec round trip

var oddNames = []string{
	"r", "a.b-c.d", "x--y", "0", strings.Repeat("n", 253), "with.dots.and-dashes-0123456789", "ünïcode-ß", `quote"back\slash`, "<&>", " lead", "trail ", "tab\there",
}

// c19CodecRoundTrip: Get(Set(x)) == x for the record PreBind just wrote and for a few odd values.
func (s *rSim) c19CodecRoundTrip(c *cycleCtx, ruid string, ra *apiext.ReservationAllocated, err error) {
	r := s.r
	r.OracleEval()
	wantName := ""
	if m := s.model.resvs[ruid]; m != nil {
		wantName = m.snap.Name
	}
	if err != nil || ra == nil {
		r.Fail("codec", "record-unreadable", "PreBind recorded the allocation of pod %s from %s but it reads back as %+v (err %v): %q", c.ps.uid(), ruid, ra, err, c.pod.Annotations[apiext.AnnotationReservationAllocated])
	}
	if string(ra.UID) != ruid {
		r.Fail("codec", "uid", "PreBind recorded the allocation of pod %s from reservation uid %q, it reads back as uid %q (%q)", c.ps.uid(), ruid, ra.UID, c.pod.Annotations[apiext.AnnotationReservationAllocated])
	}
	if wantName != "" && ra.Name != wantName {
		r.Fail("codec", "name", "PreBind recorded the allocation of pod %s from reservation %q, it reads back as %q", c.ps.uid(), wantName, ra.Name)
	}
	// the same through a serialised pod (what the API server stores) and for odd values
	i, j := r.Choose(len(oddNames)), r.Choose(len(oddNames))
	for _, x := range []apiext.ReservationAllocated{{Name: ra.Name, UID: ra.UID}, {Name: oddNames[i], UID: types.UID(oddNames[j])}, {Name: oddNames[j], UID: types.UID("u-" + oddNames[i])}} {
		pod := &corev1.Pod{ObjectMeta: metav1.ObjectMeta{Name: "p"}}
		apiext.SetReservationAllocated(pod, &metav1.ObjectMeta{Name: x.Name, UID: x.UID})
		got, err := apiext.GetReservationAllocated(pod.DeepCopy())
		if err != nil || got == nil || got.Name != x.Name || got.UID != x.UID {
			r.Fail("codec", "round-trip", "Get(Set(%+v)) = %+v (err %v)", x, got, err)
		}
		// writing it again is idempotent, removing it removes it
		apiext.SetReservationAllocated(pod, &metav1.ObjectMeta{Name: x.Name, UID: x.UID})
		if again, _ := apiext.GetReservationAllocated(pod); again == nil || *again != *got {
			r.Fail("codec", "set-twice", "Set twice of %+v reads back as %+v", x, again)
		}
		r.Probe("c19-codec-round-trip")
	}
}

// c19ReservationBound: the status this scheduler persists on a Reservation at bind time is the one the real
// SetReservationAvailable writes; the store object must carry exactly that.
func (s *rSim) c19ReservationBound(before, after *sResv) {
	if after.Phase != "Available" {
		s.anyBind, s.forkNow = true, "reservation-bind"
		return
	}
	o := before.obj().DeepCopy()
	if err := reservationutil.SetReservationAvailable(o, after.Node); err != nil {
		s.r.HarnessFail("SetReservationAvailable: %v", err)
	}
	want := after.obj()
	ga, _ := fromRL(o.Status.Allocatable)
	wa, _ := fromRL(want.Status.Allocatable)
	if o.Status.NodeName != want.Status.NodeName || o.Status.Phase != want.Status.Phase || !eqRL(ga, wa) {
		s.r.HarnessFail("the store's reservation status %+v differs from what SetReservationAvailable writes %+v", want.Status, o.Status)
	}
	s.r.Probe("c19-reservation-status-as-real-code-writes")
	s.anyBind, s.forkNow = true, "reservation-bind"
}

// c19AfterStep: the crash points. Every bind is one; later points are sampled.
func (s *rSim) c19AfterStep(step string) {
	if s.forkNow != "" {
		t := s.forkNow
		s.forkNow = ""
		s.fork(t)
		return
	}
	if s.anyBind && s.r.Flip(0.12) {
		s.fork("later-point")
	}
}

// ---------------------------------------------------------------- expected state, from the store only

type xResv struct {
	snap     *sResv
	assigned map[string]*sPod // bound, live pods whose persisted record names this reservation
}

func (x *xResv) allocated() rl {
	out := rl{}
	for _, d := range x.snap.dims() {
		for _, p := range x.assigned {
			out[d] += p.Req[d]
		}
		if out[d] == 0 {
			delete(out, d)
		}
	}
	return out
}

func (x *xResv) matchable() bool {
	return x.snap.available() && x.snap.parseOK() && !(x.snap.once() && len(x.assigned) > 0)
}

func (s *rSim) expectFromStore() map[string]*xResv {
	out := map[string]*xResv{}
	for _, k := range sortedKeys(s.st.resvs) {
		r := s.st.resvs[k]
		if r.active() {
			out[r.uid()] = &xResv{snap: r, assigned: map[string]*sPod{}}
		}
	}
	for _, k := range sortedKeys(s.st.pods) {
		p := s.st.pods[k]
		if p.Node == "" || p.terminated() || p.RUID == "" {
			continue
		}
		if x := out[p.RUID]; x != nil {
			x.assigned[p.uid()] = p
		}
	}
	return out
}

// ---------------------------------------------------------------- the fresh caches

type freshCaches struct {
	cache *reservationCache
	rh    *reservationEventHandler
	ph    *podEventHandler
}

func (s *rSim) newFreshCaches() *freshCaches {
	rIdx := cache.NewIndexer(cache.MetaNamespaceKeyFunc, cache.Indexers{cache.NamespaceIndex: cache.MetaNamespaceIndexFunc})
	pIdx := cache.NewIndexer(cache.MetaNamespaceKeyFunc, cache.Indexers{cache.NamespaceIndex: cache.MetaNamespaceIndexFunc})
	for _, k := range sortedKeys(s.st.resvs) {
		_ = rIdx.Add(s.st.resvs[k].obj())
	}
	for _, k := range sortedKeys(s.st.pods) {
		_ = pIdx.Add(s.st.pods[k].obj())
	}
	rLister := listerschedulingv1alpha1.NewReservationLister(rIdx)
	podLister := listercorev1.NewPodLister(pIdx)
	c := newReservationCache(rLister)
	nm := newNominator(podLister, rLister)
	return &freshCaches{cache: c, rh: &reservationEventHandler{cache: c, rrNominator: nm}, ph: &podEventHandler{cache: c, nominator: nm}}
}

// shuffle: a permutation drawn from the delivery tape; an all-zero tape gives the identity.
func (s *rSim) shuffle(xs []string) []string {
	out := append([]string(nil), xs...)
	for i := 0; i+1 < len(out); i++ {
		j := i + s.r.Choose(len(out)-i)
		out[i], out[j] = out[j], out[i]
	}
	return out
}

type fEvent struct {
	typ, key string
}

// startupOrder: every object of the store as one add; reservations and pods come from two informers that are
// started together, so within a type the order is arbitrary and the two lists interleave arbitrarily. The
// run's order class restricts the interleaving: resv-first (all reservations, then all pods), pods-first,
// interleaved (any merge).
func (s *rSim) startupOrder() []fEvent {
	rs := s.shuffle(sortedKeys(s.st.resvs))
	ps := s.shuffle(sortedKeys(s.st.pods))
	var out []fEvent
	addR := func() { out = append(out, fEvent{"resv", rs[0]}); rs = rs[1:] }
	addP := func() { out = append(out, fEvent{"pod", ps[0]}); ps = ps[1:] }
	switch s.cfg.Order {
	case "pods-first":
		for len(ps) > 0 {
			addP()
		}
		for len(rs) > 0 {
			addR()
		}
	case "interleaved":
		for len(rs) > 0 || len(ps) > 0 {
			switch {
			case len(rs) == 0:
				addP()
			case len(ps) == 0:
				addR()
			case s.r.Choose(2) == 0:
				addR()
			default:
				addP()
			}
		}
	default:
		for len(rs) > 0 {
			addR()
		}
		for len(ps) > 0 {
			addP()
		}
	}
	return out
}

func (s *rSim) orderClass() string {
	if s.cfg.Order == "" {
		return "resv-first"
	}
	return s.cfg.Order
}

// sameAllocation: a later version of the object that carries the same allocation (something unrelated changed).
func sameAllocationPod(p *sPod) *corev1.Pod {
	o := p.obj().DeepCopy()
	o.ResourceVersion += "1"
	o.Annotations["verif/touched"] = "1"
	return o
}

func sameAllocationResv(r *sResv) *schedulingv1alpha1.Reservation {
	o := r.obj().DeepCopy()
	o.ResourceVersion += "1"
	o.Annotations["verif/touched"] = "1"
	return o
}

// ---------------------------------------------------------------- the fork

func (s *rSim) fork(trigger string) {
	r := s.r
	r.OracleEval()
	s.forks++
	r.Probe("c19-fork")
	r.Probe("c19-fork-at:" + trigger)
	r.Probe("c19-order:" + s.orderClass())
	exp := s.expectFromStore()
	nb := 0
	for _, x := range exp {
		nb += len(x.assigned)
	}
	if nb > 0 {
		r.Probe("c19-fork-with-bound-assigned-pods")
	}
	f := s.newFreshCaches()
	r.Event("fork %s order=%s", trigger, s.orderClass())

	// start-up delivery
	seen := map[string]bool{}
	for _, ev := range s.startupOrder() {
		switch ev.typ {
		case "resv":
			rs := s.st.resvs[ev.key]
			seen[rs.uid()] = true
			f.rh.OnAdd(rs.obj(), true)
			r.Event("fork add resv %s", rs.uid())
		case "pod":
			p := s.st.pods[ev.key]
			if x := exp[p.RUID]; x != nil && x.assigned[p.uid()] != nil && !seen[p.RUID] {
				// history class of the C19 finding "startup-pod-add-before-its-reservation": the start-up delivery
				// hands the pod handler a bound pod that carries a reservation-allocated record before the
				// reservation handler has been handed that (active) reservation
				r.Probe("c19-pod-add-before-its-reservation")
				r.Tag("startup-pod-add-before-its-reservation")
			}
			f.ph.OnAdd(p.obj(), true)
			r.Event("fork add pod %s", p.uid())
		}
	}
	s.checkRebuilt(f, exp, "initial-list")
	r.Event("fork state %s", digestOf(f.cache))

	// after the initial list: duplicates, resyncs, updates carrying the same allocation
	if n := r.Choose(4); n > 0 {
		rk, pk := sortedKeys(s.st.resvs), sortedKeys(s.st.pods)
		for i := 0; i < n; i++ {
			kind := r.Choose(3)
			if len(pk) > 0 && (len(rk) == 0 || r.Choose(3) > 0) {
				p := s.st.pods[pk[r.Choose(len(pk))]]
				switch kind {
				case 0:
					f.ph.OnAdd(p.obj(), false)
					r.Probe("c19-extra-duplicate-add")
				case 1:
					f.ph.OnUpdate(p.obj(), p.obj())
					r.Probe("c19-extra-resync-update")
				default:
					f.ph.OnUpdate(p.obj(), sameAllocationPod(p))
					r.Probe("c19-extra-same-allocation-update")
				}
				r.Event("fork extra pod %d %s", kind, p.uid())
			} else if len(rk) > 0 {
				rs := s.st.resvs[rk[r.Choose(len(rk))]]
				switch kind {
				case 0:
					f.rh.OnAdd(rs.obj(), false)
					r.Probe("c19-extra-duplicate-add")
				case 1:
					f.rh.OnUpdate(rs.obj(), rs.obj())
					r.Probe("c19-extra-resync-update")
				default:
					f.rh.OnUpdate(rs.obj(), sameAllocationResv(rs))
					r.Probe("c19-extra-same-allocation-update")
				}
				r.Event("fork extra resv %d %s", kind, rs.uid())
			}
		}
		s.checkRebuilt(f, exp, "after-repeats")
		r.Event("fork state2 %s", digestOf(f.cache))
	}

	s.compareWithLive(f, exp)
	s.probeAllocations(f, exp)
}

func digestOf(c *reservationCache) string {
	var sb strings.Builder
	var us []string
	for u := range c.reservationInfos {
		us = append(us, string(u))
	}
	sort.Strings(us)
	for _, u := range us {
		ri := c.reservationInfos[types.UID(u)]
		a, _ := fromRL(ri.Allocated)
		var ps []string
		for p := range ri.AssignedPods {
			ps = append(ps, string(p))
		}
		sort.Strings(ps)
		fmt.Fprintf(&sb, "%s@%s m=%v %v %s;", u, ri.GetNodeName(), ri.IsMatchable(), ps, fmtRL(a))
	}
	return sb.String()
}

func assignedUIDs(ri *frameworkext.ReservationInfo) []string {
	var out []string
	for pu := range ri.AssignedPods {
		out = append(out, string(pu))
	}
	sort.Strings(out)
	return out
}

func dimsOf(ri *frameworkext.ReservationInfo) []string {
	var out []string
	for _, n := range ri.ResourceNames {
		out = append(out, string(n))
	}
	sort.Strings(out)
	return out
}

// checkRebuilt: (b)/(c) the rebuilt caches against the state the store implies.
func (s *rSim) checkRebuilt(f *freshCaches, exp map[string]*xResv, phase string) {
	r := s.r
	c := f.cache
	oc := phase + "/order=" + s.orderClass()
	var gotU []string
	for u := range c.reservationInfos {
		gotU = append(gotU, string(u))
	}
	sort.Strings(gotU)
	if extra, missing := diffSets(gotU, sortedKeys(exp)); len(extra)+len(missing) > 0 {
		d := "extra"
		if len(missing) > 0 {
			d = "missing"
		}
		r.Fail("rebuilt-reservations", d+"/"+oc, "after a restart (%s) the reservation cache holds %v, the active reservations of the store are %v", phase, gotU, sortedKeys(exp))
	}
	wantOn, wantMatch, wantAlloc := map[string][]string{}, map[string][]string{}, map[string][]string{}
	for _, u := range gotU {
		ri, x := c.reservationInfos[types.UID(u)], exp[u]
		gotP := assignedUIDs(ri)
		if extra, missing := diffSets(gotP, sortedKeys(x.assigned)); len(extra)+len(missing) > 0 {
			d := "extra"
			if len(missing) > 0 {
				d = "bound-pod-lost" // what the pod took before the restart is considered free after it
			}
			r.Fail("rebuilt-assigned-pods", d+"/"+oc, "after a restart (%s) reservation %s has AssignedPods=%v; the bound live pods whose persisted record names it are %v", phase, u, gotP, sortedKeys(x.assigned))
		}
		if got, want := dimsOf(ri), x.snap.dims(); strings.Join(got, ",") != strings.Join(want, ",") {
			r.Fail("rebuilt-reserved-dims", oc, "after a restart (%s) reservation %s ResourceNames=%v, its reserved dimensions are %v", phase, u, got, want)
		}
		gotA, exact := fromRL(ri.Allocated)
		wantA := x.allocated()
		if !exact || !eqRL(gotA, wantA) {
			d := "differs"
			under, over := false, false
			for _, dim := range x.snap.dims() {
				if gotA[dim] < wantA[dim] {
					under = true
				}
				if gotA[dim] > wantA[dim] {
					over = true
				}
			}
			if under && !over {
				d = "under" // taken before the restart, free after it
			} else if over && !under {
				d = "over"
			}
			r.Fail("rebuilt-allocated", d+"/"+oc, "after a restart (%s) reservation %s Allocated=%s, the bound pods %v assigned to it request %s in its reserved dimensions %v", phase, u, fmtRL(gotA), sortedKeys(x.assigned), fmtRL(wantA), x.snap.dims())
		}
		if gotAl, _ := fromRL(ri.Allocatable); !eqRL(gotAl, x.snap.Alloc) {
			r.Fail("rebuilt-allocatable", oc, "after a restart (%s) reservation %s Allocatable=%s, the object reserves %s", phase, u, fmtRL(gotAl), fmtRL(x.snap.Alloc))
		}
		gotR, _ := fromRL(ri.Reserved)
		for _, d := range x.snap.dims() {
			if gotR[d] != x.snap.Inner[d] {
				r.Fail("rebuilt-inner-reserved", oc, "after a restart (%s) reservation %s Reserved=%s, the object declares %s", phase, u, fmtRL(gotR), fmtRL(x.snap.Inner))
			}
		}
		if ri.GetNodeName() != x.snap.Node {
			r.Fail("rebuilt-node", oc, "after a restart (%s) reservation %s is on %q, the object says %q", phase, u, ri.GetNodeName(), x.snap.Node)
		}
		if x.snap.once() && len(x.assigned) > 0 && ri.IsMatchable() {
			r.Fail("allocate-once", "matchable-after-restart/"+oc, "after a restart (%s) allocate-once reservation %s, which serves the bound pods %v, is matchable again", phase, u, sortedKeys(x.assigned))
		}
		if ri.IsMatchable() != x.matchable() {
			r.Fail("rebuilt-matchable", fmt.Sprintf("%v/%s", ri.IsMatchable(), oc), "after a restart (%s) reservation %s IsMatchable=%v, expected %v (phase %s, once=%v, bound pods %v)", phase, u, ri.IsMatchable(), x.matchable(), x.snap.Phase, x.snap.once(), sortedKeys(x.assigned))
		}
		n := x.snap.Node
		wantOn[n] = append(wantOn[n], u)
		in := x.matchable()
		if x.snap.available() && x.snap.parseOK() && x.snap.once() {
			// as in C05: when a busy allocate-once reservation leaves the matchable index between two reservation
			// events is not constrained; the ledger-level IsMatchable above is
			_, in = c.matchableOnNode[n][types.UID(u)]
		}
		if in {
			wantMatch[n] = append(wantMatch[n], u)
		}
		if x.matchable() && len(x.assigned) > 0 {
			wantAlloc[n] = append(wantAlloc[n], u)
		}
	}
	s.checkRebuiltIndex(oc, phase, "reservationsOnNode", c.reservationsOnNode, wantOn)
	s.checkRebuiltIndex(oc, phase, "matchableOnNode", c.matchableOnNode, wantMatch)
	s.checkRebuiltIndex(oc, phase, "allocatedOnNode", c.allocatedOnNode, wantAlloc)
	r.Probe("c19-rebuilt-checked:" + phase)
}

func (s *rSim) checkRebuiltIndex(oc, phase, name string, got map[string]map[types.UID]struct{}, want map[string][]string) {
	nodes := map[string]bool{}
	for n := range got {
		nodes[n] = true
	}
	for n := range want {
		nodes[n] = true
	}
	for _, n := range sortedKeys(nodes) {
		g := uidSet(got[n])
		extra, missing := diffSets(g, want[n])
		if len(extra)+len(missing) == 0 {
			continue
		}
		d := "missing"
		if len(extra) > 0 {
			d = "extra"
		}
		s.r.Fail("rebuilt-index-"+name, d+"/"+oc, "after a restart (%s) %s[%s]=%v, expected %v", phase, name, n, g, want[n])
	}
}

// liveLag reports why the live cache cannot be compared with the store ("" = it can): a listener still has
// events to handle (other than the echo of a bind of this scheduler) or a watch is broken.
func (s *rSim) liveLag() string {
	if !s.resvStream.caughtUp() {
		return "reservation-events-pending"
	}
	if s.podStream.gap {
		return "pod-watch-gap"
	}
	for i := s.podStream.cur["pod"]; i < len(s.podStream.q); i++ {
		if !s.podStream.q[i].echo {
			return "pod-events-pending"
		}
	}
	return ""
}

// compareWithLive: (b) the rebuilt ledgers equal the live ones restricted to bound objects. Only for histories
// that carry no tag of a defect recorded for C05 (their live cache is known to be wrong; the comparison with
// the state implied by the store above is what counts then) and only when the live cache is not behind the store.
func (s *rSim) compareWithLive(f *freshCaches, exp map[string]*xResv) {
	r := s.r
	if s.tagged {
		r.Probe("c19-compared-with-model-only:history-tagged-for-C05")
		return
	}
	if why := s.liveLag(); why != "" {
		r.Probe("c19-compared-with-model-only:live-" + why)
		return
	}
	oc := "order=" + s.orderClass()
	// pods that are only assumed (their bind has not happened): they legitimately vanish
	assumedOnly := map[string]map[string]bool{}
	for _, b := range s.binds {
		if b.kind == "pod" {
			if assumedOnly[b.ruid] == nil {
				assumedOnly[b.ruid] = map[string]bool{}
			}
			assumedOnly[b.ruid][b.c.ps.uid()] = true
			r.Probe("c19-live-has-assumed-only-pod")
		}
	}
	for _, u := range sortedKeys(exp) {
		lri := s.cache.reservationInfos[types.UID(u)]
		fri := f.cache.reservationInfos[types.UID(u)]
		if lri == nil {
			r.Fail("live-vs-rebuilt", "reservation-only-rebuilt/"+oc, "reservation %s is active in the store and every listener has caught up, but the live cache does not hold it (the rebuilt one does)", u)
		}
		if fri == nil {
			continue // reported by checkRebuilt
		}
		var liveP []string
		liveA, _ := fromRL(lri.Allocated)
		for _, pu := range assignedUIDs(lri) {
			if assumedOnly[u][pu] {
				q, _ := fromRL(lri.AssignedPods[types.UID(pu)].Requests)
				for _, d := range dimsOf(lri) {
					liveA[d] -= q[d]
					if liveA[d] == 0 {
						delete(liveA, d)
					}
				}
				continue
			}
			liveP = append(liveP, pu)
		}
		if extra, missing := diffSets(assignedUIDs(fri), liveP); len(extra)+len(missing) > 0 {
			r.Fail("live-vs-rebuilt", "assigned-pods/"+oc, "reservation %s: live AssignedPods restricted to bound pods = %v, rebuilt = %v", u, liveP, assignedUIDs(fri))
		}
		fa, _ := fromRL(fri.Allocated)
		if !eqRL(fa, liveA) {
			r.Fail("live-vs-rebuilt", "allocated/"+oc, "reservation %s: live Allocated restricted to bound pods = %s, rebuilt = %s", u, fmtRL(liveA), fmtRL(fa))
		}
		la, _ := fromRL(lri.Allocatable)
		fal, _ := fromRL(fri.Allocatable)
		if !eqRL(la, fal) || strings.Join(dimsOf(lri), ",") != strings.Join(dimsOf(fri), ",") {
			r.Fail("live-vs-rebuilt", "allocatable/"+oc, "reservation %s: live Allocatable=%s dims=%v, rebuilt Allocatable=%s dims=%v", u, fmtRL(la), dimsOf(lri), fmtRL(fal), dimsOf(fri))
		}
		lr, _ := fromRL(lri.Reserved)
		fr, _ := fromRL(fri.Reserved)
		for _, d := range dimsOf(fri) {
			if lr[d] != fr[d] {
				r.Fail("live-vs-rebuilt", "inner-reserved/"+oc, "reservation %s: live Reserved=%s, rebuilt %s (reserved dimensions %v)", u, fmtRL(lr), fmtRL(fr), dimsOf(fri))
			}
		}
		if !eqRL(lr, fr) {
			// NewReservationInfo keeps the inner-reserved annotation as is, UpdateReservation masks it to the reserved
			// dimensions: outside the reserved dimensions (where nothing is allocated and the fit check does not look)
			// the value depends on whether the entry has seen an update. Counted, not a C19 verdict (C05 looks at the
			// reserved dimensions only, too).
			r.Probe("c19-inner-reserved-differs-outside-reserved-dimensions")
		}
		if lri.GetNodeName() != fri.GetNodeName() {
			r.Fail("live-vs-rebuilt", "node/"+oc, "reservation %s: live on %q, rebuilt on %q", u, lri.GetNodeName(), fri.GetNodeName())
		}
		if len(assumedOnly[u]) == 0 && lri.IsMatchable() != fri.IsMatchable() {
			r.Fail("live-vs-rebuilt", "matchable/"+oc, "reservation %s: live IsMatchable=%v, rebuilt %v", u, lri.IsMatchable(), fri.IsMatchable())
		}
		_, lin := s.cache.reservationsOnNode[lri.GetNodeName()][types.UID(u)]
		_, fin := f.cache.reservationsOnNode[fri.GetNodeName()][types.UID(u)]
		if lin != fin {
			r.Fail("live-vs-rebuilt", "reservationsOnNode/"+oc, "reservation %s: listed on its node live=%v rebuilt=%v", u, lin, fin)
		}
	}
	// entries the live cache holds beyond the active reservations of the store: reservations this scheduler has
	// only assumed, and terminated ones no handler removes (not allocation state) - counted, not compared
	for u := range s.cache.reservationInfos {
		if exp[string(u)] == nil {
			r.Probe("c19-live-entry-without-active-store-object")
		}
	}
	r.Probe("c19-compared-with-live")
}

// probeAllocations: (c) nothing taken before the restart is offered after it. On every rebuilt ledger the
// real fit check is asked for what the bound pods left over plus one unit: it must refuse.
func (s *rSim) probeAllocations(f *freshCaches, exp map[string]*xResv) {
	r := s.r
	oc := "order=" + s.orderClass()
	for _, u := range sortedKeys(exp) {
		x := exp[u]
		ri := f.cache.reservationInfos[types.UID(u)]
		if ri == nil {
			continue
		}
		used := x.allocated()
		podsFull := false
		if mp, ok := x.snap.Alloc["pods"]; ok && int64(len(x.assigned))+1 > mp {
			podsFull = true
		}
		for _, d := range x.snap.dims() {
			if d == "pods" {
				continue
			}
			left := x.snap.Alloc[d] - x.snap.Inner[d] - used[d]
			if left < 0 {
				r.Probe("c19-bound-pods-exceed-reservation")
				continue
			}
			if reasons := fitsReservation(toRL(rl{d: left + 1}), ri.Clone(), nil, false, nil, nil); len(reasons) == 0 {
				r.Fail("probe-allocation", "taken-amount-offered-again/"+oc, "after a restart reservation %s (reserves %s, inner %s) accepts a request of %d %s although its bound pods %v hold %d: only %d are left", u, fmtRL(x.snap.Alloc), fmtRL(x.snap.Inner), left+1, d, sortedKeys(x.assigned), used[d], left)
			}
			if left > 0 && !podsFull {
				if reasons := fitsReservation(toRL(rl{d: left}), ri.Clone(), nil, false, nil, nil); len(reasons) > 0 {
					r.Fail("probe-allocation", "free-amount-refused/"+oc, "after a restart reservation %s refuses a request of %d %s although exactly that is left: %v", u, left, d, reasons)
				}
			}
			r.Probe("c19-probe-allocation")
		}
	}
}
