//go:build verif

package reservation

// Engine `resv` (C05), part 2: the reference model and the oracles. Everything here is written from the
// property statement and the API documentation: sums over the assigned pods, the reserved-dimension mask,
// the per-node sets, the owner semantics (fields ANDed, owners ORed), the restricted-fit inequality.

import (
	"fmt"
	"sort"
	"strings"

	"k8s.io/apimachinery/pkg/types"
	fwktype "k8s.io/kube-scheduler/framework"

	"github.com/koordinator-sh/koordinator/pkg/scheduler/frameworkext"
)

type mAssigned struct {
	uid, name string
	req       rl
}

type mResv struct {
	snap     *sResv
	node     string // where the entry was placed (a status update never un-places an entry; only deletion removes it)
	assigned map[string]*mAssigned
}

type rModel struct {
	resvs map[string]*mResv // expected content of reservationCache.reservationInfos, by uid
}

func newRModel() *rModel { return &rModel{resvs: map[string]*mResv{}} }

func hasStr(xs []string, x string) bool {
	for _, v := range xs {
		if v == x {
			return true
		}
	}
	return false
}

// dimsGrow reports whether the new object reserves a dimension the old one did not, in which an assigned
// pod requests something (the history class of finding "dims-grew-while-assigned").
func (m *mResv) dimsGrow(n *sResv) bool {
	od, nd := m.snap.dims(), n.dims()
	for _, d := range nd {
		if hasStr(od, d) {
			continue
		}
		for _, a := range m.assigned {
			if a.req[d] > 0 {
				return true
			}
		}
	}
	return false
}

func (md *rModel) upsert(n *sResv) (grew bool) {
	m := md.resvs[n.uid()]
	if m == nil {
		md.resvs[n.uid()] = &mResv{snap: n, node: n.Node, assigned: map[string]*mAssigned{}}
		return false
	}
	grew = m.dimsGrow(n)
	m.snap = n
	if n.Node != "" {
		m.node = n.Node
	}
	return grew
}

func (md *rModel) updateIfExists(n *sResv) (grew bool) {
	if md.resvs[n.uid()] == nil {
		return false
	}
	return md.upsert(n)
}

func (md *rModel) assign(uid string, p *sPod, refresh bool) {
	m := md.resvs[uid]
	if m == nil {
		return
	}
	if a := m.assigned[p.uid()]; a != nil && !refresh {
		return
	}
	m.assigned[p.uid()] = &mAssigned{uid: p.uid(), name: p.Name, req: cpRL(p.Req)}
}

func (md *rModel) unassign(uid, podUID string) {
	if m := md.resvs[uid]; m != nil {
		delete(m.assigned, podUID)
	}
}

// podEvent: what a pod add/update means for the ledger. A terminated or deleted pod is assigned to nothing;
// a pod that is bound and carries the reservation-allocated record of a known reservation is assigned to it
// with its current requests.
func (md *rModel) podEvent(old, nw *sPod) {
	if nw.terminated() {
		md.podGone(nw)
		return
	}
	if nw.Node == "" {
		if old != nil && old.Node != "" {
			md.podGone(old)
		}
		return
	}
	if old != nil && old.RUID != "" {
		md.unassign(old.RUID, old.uid())
	}
	if nw.RUID != "" {
		md.assign(nw.RUID, nw, true)
	}
}

func (md *rModel) podGone(p *sPod) {
	if p.RUID != "" {
		md.unassign(p.RUID, p.uid())
	}
}

func (m *mResv) matchable() bool {
	return m.snap.available() && m.snap.parseOK() && !(m.snap.once() && len(m.assigned) > 0)
}

// expectedAllocated = sum of requests(assigned pods) masked to the reservation's CURRENT reserved dimensions.
func (m *mResv) expectedAllocated() rl {
	out := rl{}
	for _, d := range m.snap.dims() {
		for _, a := range m.assigned {
			out[d] += a.req[d]
		}
		if out[d] == 0 {
			delete(out, d)
		}
	}
	return out
}

// modelFit: the restricted-fit inequality. For every reserved dimension the pod requests:
// max(0, sum - preemptible) + request <= reserved - innerReserved; and when "pods" is reserved,
// (#assigned - preemptible pods) + 1 <= reserved pods.
func (m *mResv) modelFit(req, pre rl) bool {
	if mp, ok := m.snap.Alloc["pods"]; ok {
		if int64(len(m.assigned))-pre["pods"]+1 > mp {
			return false
		}
	}
	sum := m.expectedAllocated()
	for _, d := range m.snap.dims() {
		if req[d] <= 0 {
			continue
		}
		used := sum[d]
		if used > 0 {
			used -= pre[d]
		}
		if used < 0 {
			used = 0
		}
		if used+req[d] > m.snap.Alloc[d]-m.snap.Inner[d] {
			return false
		}
	}
	return true
}

// ---------------------------------------------------------------- independent owner matcher

func exprMatch(e exprSpec, labels map[string]string) bool {
	v, has := labels[e.Key]
	switch e.Op {
	case "In":
		return has && hasStr(e.Vals, v)
	case "NotIn":
		return !has || !hasStr(e.Vals, v)
	case "Exists":
		return has
	case "DoesNotExist":
		return !has
	}
	return false
}

func ownerMatch(o ownerSpec, p *sPod) bool {
	if o.HasObj {
		if o.ObjName != "" && o.ObjName != p.Name {
			return false
		}
		if o.ObjNS != "" && o.ObjNS != p.NS {
			return false
		}
		if o.ObjUID != "" && o.ObjUID != p.uid() {
			return false
		}
	}
	if o.HasCtrl {
		if o.CtrlNS != "" && o.CtrlNS != p.NS {
			return false
		}
		c := p.Ctrl
		if c == nil {
			return false
		}
		if o.CtrlKind != "" && o.CtrlKind != c.Kind {
			return false
		}
		if o.CtrlName != "" && o.CtrlName != c.Name {
			return false
		}
		if o.CtrlUID != "" && o.CtrlUID != c.UID {
			return false
		}
		if o.CtrlFlag != nil && (c.Flag == nil || *c.Flag != *o.CtrlFlag) {
			return false
		}
	}
	if o.HasSel {
		for k, v := range o.Labels {
			if p.Labels[k] != v {
				return false
			}
		}
		for _, e := range o.Exprs {
			if !exprMatch(e, p.Labels) {
				return false
			}
		}
	}
	return true
}

// ownersMatch: a reservation whose owner specification cannot be parsed serves nobody.
func ownersMatch(r *sResv, p *sPod) bool {
	if !r.parseOK() {
		return false
	}
	for _, o := range r.Owners {
		if ownerMatch(o, p) {
			return true
		}
	}
	return false
}

// ---------------------------------------------------------------- oracles evaluated after every call

func uidSet(m map[types.UID]struct{}) []string {
	out := make([]string, 0, len(m))
	for k := range m {
		out = append(out, string(k))
	}
	sort.Strings(out)
	return out
}

func sortedKeys[V any](m map[string]V) []string {
	out := make([]string, 0, len(m))
	for k := range m {
		out = append(out, k)
	}
	sort.Strings(out)
	return out
}

func diffSets(got, want []string) (extra, missing []string) {
	g, w := map[string]bool{}, map[string]bool{}
	for _, x := range got {
		g[x] = true
	}
	for _, x := range want {
		w[x] = true
	}
	for _, x := range got {
		if !w[x] {
			extra = append(extra, x)
		}
	}
	for _, x := range want {
		if !g[x] {
			missing = append(missing, x)
		}
	}
	return
}

func (s *rSim) checkAll(after string) {
	r := s.r
	if !s.c19 {
		r.OracleEval()
	}
	c := s.cache
	md := s.model

	// 1. primary map = model
	var gotU []string
	for u := range c.reservationInfos {
		gotU = append(gotU, string(u))
	}
	sort.Strings(gotU)
	if extra, missing := diffSets(gotU, sortedKeys(md.resvs)); len(extra)+len(missing) > 0 {
		s.fail("primary", "reservationInfos", "after %s: reservationInfos holds %v, expected %v (extra %v missing %v)", after, gotU, sortedKeys(md.resvs), extra, missing)
	}

	// 2. ledger of every reservation
	for _, u := range gotU {
		ri := c.reservationInfos[types.UID(u)]
		m := md.resvs[u]
		if ri == nil {
			s.fail("primary", "nil-info", "after %s: reservationInfos[%s] is nil", after, u)
		}
		var gotP []string
		for pu := range ri.AssignedPods {
			gotP = append(gotP, string(pu))
		}
		sort.Strings(gotP)
		if extra, missing := diffSets(gotP, sortedKeys(m.assigned)); len(extra)+len(missing) > 0 {
			d := "extra"
			if len(missing) > 0 {
				d = "missing"
			}
			s.fail("assigned-pods", d, "after %s: reservation %s AssignedPods=%v, the pods assigned to it are %v", after, u, gotP, sortedKeys(m.assigned))
		}
		wantDims := m.snap.dims()
		var gotDims []string
		for _, n := range ri.ResourceNames {
			gotDims = append(gotDims, string(n))
		}
		sort.Strings(gotDims)
		if strings.Join(gotDims, ",") != strings.Join(wantDims, ",") {
			s.fail("reserved-dims", "", "after %s: reservation %s ResourceNames=%v, its reserved dimensions are %v", after, u, gotDims, wantDims)
		}
		gotA, exact := fromRL(ri.Allocated)
		wantA := m.expectedAllocated()
		if !exact || !eqRL(gotA, wantA) {
			// classify: is the ledger at least the sum of what it stored per pod?
			stored := rl{}
			for _, pr := range ri.AssignedPods {
				q, _ := fromRL(pr.Requests)
				for _, d := range wantDims {
					stored[d] += q[d]
				}
			}
			for d, v := range stored {
				if v == 0 {
					delete(stored, d)
				}
			}
			detail := "sum"
			if eqRL(gotA, stored) {
				detail = "stale-pod-requests"
			}
			s.fail("allocated", detail, "after %s: reservation %s Allocated=%s but the assigned pods %v request %s in its reserved dimensions %v", after, u, fmtRL(gotA), sortedKeys(m.assigned), fmtRL(wantA), wantDims)
		}
		gotAl, _ := fromRL(ri.Allocatable)
		if !eqRL(gotAl, m.snap.Alloc) {
			s.fail("allocatable", "", "after %s: reservation %s Allocatable=%s, the object reserves %s", after, u, fmtRL(gotAl), fmtRL(m.snap.Alloc))
		}
		gotR, _ := fromRL(ri.Reserved)
		for _, d := range wantDims {
			if gotR[d] != m.snap.Inner[d] {
				s.fail("inner-reserved", "", "after %s: reservation %s Reserved=%s, the object declares %s", after, u, fmtRL(gotR), fmtRL(m.snap.Inner))
			}
		}
	}

	// 3. per-node indexes
	// matchableOnNode: the statement constrains what may be nominated, not how early an allocate-once
	// reservation leaves (or re-enters) the matchable index when pods come and go between two reservation
	// events; for an Available allocate-once reservation the membership is therefore taken as found (counted
	// by probes) and the allocate-once rule is checked where a reservation is nominated and assumed.
	wantOn, wantMatch, wantAlloc := map[string][]string{}, map[string][]string{}, map[string][]string{}
	for _, u := range sortedKeys(md.resvs) {
		m := md.resvs[u]
		if m.node == "" {
			continue
		}
		wantOn[m.node] = append(wantOn[m.node], u)
		strict := m.matchable()
		in := strict
		if m.snap.available() && m.snap.parseOK() && m.snap.once() {
			_, in = c.matchableOnNode[m.node][types.UID(u)]
			if in && !strict {
				r.Probe("allocate-once-busy-still-in-matchable-index")
			}
			if !in && strict {
				r.Probe("allocate-once-free-not-in-matchable-index")
			}
		}
		if in {
			wantMatch[m.node] = append(wantMatch[m.node], u)
		}
		if strict && len(m.assigned) > 0 {
			wantAlloc[m.node] = append(wantAlloc[m.node], u)
		}
	}
	s.checkIndex(after, "reservationsOnNode", c.reservationsOnNode, wantOn)
	s.checkIndex(after, "matchableOnNode", c.matchableOnNode, wantMatch)
	s.checkIndex(after, "allocatedOnNode", c.allocatedOnNode, wantAlloc)

	// 4. the two read APIs
	for _, mode := range []bool{true, false} {
		got := append([]string(nil), c.ListAllNodes(mode)...)
		sort.Strings(got)
		want := sortedKeys(wantAlloc)
		if mode {
			want = sortedKeys(wantMatch)
		}
		if strings.Join(got, ",") != strings.Join(want, ",") {
			s.fail("list-all-nodes", fmt.Sprintf("matchable=%v", mode), "after %s: ListAllNodes(%v)=%v, expected %v", after, mode, got, want)
		}
	}
	for i := 0; i < s.cfg.Nodes; i++ {
		n := nodeName(i)
		var got []string
		c.ForEachMatchableReservationOnNode(n, func(ri *frameworkext.ReservationInfo) (bool, *fwktype.Status) {
			if ri == nil {
				got = append(got, "<nil>")
			} else {
				got = append(got, string(ri.UID()))
			}
			return true, nil
		})
		sort.Strings(got)
		if strings.Join(got, ",") != strings.Join(wantMatch[n], ",") {
			s.fail("enumeration", "", "after %s: ForEachMatchableReservationOnNode(%s) offers %v, the matchable reservations there are %v", after, n, got, wantMatch[n])
		}
	}
}

func (s *rSim) checkIndex(after, name string, got map[string]map[types.UID]struct{}, want map[string][]string) {
	nodes := map[string]bool{}
	for n := range got {
		nodes[n] = true
	}
	for n := range want {
		nodes[n] = true
	}
	for _, n := range sortedKeys(nodes) {
		g := uidSet(got[n])
		extra, missing := diffSets(g, want[n])
		if len(extra) == 0 && len(missing) == 0 {
			if g2, ok := got[n]; ok && len(g2) == 0 && name != "allocatedOnNode" {
				// an empty inner map is harmless
				s.r.Probe("index-empty-inner-map")
			}
			continue
		}
		detail := "missing"
		if len(extra) > 0 {
			detail = "extra"
			for _, u := range extra {
				if s.cache.reservationInfos[types.UID(u)] == nil {
					detail = "uid-outside-reservationInfos"
				}
			}
		}
		s.fail("index-"+name, detail, "after %s: %s[%s]=%v, expected %v (extra %v missing %v)", after, name, n, g, want[n], extra, missing)
	}
}

// checkQuiescent compares the cache with the API truth when every listener has caught up and nothing is in flight.
func (s *rSim) checkQuiescent() {
	r := s.r
	if !s.c19 {
		r.OracleEval()
	}
	r.Probe("quiescent-check")
	byUID := map[string]*sResv{}
	for _, k := range sortedKeys(s.resvStream.idx) {
		sn := s.resvStream.idx[k].snap.(*sResv)
		byUID[sn.uid()] = sn
	}
	c := s.cache
	// no index references a reservation that no longer exists
	for name, idx := range map[string]map[string]map[types.UID]struct{}{"reservationsOnNode": c.reservationsOnNode, "matchableOnNode": c.matchableOnNode, "allocatedOnNode": c.allocatedOnNode} {
		for _, n := range sortedKeys(idx) {
			for _, u := range uidSet(idx[n]) {
				if byUID[u] == nil {
					s.fail("quiescent-index", "references-deleted-reservation", "%s[%s] references %s which no longer exists (every listener has caught up)", name, n, u)
				}
			}
		}
	}
	var infoU []string
	for u := range c.reservationInfos {
		infoU = append(infoU, string(u))
	}
	sort.Strings(infoU)
	for _, u := range infoU {
		if byUID[u] == nil {
			s.fail("quiescent-primary", "deleted-reservation-kept", "reservationInfos keeps %s which no longer exists (every listener has caught up)", u)
		}
	}
	// every live reservation placed on a node is listed there
	for _, u := range sortedKeys(byUID) {
		sn := byUID[u]
		if !sn.active() {
			continue
		}
		if _, ok := c.reservationsOnNode[sn.Node][types.UID(u)]; !ok {
			s.fail("quiescent-index", "live-reservation-not-listed", "reservation %s is %s on %s but reservationsOnNode[%s]=%v", u, sn.Phase, sn.Node, sn.Node, uidSet(c.reservationsOnNode[sn.Node]))
		}
		if ri := c.reservationInfos[types.UID(u)]; ri != nil {
			// the pods assigned to it, per the API
			var want []string
			for _, k := range sortedKeys(s.podStream.idx) {
				p := s.podStream.idx[k].snap.(*sPod)
				if p.Node != "" && !p.terminated() && p.RUID == u {
					want = append(want, p.uid())
				}
			}
			sort.Strings(want)
			var got []string
			for pu := range ri.AssignedPods {
				got = append(got, string(pu))
			}
			sort.Strings(got)
			if extra, missing := diffSets(got, want); len(extra)+len(missing) > 0 {
				d := "extra"
				if len(missing) > 0 {
					d = "missing"
				}
				s.fail("quiescent-assigned", d, "reservation %s AssignedPods=%v, the bound live pods recorded as allocated from it are %v", u, got, want)
			}
		}
	}
}
