//go:build verif

package reservation

// Engine `resv` (C05), part 1: plan types, the simulated API store, object builders, generation.
// The real reservationCache, both event handlers, ReservationInfo and the real
// filter / nominate / reserve / pre-bind / unreserve path of the plugin run against simulated
// informer streams; see /verif/DESIGN.md §4 C05 and harness/resv/engine.json.

import (
	"encoding/json"
	"fmt"
	"io"
	"sort"
	"strings"
	"testing"
	"time"

	corev1 "k8s.io/api/core/v1"
	"k8s.io/apimachinery/pkg/api/resource"
	metav1 "k8s.io/apimachinery/pkg/apis/meta/v1"
	"k8s.io/apimachinery/pkg/types"
	"k8s.io/klog/v2"

	apiext "github.com/koordinator-sh/koordinator/apis/extension"
	schedulingv1alpha1 "github.com/koordinator-sh/koordinator/apis/scheduling/v1alpha1"
	sim "github.com/koordinator-sh/koordinator/pkg/verifsim"
)

func TestVerifSim(t *testing.T) {
	klog.LogToStderr(false)
	klog.SetOutput(io.Discard)
	sim.Main(t, &resvEngine{})
}

type resvEngine struct{}

func (resvEngine) Name() string { return "resv" }

// ---------------------------------------------------------------- plan types

type rl map[string]int64 // cpu in milli-cores, everything else in units

type exprSpec struct {
	Key  string   `json:"k"`
	Op   string   `json:"op"`
	Vals []string `json:"v,omitempty"`
}

// ownerSpec is one entry of reservation.spec.owners (fields inside one owner are ANDed, owners are ORed).
type ownerSpec struct {
	HasObj  bool   `json:"obj,omitempty"`
	ObjName string `json:"on,omitempty"`
	ObjNS   string `json:"ons,omitempty"`
	ObjUID  string `json:"ouid,omitempty"`

	HasCtrl  bool   `json:"ctrl,omitempty"`
	CtrlKind string `json:"ck,omitempty"`
	CtrlName string `json:"cn,omitempty"`
	CtrlUID  string `json:"cuid,omitempty"`
	CtrlFlag *bool  `json:"cf,omitempty"`
	CtrlNS   string `json:"cns,omitempty"`

	HasSel bool              `json:"sel,omitempty"`
	Labels map[string]string `json:"ml,omitempty"`
	Exprs  []exprSpec        `json:"me,omitempty"`
}

type ctrlRef struct {
	Kind string `json:"kind"`
	Name string `json:"name"`
	UID  string `json:"uid"`
	Flag *bool  `json:"flag,omitempty"`
}

type affSpec struct {
	Name string            `json:"name,omitempty"`
	Sel  map[string]string `json:"sel,omitempty"`
}

type rCfg struct {
	Nodes int `json:"nodes"`
	// weights of the driver's choice between the parties (0 = first enabled party in canonical order)
	WPlug int `json:"w_plug"`
	WGlob int `json:"w_glob"`
	WPod  int `json:"w_pod"`
	WCyc  int `json:"w_cycle"`
	WBind int `json:"w_bind"`
	WOp   int `json:"w_op"`
	// C19 only: order class of the start-up delivery into the fresh caches (resv-first | pods-first | interleaved)
	Order string `json:"order,omitempty"`
}

// opStep is one version of a reservation-operating-mode pod's owner specification (annotation
// scheduling.koordinator.sh/reservation-owners): a list of owners, or no usable specification at all.
type opStep struct {
	Mode   string      `json:"m"` // owners | removed | empty | broken | emptylist
	Owners []ownerSpec `json:"owners,omitempty"`
	Ready  *bool       `json:"ready,omitempty"` // nil/true: Running and Ready
}

type rOp struct {
	K      string            `json:"k"`
	Script []opStep          `json:"script,omitempty"` // opmode
	R      string            `json:"r,omitempty"`
	P      string            `json:"p,omitempty"`
	N      int               `json:"n,omitempty"`
	T      string            `json:"t,omitempty"` // stream: resv | pod
	Phase  string            `json:"phase,omitempty"`
	Policy string            `json:"policy,omitempty"`
	Once   *bool             `json:"once,omitempty"`
	Owners []ownerSpec       `json:"owners,omitempty"`
	Alloc  rl                `json:"alloc,omitempty"`
	ROpts  []string          `json:"ropts,omitempty"`
	Inner  rl                `json:"inner,omitempty"`
	Unsch  bool              `json:"unsched,omitempty"`
	Order  int               `json:"order,omitempty"`
	Grp    string            `json:"grp,omitempty"`
	NS     string            `json:"ns,omitempty"`
	Labels map[string]string `json:"labels,omitempty"`
	Ctrl   *ctrlRef          `json:"octrl,omitempty"`
	Req    rl                `json:"req,omitempty"`
	Aff    *affSpec          `json:"aff,omitempty"`
	Vict   int               `json:"victims,omitempty"`
	Pre    rl                `json:"pre,omitempty"` // seeded preemptible amount presented to the fit check
	Fail   bool              `json:"fail,omitempty"`
}

func nodeName(i int) string { return fmt.Sprintf("n%d", i) }

// ---------------------------------------------------------------- the API store

type sResv struct {
	Name        string
	Gen         int
	Node        string
	Phase       string // Pending | Waiting | Available | Succeeded | Failed
	Expired     bool
	Terminating bool
	Policy      string
	Once        *bool
	Owners      []ownerSpec
	Alloc       rl
	ROpts       []string
	Inner       rl
	Unsch       bool
	Order       int
	Grp         string
	rv          int
	o           *schedulingv1alpha1.Reservation
}

func (r *sResv) uid() string { return fmt.Sprintf("r-%s-%d", r.Name, r.Gen) }

func (r *sResv) clone() *sResv { c := *r; c.o = nil; return &c }

func (r *sResv) terminal() bool { return r.Phase == "Succeeded" || r.Phase == "Failed" }

// From the API documentation: active = scheduled and Available/Waiting; available = scheduled and Available.
func (r *sResv) active() bool {
	return r.Node != "" && (r.Phase == "Available" || r.Phase == "Waiting")
}
func (r *sResv) available() bool { return r.Node != "" && r.Phase == "Available" }

func (r *sResv) once() bool { return r.Once == nil || *r.Once }

// dims: the reservation's reserved dimensions. All reserved resource names; for a Restricted reservation
// with restricted-options, the options that are reserved.
func (r *sResv) dims() []string {
	var names []string
	for k := range r.Alloc {
		names = append(names, k)
	}
	sort.Strings(names)
	if r.Policy == "Restricted" && len(r.ROpts) > 0 {
		var inter []string
		for _, n := range names {
			for _, o := range r.ROpts {
				if n == o {
					inter = append(inter, n)
					break
				}
			}
		}
		if len(inter) > 0 {
			return inter
		}
	}
	return names
}

func exprValid(e exprSpec) bool {
	switch e.Op {
	case "In", "NotIn":
		return len(e.Vals) > 0
	case "Exists", "DoesNotExist":
		return len(e.Vals) == 0
	}
	return false
}

func (r *sResv) parseOK() bool {
	for _, o := range r.Owners {
		if o.HasSel {
			for _, e := range o.Exprs {
				if !exprValid(e) {
					return false
				}
			}
		}
	}
	return true
}

type sPod struct {
	Name   string
	NS     string
	Gen    int
	Labels map[string]string
	Ctrl   *ctrlRef
	Req    rl
	Node   string
	Phase  string // Pending | Running | Succeeded | Failed
	RName  string
	RUID   string
	Aff    *affSpec
	rv     int
	o      *corev1.Pod
}

func (p *sPod) uid() string       { return fmt.Sprintf("p-%s-%d", p.Name, p.Gen) }
func (p *sPod) clone() *sPod      { c := *p; c.o = nil; return &c }
func (p *sPod) terminated() bool  { return p.Phase == "Succeeded" || p.Phase == "Failed" }
func (p *sPod) key() string       { return p.NS + "/" + p.Name }

type rStore struct {
	resvs map[string]*sResv
	pods  map[string]*sPod
	rgen  map[string]int
	pgen  map[string]int
	pns   map[string]string
	rv    int
}

func newRStore() *rStore {
	return &rStore{resvs: map[string]*sResv{}, pods: map[string]*sPod{}, rgen: map[string]int{}, pgen: map[string]int{}, pns: map[string]string{}}
}

type sChange struct {
	typ  string // resv | pod
	key  string
	snap any // *sResv / *sPod, nil = deleted
}

func cpRL(m rl) rl {
	if m == nil {
		return nil
	}
	o := rl{}
	for k, v := range m {
		o[k] = v
	}
	return o
}

// apply executes one API-level operation; ok=false when it is not applicable in this state.
func (s *rStore) apply(op *rOp) (ch []sChange, ok bool) {
	switch op.K {
	case "resv_create":
		if op.R == "" || s.resvs[op.R] != nil || len(op.Alloc) == 0 || len(op.Owners) == 0 {
			return nil, false
		}
		s.rgen[op.R]++
		s.rv++
		r := &sResv{Name: op.R, Gen: s.rgen[op.R], Phase: "Pending", Policy: op.Policy, Once: op.Once, Owners: op.Owners,
			Alloc: cpRL(op.Alloc), ROpts: op.ROpts, Inner: cpRL(op.Inner), Unsch: op.Unsch, Order: op.Order, Grp: op.Grp, rv: s.rv}
		if op.Phase == "Available" || op.Phase == "Waiting" {
			r.Phase, r.Node = op.Phase, nodeName(op.N)
		}
		s.resvs[r.Name] = r
		return []sChange{{"resv", r.Name, r}}, true
	case "resv_phase":
		cur := s.resvs[op.R]
		if cur == nil {
			return nil, false
		}
		r := cur.clone()
		switch op.Phase {
		case "Available":
			if cur.Phase != "Waiting" {
				return nil, false
			}
			r.Phase = "Available"
		case "Succeeded":
			if cur.Phase != "Available" {
				return nil, false
			}
			r.Phase = "Succeeded"
		case "Failed", "Expired":
			if cur.terminal() {
				return nil, false
			}
			r.Phase = "Failed"
			r.Expired = op.Phase == "Expired"
		case "Unassigned":
			if cur.Phase != "Available" {
				return nil, false
			}
			r.Phase, r.Node = "Pending", ""
		default:
			return nil, false
		}
		s.rv++
		r.rv = s.rv
		s.resvs[r.Name] = r
		return []sChange{{"resv", r.Name, r}}, true
	case "resv_spec":
		cur := s.resvs[op.R]
		if cur == nil || cur.terminal() || len(op.Alloc) == 0 || len(op.Owners) == 0 {
			return nil, false
		}
		r := cur.clone()
		r.Policy, r.Once, r.Owners, r.Alloc, r.ROpts, r.Inner, r.Unsch, r.Order = op.Policy, op.Once, op.Owners, cpRL(op.Alloc), op.ROpts, cpRL(op.Inner), op.Unsch, op.Order
		s.rv++
		r.rv = s.rv
		s.resvs[r.Name] = r
		return []sChange{{"resv", r.Name, r}}, true
	case "resv_term":
		cur := s.resvs[op.R]
		if cur == nil || cur.Terminating {
			return nil, false
		}
		r := cur.clone()
		r.Terminating = true
		s.rv++
		r.rv = s.rv
		s.resvs[r.Name] = r
		return []sChange{{"resv", r.Name, r}}, true
	case "resv_delete":
		if s.resvs[op.R] == nil {
			return nil, false
		}
		delete(s.resvs, op.R)
		s.rv++
		return []sChange{{"resv", op.R, nil}}, true
	case "pod_create":
		if op.P == "" || s.pods[op.P] != nil {
			return nil, false
		}
		s.pgen[op.P]++
		s.rv++
		ns := op.NS
		if ns == "" {
			ns = "default"
		}
		if prev, ok := s.pns[op.P]; ok {
			ns = prev // a name that comes back is the same namespaced key
		}
		s.pns[op.P] = ns
		p := &sPod{Name: op.P, NS: ns, Gen: s.pgen[op.P], Labels: op.Labels, Ctrl: op.Ctrl, Req: cpRL(op.Req), Phase: "Pending", Aff: op.Aff, rv: s.rv}
		s.pods[p.Name] = p
		return []sChange{{"pod", p.Name, p}}, true
	case "pod_delete":
		if s.pods[op.P] == nil {
			return nil, false
		}
		delete(s.pods, op.P)
		s.rv++
		return []sChange{{"pod", op.P, nil}}, true
	case "pod_phase":
		cur := s.pods[op.P]
		if cur == nil || cur.terminated() || (op.Phase != "Succeeded" && op.Phase != "Failed") {
			return nil, false
		}
		p := cur.clone()
		p.Phase = op.Phase
		s.rv++
		p.rv = s.rv
		s.pods[p.Name] = p
		return []sChange{{"pod", p.Name, p}}, true
	case "pod_resize":
		cur := s.pods[op.P]
		if cur == nil || cur.terminated() || cur.Node == "" || len(op.Req) == 0 {
			return nil, false
		}
		p := cur.clone()
		p.Req = cpRL(op.Req)
		s.rv++
		p.rv = s.rv
		s.pods[p.Name] = p
		return []sChange{{"pod", p.Name, p}}, true
	case "pod_bind_ext":
		cur := s.pods[op.P]
		if cur == nil || cur.Node != "" || cur.Phase != "Pending" {
			return nil, false
		}
		p := cur.clone()
		p.Node, p.Phase = nodeName(op.N), "Running"
		if op.R != "" {
			r := s.resvs[op.R]
			if r == nil || r.Node != p.Node {
				return nil, false
			}
			p.RName, p.RUID = r.Name, r.uid()
		}
		s.rv++
		p.rv = s.rv
		s.pods[p.Name] = p
		return []sChange{{"pod", p.Name, p}}, true
	}
	return nil, false
}

// ---------------------------------------------------------------- object builders

func toRL(m rl) corev1.ResourceList {
	out := corev1.ResourceList{}
	for k, v := range m {
		switch k {
		case "cpu":
			out[corev1.ResourceCPU] = *resource.NewMilliQuantity(v, resource.DecimalSI)
		case "memory":
			out[corev1.ResourceMemory] = *resource.NewQuantity(v, resource.BinarySI)
		default:
			out[corev1.ResourceName(k)] = *resource.NewQuantity(v, resource.DecimalSI)
		}
	}
	return out
}

// fromRL converts exactly; ok=false when a non-cpu quantity is fractional (never produced by the workload).
func fromRL(l corev1.ResourceList) (out rl, ok bool) {
	out, ok = rl{}, true
	for k, q := range l {
		var v int64
		if k == corev1.ResourceCPU {
			v = q.MilliValue()
		} else {
			v = q.Value()
			if q.MilliValue() != v*1000 {
				ok = false
			}
		}
		if v != 0 {
			out[string(k)] = v
		}
	}
	return out, ok
}

func eqRL(a, b rl) bool {
	for k, v := range a {
		if v != b[k] {
			return false
		}
	}
	for k, v := range b {
		if v != a[k] {
			return false
		}
	}
	return true
}

func fmtRL(m rl) string {
	ks := make([]string, 0, len(m))
	for k := range m {
		ks = append(ks, k)
	}
	sort.Strings(ks)
	var sb strings.Builder
	for _, k := range ks {
		fmt.Fprintf(&sb, "%s=%d ", k, m[k])
	}
	return "{" + strings.TrimSpace(sb.String()) + "}"
}

var fixedTime = metav1.NewTime(time.Unix(1700000000, 0))

func (o ownerSpec) api() schedulingv1alpha1.ReservationOwner {
	out := schedulingv1alpha1.ReservationOwner{}
	if o.HasObj {
		out.Object = &corev1.ObjectReference{Kind: "Pod", Name: o.ObjName, Namespace: o.ObjNS, UID: types.UID(o.ObjUID)}
	}
	if o.HasCtrl {
		out.Controller = &schedulingv1alpha1.ReservationControllerReference{
			OwnerReference: metav1.OwnerReference{Kind: o.CtrlKind, Name: o.CtrlName, UID: types.UID(o.CtrlUID), Controller: o.CtrlFlag},
			Namespace:      o.CtrlNS,
		}
	}
	if o.HasSel {
		sel := &metav1.LabelSelector{}
		if len(o.Labels) > 0 {
			sel.MatchLabels = map[string]string{}
			for k, v := range o.Labels {
				sel.MatchLabels[k] = v
			}
		}
		for _, e := range o.Exprs {
			sel.MatchExpressions = append(sel.MatchExpressions, metav1.LabelSelectorRequirement{Key: e.Key, Operator: metav1.LabelSelectorOperator(e.Op), Values: e.Vals})
		}
		out.LabelSelector = sel
	}
	return out
}

func (r *sResv) obj() *schedulingv1alpha1.Reservation {
	if r.o != nil {
		return r.o
	}
	o := &schedulingv1alpha1.Reservation{
		ObjectMeta: metav1.ObjectMeta{Name: r.Name, UID: types.UID(r.uid()), ResourceVersion: fmt.Sprint(r.rv), Labels: map[string]string{}, Annotations: map[string]string{}},
		Spec: schedulingv1alpha1.ReservationSpec{
			Template: &corev1.PodTemplateSpec{Spec: corev1.PodSpec{Containers: []corev1.Container{{Name: "c", Resources: corev1.ResourceRequirements{Requests: toRL(r.Alloc)}}}}},
			TTL:      &metav1.Duration{Duration: 0},
			AllocateOnce:   r.Once,
			AllocatePolicy: schedulingv1alpha1.ReservationAllocatePolicy(r.Policy),
			Unschedulable:  r.Unsch,
		},
		Status: schedulingv1alpha1.ReservationStatus{Phase: schedulingv1alpha1.ReservationPhase(r.Phase), NodeName: r.Node},
	}
	for _, ow := range r.Owners {
		o.Spec.Owners = append(o.Spec.Owners, ow.api())
	}
	if r.Grp != "" {
		o.Labels["grp"] = r.Grp
	}
	if r.Order != 0 {
		o.Labels[apiext.LabelReservationOrder] = fmt.Sprint(r.Order)
	}
	if r.Node != "" {
		o.Status.Allocatable = toRL(r.Alloc)
	}
	if len(r.ROpts) > 0 {
		opts := &apiext.ReservationRestrictedOptions{}
		for _, d := range r.ROpts {
			opts.Resources = append(opts.Resources, corev1.ResourceName(d))
		}
		_ = apiext.SetReservationRestrictedOptions(o, opts)
	}
	if len(r.Inner) > 0 {
		b, _ := json.Marshal(&apiext.NodeReservation{Resources: toRL(r.Inner)})
		o.Annotations[apiext.AnnotationNodeReservation] = string(b)
	}
	if r.Terminating {
		t := fixedTime
		o.DeletionTimestamp = &t
		o.Finalizers = []string{"verif/hold"}
	}
	if r.Expired {
		o.Status.Conditions = []schedulingv1alpha1.ReservationCondition{{Type: schedulingv1alpha1.ReservationConditionReady,
			Status: schedulingv1alpha1.ConditionStatusFalse, Reason: schedulingv1alpha1.ReasonReservationExpired}}
	}
	r.o = o
	return o
}

func (p *sPod) obj() *corev1.Pod {
	if p.o != nil {
		return p.o
	}
	o := &corev1.Pod{
		ObjectMeta: metav1.ObjectMeta{Name: p.Name, Namespace: p.NS, UID: types.UID(p.uid()), ResourceVersion: fmt.Sprint(p.rv), Labels: map[string]string{}, Annotations: map[string]string{}},
		Spec:       corev1.PodSpec{NodeName: p.Node, Containers: []corev1.Container{{Name: "c", Resources: corev1.ResourceRequirements{Requests: toRL(p.Req)}}}},
		Status:     corev1.PodStatus{Phase: corev1.PodPhase(p.Phase)},
	}
	for k, v := range p.Labels {
		o.Labels[k] = v
	}
	if p.Ctrl != nil {
		o.OwnerReferences = []metav1.OwnerReference{{APIVersion: "apps/v1", Kind: p.Ctrl.Kind, Name: p.Ctrl.Name, UID: types.UID(p.Ctrl.UID), Controller: p.Ctrl.Flag}}
	}
	if p.RUID != "" {
		// the real codec writes the annotation
		apiext.SetReservationAllocated(o, &metav1.ObjectMeta{Name: p.RName, UID: types.UID(p.RUID)})
	}
	if p.Aff != nil {
		_ = apiext.SetReservationAffinity(o, &apiext.ReservationAffinity{Name: p.Aff.Name, ReservationSelector: p.Aff.Sel})
	}
	p.o = o
	return o
}

// ---------------------------------------------------------------- generation

var (
	appVals  = []string{"a", "b", "c"}
	tierVals = []string{"x", "y"}
	nsVals   = []string{"default", "default", "ns1"}
	ctrls    = []ctrlRef{{Kind: "ReplicaSet", Name: "rs-a", UID: "u-rs-a"}, {Kind: "ReplicaSet", Name: "rs-b", UID: "u-rs-b"}, {Kind: "StatefulSet", Name: "sts-a", UID: "u-sts-a"}}
	allDims  = []string{"cpu", "memory", "example.com/foo"}
)

func bp(b bool) *bool { return &b }

func genAlloc(g *sim.Rng) rl {
	out := rl{}
	n := g.Range(1, 3)
	perm := g.Perm(len(allDims))
	for i := 0; i < n; i++ {
		switch allDims[perm[i]] {
		case "cpu":
			out["cpu"] = 1500 + g.I64n(9000) + g.I64n(7)
		case "memory":
			out["memory"] = (3 << 28) + g.I64n(5<<28) + g.I64n(999)
		default:
			out["example.com/foo"] = 3 + g.I64n(14)
		}
	}
	if g.Bool(0.12) {
		out["pods"] = 1 + g.I64n(3)
	}
	return out
}

func genReq(g *sim.Rng) rl {
	out := rl{}
	n := g.Range(1, 3)
	perm := g.Perm(len(allDims))
	for i := 0; i < n; i++ {
		switch allDims[perm[i]] {
		case "cpu":
			out["cpu"] = 200 + g.I64n(4200) + g.I64n(3)
		case "memory":
			out["memory"] = (1 << 26) + g.I64n(3<<28) + g.I64n(777)
		default:
			out["example.com/foo"] = 1 + g.I64n(6)
		}
	}
	if g.Bool(0.08) {
		out["example.com/bar"] = 1 + g.I64n(3) // a dimension no reservation reserves
	}
	return out
}

func genSubset(g *sim.Rng, m rl) []string {
	var ks []string
	for k := range m {
		if k != "pods" {
			ks = append(ks, k)
		}
	}
	sort.Strings(ks)
	if len(ks) == 0 {
		return nil
	}
	perm := g.Perm(len(ks))
	n := g.Range(1, len(ks))
	var out []string
	for i := 0; i < n; i++ {
		out = append(out, ks[perm[i]])
	}
	sort.Strings(out)
	return out
}

// genROpts: a restricted-options list. Mostly a subset of the reserved dimensions; sometimes it also names
// resources the reservation does not reserve (a template shared between reservation kinds, a dimension that a
// later spec change drops), and sometimes ONLY such resources: the option then selects none of the reserved
// dimensions and, as the API documentation of the annotation says for "no resources configured", the
// reservation restricts all of its reserved dimensions.
func genROpts(g *sim.Rng, alloc rl) []string {
	var foreign []string
	for _, d := range append(append([]string(nil), allDims...), "nvidia.com/gpu") {
		if _, ok := alloc[d]; !ok {
			foreign = append(foreign, d)
		}
	}
	pickForeign := func() []string {
		n := g.Range(1, 2)
		perm := g.Perm(len(foreign))
		var out []string
		for i := 0; i < n && i < len(foreign); i++ {
			out = append(out, foreign[perm[i]])
		}
		return out
	}
	var out []string
	switch x := g.Intn(10); {
	case x < 6:
		return genSubset(g, alloc)
	case x < 8: // only resources that are not reserved
		out = pickForeign()
	default: // some reserved ones and some that are not
		out = append(genSubset(g, alloc), pickForeign()...)
	}
	sort.Strings(out)
	return out
}

func genOwner(g *sim.Rng, podNames []string, st *rStore) ownerSpec {
	o := ownerSpec{}
	if g.Bool(0.45) {
		// biased towards the pods that exist: a selector on the app label of some pod
		o.HasSel = true
		app := appVals[g.Intn(2)]
		if len(podNames) > 0 {
			if p := st.pods[podNames[g.Intn(len(podNames))]]; p != nil && p.Labels["app"] != "" {
				app = p.Labels["app"]
			}
		}
		o.Labels = map[string]string{"app": app}
		return o
	}
	switch g.Intn(10) {
	case 0, 1: // object reference
		o.HasObj = true
		if len(podNames) > 0 && g.Bool(0.8) {
			n := podNames[g.Intn(len(podNames))]
			o.ObjName = n
			if p := st.pods[n]; p != nil {
				if g.Bool(0.6) {
					o.ObjNS = p.NS
				}
				if g.Bool(0.3) {
					o.ObjUID = p.uid()
				}
			}
		} else {
			o.ObjName = fmt.Sprintf("p%d", g.Intn(12))
			if g.Bool(0.5) {
				o.ObjNS = nsVals[g.Intn(len(nsVals))]
			}
		}
	case 2, 3, 4: // label selector, matchLabels
		o.HasSel = true
		o.Labels = map[string]string{"app": appVals[g.Intn(len(appVals))]}
		if g.Bool(0.3) {
			o.Labels["tier"] = tierVals[g.Intn(len(tierVals))]
		}
	case 5: // label selector, expressions
		o.HasSel = true
		switch g.Intn(4) {
		case 0:
			o.Exprs = []exprSpec{{Key: "app", Op: "In", Vals: []string{appVals[g.Intn(3)], appVals[g.Intn(3)]}}}
		case 1:
			o.Exprs = []exprSpec{{Key: "app", Op: "NotIn", Vals: []string{appVals[g.Intn(3)]}}}
		case 2:
			o.Exprs = []exprSpec{{Key: "tier", Op: "Exists"}}
		default:
			o.Exprs = []exprSpec{{Key: "tier", Op: "DoesNotExist"}}
			o.Labels = map[string]string{"app": appVals[g.Intn(3)]}
		}
	case 6, 7: // controller reference
		o.HasCtrl = true
		c := ctrls[g.Intn(len(ctrls))]
		o.CtrlKind, o.CtrlName = c.Kind, c.Name
		if g.Bool(0.4) {
			o.CtrlUID = c.UID
		}
		if g.Bool(0.4) {
			o.CtrlFlag = bp(true)
		}
		if g.Bool(0.3) {
			o.CtrlNS = nsVals[g.Intn(len(nsVals))]
		}
	case 8: // selector AND controller
		o.HasSel, o.HasCtrl = true, true
		o.Labels = map[string]string{"app": appVals[g.Intn(3)]}
		c := ctrls[g.Intn(len(ctrls))]
		o.CtrlKind, o.CtrlName = c.Kind, c.Name
	default:
		o.HasSel = true // empty selector: everything
		if g.Bool(0.15) {
			o.Exprs = []exprSpec{{Key: "app", Op: "In"}} // invalid selector: the reservation can serve nobody
		}
	}
	return o
}

func genOwners(g *sim.Rng, podNames []string, st *rStore) []ownerSpec {
	n := 1
	if g.Bool(0.3) {
		n = 2
	}
	var out []ownerSpec
	for i := 0; i < n; i++ {
		out = append(out, genOwner(g, podNames, st))
	}
	return out
}

func genResvFields(g *sim.Rng, op *rOp, podNames []string, st *rStore) {
	op.Policy = []string{"", "Aligned", "Restricted", "Restricted", "Restricted"}[g.Intn(5)]
	switch g.Intn(5) {
	case 0:
		op.Once = nil
	case 1, 2:
		op.Once = bp(true)
	default:
		op.Once = bp(false)
	}
	op.Owners = genOwners(g, podNames, st)
	op.Alloc = genAlloc(g)
	op.ROpts = nil
	if op.Policy == "Restricted" && g.Bool(0.5) {
		op.ROpts = genROpts(g, op.Alloc)
	}
	op.Inner = nil
	if g.Bool(0.2) {
		op.Inner = rl{}
		for _, d := range genSubset(g, op.Alloc) {
			op.Inner[d] = 1 + g.I64n(op.Alloc[d]/3+1)
		}
	}
	op.Unsch = g.Bool(0.05)
	op.Order = 0
	if g.Bool(0.15) {
		op.Order = 1 + g.Intn(3)
	}
}

func (resvEngine) Generate(p *sim.Plan, g *sim.Rng) {
	cfg := rCfg{Nodes: g.Range(1, 3)}
	switch g.Intn(7) {
	case 0: // prompt delivery
		cfg.WPlug, cfg.WGlob, cfg.WPod, cfg.WCyc, cfg.WBind, cfg.WOp = 8, 8, 8, 6, 4, 1
	case 1: // the global handler lags
		cfg.WPlug, cfg.WGlob, cfg.WPod, cfg.WCyc, cfg.WBind, cfg.WOp = 6, 1, 6, 4, 3, 3
	case 2: // the plugin's reservation listener lags
		cfg.WPlug, cfg.WGlob, cfg.WPod, cfg.WCyc, cfg.WBind, cfg.WOp = 1, 6, 6, 4, 3, 3
	case 3: // the pod listener lags
		cfg.WPlug, cfg.WGlob, cfg.WPod, cfg.WCyc, cfg.WBind, cfg.WOp = 6, 6, 1, 4, 3, 3
	case 4: // binding is slow
		cfg.WPlug, cfg.WGlob, cfg.WPod, cfg.WCyc, cfg.WBind, cfg.WOp = 4, 4, 4, 6, 1, 4
	case 5: // everything lags
		cfg.WPlug, cfg.WGlob, cfg.WPod, cfg.WCyc, cfg.WBind, cfg.WOp = 1, 1, 1, 2, 1, 6
	default:
		cfg.WPlug, cfg.WGlob, cfg.WPod, cfg.WCyc, cfg.WBind, cfg.WOp = 3, 3, 3, 3, 3, 3
	}
	c19 := p.Prop == "C19"
	if c19 {
		// the reservation and the pod informer are started together (cmd/koord-scheduler/app/server.go step 3):
		// their initial lists reach the plugin's two handlers in any relative order
		cfg.Order = []string{"resv-first", "resv-first", "resv-first", "resv-first", "resv-first", "resv-first", "interleaved", "interleaved", "pods-first", "pods-first"}[g.Intn(10)]
	}
	nOps := g.Range(10, 45)
	if p.Tier == "thorough" {
		nOps = g.Range(10, 90)
	}
	st := newRStore()
	var ops []rOp
	var rNames, pNames []string
	nr, np := 0, 0
	maxR, maxP := g.Range(1, 6), g.Range(0, 12)
	add := func(op rOp) bool {
		switch op.K {
		case "sched", "resv_sched", "gap", "relist", "resync", "dup_add", "drain", "opmode":
			ops = append(ops, op)
			return true
		}
		if _, ok := st.apply(&op); ok {
			ops = append(ops, op)
			return true
		}
		return false
	}
	pickR := func() string {
		if len(rNames) == 0 {
			return ""
		}
		return rNames[g.Intn(len(rNames))]
	}
	pickP := func() string {
		if len(pNames) == 0 {
			return ""
		}
		return pNames[g.Intn(len(pNames))]
	}
	newResv := func() {
		if nr >= maxR && g.Bool(0.8) {
			return
		}
		name := fmt.Sprintf("r%d", nr%6)
		if g.Bool(0.6) {
			// a deleted name comes back (new uid)
			for _, n := range rNames {
				if st.resvs[n] == nil {
					name = n
				}
			}
		}
		if st.resvs[name] != nil {
			return
		}
		op := rOp{K: "resv_create", R: name, N: g.Intn(cfg.Nodes), Grp: []string{"g0", "g1"}[g.Intn(2)]}
		genResvFields(g, &op, pNames, st)
		switch g.Intn(14) {
		case 0:
			op.Phase = "Pending"
		case 1:
			op.Phase = "Waiting"
		default:
			op.Phase = "Available"
		}
		if add(op) {
			nr++
			found := false
			for _, n := range rNames {
				if n == name {
					found = true
				}
			}
			if !found {
				rNames = append(rNames, name)
			}
		}
	}
	newPod := func() {
		if np >= maxP+2 && g.Bool(0.8) {
			return
		}
		name := fmt.Sprintf("p%d", np%12)
		if g.Bool(0.5) {
			// a deleted name comes back (new uid), e.g. a StatefulSet pod
			for _, n := range pNames {
				if st.pods[n] == nil {
					name = n
				}
			}
		}
		if st.pods[name] != nil {
			return
		}
		op := rOp{K: "pod_create", P: name, NS: nsVals[g.Intn(len(nsVals))], Req: genReq(g)}
		op.Labels = map[string]string{"app": []string{"a", "a", "b", "b", "c"}[g.Intn(5)]}
		if g.Bool(0.5) {
			op.Labels["tier"] = tierVals[g.Intn(2)]
		}
		if g.Bool(0.5) {
			c := ctrls[g.Intn(len(ctrls))]
			c.Flag = []*bool{nil, bp(true), bp(true), bp(false)}[g.Intn(4)]
			op.Ctrl = &c
		}
		if g.Bool(0.25) {
			if r := pickR(); r != "" && g.Bool(0.5) {
				op.Aff = &affSpec{Name: r}
			} else {
				op.Aff = &affSpec{Sel: map[string]string{"grp": []string{"g0", "g1"}[g.Intn(2)]}}
			}
		}
		if add(op) {
			np++
			found := false
			for _, n := range pNames {
				if n == name {
					found = true
				}
			}
			if !found {
				pNames = append(pNames, name)
			}
		}
	}
	// a little initial population
	for i := g.Range(1, 3); i > 0; i-- {
		newResv()
	}
	for i := g.Range(1, 4); i > 0; i-- {
		newPod()
	}
	for len(ops) < nOps {
		if g.Bool(0.04) {
			// a pod in reservation operating mode (a pod that acts as a reservation) lives through a few versions
			// of its owner specification; the live pods of the run are the candidates
			op := rOp{K: "opmode", N: g.Intn(cfg.Nodes), Alloc: genAlloc(g)}
			op.Script = append(op.Script, opStep{Mode: "owners", Owners: genOwners(g, pNames, st)})
			for i := g.Range(1, 3); i > 0; i-- {
				st1 := opStep{}
				switch y := g.Intn(20); {
				case y < 7:
					st1.Mode, st1.Owners = "owners", genOwners(g, pNames, st)
				case y < 11:
					st1.Mode = "removed"
				case y < 13:
					st1.Mode = "empty"
				case y < 16:
					st1.Mode = "broken"
				case y < 18:
					st1.Mode = "emptylist"
				default: // unchanged owners, the pod loses readiness
					prev := op.Script[len(op.Script)-1]
					st1.Mode, st1.Owners, st1.Ready = prev.Mode, prev.Owners, bp(false)
				}
				op.Script = append(op.Script, st1)
			}
			add(op)
			continue
		}
		x := g.Intn(100)
		if c19 && g.Bool(0.3) {
			x = 20 + g.Intn(33) // C19 wants binds: more scheduling attempts
		}
		switch {
		case x < 6:
			newResv()
		case x < 20:
			newPod()
		case x < 53:
			if pn := pickP(); pn != "" {
				op := rOp{K: "sched", P: pn, Fail: g.Bool(0.2)}
				if g.Bool(0.15) {
					op.Vict = g.Range(1, 2)
				}
				if g.Bool(0.15) {
					op.Pre = genReq(g)
					if g.Bool(0.3) {
						op.Pre["pods"] = 1
					}
				}
				add(op)
			}
		case x < 56:
			if r := pickR(); r != "" {
				add(rOp{K: "resv_sched", R: r, N: g.Intn(cfg.Nodes), Fail: g.Bool(0.25), Phase: []string{"Available", "Available", "Waiting"}[g.Intn(3)]})
			}
		case x < 61:
			if r := pickR(); r != "" {
				add(rOp{K: "resv_phase", R: r, Phase: []string{"Available", "Available", "Succeeded", "Failed", "Expired", "Succeeded"}[g.Intn(6)]})
			}
		case x < 71:
			if r := pickR(); r != "" {
				cur := st.resvs[r]
				if cur == nil {
					continue
				}
				op := rOp{K: "resv_spec", R: r, Policy: cur.Policy, Once: cur.Once, Owners: cur.Owners, Alloc: cpRL(cur.Alloc), ROpts: cur.ROpts, Inner: cpRL(cur.Inner), Unsch: cur.Unsch, Order: cur.Order}
				switch g.Intn(7) {
				case 0: // reserved amounts and dimension set
					op.Alloc = genAlloc(g)
					op.ROpts, op.Inner = nil, nil
					if op.Policy == "Restricted" && g.Bool(0.4) {
						op.ROpts = genROpts(g, op.Alloc)
					}
				case 1: // add one dimension
					for _, d := range allDims {
						if _, ok := op.Alloc[d]; !ok {
							op.Alloc[d] = genAllocDim(g, d)
							break
						}
					}
				case 2: // restricted options
					if op.Policy == "Restricted" {
						if len(op.ROpts) > 0 && g.Bool(0.5) {
							op.ROpts = nil
						} else {
							op.ROpts = genROpts(g, op.Alloc)
						}
					} else {
						op.Unsch = !op.Unsch
					}
				case 3: // owners
					op.Owners = genOwners(g, pNames, st)
				case 4: // quantities only
					for d := range op.Alloc {
						op.Alloc[d] = genAllocDim(g, d)
					}
				case 5:
					op.Once = []*bool{nil, bp(true), bp(false)}[g.Intn(3)]
				default:
					genResvFields(g, &op, pNames, st)
				}
				add(op)
			}
		case x < 72:
			if r := pickR(); r != "" {
				add(rOp{K: "resv_term", R: r})
			}
		case x < 75:
			if r := pickR(); r != "" {
				add(rOp{K: "resv_delete", R: r})
			}
		case x < 81:
			if pn := pickP(); pn != "" {
				add(rOp{K: "pod_delete", P: pn})
			}
		case x < 84:
			if pn := pickP(); pn != "" {
				add(rOp{K: "pod_phase", P: pn, Phase: []string{"Succeeded", "Failed"}[g.Intn(2)]})
			}
		case x < 87:
			if pn := pickP(); pn != "" {
				add(rOp{K: "pod_resize", P: pn, Req: genReq(g)})
			}
		case x < 89:
			if pn := pickP(); pn != "" {
				op := rOp{K: "pod_bind_ext", P: pn, N: g.Intn(cfg.Nodes)}
				if r := pickR(); r != "" && g.Bool(0.7) {
					if cur := st.resvs[r]; cur != nil && cur.Node != "" {
						op.R = r
						fmt.Sscanf(cur.Node, "n%d", &op.N)
					}
				}
				add(op)
			}
		case x < 91:
			// a pod is replaced by a namesake while the pod watch is broken (delete+add merged by the relist),
			// the namesake possibly bound already
			if pn := pickP(); pn != "" {
				cur := st.pods[pn]
				if cur == nil {
					continue
				}
				add(rOp{K: "gap", T: "pod"})
				add(rOp{K: "pod_delete", P: pn})
				add(rOp{K: "pod_create", P: pn, NS: cur.NS, Labels: cur.Labels, Ctrl: cur.Ctrl, Req: genReq(g), Aff: cur.Aff})
				if g.Bool(0.7) {
					op := rOp{K: "pod_bind_ext", P: pn, N: g.Intn(cfg.Nodes)}
					if cur.Node != "" {
						fmt.Sscanf(cur.Node, "n%d", &op.N)
					}
					if r := pickR(); r != "" && g.Bool(0.5) {
						if rr := st.resvs[r]; rr != nil && rr.Node != "" {
							op.R = r
							fmt.Sscanf(rr.Node, "n%d", &op.N)
						}
					}
					add(op)
				}
				if g.Bool(0.3) {
					add(rOp{K: "pod_phase", P: pn, Phase: []string{"Succeeded", "Failed"}[g.Intn(2)]})
				}
				add(rOp{K: "relist", T: "pod"})
			}
		case x < 93:
			add(rOp{K: "gap", T: []string{"resv", "pod"}[g.Intn(2)]})
		case x < 95:
			add(rOp{K: "relist", T: []string{"resv", "pod"}[g.Intn(2)]})
		case x < 96:
			add(rOp{K: "resync", T: []string{"resv", "pod"}[g.Intn(2)]})
		case x < 98:
			if g.Bool(0.5) {
				if r := pickR(); r != "" {
					add(rOp{K: "dup_add", T: "resv", R: r})
				}
			} else if pn := pickP(); pn != "" {
				add(rOp{K: "dup_add", T: "pod", P: pn})
			}
		default:
			add(rOp{K: "drain"})
		}
	}
	p.SetCfg(cfg)
	p.SetOps(ops)
}

func genAllocDim(g *sim.Rng, d string) int64 {
	switch d {
	case "cpu":
		return 1500 + g.I64n(9000) + g.I64n(7)
	case "memory":
		return (3 << 28) + g.I64n(5<<28) + g.I64n(999)
	case "pods":
		return 1 + g.I64n(3)
	}
	return 3 + g.I64n(14)
}
