//go:build verif

package migration

// Engine `migrate` (C17): the real PodMigrationJob controller (Reconciler.Reconcile / doMigrate and every
// abort/wait helper, assumedCache, the real reservation interpreter, Reconciler.Evict -> CreatePodMigrationJob,
// doScavenge) driven reconcile by reconcile against a controller-runtime fake client that is wrapped with
// interceptor.Funcs (API faults, lost acknowledgements, conflicts, informer-cache lag). Everything outside
// koordinator's descheduler is a simulated party whose next event is an op of the plan: the kube/koord scheduler
// (reservation scheduled / unschedulable / needs preemption, replacement pod bound to the reservation), the
// reservation controller (expiry), kubelet + workload controller (evicted pod disappears, replacement appears and
// becomes ready), a user (pause, delete, delete pod / reservation), the clock (TTL) and controller restarts.
// The evictor interpreter is a recording stub: every Evict call is judged at the instant it is received.
// See /verif/DESIGN.md §4 C17.

import (
	"context"
	"errors"
	"fmt"
	"sort"
	"strings"
	"sync"
	"testing"
	"time"

	"github.com/go-logr/logr"
	corev1 "k8s.io/api/core/v1"
	apierrors "k8s.io/apimachinery/pkg/api/errors"
	metav1 "k8s.io/apimachinery/pkg/apis/meta/v1"
	"k8s.io/apimachinery/pkg/runtime"
	"k8s.io/apimachinery/pkg/runtime/schema"
	"k8s.io/apimachinery/pkg/runtime/serializer"
	"k8s.io/apimachinery/pkg/types"
	clientgotesting "k8s.io/client-go/testing"
	"k8s.io/client-go/tools/events"
	"k8s.io/klog/v2"
	"k8s.io/utils/clock"
	ctrl "sigs.k8s.io/controller-runtime"
	"sigs.k8s.io/controller-runtime/pkg/client"
	"sigs.k8s.io/controller-runtime/pkg/client/fake"
	"sigs.k8s.io/controller-runtime/pkg/client/interceptor"
	"sigs.k8s.io/controller-runtime/pkg/reconcile"

	sev1alpha1 "github.com/koordinator-sh/koordinator/apis/scheduling/v1alpha1"
	deschedulerconfig "github.com/koordinator-sh/koordinator/pkg/descheduler/apis/config"
	"github.com/koordinator-sh/koordinator/pkg/descheduler/controllers/migration/reservation"
	"github.com/koordinator-sh/koordinator/pkg/descheduler/framework"
	resvutil "github.com/koordinator-sh/koordinator/pkg/util/reservation"
	sim "github.com/koordinator-sh/koordinator/pkg/verifsim"
)

func init() {
	// the controller logs every failed write with klog.Errorf: keep the workers quiet
	klog.SetLogger(logr.Discard())
}

func TestVerifSim(t *testing.T) { sim.Main(t, &mgEngine{}) }

type mgEngine struct{}

func (mgEngine) Name() string { return "migrate" }

const (
	mgRF = string(sev1alpha1.PodMigrationJobModeReservationFirst)
	mgED = string(sev1alpha1.PodMigrationJobModeEvictionDirectly)

	mgFReadErr     = "read-err"       // a Get / List fails (informer not synced, API reader timeout)
	mgFErrBefore   = "err-before"     // the write fails, nothing applied
	mgFErrAfter    = "err-after"      // lost acknowledgement: the write is applied, the caller sees an error
	mgFConflict    = "conflict"       // 409, nothing applied
	mgFStale       = "stale-read"     // Get served from the informer cache at an older version
	mgFEvictRefuse = "evict-refused"  // the evictor refuses (PDB / rate limit): nothing happens
	mgFEvictLost   = "evict-lost-ack" // the eviction is carried out but the evictor reports an error

	mgSettleN = 15 // bound on reconciles per job after the last fault
)

var mgAllFaults = []string{mgFReadErr, mgFErrBefore, mgFErrAfter, mgFConflict, mgFStale, mgFEvictRefuse, mgFEvictLost}

// ---------------------------------------------------------------- plan

type mgPodSpec struct {
	Node     int  `json:"node"`
	Pending  bool `json:"pending,omitempty"`   // an unscheduled pod (PodScheduled=False): the "migrate pending pod" flow
	SameName bool `json:"same_name,omitempty"` // StatefulSet style: the replacement has the same name and a new UID
}

type mgJobSpec struct {
	Pod          int    `json:"pod"`
	Mode         string `json:"mode,omitempty"` // "" (controller default) | ReservationFirst | EvictDirectly
	TTLS         int    `json:"ttl_s,omitempty"`
	Paused       bool   `json:"paused,omitempty"`
	ByController bool   `json:"by_controller,omitempty"` // created through the real Reconciler.Evict (carries the creator's reconcilerUID)
	NoPodUID     bool   `json:"no_pod_uid,omitempty"`    // a user-written job without podRef.uid
	Preset       string `json:"preset,omitempty"`        // user-provided reservationRef: pending | avail-other | avail-same | bound-other | consumed-unlisted
	Template     string `json:"template,omitempty"`      // user-provided reservationOptions.template without a reference: labels (no name) | named (a name of the user's choice)
}

type mgCfg struct {
	Nodes       int         `json:"nodes"`
	DefaultMode string      `json:"default_mode"`
	DefaultTTLS int         `json:"default_ttl_s"`
	Preempt     bool        `json:"preempt,omitempty"` // the reservation interpreter offers a Preemption (stub) in this run
	MaxLagS     int         `json:"max_lag_s"`         // informer cache lag bound for stale reads
	Pods        []mgPodSpec `json:"pods"`
	Jobs        []mgJobSpec `json:"jobs"`
}

type mgOp struct {
	K string `json:"k"` // create | rec | work | env | expire | delresv | bindother | delpod | replpod | pause | unpause | deljob | sleep | restart | scavenge
	J int    `json:"j,omitempty"`
	V int    `json:"v,omitempty"` // variant
	D int    `json:"d,omitempty"` // seconds
}

func (mgEngine) Generate(p *sim.Plan, g *sim.Rng) {
	cfg := mgCfg{Nodes: 3 + g.Intn(2)}
	cfg.DefaultMode = mgRF
	if g.Bool(0.25) {
		cfg.DefaultMode = mgED
	}
	cfg.DefaultTTLS = g.PickInt(20, 60, 300)
	cfg.Preempt = g.Bool(0.15)
	cfg.MaxLagS = g.PickInt(1, 5, 30)
	nj := g.Range(1, 3)
	if p.Tier == "thorough" {
		nj = g.Range(1, 5)
	}
	for j := 0; j < nj; j++ {
		ps := mgPodSpec{Node: g.Intn(cfg.Nodes), Pending: g.Bool(0.08), SameName: g.Bool(0.3)}
		cfg.Pods = append(cfg.Pods, ps)
		js := mgJobSpec{Pod: j}
		if j > 0 && g.Bool(0.1) {
			js.Pod = g.Intn(j) // two jobs for one pod (a user can write that)
		}
		switch x := g.Intn(100); {
		case x < 40:
		case x < 85:
			js.Mode = mgRF
		default:
			js.Mode = mgED
		}
		if !g.Bool(0.35) {
			js.TTLS = g.PickInt(10, 30, 30, 120)
		}
		js.Paused = g.Bool(0.08)
		js.ByController = g.Bool(0.3)
		if !js.ByController {
			js.NoPodUID = g.Bool(0.3)
			if g.Bool(0.15) {
				js.Preset = g.Pick("pending", "avail-other", "avail-same", "bound-other", "consumed-unlisted")
			} else if g.Bool(0.3) {
				// the API lets a user customise the Reservation the controller is going to create (labels, a name, ...)
				js.Template = g.Pick("labels", "labels", "labels", "named")
			}
		}
		cfg.Jobs = append(cfg.Jobs, js)
	}
	switch x := g.Intn(100); {
	case x < 20: // fault-free
	default:
		p.FaultRate = []float64{0.04, 0.1, 0.2}[g.Intn(3)]
		if g.Bool(0.25) { // one kind only, often
			p.FaultRate = 0.35
			p.Faults = []string{mgAllFaults[g.Intn(len(mgAllFaults))]}
		} else if g.Bool(0.15) {
			p.Faults = append([]string(nil), mgAllFaults...)
		} else {
			perm := g.Perm(len(mgAllFaults))
			for _, i := range perm[:g.Range(1, 3)] {
				p.Faults = append(p.Faults, mgAllFaults[i])
			}
			sort.Strings(p.Faults)
		}
	}
	n := g.Range(10, 45)
	if p.Tier == "thorough" {
		n = g.Range(10, 90)
	}
	var ops []mgOp
	focus := 0
	for len(ops) < n {
		if g.Bool(0.25) {
			focus = g.Intn(nj)
		}
		j := focus
		if g.Bool(0.2) {
			j = g.Intn(nj)
		}
		secs := g.PickInt(1, 3, 3, 3, 3, 10, 30, 120)
		switch x := g.Intn(1000); {
		case x < 250:
			ops = append(ops, mgOp{K: "rec", J: j})
		case x < 530:
			d := 0
			if g.Bool(0.7) {
				d = g.PickInt(1, 3, 3, 5)
			}
			ops = append(ops, mgOp{K: "work", D: d})
		case x < 770:
			ops = append(ops, mgOp{K: "env", J: j, V: g.Intn(64)})
		case x < 850:
			if g.Bool(0.04) {
				secs = g.PickInt(600, 2400)
			}
			ops = append(ops, mgOp{K: "sleep", D: secs})
		case x < 870:
			ops = append(ops, mgOp{K: "expire", J: j})
		case x < 888:
			ops = append(ops, mgOp{K: "delresv", J: j})
		case x < 908:
			ops = append(ops, mgOp{K: "bindother", J: j, V: g.Intn(8)})
		case x < 920:
			ops = append(ops, mgOp{K: "delpod", J: j})
		case x < 940:
			ops = append(ops, mgOp{K: "replpod", J: j, V: g.Intn(8)})
		case x < 952:
			ops = append(ops, mgOp{K: "pause", J: j})
		case x < 976:
			ops = append(ops, mgOp{K: "unpause", J: j})
		case x < 984:
			ops = append(ops, mgOp{K: "deljob", J: j})
		case x < 992:
			ops = append(ops, mgOp{K: "restart"})
		default:
			ops = append(ops, mgOp{K: "scavenge"})
		}
	}
	// every job is created by an explicit op somewhere in the first part of the plan
	for j := 0; j < nj; j++ {
		pos := 0
		if j > 0 || g.Bool(0.3) {
			pos = g.Intn(len(ops)/2 + 1)
		}
		ops = append(ops[:pos], append([]mgOp{{K: "create", J: j}}, ops[pos:]...)...)
	}
	p.SetCfg(cfg)
	p.SetOps(ops)
}

// ---------------------------------------------------------------- model

type mgVer struct {
	obj client.Object // nil = the object does not exist at this version
	at  time.Time
}

// mgView is the newest version of an object the controller was served during the current reconcile (a later read from the
// lagging cache may be older than an earlier read through the API reader: what counts is the best knowledge it was given).
type mgView struct {
	obj client.Object // nil = served as NotFound
	idx int           // history index of that version
}

type mgPod struct {
	idx     int
	spec    mgPodSpec
	name    string
	uid     types.UID
	node    string
	exists  bool
	evicted bool   // an eviction was carried out and the kubelet has not removed the pod yet
	gone    bool   // the original pod was removed at least once
	repl    string // name of the replacement pod ("" = none yet)
	replOK  bool   // replacement is ready
	gen     int
}

type mgEvict struct {
	seq       uint64
	applied   bool
	ackLost   bool
	condWrite string // "" none yet | ok | failed | lost : outcome of the first status write of the job after the call
}

type mgJob struct {
	idx      int
	spec     mgJobSpec
	name     string
	uid      types.UID
	created  bool
	deleted  bool
	terminal string // first committed terminal phase
	evicts   []*mgEvict
	resvMade []string // reservations the controller created while reconciling this job
	due      time.Time
	hasDue   bool
	settleN  int
	lastObj  *sev1alpha1.PodMigrationJob // last committed version (for the delete event)
}

// mgPreempt is the state of the (stubbed) preemption for one reservation. The stub has no notion of a nominated node: the
// open-source reservation object exposes none, so the "different node" clause is only evaluated for scheduled reservations.
type mgPreempt struct {
	state string // need | progress | done
}

type mgSim struct {
	r    *sim.Run
	cfg  mgCfg
	ctx  context.Context
	base client.WithWatch
	cl   client.WithWatch
	rec  *Reconciler
	inc  int
	uidN int

	hist   map[string][]mgVer
	cursor map[string]int
	view   map[string]mgView
	served map[string][]client.Object // every version served during the current reconcile

	jobs     []*mgJob
	pods     []*mgPod
	preempt  map[string]*mgPreempt
	cur      *mgJob // job being reconciled
	creating *mgJob // job being created through Reconciler.Evict
	lastEv   *mgEvict
	settling bool
	delQ     []*mgJob // job delete events not yet delivered to the controller
	staleRun bool     // a stale read was served in the current reconcile
}

// The scheme and its decoder are immutable tables, built once per process; everything stateful (object tracker, clients,
// reconciler) is created inside Execute.
var (
	mgSchemeOnce sync.Once
	mgTheScheme  *runtime.Scheme
	mgDecoder    runtime.Decoder
)

func mgScheme() (*runtime.Scheme, runtime.Decoder) {
	mgSchemeOnce.Do(func() {
		s := runtime.NewScheme()
		_ = corev1.AddToScheme(s)
		_ = sev1alpha1.AddToScheme(s)
		mgTheScheme = s
		mgDecoder = serializer.NewCodecFactory(s).UniversalDecoder()
	})
	return mgTheScheme, mgDecoder
}

type mgMgr struct {
	ctrl.Manager
	c   client.Client
	api client.Reader
}

func (m *mgMgr) GetClient() client.Client    { return m.c }
func (m *mgMgr) GetAPIReader() client.Reader { return m.api }

type mgArbitrator struct{}

func (mgArbitrator) Filter(*corev1.Pod) bool                           { return true }
func (mgArbitrator) PreEvictionFilter(*corev1.Pod) bool                { return true }
func (mgArbitrator) AddPodMigrationJob(*sev1alpha1.PodMigrationJob)    {}
func (mgArbitrator) DeletePodMigrationJob(*sev1alpha1.PodMigrationJob) {}

func mgKind(o runtime.Object) string {
	switch o.(type) {
	case *sev1alpha1.PodMigrationJob:
		return "job"
	case *sev1alpha1.Reservation:
		return "resv"
	case *corev1.Pod:
		return "pod"
	}
	return ""
}

func mgCopyInto(dst, src client.Object) {
	switch d := dst.(type) {
	case *sev1alpha1.PodMigrationJob:
		src.(*sev1alpha1.PodMigrationJob).DeepCopyInto(d)
	case *sev1alpha1.Reservation:
		src.(*sev1alpha1.Reservation).DeepCopyInto(d)
	case *corev1.Pod:
		src.(*corev1.Pod).DeepCopyInto(d)
	}
}

func mgGR(kind string) schema.GroupResource {
	switch kind {
	case "job":
		return schema.GroupResource{Group: "scheduling.koordinator.sh", Resource: "podmigrationjobs"}
	case "resv":
		return schema.GroupResource{Group: "scheduling.koordinator.sh", Resource: "reservations"}
	}
	return schema.GroupResource{Resource: "pods"}
}

func mgTerminal(p sev1alpha1.PodMigrationJobPhase) bool {
	return p == sev1alpha1.PodMigrationJobSucceeded || p == sev1alpha1.PodMigrationJobFailed
}

func (s *mgSim) nextUID(prefix string) types.UID {
	s.uidN++
	return types.UID(fmt.Sprintf("%s-%d", prefix, s.uidN))
}

func (s *mgSim) nodeName(i int) string {
	return fmt.Sprintf("n%d", ((i%s.cfg.Nodes)+s.cfg.Nodes)%s.cfg.Nodes)
}

// ---- direct (never faulted) store access used by the environment stubs and the oracles

// Every write to the store (by the controller's client or by an environment stub) is followed by record(), hence the newest
// history entry is the store's current object; the direct readers copy it (cheaper than the fake client's JSON round trip).
func (s *mgSim) latest(kind, name string) client.Object {
	h := s.hist[kind+"/"+name]
	if len(h) == 0 {
		return nil
	}
	return h[len(h)-1].obj
}

func (s *mgSim) getJob(name string) *sev1alpha1.PodMigrationJob {
	if o, ok := s.latest("job", name).(*sev1alpha1.PodMigrationJob); ok && o != nil {
		return o.DeepCopy()
	}
	return nil
}

func (s *mgSim) getResv(name string) *sev1alpha1.Reservation {
	if o, ok := s.latest("resv", name).(*sev1alpha1.Reservation); ok && o != nil {
		return o.DeepCopy()
	}
	return nil
}

func (s *mgSim) getPod(name string) *corev1.Pod {
	if o, ok := s.latest("pod", name).(*corev1.Pod); ok && o != nil {
		return o.DeepCopy()
	}
	return nil
}

func (s *mgSim) readStore(kind, name string) client.Object {
	var o client.Object
	key := types.NamespacedName{Name: name}
	switch kind {
	case "job":
		o = &sev1alpha1.PodMigrationJob{}
	case "resv":
		o = &sev1alpha1.Reservation{}
	default:
		o = &corev1.Pod{}
		key.Namespace = "default"
	}
	if err := s.base.Get(s.ctx, key, o); err != nil {
		if !apierrors.IsNotFound(err) {
			s.r.HarnessFail("store read %s/%s: %v", kind, name, err)
		}
		return nil
	}
	return o
}

func (s *mgSim) must(err error, what string) {
	if err != nil {
		s.r.HarnessFail("environment write failed (%s): %v", what, err)
	}
}

// record appends the current store version of an object to its history (the informer cache serves older entries).
func (s *mgSim) record(kind, name string) {
	k := kind + "/" + name
	h := s.hist[k]
	if len(h) == 0 {
		h = append(h, mgVer{})
	}
	cur := s.readStore(kind, name)
	last := h[len(h)-1]
	switch {
	case cur == nil && last.obj == nil:
		s.hist[k] = h
		return
	case cur != nil && last.obj != nil && cur.GetResourceVersion() == last.obj.GetResourceVersion() && cur.GetUID() == last.obj.GetUID():
		s.hist[k] = h
		return
	}
	h = append(h, mgVer{obj: cur, at: time.Now()})
	s.hist[k] = h
	if kind == "job" {
		var prev, now *sev1alpha1.PodMigrationJob
		if last.obj != nil {
			prev = last.obj.(*sev1alpha1.PodMigrationJob)
		}
		if cur != nil {
			now = cur.(*sev1alpha1.PodMigrationJob)
		}
		s.onJobVersion(name, prev, now)
	}
}

func (s *mgSim) jobByName(name string) *mgJob {
	for _, j := range s.jobs {
		if j.created && j.name == name {
			return j
		}
	}
	return nil
}

func (s *mgSim) podByName(name string) *mgPod {
	for _, p := range s.pods {
		if p.name == name {
			return p
		}
	}
	return nil
}

func (s *mgSim) enqueue(j *mgJob, at time.Time) {
	if !j.hasDue || at.Before(j.due) {
		j.hasDue, j.due = true, at
	}
}

// resvNames lists the reservations that belong to a job: the one its stored spec references and every reservation the
// controller created while reconciling it.
func (s *mgSim) resvNames(j *mgJob, obj *sev1alpha1.PodMigrationJob) []string {
	var out []string
	if obj != nil && obj.Spec.ReservationOptions != nil && obj.Spec.ReservationOptions.ReservationRef != nil {
		out = append(out, obj.Spec.ReservationOptions.ReservationRef.Name)
	}
	for _, n := range j.resvMade {
		dup := false
		for _, o := range out {
			dup = dup || o == n
		}
		if !dup {
			out = append(out, n)
		}
	}
	return out
}

// onJobVersion is called for every committed version of a job object: phase-history oracles live here.
func (s *mgSim) onJobVersion(name string, prev, now *sev1alpha1.PodMigrationJob) {
	j := s.jobByName(name)
	if j == nil {
		return
	}
	r := s.r
	if now == nil {
		j.deleted = true
		j.hasDue = false
		s.delQ = append(s.delQ, j)
		r.Event("job %d deleted", j.idx)
		return
	}
	j.lastObj = now
	s.enqueue(j, time.Now()) // watch event -> arbitration handler -> queue
	if prev == nil || prev.UID != now.UID {
		return
	}
	r.OracleEval()
	if prev.Status.Phase != now.Status.Phase {
		r.Event("job %d phase %q -> %q (%s)", j.idx, prev.Status.Phase, now.Status.Phase, now.Status.Reason)
		r.Probe("phase:" + string(now.Status.Phase) + ":" + now.Status.Reason)
	}
	if mgTerminal(prev.Status.Phase) && prev.Status.Phase != now.Status.Phase {
		r.Fail("terminal-phase-changed", string(prev.Status.Phase)+"->"+string(now.Status.Phase),
			"job %s had committed phase %s (%s) and was rewritten to %s (%s)", name, prev.Status.Phase, prev.Status.Reason, now.Status.Phase, now.Status.Reason)
	}
	if mgTerminal(now.Status.Phase) && !mgTerminal(prev.Status.Phase) {
		if j.terminal == "" {
			j.terminal = string(now.Status.Phase)
		}
		if now.Status.Phase == sev1alpha1.PodMigrationJobFailed && now.Status.Reason == sev1alpha1.PodMigrationJobReasonTimeout {
			// statement: an expired job deletes its reservation
			for _, rn := range s.resvNames(j, now) {
				if rv := s.getResv(rn); rv != nil {
					ref := now.Spec.ReservationOptions != nil && now.Spec.ReservationOptions.ReservationRef != nil
					detail := "referenced"
					if !ref {
						detail = "unreferenced"
					}
					r.Fail("expired-job-keeps-reservation", detail,
						"job %s was failed for Timeout at %v but its reservation %s still exists (phase %q node %q; job references it: %v)",
						name, time.Now().Sub(now.CreationTimestamp.Time), rn, rv.Status.Phase, rv.Status.NodeName, ref)
				}
			}
			r.Probe("timeout-abort-checked")
		}
	}
}

// ---------------------------------------------------------------- the controller's client (faults + cache lag)

func (s *mgSim) fault(site string, kinds ...string) string {
	if s.settling {
		return ""
	}
	return s.r.Fault(site, kinds...)
}

var errMgUnavailable = apierrors.NewServiceUnavailable("verif: injected API failure")

func mgLostAck() error { return apierrors.NewTimeoutError("verif: acknowledgement lost", 1) }

// servable returns the oldest history index the informer cache may still serve.
func (s *mgSim) servable(k string) int {
	h := s.hist[k]
	lo := s.cursor[k]
	limit := time.Now().Add(-time.Duration(s.cfg.MaxLagS) * time.Second)
	for lo < len(h)-1 && !h[lo+1].at.After(limit) {
		lo++
	}
	return lo
}

func (s *mgSim) ctlGet(c client.Reader, cached bool, key client.ObjectKey, obj client.Object, opts ...client.GetOption) error {
	kind := mgKind(obj)
	if kind == "" {
		return c.Get(s.ctx, key, obj, opts...)
	}
	k := kind + "/" + key.Name
	h := s.hist[k]
	kinds := []string{mgFReadErr}
	lo := len(h) - 1
	if cached && len(h) > 0 {
		lo = s.servable(k)
		if lo < len(h)-1 {
			kinds = append(kinds, mgFStale)
		}
	}
	site := "get:" + kind
	if !cached {
		site = "apiget:" + kind
	}
	switch s.fault(site, kinds...) {
	case mgFReadErr:
		s.r.Probe("fault:" + site + ":err")
		if kind == "pod" && s.cur != nil {
			// history class of a defect repaired by b643541 (same-node check skipped on a pod read error): counted
			if rv, pod := s.reservationOf(s.cur), s.getPod(key.Name); rv != nil && pod != nil && rv.Status.NodeName != "" && rv.Status.NodeName == pod.Spec.NodeName {
				s.r.Probe("pod-read-error-while-reservation-on-pod-node")
			}
		}
		return errMgUnavailable
	case mgFStale:
		i := lo + s.r.Choose(len(h)-1-lo)
		s.cursor[k] = i
		s.staleRun = true
		s.r.Probe("stale-read:" + kind)
		if kind == "job" {
			if j := s.jobByName(key.Name); j != nil && !j.deleted {
				s.enqueue(j, time.Now()) // the cache will catch up: the newer watch event is still to be delivered
			}
		}
		v := h[i].obj
		if kind == "resv" && s.cur != nil && v != nil {
			// history class of a recorded defect: earlier in this reconcile the controller was served (through the API reader, the
			// cache having answered NotFound) a version of the reservation that is already consumed (Succeeded), and the lagging
			// cache now serves it an older version that is not: the checks of one eviction decision are spread over both reads
			if seen, ok := s.view[k]; ok && seen.idx > i {
				newer, _ := seen.obj.(*sev1alpha1.Reservation)
				if newer != nil && newer.Status.Phase == sev1alpha1.ReservationSucceeded && v.(*sev1alpha1.Reservation).Status.Phase != sev1alpha1.ReservationSucceeded {
					s.r.Tag("cache-serves-unconsumed-reservation-after-api-reader-served-it-consumed")
				}
			}
		}
		s.serve(k, v, i)
		if v == nil {
			s.r.Probe("stale-read-notfound:" + kind)
			return apierrors.NewNotFound(mgGR(kind), key.Name)
		}
		mgCopyInto(obj, v)
		return nil
	}
	if len(h) > 0 {
		// the newest history entry is the store's object (see latest()): serve a copy of it, exactly what the fake client's Get would
		// return, without its JSON round trip
		if cached {
			s.cursor[k] = len(h) - 1
		}
		v := h[len(h)-1].obj
		s.serve(k, v, len(h)-1)
		if v == nil {
			return apierrors.NewNotFound(mgGR(kind), key.Name)
		}
		mgCopyInto(obj, v)
		return nil
	}
	err := c.Get(s.ctx, key, obj, opts...)
	if err == nil {
		s.serve(k, obj.DeepCopyObject().(client.Object), 0)
	} else if apierrors.IsNotFound(err) {
		s.serve(k, nil, 0)
	}
	return err
}

type mgAPIReader struct{ s *mgSim }

func (a mgAPIReader) Get(ctx context.Context, key client.ObjectKey, obj client.Object, opts ...client.GetOption) error {
	a.s.r.Probe("apireader-get")
	return a.s.ctlGet(a.s.base, false, key, obj, opts...)
}

func (a mgAPIReader) List(ctx context.Context, list client.ObjectList, opts ...client.ListOption) error {
	return a.s.base.List(ctx, list, opts...)
}

// write runs one mutating call of the controller with fault injection. apply must perform the call on the object it is given.
func (s *mgSim) write(verb, kind, name string, obj client.Object, offerConflict bool, apply func(o client.Object) error) error {
	site := verb + ":" + kind
	kinds := []string{mgFErrBefore, mgFErrAfter}
	if offerConflict {
		kinds = append(kinds, mgFConflict)
	}
	f := s.fault(site, kinds...)
	var err error
	switch f {
	case mgFErrBefore:
		s.r.Probe("fault:" + site + ":err-before")
		err = errMgUnavailable
	case mgFConflict:
		s.r.Probe("fault:" + site + ":conflict")
		err = apierrors.NewConflict(mgGR(kind), name, errors.New("verif: injected conflict"))
	case mgFErrAfter:
		// the request reaches the server, the response is lost: the caller's object stays as it was
		cp := obj.DeepCopyObject().(client.Object)
		if e := apply(cp); e != nil {
			err = e // the server itself refused: an ordinary error
		} else {
			s.r.Probe("fault:" + site + ":lost-ack")
			err = mgLostAck()
		}
		s.record(kind, name)
	default:
		err = apply(obj)
		if err != nil && apierrors.IsConflict(err) {
			s.r.Probe("natural-conflict:" + site)
		}
		s.record(kind, name)
		if err == nil { // the controller knows what it wrote
			if h := s.hist[kind+"/"+name]; len(h) > 0 {
				s.serve(kind+"/"+name, h[len(h)-1].obj, len(h)-1)
			}
		}
	}
	s.afterWrite(verb, kind, name, f, err)
	return err
}

// afterWrite keeps the per-job bookkeeping the fault-relaxed oracles need.
func (s *mgSim) afterWrite(verb, kind, name, f string, err error) {
	if kind != "job" {
		return
	}
	j := s.jobByName(name)
	if j == nil {
		return
	}
	if verb == "status" && s.lastEv != nil && s.lastEv.condWrite == "" && s.cur == j {
		switch {
		case err == nil:
			s.lastEv.condWrite = "ok"
		case f == mgFErrAfter:
			s.lastEv.condWrite = "lost"
		default:
			s.lastEv.condWrite = "failed"
		}
	}
}

func (s *mgSim) funcs() interceptor.Funcs {
	return interceptor.Funcs{
		Get: func(ctx context.Context, c client.WithWatch, key client.ObjectKey, obj client.Object, opts ...client.GetOption) error {
			return s.ctlGet(c, true, key, obj, opts...)
		},
		List: func(ctx context.Context, c client.WithWatch, list client.ObjectList, opts ...client.ListOption) error {
			if s.fault("list", mgFReadErr) != "" {
				return errMgUnavailable
			}
			return c.List(ctx, list, opts...)
		},
		Create: func(ctx context.Context, c client.WithWatch, obj client.Object, opts ...client.CreateOption) error {
			kind := mgKind(obj)
			if kind == "" {
				return c.Create(ctx, obj, opts...)
			}
			if kind == "resv" {
				s.onReservationCreate(obj.(*sev1alpha1.Reservation))
			}
			return s.write("create", kind, obj.GetName(), obj, false, func(o client.Object) error {
				// what the API server fills in
				had := o.GetUID()
				if o.GetUID() == "" {
					o.SetUID(s.nextUID(kind))
				}
				if ts := o.GetCreationTimestamp(); ts.IsZero() {
					o.SetCreationTimestamp(metav1.Now())
				}
				err := c.Create(ctx, o, opts...)
				if err != nil {
					o.SetUID(had)
					return err
				}
				if kind == "job" && s.creating != nil {
					j := s.creating
					j.created, j.name, j.uid = true, o.GetName(), o.GetUID()
				}
				if kind == "resv" && s.cur != nil {
					s.cur.resvMade = append(s.cur.resvMade, o.GetName())
				}
				return nil
			})
		},
		Delete: func(ctx context.Context, c client.WithWatch, obj client.Object, opts ...client.DeleteOption) error {
			kind := mgKind(obj)
			if kind == "" {
				return c.Delete(ctx, obj, opts...)
			}
			return s.write("delete", kind, obj.GetName(), obj, false, func(o client.Object) error { return c.Delete(ctx, o, opts...) })
		},
		Update: func(ctx context.Context, c client.WithWatch, obj client.Object, opts ...client.UpdateOption) error {
			kind := mgKind(obj)
			if kind == "" {
				return c.Update(ctx, obj, opts...)
			}
			err := s.write("update", kind, obj.GetName(), obj, true, func(o client.Object) error { return c.Update(ctx, o, opts...) })
			if kind == "job" && s.cur != nil {
				// the spec update that persists the reservationRef
				if pj := obj.(*sev1alpha1.PodMigrationJob); pj.Spec.ReservationOptions != nil && pj.Spec.ReservationOptions.ReservationRef != nil {
					if st := s.getJob(pj.Name); st != nil && (st.Spec.ReservationOptions == nil || st.Spec.ReservationOptions.ReservationRef == nil) {
						s.r.Probe("reservation-ref-write-failed")
					}
				}
			}
			return err
		},
		SubResourceUpdate: func(ctx context.Context, c client.Client, sub string, obj client.Object, opts ...client.SubResourceUpdateOption) error {
			kind := mgKind(obj)
			if kind == "" {
				return c.SubResource(sub).Update(ctx, obj, opts...)
			}
			return s.write(sub, kind, obj.GetName(), obj, true, func(o client.Object) error { return c.SubResource(sub).Update(ctx, o, opts...) })
		},
	}
}

func (s *mgSim) serve(k string, obj client.Object, idx int) {
	s.served[k] = append(s.served[k], obj)
	if v, ok := s.view[k]; ok && v.idx > idx {
		return
	}
	s.view[k] = mgView{obj: obj, idx: idx}
}

func (s *mgSim) resetView() {
	s.view = map[string]mgView{}
	s.served = map[string][]client.Object{}
}

// viewOf returns the version of an object the controller was served in the current reconcile, else the store's.
func (s *mgSim) viewOf(kind, name string) (client.Object, bool) {
	if v, ok := s.view[kind+"/"+name]; ok {
		return v.obj, true
	}
	return nil, false
}

// onReservationCreate: statement — a finished job triggers no further reservation.
func (s *mgSim) onReservationCreate(rv *sev1alpha1.Reservation) {
	j := s.cur
	if j == nil {
		return
	}
	s.r.OracleEval()
	st := s.getJob(j.name)
	seen := st
	if v, ok := s.viewOf("job", j.name); ok && v != nil {
		seen = v.(*sev1alpha1.PodMigrationJob)
	}
	if seen != nil && mgTerminal(seen.Status.Phase) {
		s.r.Fail("reservation-after-terminal", string(seen.Status.Phase), "job %s is %s (%s) and the controller creates reservation %s for it",
			j.name, seen.Status.Phase, seen.Status.Reason, rv.Name)
	}
	if st != nil && mgTerminal(st.Status.Phase) {
		s.r.Probe("relaxed:reservation-create-on-stale-job-view")
	}
	s.r.Probe("reservation-create")
}

// ---------------------------------------------------------------- the recording evictor and the eviction oracles

type mgEvictor struct{ s *mgSim }

// resvClass evaluates the statement's eviction gate on raw API fields: "" = the reservation secures capacity elsewhere.
func (s *mgSim) resvClass(rv *sev1alpha1.Reservation, pod *corev1.Pod, podUID types.UID) string {
	if rv == nil {
		return "missing"
	}
	var pre *mgPreempt
	if p := s.preempt[rv.Name]; p != nil && p.state == "done" {
		pre = p
	}
	unsched, schedTrue, expired := false, false, false
	for _, c := range rv.Status.Conditions {
		if c.Type == sev1alpha1.ReservationConditionScheduled {
			if c.Status == sev1alpha1.ConditionStatusTrue {
				schedTrue = true
			} else if c.Reason == sev1alpha1.ReasonReservationUnschedulable {
				unsched = true
			}
		}
		if c.Type == sev1alpha1.ReservationConditionReady && c.Reason == sev1alpha1.ReasonReservationExpired {
			expired = true
		}
	}
	if rv.Status.Phase == sev1alpha1.ReservationFailed || expired {
		return "expired"
	}
	node := rv.Status.NodeName
	if node == "" || !schedTrue {
		if pre == nil {
			if unsched {
				return "unschedulable"
			}
			return "pending"
		}
	}
	if pod != nil && node != "" && node == pod.Spec.NodeName {
		return "same-node"
	}
	for _, o := range rv.Status.CurrentOwners {
		if o.UID != podUID || podUID == "" {
			return "bound-to-other-pod"
		}
	}
	if rv.Status.Phase == sev1alpha1.ReservationSucceeded && len(rv.Status.CurrentOwners) == 0 {
		// The reservation was consumed (phase Succeeded: it is allocate-once, nothing can be placed into it any more) and the pod
		// to be evicted is not its consumer: whoever took it, the capacity is no longer secured for this pod, whether or not the
		// consumer is (still / already) listed in status.currentOwners.
		return "consumed-not-by-target-pod"
	}
	return ""
}

func (e mgEvictor) Evict(ctx context.Context, job *sev1alpha1.PodMigrationJob, pod *corev1.Pod) error {
	s, r := e.s, e.s.r
	j := s.jobByName(job.Name)
	if j == nil {
		r.HarnessFail("Evict for unknown job %s", job.Name)
	}
	r.OracleEval()
	r.Probe("evict-call")
	if job.Spec.PodRef != nil && job.Spec.PodRef.UID != "" && job.Spec.PodRef.UID != pod.UID {
		r.Probe("evict-of-pod-with-other-uid-than-podref") // outside the statement: counted only
	}
	seq := r.Seq()
	stJob := s.getJob(job.Name)
	seenJob := stJob
	if v, ok := s.viewOf("job", job.Name); ok && v != nil {
		seenJob = v.(*sev1alpha1.PodMigrationJob)
	}
	// --- finished stays finished
	if seenJob != nil && mgTerminal(seenJob.Status.Phase) {
		r.Fail("evict-after-terminal", string(seenJob.Status.Phase), "job %s is %s (%s) and the controller evicts pod %s", job.Name, seenJob.Status.Phase, seenJob.Status.Reason, pod.Name)
	}
	if stJob != nil && mgTerminal(stJob.Status.Phase) {
		r.Probe("relaxed:evict-on-stale-job-view")
	}
	// --- eviction only after capacity is secured elsewhere
	mode := string(job.Spec.Mode)
	if mode == "" {
		mode = s.cfg.DefaultMode
	}
	stPod := s.getPod(pod.Name)
	if mode == mgRF {
		r.Probe("evict-call:reservation-first")
		var ref *corev1.ObjectReference
		if job.Spec.ReservationOptions != nil {
			ref = job.Spec.ReservationOptions.ReservationRef
		}
		if ref == nil {
			r.Fail("evict-gate", "no-reservation", "job %s (reservation-first) evicts pod %s without having a reservation", job.Name, pod.Name)
		}
		// The verdict is taken on what the controller was served in this reconcile (nobody can observe cache lag): the call is
		// accepted if the gate holds for some served version of the reservation and of the pod, judged on the store's current
		// objects when it read none. The store-state verdict is counted separately.
		stR := s.getResv(ref.Name)
		target := pod.UID
		var rvs []*sev1alpha1.Reservation
		for _, v := range s.served["resv/"+ref.Name] {
			x, _ := v.(*sev1alpha1.Reservation)
			rvs = append(rvs, x)
		}
		if len(rvs) == 0 {
			rvs = append(rvs, stR)
		}
		var pods []*corev1.Pod
		for _, v := range s.served["pod/"+pod.Name] {
			x, _ := v.(*corev1.Pod)
			pods = append(pods, x)
		}
		if len(pods) == 0 {
			pods = append(pods, stPod)
		}
		cls := ""
		for i := len(rvs) - 1; i >= 0; i-- {
			for k := len(pods) - 1; k >= 0; k-- {
				c := s.resvClass(rvs[i], pods[k], target)
				if c == "" {
					cls = ""
					i = -1
					break
				}
				if cls == "" {
					cls = c // the verdict on the newest served pair names the violation
				}
			}
		}
		stCls := s.resvClass(stR, stPod, target)
		r.Event("evict job %d pod %s gate=%q store=%q", j.idx, pod.Name, cls, stCls)
		r.Sample("  Evict(job %d, pod %s on %q) received: reservation %s", j.idx, pod.Name, pod.Spec.NodeName, mgResvString(rvs[len(rvs)-1]))
		if cls != "" {
			r.Fail("evict-gate", cls, "job %s (reservation-first) evicts pod %s (node %q) while its reservation %s is %s: %s",
				job.Name, pod.Name, pod.Spec.NodeName, ref.Name, cls, mgResvString(rvs[len(rvs)-1]))
		}
		if stCls != "" {
			// the store moved on after the controller's (lagging) read: unavoidable, counted
			r.Probe("relaxed:evict-gate-on-stale-view:" + stCls)
		}
	} else {
		r.Probe("evict-call:evict-directly")
		r.Event("evict job %d pod %s direct", j.idx, pod.Name)
	}
	// --- at most one eviction per job (a repeat only directly after a lost / failed condition write or a lost eviction ack)
	var prevApplied *mgEvict
	for _, ev := range j.evicts {
		if ev.applied {
			prevApplied = ev
		}
	}
	if prevApplied != nil {
		ok := prevApplied.ackLost || prevApplied.condWrite == "failed" || prevApplied.condWrite == "lost"
		if !ok {
			r.Fail("double-eviction", "", "job %s evicts pod %s again although its previous eviction (seq %d) was carried out and recorded", job.Name, pod.Name, prevApplied.seq)
		}
		r.Probe("relaxed:repeat-eviction-after-failed-condition-write")
	}
	ev := &mgEvict{seq: seq}
	j.evicts = append(j.evicts, ev)
	s.lastEv = ev
	f := s.fault("evict", mgFEvictRefuse, mgFEvictLost)
	if f == mgFEvictRefuse {
		r.Probe("fault:evict-refused")
		return errors.New("verif: eviction refused (TooManyEvictions)")
	}
	ev.applied = true
	mp := s.podByName(pod.Name)
	if mp != nil && mp.exists && stPod != nil && stPod.UID == pod.UID {
		mp.evicted = true
		if r.Flip(0.25) { // zero grace period: gone at once
			s.removePod(mp)
			r.Probe("evicted-pod-gone-at-once")
		}
	} else {
		r.Probe("evict-of-vanished-pod")
	}
	if f == mgFEvictLost {
		ev.ackLost = true
		r.Probe("fault:evict-lost-ack")
		return mgLostAck()
	}
	return nil
}

func mgResvString(rv *sev1alpha1.Reservation) string {
	if rv == nil {
		return "<absent>"
	}
	var cs []string
	for _, c := range rv.Status.Conditions {
		cs = append(cs, fmt.Sprintf("%s=%s/%s", c.Type, c.Status, c.Reason))
	}
	var os []string
	for _, o := range rv.Status.CurrentOwners {
		os = append(os, o.Name)
	}
	return fmt.Sprintf("phase=%q node=%q conds=%v owners=%v", rv.Status.Phase, rv.Status.NodeName, cs, os)
}

// ---------------------------------------------------------------- preemption stub (only when cfg.Preempt)

type mgPreemptInterp struct {
	reservation.Interpreter
	s *mgSim
}

type mgPreemptObj struct {
	reservation.Object
	s *mgSim
}

func (o mgPreemptObj) NeedPreemption() bool { return o.s.preempt[o.GetName()] != nil }
func (o mgPreemptObj) GetPhase() sev1alpha1.ReservationPhase {
	p := o.Object.GetPhase()
	if o.s.preempt[o.GetName()] != nil && (p == "" || p == sev1alpha1.ReservationPending) {
		return sev1alpha1.ReservationPhase("NeedPreemption") // a preempting interpreter reports such a reservation as no longer pending
	}
	return p
}

func (i mgPreemptInterp) Preemption() reservation.Preemption { return i }
func (i mgPreemptInterp) GetReservation(ctx context.Context, ref *corev1.ObjectReference) (reservation.Object, error) {
	o, err := i.Interpreter.GetReservation(ctx, ref)
	if o != nil {
		o = mgPreemptObj{Object: o, s: i.s}
	}
	return o, err
}
func (i mgPreemptInterp) Preempt(ctx context.Context, job *sev1alpha1.PodMigrationJob, rv reservation.Object) (bool, reconcile.Result, error) {
	p := i.s.preempt[rv.GetName()]
	if p == nil {
		return false, reconcile.Result{}, errors.New("verif: nothing to preempt")
	}
	i.s.r.Probe("preempt-call:" + p.state)
	switch p.state {
	case "need":
		p.state = "progress"
		return false, reconcile.Result{RequeueAfter: defaultRequeueAfter}, nil
	case "progress":
		return false, reconcile.Result{RequeueAfter: defaultRequeueAfter}, nil
	}
	return true, reconcile.Result{}, nil
}

// ---------------------------------------------------------------- construction

func (s *mgSim) newReconciler() *Reconciler {
	s.inc++
	args := &deschedulerconfig.MigrationControllerArgs{
		DefaultJobMode: s.cfg.DefaultMode,
		DefaultJobTTL:  metav1.Duration{Duration: time.Duration(s.cfg.DefaultTTLS) * time.Second},
	}
	var interp reservation.Interpreter = reservation.NewInterpreter(&mgMgr{c: s.cl, api: mgAPIReader{s}})
	if s.cfg.Preempt {
		interp = mgPreemptInterp{Interpreter: interp, s: s}
	}
	rec := &Reconciler{
		Client:                 s.cl,
		args:                   args,
		eventRecorder:          &events.FakeRecorder{},
		reservationInterpreter: interp,
		evictorInterpreter:     mgEvictor{s},
		assumedCache:           newAssumedCache(),
		clock:                  clock.RealClock{},
		arbitrator:             mgArbitrator{},
		reconcilerUID:          types.UID(fmt.Sprintf("reconciler-%d", s.inc)),
	}
	rec.initObjectLimiters()
	return rec
}

func (mgEngine) Execute(r *sim.Run) {
	s := &mgSim{r: r, ctx: context.Background(), hist: map[string][]mgVer{}, cursor: map[string]int{}, view: map[string]mgView{}, served: map[string][]client.Object{}, preempt: map[string]*mgPreempt{}}
	r.Plan.GetCfg(&s.cfg)
	var ops []mgOp
	r.Plan.GetOps(&ops)
	if s.cfg.Nodes < 2 {
		s.cfg.Nodes = 2
	}
	if s.cfg.MaxLagS <= 0 {
		s.cfg.MaxLagS = 1
	}
	saved := UUIDGenerateFn
	defer func() { UUIDGenerateFn = saved }()
	UUIDGenerateFn = func() types.UID { return s.nextUID("gen") }

	scheme, decoder := mgScheme()
	s.base = fake.NewClientBuilder().WithScheme(scheme).WithObjectTracker(clientgotesting.NewObjectTracker(scheme, decoder)).
		WithStatusSubresource(&sev1alpha1.PodMigrationJob{}, &sev1alpha1.Reservation{}).Build()
	s.cl = interceptor.NewClient(s.base, s.funcs())
	s.rec = s.newReconciler()
	for i, ps := range s.cfg.Pods {
		s.pods = append(s.pods, &mgPod{idx: i, spec: ps, name: fmt.Sprintf("p%d", i)})
	}
	for i, js := range s.cfg.Jobs {
		if js.Pod < 0 || js.Pod >= len(s.pods) {
			js.Pod = 0
		}
		s.jobs = append(s.jobs, &mgJob{idx: i, spec: js})
	}
	if len(s.pods) == 0 {
		return
	}
	for _, p := range s.pods {
		s.createPod(p, s.nodeName(p.spec.Node))
	}
	// the pods are old news for every informer cache
	time.Sleep(10 * time.Minute)
	r.Sample("cfg mode=%s preempt=%v lag=%ds faults=%v rate=%.2f jobs=%+v pods=%+v", s.cfg.DefaultMode, s.cfg.Preempt, s.cfg.MaxLagS, r.Plan.Faults, r.Plan.FaultRate, s.cfg.Jobs, s.cfg.Pods)

	for _, op := range ops {
		s.apply(op)
		s.quiesce()
	}
	s.settle()
}

// ---------------------------------------------------------------- environment stubs

func (s *mgSim) createPod(p *mgPod, node string) {
	p.gen++
	p.uid = s.nextUID("pod")
	p.node = node
	p.exists, p.evicted = true, false
	ctl := true
	pod := &corev1.Pod{
		ObjectMeta: metav1.ObjectMeta{Name: p.name, Namespace: "default", UID: p.uid, CreationTimestamp: metav1.Now(),
			Labels:          map[string]string{"app": "w" + fmt.Sprint(p.idx)},
			OwnerReferences: []metav1.OwnerReference{{APIVersion: "apps/v1", Kind: "ReplicaSet", Name: "w" + fmt.Sprint(p.idx), UID: types.UID("rs-" + fmt.Sprint(p.idx)), Controller: &ctl}}},
		Spec: corev1.PodSpec{NodeName: node, Containers: []corev1.Container{{Name: "c", Image: "i"}}},
		Status: corev1.PodStatus{Phase: corev1.PodRunning, Conditions: []corev1.PodCondition{
			{Type: corev1.PodScheduled, Status: corev1.ConditionTrue}, {Type: corev1.PodReady, Status: corev1.ConditionTrue}}},
	}
	if p.spec.Pending && p.gen == 1 {
		p.node = ""
		pod.Spec.NodeName = ""
		pod.Status = corev1.PodStatus{Phase: corev1.PodPending, Conditions: []corev1.PodCondition{
			{Type: corev1.PodScheduled, Status: corev1.ConditionFalse, Reason: corev1.PodReasonUnschedulable, Message: "0/3 nodes are available"}}}
	}
	s.must(s.base.Create(s.ctx, pod), "create pod")
	s.record("pod", p.name)
}

func (s *mgSim) removePod(p *mgPod) {
	if o := s.getPod(p.name); o != nil {
		s.must(s.base.Delete(s.ctx, o), "delete pod")
	}
	p.exists, p.evicted, p.gone = false, false, true
	s.record("pod", p.name)
}

func (s *mgSim) newReservation(name string, p *mgPod) *sev1alpha1.Reservation {
	ctl := true
	return &sev1alpha1.Reservation{
		ObjectMeta: metav1.ObjectMeta{Name: name, UID: s.nextUID("resv"), CreationTimestamp: metav1.Now()},
		Spec: sev1alpha1.ReservationSpec{
			Template: &corev1.PodTemplateSpec{Spec: corev1.PodSpec{Containers: []corev1.Container{{Name: "c", Image: "i"}}}},
			Owners: []sev1alpha1.ReservationOwner{{Controller: &sev1alpha1.ReservationControllerReference{Namespace: "default",
				OwnerReference: metav1.OwnerReference{APIVersion: "apps/v1", Kind: "ReplicaSet", Name: "w" + fmt.Sprint(p.idx), UID: types.UID("rs-" + fmt.Sprint(p.idx)), Controller: &ctl}}}},
		},
	}
}

func (s *mgSim) setResvStatus(rv *sev1alpha1.Reservation, what string) {
	s.must(s.base.Status().Update(s.ctx, rv), what)
	s.record("resv", rv.Name)
}

func (s *mgSim) otherNode(p *mgPod, v int) string {
	base := 0
	if p.node != "" {
		fmt.Sscanf(p.node, "n%d", &base)
	}
	return s.nodeName(base + 1 + v%(s.cfg.Nodes-1))
}

func (s *mgSim) createJob(j *mgJob) {
	r := s.r
	p := s.pods[j.spec.Pod]
	if j.spec.ByController {
		// the real descheduler plugin path: Reconciler.Evict -> CreatePodMigrationJob
		pod := s.getPod(p.name)
		if pod == nil {
			r.OpSkipped()
			return
		}
		jc := &JobContext{Mode: sev1alpha1.PodMigrationJobMode(j.spec.Mode)}
		if j.spec.TTLS > 0 {
			d := time.Duration(j.spec.TTLS) * time.Second
			jc.Timeout = &d
		}
		s.creating = j
		ok := s.rec.Evict(WithContext(s.ctx, jc), pod, framework.EvictOptions{PluginName: "verif", Reason: "rebalance"})
		s.creating = nil
		r.Event("create job %d by controller -> %v created=%v", j.idx, ok, j.created)
		r.Probe("job-created-by-controller")
		if j.created {
			s.record("job", j.name)
		}
		r.OpDone()
		return
	}
	j.name = fmt.Sprintf("job-%d", j.idx)
	j.uid = s.nextUID("job")
	job := &sev1alpha1.PodMigrationJob{
		ObjectMeta: metav1.ObjectMeta{Name: j.name, UID: j.uid, CreationTimestamp: metav1.Now()},
		Spec: sev1alpha1.PodMigrationJobSpec{
			Paused: j.spec.Paused, Mode: sev1alpha1.PodMigrationJobMode(j.spec.Mode),
			PodRef: &corev1.ObjectReference{Namespace: "default", Name: p.name},
		},
	}
	if !j.spec.NoPodUID {
		job.Spec.PodRef.UID = p.uid
	}
	if j.spec.TTLS > 0 {
		job.Spec.TTL = &metav1.Duration{Duration: time.Duration(j.spec.TTLS) * time.Second}
	}
	if j.spec.Preset != "" {
		rn := "preset-" + fmt.Sprint(j.idx)
		rv := s.newReservation(rn, p)
		s.must(s.base.Create(s.ctx, rv), "create preset reservation")
		s.record("resv", rn)
		switch j.spec.Preset {
		case "avail-other", "bound-other", "consumed-unlisted":
			s.must(resvutil.SetReservationAvailable(rv, s.otherNode(p, j.idx)), "available")
			if j.spec.Preset == "bound-other" {
				rv.Status.CurrentOwners = []corev1.ObjectReference{{Namespace: "default", Name: "someone-else", UID: "uid-someone-else"}}
				resvutil.SetReservationSucceeded(rv)
			}
			if j.spec.Preset == "consumed-unlisted" {
				// consumed (Succeeded) by a pod that is not (any longer / yet) listed in status.currentOwners
				resvutil.SetReservationSucceeded(rv)
			}
			s.setResvStatus(rv, "preset status")
		case "avail-same":
			if p.node != "" {
				s.must(resvutil.SetReservationAvailable(rv, p.node), "available")
				s.setResvStatus(rv, "preset status")
			}
		}
		job.Spec.ReservationOptions = &sev1alpha1.PodMigrateReservationOptions{ReservationRef: &corev1.ObjectReference{
			Kind: "Reservation", APIVersion: "scheduling.koordinator.sh/v1alpha1", Name: rn, UID: rv.UID}}
		r.Probe("preset-reservation:" + j.spec.Preset)
	} else if j.spec.Template != "" {
		tpl := &sev1alpha1.ReservationTemplateSpec{ObjectMeta: metav1.ObjectMeta{Labels: map[string]string{"team": "a"}}}
		if j.spec.Template == "named" {
			tpl.Name = "user-resv-" + fmt.Sprint(j.idx)
		}
		job.Spec.ReservationOptions = &sev1alpha1.PodMigrateReservationOptions{Template: tpl}
		r.Probe("user-reservation-template:" + j.spec.Template)
	}
	s.must(s.base.Create(s.ctx, job), "create job")
	j.created = true
	s.record("job", j.name)
	r.Event("create job %d by user", j.idx)
	r.OpDone()
}

// tagReplacedOntoReservationNode marks the history class of a recorded defect: the target pod was replaced by a pod of the same
// name (new UID) on the very node the job's reservation is scheduled on, after the job recorded ReservationScheduled=True (the
// same-node check is not repeated) and without the new pod consuming the reservation.
func (s *mgSim) tagReplacedOntoReservationNode(p *mgPod, node string) {
	for _, j := range s.jobs {
		if !j.created || j.deleted || j.spec.Pod != p.idx {
			continue
		}
		o, _ := s.latest("job", j.name).(*sev1alpha1.PodMigrationJob)
		if o == nil || mgTerminal(o.Status.Phase) {
			continue
		}
		recorded := false
		for _, c := range o.Status.Conditions {
			if c.Type == sev1alpha1.PodMigrationJobConditionReservationScheduled && c.Status == sev1alpha1.PodMigrationJobConditionStatusTrue {
				recorded = true
			}
		}
		if rv := s.reservationOf(j); recorded && rv != nil && rv.Status.NodeName == node && len(rv.Status.CurrentOwners) == 0 {
			s.r.Tag("target-pod-replaced-onto-reservation-node")
		}
	}
}

// reservationOf returns the live reservation of a job (nil if none).
func (s *mgSim) reservationOf(j *mgJob) *sev1alpha1.Reservation {
	for _, n := range s.resvNames(j, s.getJob(j.name)) {
		if rv := s.getResv(n); rv != nil {
			return rv
		}
	}
	return nil
}

// envProgress lets the environment take its next natural step for a job.
func (s *mgSim) envProgress(j *mgJob, v int) bool {
	r := s.r
	p := s.pods[j.spec.Pod]
	rv := s.reservationOf(j)
	// 1. the scheduler deals with a pending reservation
	if rv != nil && (rv.Status.Phase == "" || rv.Status.Phase == sev1alpha1.ReservationPending) && rv.Status.NodeName == "" {
		if pre := s.preempt[rv.Name]; pre != nil {
			switch pre.state {
			case "need":
				return false // nobody preempts before the controller asks for it
			case "progress":
				pre.state = "done"
				r.Event("env job %d preemption completed for %s", j.idx, rv.Name)
				r.Probe("env:preemption-completed")
				return true
			default:
				n := s.otherNode(p, v)
				s.must(resvutil.SetReservationAvailable(rv, n), "available")
				s.setResvStatus(rv, "schedule after preemption")
				r.Event("env job %d reservation scheduled after preemption on %s", j.idx, n)
				return true
			}
		}
		switch d := v % 8; {
		case d == 4 && p.node != "":
			s.must(resvutil.SetReservationAvailable(rv, p.node), "available")
			s.setResvStatus(rv, "schedule same node")
			r.Event("env job %d reservation scheduled on the pod's node %s", j.idx, p.node)
			r.Probe("env:scheduled-same-node")
		case d == 5:
			resvutil.SetReservationUnschedulable(rv, "0/3 nodes are available: insufficient cpu")
			s.setResvStatus(rv, "unschedulable")
			r.Event("env job %d reservation unschedulable", j.idx)
			r.Probe("env:unschedulable")
		case d == 6 && s.cfg.Preempt:
			resvutil.SetReservationUnschedulable(rv, "preemption is needed")
			s.setResvStatus(rv, "unschedulable")
			s.preempt[rv.Name] = &mgPreempt{state: "need"}
			r.Event("env job %d reservation needs preemption", j.idx)
			r.Probe("env:needs-preemption")
		default:
			n := s.otherNode(p, v/8)
			s.must(resvutil.SetReservationAvailable(rv, n), "available")
			s.setResvStatus(rv, "schedule")
			r.Event("env job %d reservation scheduled on %s", j.idx, n)
			r.Probe("env:scheduled-other-node")
		}
		return true
	}
	// 2. the kubelet removes an evicted pod
	if p.exists && p.evicted {
		s.removePod(p)
		r.Event("env pod %s terminated", p.name)
		r.Probe("env:evicted-pod-terminated")
		return true
	}
	// 3. a pending pod is scheduled into the reservation made for it
	if p.exists && p.spec.Pending && p.gen == 1 && p.node == "" && rv != nil && rv.Status.Phase == sev1alpha1.ReservationAvailable && len(rv.Status.CurrentOwners) == 0 {
		pod := s.getPod(p.name)
		pod.Spec.NodeName = rv.Status.NodeName
		s.must(s.base.Update(s.ctx, pod), "bind pending pod")
		pod.Status.Conditions = []corev1.PodCondition{{Type: corev1.PodScheduled, Status: corev1.ConditionTrue}}
		s.must(s.base.Status().Update(s.ctx, pod), "bind pending pod (status)")
		s.record("pod", p.name)
		p.node = rv.Status.NodeName
		rv.Status.CurrentOwners = []corev1.ObjectReference{{Namespace: "default", Name: p.name, UID: p.uid}}
		resvutil.SetReservationSucceeded(rv)
		s.setResvStatus(rv, "bind pending pod")
		r.Event("env pending pod %s bound to its reservation", p.name)
		r.Probe("env:pending-pod-bound")
		return true
	}
	// 4. the workload controller replaces a pod that is gone; the scheduler may place it into the reservation
	if !p.exists && p.repl == "" {
		name := p.name
		if !p.spec.SameName {
			name = fmt.Sprintf("%s-r%d", p.name, p.gen)
		}
		node := s.otherNode(p, v)
		bind := rv != nil && rv.Status.Phase == sev1alpha1.ReservationAvailable && len(rv.Status.CurrentOwners) == 0 && v%5 != 0
		if bind {
			node = rv.Status.NodeName
		}
		uid := s.nextUID("pod")
		ctl := true
		pod := &corev1.Pod{
			ObjectMeta: metav1.ObjectMeta{Name: name, Namespace: "default", UID: uid, CreationTimestamp: metav1.Now(),
				OwnerReferences: []metav1.OwnerReference{{APIVersion: "apps/v1", Kind: "ReplicaSet", Name: "w" + fmt.Sprint(p.idx), UID: types.UID("rs-" + fmt.Sprint(p.idx)), Controller: &ctl}}},
			Spec:   corev1.PodSpec{NodeName: node, Containers: []corev1.Container{{Name: "c", Image: "i"}}},
			Status: corev1.PodStatus{Phase: corev1.PodPending, Conditions: []corev1.PodCondition{{Type: corev1.PodScheduled, Status: corev1.ConditionTrue}}},
		}
		s.must(s.base.Create(s.ctx, pod), "create replacement")
		s.record("pod", name)
		p.repl, p.replOK = name, false
		if p.spec.SameName {
			p.exists, p.uid, p.node, p.gen = true, uid, node, p.gen+1
		}
		if bind {
			rv.Status.CurrentOwners = []corev1.ObjectReference{{Namespace: "default", Name: name, UID: uid}}
			resvutil.SetReservationSucceeded(rv)
			s.setResvStatus(rv, "bind replacement")
			r.Probe("env:replacement-bound-to-reservation")
		} else {
			r.Probe("env:replacement-placed-elsewhere")
		}
		if p.spec.SameName {
			s.tagReplacedOntoReservationNode(p, node) // looks at every job that targets this pod name
		}
		r.Event("env replacement %s on %s bound=%v", name, node, bind)
		return true
	}
	// 5. the replacement becomes ready
	if p.repl != "" && !p.replOK {
		if pod := s.getPod(p.repl); pod != nil {
			pod.Status.Phase = corev1.PodRunning
			pod.Status.Conditions = append(pod.Status.Conditions, corev1.PodCondition{Type: corev1.PodReady, Status: corev1.ConditionTrue})
			s.must(s.base.Status().Update(s.ctx, pod), "ready")
			s.record("pod", p.repl)
		}
		p.replOK = true
		r.Event("env replacement %s ready", p.repl)
		r.Probe("env:replacement-ready")
		return true
	}
	return false
}

// deliverDeletes hands queued job delete events to the controller. An informer updates its store before it calls the
// handlers, so a delete event is delivered only once the cache can no longer serve the job (it was read fresh, or the lag
// bound has passed, or the settle phase caught the caches up) - never while a stale read could still return the object.
func (s *mgSim) deliverDeletes() {
	var keep []*mgJob
	for _, j := range s.delQ {
		if j.lastObj == nil {
			continue
		}
		k := "job/" + j.name
		if h := s.hist[k]; len(h) > 0 {
			if s.servable(k) < len(h)-1 {
				keep = append(keep, j) // the cache still holds the job: the event is yet to come
				s.r.Probe("job-delete-event-delayed-by-cache-lag")
				continue
			}
			s.cursor[k] = len(h) - 1
		}
		// what the DeleteFunc predicate registered in New() does with the final state of the object
		s.cur = j
		s.resetView()
		s.rec.assumedCache.delete(j.lastObj)
		err := s.rec.deleteReservation(s.ctx, j.lastObj.DeepCopy())
		s.cur = nil
		s.r.Event("job %d delete event handled err=%v", j.idx, err != nil)
		s.r.Probe("job-delete-event")
	}
	s.delQ = keep
}

func (s *mgSim) reconcile(j *mgJob) {
	r := s.r
	now := time.Now()
	if j.hasDue && !j.due.After(now) {
		j.hasDue = false
	}
	s.resetView()
	s.cur, s.lastEv, s.staleRun = j, nil, false
	if !j.deleted && j.lastObj != nil && j.lastObj.Spec.TTL != nil && j.lastObj.Spec.TTL.Duration > 0 &&
		now.Sub(j.lastObj.CreationTimestamp.Time) >= j.lastObj.Spec.TTL.Duration &&
		(j.lastObj.Spec.ReservationOptions == nil || j.lastObj.Spec.ReservationOptions.ReservationRef == nil) {
		for _, rn := range j.resvMade {
			if s.latest("resv", rn) != nil {
				// history class of a defect repaired by 150b625: a Reservation was created for the job, spec.reservationRef never
				// reached the store (lost create acknowledgement or failed job update) and the TTL has passed: counted
				r.Probe("ttl-passed-with-unpersisted-reservation-ref")
				if rn != string(j.uid) && !j.lastObj.Spec.Paused && !mgTerminal(j.lastObj.Status.Phase) {
					// history class of a recorded defect: as above, and the Reservation carries a name the user chose in
					// spec.reservationOptions.template (the clean-up of 150b625 looks only for a Reservation named after the job UID)
					r.Tag("ttl-passed-with-unpersisted-ref-of-user-named-reservation")
				}
			}
		}
	}
	res, err := s.rec.Reconcile(s.ctx, reconcile.Request{NamespacedName: types.NamespacedName{Name: j.name}})
	s.cur = nil
	if !j.deleted {
		switch {
		case err != nil:
			s.enqueue(j, time.Now().Add(time.Second)) // rate-limited retry
			r.Probe("reconcile-error")
		case res.RequeueAfter > 0:
			s.enqueue(j, time.Now().Add(res.RequeueAfter))
			r.Probe("reconcile-requeue-after")
		case res.Requeue:
			s.enqueue(j, time.Now())
		}
	}
	r.Event("rec job %d err=%v after=%v", j.idx, err != nil, res.RequeueAfter)
}

func (s *mgSim) apply(op mgOp) {
	r := s.r
	r.Sample("op %s job=%d v=%d d=%ds", op.K, op.J, op.V, op.D)
	var j *mgJob
	if op.J >= 0 && op.J < len(s.jobs) {
		j = s.jobs[op.J]
	}
	needJob := func() bool {
		if j == nil || !j.created || j.deleted {
			r.OpSkipped()
			return false
		}
		return true
	}
	switch op.K {
	case "create":
		if j == nil || j.created {
			r.OpSkipped()
			return
		}
		s.createJob(j)
	case "rec":
		if j == nil || !j.created {
			r.OpSkipped()
			return
		}
		s.reconcile(j) // also for deleted jobs: a late request finds nothing
		r.OpDone()
	case "work":
		if op.D > 0 {
			time.Sleep(time.Duration(op.D) * time.Second)
		}
		n := 0
		for n < 8 {
			var due []*mgJob
			for _, x := range s.jobs {
				if x.created && !x.deleted && x.hasDue && !x.due.After(time.Now()) {
					due = append(due, x)
				}
			}
			if len(due) == 0 {
				break
			}
			s.reconcile(due[r.Choose(len(due))])
			s.quiesce()
			n++
		}
		if n == 0 {
			r.OpSkipped()
		} else {
			r.OpDone()
		}
	case "env":
		if !needJob() {
			return
		}
		if s.envProgress(j, op.V) {
			r.OpDone()
		} else {
			r.OpSkipped()
		}
	case "expire":
		if !needJob() {
			return
		}
		rv := s.reservationOf(j)
		if rv == nil || (rv.Status.Phase != "" && rv.Status.Phase != sev1alpha1.ReservationPending && rv.Status.Phase != sev1alpha1.ReservationAvailable) {
			r.OpSkipped()
			return
		}
		resvutil.SetReservationExpired(rv)
		s.setResvStatus(rv, "expire")
		r.Event("env job %d reservation expired", j.idx)
		r.Probe("env:reservation-expired")
		r.OpDone()
	case "delresv":
		if !needJob() {
			return
		}
		rv := s.reservationOf(j)
		if rv == nil {
			r.OpSkipped()
			return
		}
		s.must(s.base.Delete(s.ctx, rv), "delete reservation")
		s.record("resv", rv.Name)
		r.Event("env job %d reservation deleted", j.idx)
		r.Probe("env:reservation-deleted")
		r.OpDone()
	case "bindother":
		if !needJob() {
			return
		}
		rv := s.reservationOf(j)
		if rv == nil || rv.Status.Phase != sev1alpha1.ReservationAvailable || len(rv.Status.CurrentOwners) > 0 {
			r.OpSkipped()
			return
		}
		listed := op.V%4 != 3
		if listed {
			rv.Status.CurrentOwners = []corev1.ObjectReference{{Namespace: "default", Name: "scale-up-" + fmt.Sprint(j.idx), UID: s.nextUID("pod")}}
		}
		// else: the consumer is not listed (it has already gone again, or the owners list is not filled in yet): the allocate-once
		// reservation is used up all the same (phase Succeeded)
		resvutil.SetReservationSucceeded(rv)
		s.setResvStatus(rv, "bind other")
		r.Event("env job %d reservation consumed by another pod (listed=%v)", j.idx, listed)
		r.Probe("env:reservation-bound-by-other")
		if !listed {
			r.Probe("env:reservation-consumed-consumer-unlisted")
		}
		r.OpDone()
	case "delpod":
		if !needJob() {
			return
		}
		p := s.pods[j.spec.Pod]
		if !p.exists {
			r.OpSkipped()
			return
		}
		s.removePod(p)
		r.Event("env pod %s deleted", p.name)
		r.Probe("env:pod-deleted")
		r.OpDone()
	case "replpod":
		if !needJob() {
			return
		}
		p := s.pods[j.spec.Pod]
		if !p.exists || !p.spec.SameName || (p.spec.Pending && p.gen == 1) {
			r.OpSkipped()
			return
		}
		node := p.node
		if op.V%2 == 1 {
			node = s.otherNode(p, op.V)
		}
		s.removePod(p)
		s.createPod(p, node)
		s.tagReplacedOntoReservationNode(p, node)
		r.Event("env pod %s replaced (same name, new uid) on %s", p.name, node)
		r.Probe("env:pod-replaced-same-name")
		r.OpDone()
	case "pause", "unpause":
		if !needJob() {
			return
		}
		o := s.getJob(j.name)
		want := op.K == "pause"
		if o == nil || o.Spec.Paused == want {
			r.OpSkipped()
			return
		}
		o.Spec.Paused = want
		s.must(s.base.Update(s.ctx, o), op.K)
		s.record("job", j.name)
		r.Event("user %s job %d", op.K, j.idx)
		r.Probe("user:" + op.K)
		r.OpDone()
	case "deljob":
		if !needJob() {
			return
		}
		if o := s.getJob(j.name); o != nil {
			s.must(s.base.Delete(s.ctx, o), "delete job")
		}
		s.record("job", j.name)
		r.Probe("user:delete-job")
		r.OpDone()
	case "sleep":
		if op.D <= 0 {
			r.OpSkipped()
			return
		}
		time.Sleep(time.Duration(op.D) * time.Second)
		r.Event("sleep %ds", op.D)
		r.OpDone()
	case "restart":
		s.rec = s.newReconciler()
		for k, h := range s.hist { // a fresh informer cache starts from a fresh list
			s.cursor[k] = len(h) - 1
		}
		s.delQ = nil // jobs deleted before the new process listed them produce no delete event in it
		for _, x := range s.jobs {
			if x.created && !x.deleted {
				x.hasDue = false
				s.enqueue(x, time.Now())
			}
		}
		r.Event("restart -> %s", s.rec.reconcilerUID)
		r.Probe("restart")
		r.OpDone()
	case "scavenge":
		s.resetView()
		s.rec.doScavenge()
		r.Event("scavenge")
		r.Probe("scavenge")
		r.OpDone()
	default:
		r.OpSkipped()
	}
}

// quiesce runs after every event: pending delete events are handled and the canonical state enters the event log.
func (s *mgSim) quiesce() {
	s.deliverDeletes()
	var sb strings.Builder
	for _, j := range s.jobs {
		if !j.created {
			continue
		}
		o, _ := s.latest("job", j.name).(*sev1alpha1.PodMigrationJob)
		if o == nil {
			fmt.Fprintf(&sb, "j%d:gone;", j.idx)
			continue
		}
		rvs := "-"
		if rv := s.reservationOf(j); rv != nil {
			rvs = fmt.Sprintf("%s@%s/%d", rv.Status.Phase, rv.Status.NodeName, len(rv.Status.CurrentOwners))
		}
		p := s.pods[j.spec.Pod]
		fmt.Fprintf(&sb, "j%d:%s/%s/%s p=%v,%v,%s r=%s e=%d;", j.idx, o.Status.Phase, o.Status.Status, o.Status.Reason, p.exists, p.evicted, p.repl, rvs, len(j.evicts))
	}
	s.r.Event("state %s", sb.String())
}

// ---------------------------------------------------------------- bounded liveness after the last fault

func (s *mgSim) settle() {
	r := s.r
	s.settling = true
	for k, h := range s.hist { // the caches catch up
		s.cursor[k] = len(h) - 1
	}
	s.quiesce()
	for {
		var next *mgJob
		for _, j := range s.jobs {
			if !j.created || j.deleted || !j.hasDue || j.settleN >= mgSettleN {
				continue
			}
			if next == nil || j.due.Before(next.due) {
				next = j
			}
		}
		if next == nil {
			break
		}
		if d := next.due.Sub(time.Now()); d > 0 {
			time.Sleep(d)
		}
		next.settleN++
		s.reconcile(next)
		s.quiesce()
	}
	for _, j := range s.jobs {
		if !j.created || j.deleted {
			continue
		}
		o := s.getJob(j.name)
		if o == nil {
			continue
		}
		r.OracleEval()
		if mgTerminal(o.Status.Phase) || o.Status.Phase == sev1alpha1.PodMigrationJobAborted {
			r.Probe("settled:terminal:" + string(o.Status.Phase))
			continue
		}
		why := s.waitReason(j, o)
		r.Probe("settled:wait:" + why)
		if why == "" {
			r.Fail("no-progress", string(o.Status.Phase)+"/"+o.Status.Status, "after %d fault-free reconciles job %s is still %s (status %q reason %q) although nothing it could wait for is outstanding: reservation %s, pod exists=%v evicted=%v replacement=%q ready=%v",
				j.settleN, j.name, o.Status.Phase, o.Status.Status, o.Status.Reason, mgResvString(s.reservationOf(j)), s.pods[j.spec.Pod].exists, s.pods[j.spec.Pod].evicted, s.pods[j.spec.Pod].repl, s.pods[j.spec.Pod].replOK)
		}
		if why != "paused" && why != "foreign-reconciler" && !j.hasDue {
			r.Fail("lost-wakeup", why, "job %s is %s and waits (%s) but no reconcile is scheduled for it: last result had no requeue and no event is outstanding", j.name, o.Status.Phase, why)
		}
	}
}

// waitReason names what a non-terminal job may legitimately be waiting for ("" = nothing).
func (s *mgSim) waitReason(j *mgJob, o *sev1alpha1.PodMigrationJob) string {
	if o.Spec.Paused {
		return "paused"
	}
	if by, ok := o.Annotations[AnnotationJobCreatedBy]; ok && by != string(s.rec.reconcilerUID) {
		return "foreign-reconciler"
	}
	p := s.pods[j.spec.Pod]
	mode := string(o.Spec.Mode)
	if mode == "" {
		mode = s.cfg.DefaultMode
	}
	if p.exists && p.evicted {
		return "evicted-pod-terminating"
	}
	if mode == mgED {
		return ""
	}
	hasRef := o.Spec.ReservationOptions != nil && o.Spec.ReservationOptions.ReservationRef != nil
	rv := s.reservationOf(j)
	if hasRef && rv == nil {
		// the statement does not say what becomes of such a job; the controller retries with an error for ever (reported, not a violation)
		return "reservation-missing"
	}
	if rv == nil {
		return ""
	}
	if rv.Status.Phase == "" || rv.Status.Phase == sev1alpha1.ReservationPending {
		if pre := s.preempt[rv.Name]; pre != nil {
			return "preemption-" + pre.state
		}
		return "reservation-pending"
	}
	if rv.Status.Phase == sev1alpha1.ReservationFailed {
		return ""
	}
	if p.spec.Pending && p.gen == 1 && p.exists && p.node == "" {
		return "pending-pod-unscheduled"
	}
	if len(rv.Status.CurrentOwners) == 0 {
		accepted := 0
		for _, ev := range j.evicts {
			if ev.applied {
				accepted++
			}
		}
		if accepted > 0 || !p.exists || p.gone {
			return "pod-not-bound-to-reservation-yet"
		}
		return ""
	}
	if p.repl != "" && !p.replOK && rv.Status.CurrentOwners[0].Name == p.repl {
		return "bound-pod-not-ready"
	}
	return ""
}
