//go:build verif

package deviceshare

// Engine `devicerace` (C07, lock level): the goroutines that touch the deviceshare node ledgers in a running
// scheduler - the Device informer handler (onDeviceAdd / onDeviceUpdate / onDeviceDelete), the pod informer handler
// (onPodAdd / onPodUpdate / onPodDelete), the scheduling goroutine (Plugin.PreFilter / Filter / Reserve) and the binding
// goroutine (bind = a pod update in the API store, or Plugin.Unreserve) - run as separate actors over a small
// in-memory API store with one ordered event queue per kind. Every lock acquisition of the deviceshare package (and,
// with yield_after_unlock / split_rmw, every explicit unlock and every unprotected write to a ledger) is a scheduling
// point decided by the simulator. The history is cut into bursts; when all actors of a burst have drained, the live
// ledgers are compared with a recomputation from the store alone, written from the statement of C07:
//
//	total = what the Device object of the node says (nothing when there is none),
//	used  = sum of the recorded allocations of the live assigned pods + what in-flight scheduling cycles have reserved,
//	free  = total - used (not below zero), nothing negative, the allocate set names exactly those pods,
//	no ledger for a node that is not a node of the cluster.
//
// The generator stays out of the history classes of the defects recorded for C07 in known_findings.jsonl (they are the
// business of the operation-level engine `device`): a bind is never reported as failed after it was applied, recorded
// allocations are never rewritten, consecutive updates are never merged, pod names are never reused and no request is
// denominated in bytes.

import (
	"context"
	"fmt"
	"io"
	"sort"
	"strings"
	"testing"

	corev1 "k8s.io/api/core/v1"
	"k8s.io/apimachinery/pkg/api/resource"
	metav1 "k8s.io/apimachinery/pkg/apis/meta/v1"
	"k8s.io/apimachinery/pkg/types"
	"k8s.io/client-go/tools/cache"
	"k8s.io/klog/v2"
	fwktype "k8s.io/kube-scheduler/framework"
	"k8s.io/kubernetes/pkg/scheduler/framework"

	apiext "github.com/koordinator-sh/koordinator/apis/extension"
	schedulingv1alpha1 "github.com/koordinator-sh/koordinator/apis/scheduling/v1alpha1"
	koordclientset "github.com/koordinator-sh/koordinator/pkg/client/clientset/versioned"
	koordinatorinformers "github.com/koordinator-sh/koordinator/pkg/client/informers/externalversions"
	"github.com/koordinator-sh/koordinator/pkg/scheduler/frameworkext"
	sim "github.com/koordinator-sh/koordinator/pkg/verifsim"
)

func TestVerifSim(t *testing.T) {
	// the code under test logs every unhealthy device at error level
	klog.LogToStderr(false)
	klog.SetOutput(io.Discard)
	sim.Main(t, &drEngine{})
}

type drEngine struct{}

func (drEngine) Name() string { return "devicerace" }

// the informer factory is never started, so it needs no client
var drNoClient koordclientset.Interface

const (
	drGPU  = string(schedulingv1alpha1.GPU)
	drRDMA = string(schedulingv1alpha1.RDMA)
	drNS   = "default"
	// memory of one GPU in bytes (16Gi: not a multiple of 100, a percentage of it is in general not a whole number of bytes)
	drGPUMem = int64(16) << 30
)

// ---------------------------------------------------------------- plan types

type drCfg struct {
	Nodes int `json:"nodes"`
}

// drDev is one device of a node's inventory.
type drDev struct {
	T string `json:"t"`
	M int    `json:"m"`
	H bool   `json:"h"`
}

// drReq: N distinct devices of type T, Pct percent of each.
type drReq struct {
	T   string `json:"t"`
	N   int    `json:"n"`
	Pct int64  `json:"pct"`
}

type drOp struct {
	K        string  `json:"k"` // dev_set | dev_del | pod_create | pod_foreign | pod_term | pod_delete | pod_resync | schedule | barrier
	Node     string  `json:"node,omitempty"`
	Devs     []drDev `json:"devs,omitempty"`
	Pod      string  `json:"pod,omitempty"`
	Req      *drReq  `json:"req,omitempty"`
	Minors   []int   `json:"minors,omitempty"`   // pod_foreign: the devices the other scheduler instance handed out
	Pick     int     `json:"pick,omitempty"`     // schedule: which of the feasible nodes
	Rollback bool    `json:"rollback,omitempty"` // schedule: the binding cycle fails before anything is written (Unreserve)
	Hold     int     `json:"hold,omitempty"`     // schedule: the binding cycle runs that many bursts later
}

func (q *drReq) perDevice() corev1.ResourceList {
	if q.T == drRDMA {
		return corev1.ResourceList{apiext.ResourceRDMA: *resource.NewQuantity(q.Pct, resource.DecimalSI)}
	}
	return corev1.ResourceList{
		apiext.ResourceGPUCore:        *resource.NewQuantity(q.Pct, resource.DecimalSI),
		apiext.ResourceGPUMemoryRatio: *resource.NewQuantity(q.Pct, resource.DecimalSI),
		apiext.ResourceGPUMemory:      *resource.NewQuantity(q.Pct*drGPUMem/100, resource.BinarySI), // as another instance of this scheduler records it
	}
}

func (q *drReq) podResources() corev1.ResourceList {
	n := int64(q.N)
	if q.T == drRDMA {
		return corev1.ResourceList{apiext.ResourceRDMA: *resource.NewQuantity(n*q.Pct, resource.DecimalSI)}
	}
	return corev1.ResourceList{apiext.ResourceGPU: *resource.NewQuantity(n*q.Pct, resource.DecimalSI)}
}

// ---------------------------------------------------------------- API store

type drPod struct {
	Name  string
	UID   string
	RV    int
	Req   drReq
	Node  string
	Ann   string // device-allocated annotation ("" = none)
	Phase corev1.PodPhase
}

type drDevObj struct {
	RV   int
	UID  string
	Devs []drDev
}

type drEvent struct {
	kind string // add | update | delete
	name string
	old  any
	new  any
}

type drStore struct {
	nodes  int
	rv     int
	uidSeq int
	pods   map[string]*drPod
	devs   map[string]*drDevObj
	names  map[string]bool // pod names ever used (never reused)
}

func drNodeIdx(node string) int {
	i := -1
	fmt.Sscanf(node, "n%d", &i)
	return i
}

func (p *drPod) obj() *corev1.Pod {
	rl := p.Req.podResources()
	pod := &corev1.Pod{
		ObjectMeta: metav1.ObjectMeta{Name: p.Name, Namespace: drNS, UID: types.UID(p.UID), ResourceVersion: fmt.Sprint(p.RV)},
		Spec: corev1.PodSpec{NodeName: p.Node, Containers: []corev1.Container{{Name: "c",
			Resources: corev1.ResourceRequirements{Requests: rl, Limits: rl.DeepCopy()}}}},
		Status: corev1.PodStatus{Phase: p.Phase},
	}
	if p.Ann != "" {
		pod.Annotations = map[string]string{apiext.AnnotationDeviceAllocated: p.Ann}
	}
	return pod
}

func drDevResources(d drDev) corev1.ResourceList {
	if d.T == drRDMA {
		return corev1.ResourceList{apiext.ResourceRDMA: *resource.NewQuantity(100, resource.DecimalSI)}
	}
	return corev1.ResourceList{
		apiext.ResourceGPUCore:        *resource.NewQuantity(100, resource.DecimalSI),
		apiext.ResourceGPUMemoryRatio: *resource.NewQuantity(100, resource.DecimalSI),
		apiext.ResourceGPUMemory:      *resource.NewQuantity(drGPUMem, resource.BinarySI),
	}
}

func drDevObject(node string, o *drDevObj) *schedulingv1alpha1.Device {
	d := &schedulingv1alpha1.Device{ObjectMeta: metav1.ObjectMeta{Name: node, UID: types.UID(o.UID), ResourceVersion: fmt.Sprint(o.RV)}}
	for _, x := range o.Devs {
		m := int32(x.M)
		d.Spec.Devices = append(d.Spec.Devices, schedulingv1alpha1.DeviceInfo{
			Type: schedulingv1alpha1.DeviceType(x.T), Minor: &m, UUID: fmt.Sprintf("%s-%s-%d", node, x.T, x.M), Health: x.H, Resources: drDevResources(x)})
	}
	return d
}

// drAnnotation is the device-allocated annotation another scheduler instance writes for the request on the given minors.
func drAnnotation(q *drReq, minors []int) string {
	allocs := apiext.DeviceAllocations{}
	for k := 0; k < q.N && k < len(minors); k++ {
		allocs[schedulingv1alpha1.DeviceType(q.T)] = append(allocs[schedulingv1alpha1.DeviceType(q.T)],
			&apiext.DeviceAllocation{Minor: int32(minors[k]), Resources: q.perDevice()})
	}
	return drEncode(allocs)
}

func drEncode(allocs apiext.DeviceAllocations) string {
	if len(allocs) == 0 {
		return ""
	}
	holder := &corev1.Pod{}
	if err := apiext.SetDeviceAllocations(holder, allocs); err != nil {
		panic(err)
	}
	return holder.Annotations[apiext.AnnotationDeviceAllocated]
}

func drDistinct(minors []int, n int) bool {
	if len(minors) < n {
		return false
	}
	seen := map[int]bool{}
	for _, m := range minors[:n] {
		if m < 0 || seen[m] {
			return false
		}
		seen[m] = true
	}
	return true
}

func drValidReq(q *drReq) bool {
	return q != nil && (q.T == drGPU || q.T == drRDMA) && q.N >= 1 && q.N <= 4 && q.Pct >= 1 && q.Pct <= 100 && (q.N == 1 || q.Pct == 100)
}

// apply executes one API write; it returns the watch events it produces (ok=false: not applicable in this state).
// gen=true is the generator's optimistic mode (it cannot know which pods the scheduler will have bound).
func (s *drStore) apply(op *drOp, gen bool) (evs []drEvent, pod bool, ok bool) {
	switch op.K {
	case "dev_set":
		if i := drNodeIdx(op.Node); i < 0 || i >= s.nodes {
			return nil, false, false
		}
		seen := map[string]bool{}
		for _, d := range op.Devs {
			k := fmt.Sprintf("%s/%d", d.T, d.M)
			if seen[k] || d.M < 0 || d.M > 7 || (d.T != drGPU && d.T != drRDMA) {
				return nil, false, false
			}
			seen[k] = true
		}
		s.rv++
		old := s.devs[op.Node]
		if old == nil {
			s.uidSeq++
			o := &drDevObj{RV: s.rv, UID: fmt.Sprintf("dev-%d", s.uidSeq), Devs: op.Devs}
			s.devs[op.Node] = o
			return []drEvent{{kind: "add", name: op.Node, new: drDevObject(op.Node, o)}}, false, true
		}
		o := &drDevObj{RV: s.rv, UID: old.UID, Devs: op.Devs}
		s.devs[op.Node] = o
		return []drEvent{{kind: "update", name: op.Node, old: drDevObject(op.Node, old), new: drDevObject(op.Node, o)}}, false, true
	case "dev_del":
		old := s.devs[op.Node]
		if old == nil {
			return nil, false, false
		}
		delete(s.devs, op.Node)
		return []drEvent{{kind: "delete", name: op.Node, old: drDevObject(op.Node, old)}}, false, true
	case "pod_create":
		if op.Pod == "" || s.names[op.Pod] || !drValidReq(op.Req) {
			return nil, true, false
		}
		s.rv++
		s.uidSeq++
		p := &drPod{Name: op.Pod, UID: fmt.Sprintf("uid-%d", s.uidSeq), RV: s.rv, Req: *op.Req, Phase: corev1.PodPending}
		s.pods[p.Name], s.names[p.Name] = p, true
		return []drEvent{{kind: "add", name: p.Name, new: p.obj()}}, true, true
	case "pod_foreign": // bound by another scheduler instance: arrives assigned, with its allocation recorded
		if op.Pod == "" || s.names[op.Pod] || !drValidReq(op.Req) || !drDistinct(op.Minors, op.Req.N) {
			return nil, true, false
		}
		if i := drNodeIdx(op.Node); i < 0 || i >= s.nodes {
			return nil, true, false
		}
		s.rv++
		s.uidSeq++
		p := &drPod{Name: op.Pod, UID: fmt.Sprintf("uid-%d", s.uidSeq), RV: s.rv, Req: *op.Req, Node: op.Node, Phase: corev1.PodRunning}
		p.Ann = drAnnotation(op.Req, op.Minors)
		s.pods[p.Name], s.names[p.Name] = p, true
		return []drEvent{{kind: "add", name: p.Name, new: p.obj()}}, true, true
	case "pod_term":
		old := s.pods[op.Pod]
		if old == nil {
			return nil, true, false
		}
		if gen {
			return nil, true, true
		}
		if old.Node == "" || old.Phase == corev1.PodSucceeded {
			return nil, true, false
		}
		p := *old
		p.Phase = corev1.PodSucceeded
		s.rv++
		p.RV = s.rv
		s.pods[p.Name] = &p
		return []drEvent{{kind: "update", name: p.Name, old: old.obj(), new: p.obj()}}, true, true
	case "pod_delete":
		old := s.pods[op.Pod]
		if old == nil {
			return nil, true, false
		}
		delete(s.pods, op.Pod)
		return []drEvent{{kind: "delete", name: old.Name, old: old.obj()}}, true, true
	case "pod_resync":
		cur := s.pods[op.Pod]
		if cur == nil {
			return nil, true, false
		}
		return []drEvent{{kind: "update", name: cur.Name, old: cur.obj(), new: cur.obj()}}, true, true
	}
	return nil, false, false
}

// ---------------------------------------------------------------- generation

func drGenInventory(g *sim.Rng) []drDev {
	var out []drDev
	for i, n := 0, g.PickInt(1, 2, 2, 4); i < n; i++ {
		out = append(out, drDev{T: drGPU, M: i, H: !g.Bool(0.08)})
	}
	for i, n := 0, g.PickInt(0, 1, 2); i < n; i++ {
		out = append(out, drDev{T: drRDMA, M: i, H: true})
	}
	return out
}

func drMutateInventory(g *sim.Rng, cur []drDev) []drDev {
	out := append([]drDev(nil), cur...)
	switch x := g.Intn(4); {
	case x == 0 && len(out) > 0: // health flips
		i := g.Intn(len(out))
		out[i].H = !out[i].H
	case x == 1 && len(out) > 1: // a device disappears from the report
		i := g.Intn(len(out))
		out = append(out[:i:i], out[i+1:]...)
	case x == 2: // a device (re)appears
		t := g.Pick(drGPU, drGPU, drRDMA)
		used := map[int]bool{}
		for _, d := range out {
			if d.T == t {
				used[d.M] = true
			}
		}
		for m := 0; m < 5; m++ {
			if !used[m] {
				out = append(out, drDev{T: t, M: m, H: true})
				break
			}
		}
	default: // everything healthy again
		for i := range out {
			out[i].H = true
		}
	}
	sort.SliceStable(out, func(i, j int) bool {
		if out[i].T != out[j].T {
			return out[i].T < out[j].T
		}
		return out[i].M < out[j].M
	})
	return out
}

func drGenReq(g *sim.Rng) *drReq {
	if g.Bool(0.25) {
		return &drReq{T: drRDMA, N: 1, Pct: g.PickI64(100, 50, 25)}
	}
	switch g.Intn(3) {
	case 0:
		return &drReq{T: drGPU, N: 1, Pct: 100}
	case 1:
		return &drReq{T: drGPU, N: 1, Pct: g.PickI64(25, 50, 50, 75)}
	}
	return &drReq{T: drGPU, N: 2, Pct: 100}
}

func (drEngine) Generate(p *sim.Plan, g *sim.Rng) {
	cfg := drCfg{Nodes: g.PickInt(2, 3, 3)}
	st := &drStore{nodes: cfg.Nodes, pods: map[string]*drPod{}, devs: map[string]*drDevObj{}, names: map[string]bool{}}
	nOps := g.Range(5, 40)
	var ops []drOp
	add := func(op drOp) bool {
		if op.K == "schedule" || op.K == "barrier" {
			ops = append(ops, op)
			return true
		}
		if _, _, ok := st.apply(&op, true); ok {
			ops = append(ops, op)
			return true
		}
		return false
	}
	nodeName := func(i int) string { return fmt.Sprintf("n%d", i) }
	inv := map[string][]drDev{}
	var pods []string
	scheduled := map[string]bool{}
	np, nf := 0, 0
	pickPod := func() string {
		if len(pods) == 0 {
			return ""
		}
		return pods[g.Intn(len(pods))]
	}
	foreign := func(node string) {
		q := drGenReq(g)
		var have []int
		for _, d := range inv[node] {
			if d.T == q.T {
				have = append(have, d.M)
			}
		}
		var minors []int
		if len(have) >= q.N && !g.Bool(0.1) {
			for _, i := range g.Perm(len(have))[:q.N] {
				minors = append(minors, have[i])
			}
		} else {
			minors = g.Perm(4)[:q.N] // devices the node does not (yet, or no longer) report
		}
		sort.Ints(minors)
		name := fmt.Sprintf("f%d", nf)
		nf++
		if add(drOp{K: "pod_foreign", Pod: name, Node: node, Req: q, Minors: minors}) {
			pods = append(pods, name)
			scheduled[name] = true
		}
	}
	// The nodes join one after the other: the koordlet of a node creates its Device object while pods that another
	// scheduler instance bound there (fail-over, several schedulers) are being listed - in any order, usually within
	// one burst, so that the first touch of a node's ledger can come from either informer.
	for _, i := range g.Perm(cfg.Nodes) {
		node := nodeName(i)
		inv[node] = drGenInventory(g)
		var first []func()
		if g.Bool(0.9) {
			first = append(first, func() { add(drOp{K: "dev_set", Node: node, Devs: inv[node]}) })
		}
		for k := g.PickInt(0, 1, 1, 2); k > 0; k-- {
			first = append(first, func() { foreign(node) })
		}
		for _, j := range g.Perm(len(first)) {
			first[j]()
		}
		if g.Bool(0.5) {
			add(drOp{K: "barrier"})
		}
	}
	recreate := map[string]int{}
	for len(ops) < nOps {
		for i := 0; i < cfg.Nodes; i++ {
			node := nodeName(i)
			if c, ok := recreate[node]; ok {
				if c <= 0 {
					delete(recreate, node)
					add(drOp{K: "dev_set", Node: node, Devs: inv[node]})
				} else {
					recreate[node] = c - 1
				}
			}
		}
		switch x := g.Intn(100); {
		case x < 20:
			name := fmt.Sprintf("p%d", np)
			np++
			if add(drOp{K: "pod_create", Pod: name, Req: drGenReq(g)}) {
				pods = append(pods, name)
			}
		case x < 48:
			pod := pickPod()
			for k := 0; k < 4 && pod != "" && (scheduled[pod] || st.pods[pod] == nil) && !g.Bool(0.15); k++ {
				pod = pickPod()
			}
			if pod != "" {
				add(drOp{K: "schedule", Pod: pod, Pick: g.Intn(6), Rollback: g.Bool(0.25), Hold: g.PickInt(0, 0, 0, 1, 1, 2)})
				scheduled[pod] = true
			}
		case x < 58:
			foreign(nodeName(g.Intn(cfg.Nodes)))
		case x < 65:
			if pod := pickPod(); pod != "" {
				add(drOp{K: "pod_delete", Pod: pod})
			}
		case x < 71:
			if pod := pickPod(); pod != "" && scheduled[pod] {
				add(drOp{K: "pod_term", Pod: pod})
			}
		case x < 82:
			node := nodeName(g.Intn(cfg.Nodes))
			if _, ok := inv[node]; !ok || g.Bool(0.1) {
				inv[node] = drGenInventory(g)
			} else {
				inv[node] = drMutateInventory(g, inv[node])
			}
			add(drOp{K: "dev_set", Node: node, Devs: inv[node]})
		case x < 85:
			node := nodeName(g.Intn(cfg.Nodes))
			if add(drOp{K: "dev_del", Node: node}) && g.Bool(0.8) {
				recreate[node] = g.Range(0, 3)
			}
		case x < 89:
			if pod := pickPod(); pod != "" {
				add(drOp{K: "pod_resync", Pod: pod})
			}
		default:
			add(drOp{K: "barrier"})
		}
	}
	p.SetCfg(cfg)
	p.SetOps(ops)
}

// ---------------------------------------------------------------- framework stubs

type drSnapshot struct {
	infos map[string]*framework.NodeInfo
	names []string
}

func (f *drSnapshot) NodeInfos() fwktype.NodeInfoLister       { return f }
func (f *drSnapshot) StorageInfos() fwktype.StorageInfoLister { return f }
func (f *drSnapshot) IsPVCUsedByPods(key string) bool         { return false }
func (f *drSnapshot) List() ([]fwktype.NodeInfo, error) {
	var out []fwktype.NodeInfo
	for _, n := range f.names {
		out = append(out, f.infos[n])
	}
	return out, nil
}
func (f *drSnapshot) HavePodsWithAffinityList() ([]fwktype.NodeInfo, error)             { return nil, nil }
func (f *drSnapshot) HavePodsWithRequiredAntiAffinityList() ([]fwktype.NodeInfo, error) { return nil, nil }
func (f *drSnapshot) Get(nodeName string) (fwktype.NodeInfo, error) {
	ni, ok := f.infos[nodeName]
	if !ok {
		return nil, fmt.Errorf("unable to find node: %s", nodeName)
	}
	return ni, nil
}

// drHandle is the part of the scheduler framework handle the plugin touches on the exercised paths; any other method
// panics (nil embedded interface) and is reported as harness trouble.
type drHandle struct {
	frameworkext.ExtendedHandle
	snapshot  *drSnapshot
	koordFac  koordinatorinformers.SharedInformerFactory
	nominator frameworkext.ReservationNominator
}

func (h *drHandle) SnapshotSharedLister() fwktype.SharedLister { return h.snapshot }
func (h *drHandle) KoordinatorSharedInformerFactory() koordinatorinformers.SharedInformerFactory {
	return h.koordFac
}
func (h *drHandle) GetReservationNominator() frameworkext.ReservationNominator { return h.nominator }
func (h *drHandle) GetReservationCache() frameworkext.ReservationCache         { return nil }

// ---------------------------------------------------------------- execution

// drTask is a scheduling cycle that has reserved devices and whose binding cycle has not run yet.
type drTask struct {
	pod       *corev1.Pod
	name, uid string
	node      string
	cs        fwktype.CycleState
	alloc     apiext.DeviceAllocations // what Reserve committed
	rollback  bool
	holdUntil int
}

type drSim struct {
	r     *sim.Run
	cfg   drCfg
	st    *drStore
	pl    *Plugin
	h     *drHandle
	nodes []string

	devQ, podQ []drEvent
	schedQ     []drOp
	bindQ      []*drTask
	touched    map[string]bool         // a handler that creates the node's ledger when it is missing has completed for the node
	touching   map[string]int          // such handlers in progress
	view       map[string]*corev1.Pod // what the pod informer delivered last (the scheduler's view)
	devSeen    map[string]bool         // a Device object of the node was delivered at least once
	assumed    map[string]bool         // pod UIDs the scheduler has assumed (Reserve succeeded, not forgotten)
	apiDone    bool
	busy       map[string]bool
	burst      int
	lastBurst  bool
}

func (s *drSim) bindable() int {
	for i, t := range s.bindQ {
		if t.holdUntil <= s.burst || s.lastBurst {
			return i
		}
	}
	return -1
}

func (s *drSim) producersDone() bool {
	return s.apiDone && len(s.schedQ) == 0 && !s.busy["sched"] && s.bindable() < 0 && !s.busy["binder"]
}

func (drEngine) Execute(r *sim.Run) {
	s := &drSim{r: r, view: map[string]*corev1.Pod{}, devSeen: map[string]bool{}, assumed: map[string]bool{}, busy: map[string]bool{},
		touched: map[string]bool{}, touching: map[string]int{}}
	r.Plan.GetCfg(&s.cfg)
	if s.cfg.Nodes < 1 {
		s.cfg.Nodes = 1
	}
	var ops []drOp
	r.Plan.GetOps(&ops)
	s.st = &drStore{nodes: s.cfg.Nodes, pods: map[string]*drPod{}, devs: map[string]*drDevObj{}, names: map[string]bool{}}
	snap := &drSnapshot{infos: map[string]*framework.NodeInfo{}}
	for i := 0; i < s.cfg.Nodes; i++ {
		n := fmt.Sprintf("n%d", i)
		ni := framework.NewNodeInfo()
		ni.SetNode(&corev1.Node{ObjectMeta: metav1.ObjectMeta{Name: n}})
		snap.infos[n] = ni
		snap.names = append(snap.names, n)
		s.nodes = append(s.nodes, n)
	}
	s.h = &drHandle{snapshot: snap, koordFac: koordinatorinformers.NewSharedInformerFactory(drNoClient, 0),
		nominator: frameworkext.NewFakeReservationNominator()}
	s.pl = &Plugin{handle: s.h, nodeDeviceCache: newNodeDeviceCache(), gpuSharedResourceTemplatesCache: newGPUSharedResourceTemplatesCache()}
	r.Sample("cfg %+v switch_p=%v", s.cfg, r.Plan.SwitchP)

	var bursts [][]drOp
	var cur []drOp
	for _, op := range ops {
		if op.K == "barrier" {
			if len(cur) > 0 {
				bursts = append(bursts, cur)
				cur = nil
			}
			continue
		}
		cur = append(cur, op)
	}
	if len(cur) > 0 {
		bursts = append(bursts, cur)
	}
	for bi, burst := range bursts {
		s.burst, s.lastBurst, s.apiDone = bi, bi == len(bursts)-1, false
		burst := burst
		r.Spawn("api", func() {
			for i := range burst {
				op := burst[i]
				r.Yield("api:" + op.K)
				if op.K == "schedule" {
					s.schedQ = append(s.schedQ, op)
					continue
				}
				evs, isPod, ok := s.st.apply(&op, false)
				if !ok {
					r.OpSkipped()
					continue
				}
				r.OpDone()
				r.Event("api %s %s%s", op.K, op.Node, op.Pod)
				r.Sample("api %s node=%s pod=%s devs=%v req=%+v minors=%v", op.K, op.Node, op.Pod, op.Devs, op.Req, op.Minors)
				if isPod {
					s.podQ = append(s.podQ, evs...)
				} else {
					s.devQ = append(s.devQ, evs...)
				}
			}
			s.apiDone = true
		})
		r.Spawn("informer-device", func() {
			for {
				r.WaitUntil("inf-wait:device", func() bool { return len(s.devQ) > 0 || s.producersDone() })
				if len(s.devQ) == 0 {
					return
				}
				ev := s.devQ[0]
				s.devQ = s.devQ[1:]
				s.busy["device"] = true
				s.deliverDevice(ev)
				s.busy["device"] = false
			}
		})
		r.Spawn("informer-pod", func() {
			for {
				r.WaitUntil("inf-wait:pod", func() bool { return len(s.podQ) > 0 || s.producersDone() })
				if len(s.podQ) == 0 {
					return
				}
				ev := s.podQ[0]
				s.podQ = s.podQ[1:]
				s.busy["pod"] = true
				s.deliverPod(ev)
				s.busy["pod"] = false
			}
		})
		r.Spawn("sched", func() {
			for {
				r.WaitUntil("sched-wait", func() bool { return len(s.schedQ) > 0 || s.apiDone })
				if len(s.schedQ) == 0 {
					return
				}
				op := s.schedQ[0]
				s.schedQ = s.schedQ[1:]
				s.busy["sched"] = true
				s.cycle(&op)
				s.busy["sched"] = false
			}
		})
		r.Spawn("binder", func() {
			for {
				r.WaitUntil("binder-wait", func() bool {
					return s.bindable() >= 0 || (s.apiDone && len(s.schedQ) == 0 && !s.busy["sched"])
				})
				i := s.bindable()
				if i < 0 {
					return
				}
				t := s.bindQ[i]
				s.bindQ = append(s.bindQ[:i:i], s.bindQ[i+1:]...)
				s.busy["binder"] = true
				s.bind(t)
				s.busy["binder"] = false
			}
		})
		r.Drive()
		if len(s.devQ) > 0 || len(s.podQ) > 0 || len(s.schedQ) > 0 {
			r.HarnessFail("burst %d ended with undelivered work: %d device events, %d pod events, %d cycles", bi, len(s.devQ), len(s.podQ), len(s.schedQ))
		}
		s.checkQuiescent(bi)
	}
}

// touch brackets a handler call that creates the ledger of the node when there is none (coverage counters only).
func (s *drSim) touch(node string, handler func()) {
	if !s.touched[node] {
		if s.touching[node] > 0 {
			s.r.Probe("first-touch-of-a-node-ledger-by-both-informers-at-once")
		} else {
			s.r.Probe("first-touch-of-a-node-ledger")
		}
	}
	s.touching[node]++
	handler()
	s.touching[node]--
	s.touched[node] = true
}

// ---- device informer

func (s *drSim) deliverDevice(ev drEvent) {
	indexer := s.h.koordFac.Scheduling().V1alpha1().Devices().Informer().GetIndexer()
	switch ev.kind {
	case "add":
		d := ev.new.(*schedulingv1alpha1.Device)
		_ = indexer.Add(d)
		s.touch(ev.name, func() { s.pl.nodeDeviceCache.onDeviceAdd(d) })
		s.devSeen[ev.name] = true
	case "update":
		d := ev.new.(*schedulingv1alpha1.Device)
		_ = indexer.Update(d)
		s.touch(ev.name, func() { s.pl.nodeDeviceCache.onDeviceUpdate(ev.old, d) })
		s.devSeen[ev.name] = true
	case "delete":
		d := ev.old.(*schedulingv1alpha1.Device)
		_ = indexer.Delete(d)
		if s.r.Flip(0.3) {
			s.r.Probe("device-tombstone")
			s.pl.nodeDeviceCache.onDeviceDelete(cache.DeletedFinalStateUnknown{Key: d.Name, Obj: d})
		} else {
			s.pl.nodeDeviceCache.onDeviceDelete(d)
		}
		s.r.Probe("device-object-deleted")
	}
	s.r.Event("deliver device %s %s", ev.kind, ev.name)
	s.r.Sample("deliver device %s %s", ev.kind, ev.name)
}

// ---- pod informer

func drTerminated(p *corev1.Pod) bool {
	return p.Status.Phase == corev1.PodSucceeded || p.Status.Phase == corev1.PodFailed
}

// drHolds: the pod object shows a live pod on a node with a recorded allocation.
func drHolds(p *corev1.Pod) bool {
	return p.Spec.NodeName != "" && !drTerminated(p) && p.Annotations[apiext.AnnotationDeviceAllocated] != ""
}

func (s *drSim) deliverPod(ev drEvent) {
	switch ev.kind {
	case "add":
		np := ev.new.(*corev1.Pod)
		s.view[ev.name] = np
		if drHolds(np) {
			s.touch(np.Spec.NodeName, func() { s.pl.nodeDeviceCache.onPodAdd(np) })
		} else {
			s.pl.nodeDeviceCache.onPodAdd(np)
		}
	case "update":
		op, np := ev.old.(*corev1.Pod), ev.new.(*corev1.Pod)
		s.view[ev.name] = np
		if drHolds(np) {
			s.touch(np.Spec.NodeName, func() { s.pl.nodeDeviceCache.onPodUpdate(op, np) })
		} else {
			s.pl.nodeDeviceCache.onPodUpdate(op, np)
		}
	case "delete":
		op := ev.old.(*corev1.Pod)
		delete(s.view, ev.name)
		if s.r.Flip(0.3) {
			s.r.Probe("pod-tombstone")
			s.pl.nodeDeviceCache.onPodDelete(cache.DeletedFinalStateUnknown{Key: drNS + "/" + op.Name, Obj: op})
		} else {
			s.pl.nodeDeviceCache.onPodDelete(op)
		}
	}
	s.r.Event("deliver pod %s %s", ev.kind, ev.name)
	s.r.Sample("deliver pod %s %s", ev.kind, ev.name)
}

// ---- scheduling goroutine

func (s *drSim) cycle(op *drOp) {
	r := s.r
	pod := s.view[op.Pod]
	// the scheduling queue never hands out a pod that is bound, finished, or assumed
	if pod == nil || pod.Spec.NodeName != "" || drTerminated(pod) || s.assumed[string(pod.UID)] {
		r.OpSkipped()
		return
	}
	ctx := context.TODO()
	cs := framework.NewCycleState()
	if _, st := s.pl.PreFilter(ctx, cs, pod, nil); !st.IsSuccess() {
		r.Fail("prefilter", "rejects-valid-request", "PreFilter of %s = %v", op.Pod, st.Message())
	}
	var feas []string
	for _, n := range s.nodes {
		if !s.devSeen[n] {
			// no Device object was ever seen for this node: the plugin leaves such nodes to the kubelet
			continue
		}
		if st := s.pl.Filter(ctx, cs, pod, s.h.snapshot.infos[n]); st.IsSuccess() {
			feas = append(feas, n)
		}
	}
	r.OpDone()
	if len(feas) == 0 {
		r.Probe("unschedulable")
		r.Event("schedule %s unschedulable", op.Pod)
		return
	}
	node := feas[op.Pick%len(feas)]
	st := s.pl.Reserve(ctx, cs, pod, node)
	state, st2 := getPreFilterState(cs)
	if !st2.IsSuccess() {
		r.HarnessFail("no prefilter state after Reserve")
	}
	if !st.IsSuccess() || len(state.allocationResult) == 0 {
		// the ledger changed since Filter (the framework calls Unreserve of every reserve plugin when one fails)
		s.pl.Unreserve(ctx, cs, pod, node)
		r.Probe("reserve-fails-after-filter")
		r.Event("reserve-failed %s on %s", op.Pod, node)
		return
	}
	t := &drTask{pod: pod, name: op.Pod, uid: string(pod.UID), node: node, cs: cs, alloc: drCopyAllocs(state.allocationResult),
		rollback: op.Rollback, holdUntil: s.burst + op.Hold}
	s.assumed[t.uid] = true
	s.bindQ = append(s.bindQ, t)
	r.Probe("reserved")
	r.Event("reserve %s -> %s %s", op.Pod, node, drAllocStr(t.alloc))
	r.Sample("reserve %s -> %s %s (hold %d)", op.Pod, node, drAllocStr(t.alloc), op.Hold)
}

func drCopyAllocs(a apiext.DeviceAllocations) apiext.DeviceAllocations {
	out := apiext.DeviceAllocations{}
	for t, l := range a {
		for _, x := range l {
			out[t] = append(out[t], &apiext.DeviceAllocation{Minor: x.Minor, Resources: x.Resources.DeepCopy()})
		}
	}
	return out
}

// ---- binding goroutine

func (s *drSim) bind(t *drTask) {
	r := s.r
	ctx := context.TODO()
	cur := s.st.pods[t.name]
	if t.rollback || cur == nil || cur.UID != t.uid || cur.Node != "" {
		// the binding cycle fails before anything was written (a plugin rejects the pod, the pod is gone): roll back
		if !t.rollback {
			r.Probe("bind-after-delete")
		}
		s.pl.Unreserve(ctx, t.cs, t.pod, t.node)
		delete(s.assumed, t.uid)
		r.Probe("unreserve")
		r.Event("unreserve %s on %s", t.name, t.node)
		r.Sample("unreserve %s on %s", t.name, t.node)
		return
	}
	// the annotation patch and the bind, acknowledged: the pod object now records the allocation Reserve committed
	nb := *cur
	nb.Ann = drEncode(t.alloc)
	nb.Node = t.node
	nb.Phase = corev1.PodRunning
	s.st.rv++
	nb.RV = s.st.rv
	s.st.pods[t.name] = &nb
	s.podQ = append(s.podQ, drEvent{kind: "update", name: t.name, old: cur.obj(), new: nb.obj()})
	r.Probe("bound")
	r.Event("bound %s -> %s", t.name, t.node)
	r.Sample("bound %s -> %s", t.name, t.node)
}

// ---------------------------------------------------------------- quiescent-point oracle

// drAdd adds the amounts of one allocation record to a flat "type/minor/resource" map.
func drAdd(dst map[string]int64, a apiext.DeviceAllocations) {
	for t, l := range a {
		for _, x := range l {
			for k, q := range x.Resources {
				if v := q.Value(); v != 0 {
					dst[fmt.Sprintf("%s/%d/%s", t, x.Minor, k)] += v
				}
			}
		}
	}
}

func drAllocStr(a apiext.DeviceAllocations) string {
	m := map[string]int64{}
	drAdd(m, a)
	var parts []string
	for k, v := range m {
		parts = append(parts, fmt.Sprintf("%s=%d", k, v))
	}
	sort.Strings(parts)
	return strings.Join(parts, " ")
}

func drFlatDetail(detail map[schedulingv1alpha1.DeviceType]deviceResources) (out map[string]int64, negative string) {
	out = map[string]int64{}
	for t, ms := range detail {
		for m, rl := range ms {
			for k, q := range rl {
				key := fmt.Sprintf("%s/%d/%s", t, m, k)
				if q.Sign() < 0 && (negative == "" || key < negative) {
					negative = key
				}
				if v := q.Value(); v != 0 {
					out[key] = v
				}
			}
		}
	}
	return out, negative
}

func drKeys[V any](ms ...map[string]V) []string {
	seen := map[string]bool{}
	var out []string
	for _, m := range ms {
		for k := range m {
			if !seen[k] {
				seen[k] = true
				out = append(out, k)
			}
		}
	}
	sort.Strings(out)
	return out
}

func drResOf(key string) string {
	if i := strings.LastIndex(key, "/"); i >= 0 {
		return key[i+1:]
	}
	return key
}

// checkQuiescent: every actor has drained (no handler, no extension point is running, every event is delivered).
func (s *drSim) checkQuiescent(burst int) {
	r := s.r
	all := s.pl.nodeDeviceCache.getAllNodeDeviceSummary()
	isNode := map[string]bool{}
	for _, n := range s.nodes {
		isNode[n] = true
	}
	r.OracleEval()
	for _, n := range drKeys(all) {
		if !isNode[n] {
			r.Fail("quiescent", "orphan-ledger", "burst %d: the cache holds a ledger for %q, which is not a node of the cluster", burst, n)
		}
	}
	digest := uint64(1469598103934665603)
	for _, node := range s.nodes {
		r.OracleEval()
		// ---- what the store says
		wantTotal := map[string]int64{}
		if o := s.st.devs[node]; o != nil {
			for _, d := range o.Devs {
				if !d.H {
					continue
				}
				for k, q := range drDevResources(d) {
					wantTotal[fmt.Sprintf("%s/%d/%s", d.T, d.M, k)] = q.Value()
				}
			}
		}
		wantUsed := map[string]int64{}
		wantSet := map[string]string{} // "type|ns/pod" -> allocation
		hold := func(name string, a apiext.DeviceAllocations) {
			drAdd(wantUsed, a)
			for t, l := range a {
				wantSet[string(t)+"|"+drNS+"/"+name] = drAllocStr(apiext.DeviceAllocations{t: l})
			}
		}
		var holders []string
		for _, name := range drKeys(s.st.pods) {
			p := s.st.pods[name]
			if p.Node != node || p.Ann == "" || p.Phase == corev1.PodSucceeded || p.Phase == corev1.PodFailed {
				continue
			}
			a, err := apiext.GetDeviceAllocations(map[string]string{apiext.AnnotationDeviceAllocated: p.Ann})
			if err != nil {
				r.HarnessFail("undecodable annotation in the store: %v", err)
			}
			hold(name, a)
			holders = append(holders, name+"(bound)["+drAllocStr(a)+"]")
		}
		for _, t := range s.bindQ {
			if t.node == node {
				hold(t.name, t.alloc)
				holders = append(holders, t.name+"(reserved, cycle in flight)["+drAllocStr(t.alloc)+"]")
				r.Probe("quiescent-point-with-a-cycle-in-flight")
			}
		}
		// ---- what the ledger says
		sum := all[node]
		gotTotal, gotUsed, gotFree := map[string]int64{}, map[string]int64{}, map[string]int64{}
		gotSet := map[string]string{}
		if sum != nil {
			var neg [3]string
			gotTotal, neg[0] = drFlatDetail(sum.DeviceTotalDetail)
			gotUsed, neg[1] = drFlatDetail(sum.DeviceUsedDetail)
			gotFree, neg[2] = drFlatDetail(sum.DeviceFreeDetail)
			for i, what := range []string{"total", "used", "free"} {
				if neg[i] != "" {
					r.Fail("quiescent", "negative-amount/"+what, "burst %d node %s: %s of %s is negative", burst, node, what, neg[i])
				}
			}
			for t, pods := range sum.AllocateSet {
				for p, ms := range pods {
					a := apiext.DeviceAllocations{}
					for m, rl := range ms {
						a[t] = append(a[t], &apiext.DeviceAllocation{Minor: int32(m), Resources: rl})
					}
					gotSet[string(t)+"|"+p] = drAllocStr(a)
				}
			}
		} else if len(wantTotal) > 0 || len(wantUsed) > 0 {
			r.Probe("node-without-ledger-at-quiescence")
		}
		where := fmt.Sprintf("burst %d node %s (ledger present=%v)", burst, node, sum != nil)
		for _, k := range drKeys(wantTotal, gotTotal) {
			if wantTotal[k] != gotTotal[k] {
				r.Fail("quiescent", "total-differs-from-device-object/"+drResOf(k), "%s: total of %s = %d, the Device object says %d", where, k, gotTotal[k], wantTotal[k])
			}
		}
		for _, k := range drKeys(wantUsed, gotUsed) {
			if wantUsed[k] != gotUsed[k] {
				r.Fail("quiescent", "used-ne-sum-of-live-allocations/"+drResOf(k), "%s: used of %s = %d, live pods and in-flight cycles hold %d (%s)", where, k, gotUsed[k], wantUsed[k], strings.Join(holders, ", "))
			}
		}
		for _, k := range drKeys(wantTotal, wantUsed, gotFree) {
			want := wantTotal[k] - wantUsed[k]
			if want < 0 {
				want = 0
				r.Probe("device-over-committed-at-quiescence")
			}
			if want != gotFree[k] {
				r.Fail("quiescent", "free-ne-total-minus-used/"+drResOf(k), "%s: free of %s = %d, total %d - used %d (%s)", where, k, gotFree[k], wantTotal[k], wantUsed[k], strings.Join(holders, ", "))
			}
		}
		for _, k := range drKeys(wantSet, gotSet) {
			if wantSet[k] != gotSet[k] {
				detail := "differs"
				if gotSet[k] == "" {
					detail = "missing"
				} else if wantSet[k] == "" {
					detail = "stale"
				}
				r.Fail("quiescent", "allocate-set/"+detail, "%s: allocate-set[%s] = %q, the pod holds %q", where, k, gotSet[k], wantSet[k])
			}
		}
		for _, m := range []map[string]int64{gotTotal, gotUsed, gotFree} {
			for _, k := range drKeys(m) {
				digest = sim.Mix(sim.Mix(digest, sim.HashString(node+k)), uint64(m[k]))
			}
		}
		for _, k := range drKeys(gotSet) {
			digest = sim.Mix(sim.Mix(digest, sim.HashString(node+k)), sim.HashString(gotSet[k]))
		}
	}
	r.Event("quiescent %d state %x", burst, digest)
}
