//go:build verif

package loadaware

import (
	"fmt"

	sim "github.com/koordinator-sh/koordinator/pkg/verifsim"
)

// ---------------------------------------------------------------- generation

const (
	miB = int64(1) << 20
	giB = int64(1) << 30
)

func genThr(g *sim.Rng, cpu, mem []int64) map[string]int64 {
	out := map[string]int64{}
	if v := cpu[g.Intn(len(cpu))]; v >= 0 {
		out["cpu"] = v
	}
	if v := mem[g.Intn(len(mem))]; v >= 0 {
		out["memory"] = v
	}
	return out
}

func anyPositive(m map[string]int64) bool {
	for _, v := range m {
		if v > 0 {
			return true
		}
	}
	return false
}

var aggTypes = []string{"avg", "p50", "p90", "p95", "p99"}
var aggDurs = []int64{300, 600, 1800}

func genAgg(g *sim.Rng) *laAgg {
	a := &laAgg{Thr: genThr(g, []int64{55, 65, 70, 30}, []int64{-1, 0, 80, 60}), Type: aggTypes[g.Intn(len(aggTypes))], Dur: []int64{0, 0, 300, 600}[g.Intn(4)]}
	if !anyPositive(a.Thr) {
		a.Thr["cpu"] = 60
	}
	return a
}

func genContainers(g *sim.Rng) []cRes {
	n := 1
	if g.Bool(0.3) {
		n = 2
	}
	var cs []cRes
	for i := 0; i < n; i++ {
		c := cRes{}
		switch g.Intn(6) {
		case 0: // nothing requested
		case 1: // request only
			c.CPUReq = g.PickI64(100, 250, 500, 1000, 1333, 2000, 4000)
			c.MemReq = g.PickI64(64*miB, 256*miB, giB, 3*giB+12345, 8*giB)
		case 2: // limit only
			c.CPULim = g.PickI64(200, 500, 1000, 3000)
			c.MemLim = g.PickI64(128*miB, giB, 4*giB)
		case 3: // request == limit
			c.CPUReq = g.PickI64(500, 1000, 2000, 2500)
			c.CPULim = c.CPUReq
			c.MemReq = g.PickI64(512*miB, 2*giB, 4*giB)
			c.MemLim = c.MemReq
		case 4: // cpu only
			c.CPUReq = 1 + g.I64n(6000)
			if g.Bool(0.5) {
				c.CPULim = c.CPUReq + g.I64n(2000)
			}
		default:
			c.CPUReq = 1 + g.I64n(4000)
			c.CPULim = c.CPUReq + g.I64n(3000)
			c.MemReq = miB * (1 + g.I64n(8192))
			c.MemLim = c.MemReq + miB*g.I64n(2048)
		}
		cs = append(cs, c)
	}
	return cs
}

func genPrio(g *sim.Rng) (string, int32, string) {
	prio := []string{"prod", "prod", "prod", "batch", "batch", "mid", "free"}[g.Intn(7)]
	r := prioRange[prio]
	val := r[0] + int32(g.Intn(int(r[1]-r[0])+1))
	kind := "native"
	switch prio {
	case "batch":
		kind = "batch"
	case "mid":
		kind = "mid"
	}
	if g.Bool(0.08) {
		kind = []string{"native", "batch", "mid"}[g.Intn(3)]
	}
	return prio, val, kind
}

func (laEngine) Generate(p *sim.Plan, g *sim.Rng) {
	cfg := laCfg{
		Factors:          map[string]int64{"cpu": g.PickI64(85, 85, 100, 50, 33, 1), "memory": g.PickI64(70, 70, 100, 40)},
		IncludeSys:       g.Bool(0.4),
		FilterExpired:    g.Bool(0.8),
		ExpSec:           g.PickI64(180, 180, 60, 30),
		SchedWhenExpired: g.Bool(0.35),
		AllowCustom:      g.Bool(0.5),
		Serial:           g.Bool(0.25),
		Forget:           g.Bool(0.3),
		Reader:           g.Bool(0.4),
	}
	cfg.Usage = genThr(g, []int64{65, 65, 80, 50, 100, 0, 20}, []int64{95, 95, 70, 0, -1})
	if g.Bool(0.4) {
		cfg.Prod = genThr(g, []int64{55, 40, 60, 0}, []int64{-1, 0, 60, 80})
	}
	if g.Bool(0.35) {
		cfg.Agg = genAgg(g)
	}
	if g.Bool(0.4) {
		v := g.PickI64(30, 120, 600)
		cfg.SecSched = &v
	}
	if g.Bool(0.25) {
		v := g.PickI64(20, 90, 300)
		cfg.SecInit = &v
	}
	nNodes := g.Range(1, 3)
	if p.Tier == "thorough" {
		nNodes = g.Range(1, 4)
	}
	if g.Bool(0.3) {
		nNodes = 1
	}
	for i := 0; i < nNodes; i++ {
		n := laNode{Name: fmt.Sprintf("n%d", i), CPU: g.PickI64(4000, 8000, 16000, 32000, 7777, 64000, 2000), Mem: g.PickI64(8*giB, 16*giB, 64*giB, 31*giB+777, 4*giB),
			Interval: g.PickI64(0, 60, 60, 20, 120)}
		if g.Bool(0.25) { // amplified node: allocatable is scaled up, the annotation holds the physical figure
			n.RawCPU = n.CPU
			n.CPU = n.CPU * g.PickI64(150, 200, 120) / 100
			if g.Bool(0.3) {
				n.RawMem = n.Mem
				n.Mem = n.Mem * 3 / 2
			}
		}
		if g.Bool(0.2) {
			c := &laCustom{}
			if g.Bool(0.6) {
				c.Usage = genThr(g, []int64{70, 45, 90}, []int64{-1, 85})
			}
			if g.Bool(0.4) {
				c.Prod = genThr(g, []int64{50, 35}, []int64{-1, 50})
			}
			if g.Bool(0.3) {
				c.Agg = genAgg(g)
			}
			n.Custom = c
		}
		cfg.Nodes = append(cfg.Nodes, n)
	}
	churn := g.Bool(0.25) // few objects created and removed again and again: node entries appear and disappear
	nOps := g.Range(10, 40)
	if p.Tier == "thorough" {
		nOps = g.Range(10, 60)
	}
	nodeName := func() string { return cfg.Nodes[g.Intn(len(cfg.Nodes))].Name }

	var ops []laOp
	var pods []string
	np := 0
	maxPods := 10
	if churn {
		maxPods = 3
	}
	live := map[string]bool{}
	pickPod := func() string {
		if len(pods) == 0 {
			return ""
		}
		// prefer recent pods
		if g.Bool(0.6) && len(pods) > 3 {
			return pods[len(pods)-1-g.Intn(3)]
		}
		return pods[g.Intn(len(pods))]
	}
	liveCount := func() int {
		n := 0
		for _, v := range live {
			if v {
				n++
			}
		}
		return n
	}
	genCreate := func(name string, k string) laOp {
		prio, val, kind := genPrio(g)
		op := laOp{K: k, P: name, Prio: prio, PrioVal: val, Kind: kind, Cs: genContainers(g), DS: g.Bool(0.08)}
		if g.Bool(0.2) {
			op.Factors = map[string]int64{}
			if g.Bool(0.7) {
				op.Factors["cpu"] = g.PickI64(100, 60, 10, 150)
			}
			if g.Bool(0.5) {
				op.Factors["memory"] = g.PickI64(100, 50, 90)
			}
		}
		if g.Bool(0.15) {
			v := g.PickI64(0, 45, 400)
			op.SecSched = &v
		}
		if g.Bool(0.1) {
			v := g.PickI64(0, 30, 200)
			op.SecInit = &v
		}
		if g.Bool(0.35) { // created already bound (static pod, another scheduler, initial list)
			op.N = nodeName()
			op.NoCond = g.Bool(0.15)
			op.SkewS = g.PickI64(0, 0, -1, -30, -90, -400, 2)
		}
		return op
	}
	genReport := func() laOp {
		op := laOp{K: "metric_report", N: nodeName(), Seed: g.U64(), Cover: g.PickInt(0, 50, 80, 100, 100), Wrong: g.PickInt(0, 0, 0, 30),
			AgeMs: g.PickI64(0, 0, 500, 1000, 5000, 20000, 59000, 61000, 100000, 179000, 181000, 400000, -2000)}
		// node usage around the thresholds in play
		base := []int{30, 45, 50, 55, 60, 64, 65, 66, 70, 80, 94, 95, 20}[g.Intn(13)]
		op.NodeBP = []int{base*100 - g.Intn(1500), []int{40, 60, 70, 80, 94, 95}[g.Intn(6)]*100 - g.Intn(1200)}
		if op.NodeBP[0] < 0 {
			op.NodeBP[0] = 0
		}
		op.SysBP = []int{g.Intn(800), g.Intn(500)}
		if g.Bool(0.5) {
			nd := g.Range(1, 3)
			for i := 0; i < nd; i++ {
				a := aggSpec{Dur: aggDurs[i], Pct: map[string][2]int{}}
				for _, t := range aggTypes {
					switch {
					case g.Bool(0.75):
						a.Pct[t] = [2]int{op.NodeBP[0] + g.Intn(2000) - 1000, op.NodeBP[1] + g.Intn(1000) - 500}
					case g.Bool(0.3):
						a.Pct[t] = [2]int{-1, -1}
					}
				}
				op.Aggs = append(op.Aggs, a)
			}
		}
		if g.Bool(0.15) {
			op.Ghosts = g.Range(1, 2)
		}
		return op
	}
	for len(ops) < nOps {
		x := g.Intn(100)
		switch {
		case x < 16 || len(pods) == 0:
			if liveCount() >= maxPods {
				if name := pickPod(); name != "" {
					ops = append(ops, laOp{K: "pod_delete", P: name})
					live[name] = false
				}
				continue
			}
			name := fmt.Sprintf("p%d", np)
			np++
			ops = append(ops, genCreate(name, "pod_create"))
			pods = append(pods, name)
			live[name] = true
		case x < 36:
			if name := pickPod(); name != "" {
				op := laOp{K: "schedule", P: name, Serial: g.Bool(0.5), Fail: g.Bool(0.25), All: g.Bool(0.5), SkewS: g.PickI64(0, 0, 0, -1, 1, -2)}
				for _, i := range g.Perm(len(cfg.Nodes)) {
					op.Cands = append(op.Cands, i)
				}
				ops = append(ops, op)
			}
		case x < 50:
			if name := pickPod(); name != "" {
				u := []string{"resize", "prio", "init", "init", "ready", "move", "bindext", "bindext", "terminate"}[g.Intn(9)]
				op := laOp{K: "pod_update", P: name, U: u}
				switch u {
				case "resize":
					op.Pct = g.PickInt(50, 150, 200, 100)
				case "prio":
					_, op.PrioVal, _ = genPrio(g)
				case "move", "bindext":
					op.N = nodeName()
					op.SkewS = g.PickI64(0, 0, -1, -45, 1)
				}
				ops = append(ops, op)
			}
		case x < 58:
			if name := pickPod(); name != "" {
				ops = append(ops, laOp{K: "pod_delete", P: name})
				live[name] = false
			}
		case x < 61:
			if name := pickPod(); name != "" {
				op := genCreate(name, "pod_recreate")
				ops = append(ops, op)
				live[name] = true
			}
		case x < 80:
			ops = append(ops, genReport())
		case x < 83:
			ops = append(ops, laOp{K: "metric_empty", N: nodeName()})
		case x < 87:
			ops = append(ops, laOp{K: "metric_delete", N: nodeName()})
		case x < 95:
			ops = append(ops, laOp{K: "tick", D: g.PickI64(300, 1000, 1000, 5000, 20000, 30000, 61000, 120000, 200000)})
		default:
			ops = append(ops, laOp{K: "barrier"})
		}
		if cfg.Serial || g.Bool(0.12) {
			if len(ops) > 0 && ops[len(ops)-1].K != "barrier" {
				ops = append(ops, laOp{K: "barrier"})
			}
		}
	}
	// informer / API anomalies (each is a fault kind: counted when it fires)
	if g.Bool(0.6) {
		p.FaultRate = []float64{0.05, 0.15, 0.3}[g.Intn(3)]
		for _, k := range []string{faultMergeDeleteAdd, faultLostBindAck} {
			if g.Bool(0.5) {
				p.Faults = append(p.Faults, k)
			}
		}
	}
	p.SetCfg(cfg)
	p.SetOps(ops)
}

const (
	faultMergeDeleteAdd = "merge-delete-add" // relist: delete + re-create under the same name delivered as one update with a new UID
	faultLostBindAck    = "lost-bind-ack"    // the binding is applied but the scheduler sees an error
)
