//go:build verif

package loadaware

import (
	"context"
	"fmt"
	"reflect"
	"sort"
	"time"

	corev1 "k8s.io/api/core/v1"
	metav1 "k8s.io/apimachinery/pkg/apis/meta/v1"
	fwktype "k8s.io/kube-scheduler/framework"
	"k8s.io/kubernetes/pkg/scheduler/framework"

	"github.com/koordinator-sh/koordinator/apis/extension"
	"github.com/koordinator-sh/koordinator/pkg/scheduler/apis/config"
	"github.com/koordinator-sh/koordinator/pkg/scheduler/plugins/loadaware/estimator"
	sim "github.com/koordinator-sh/koordinator/pkg/verifsim"
)

// ---------------------------------------------------------------- the "API server"

type laStore struct {
	pods    map[string]*podSnap
	metrics map[string]*metricSnap
	rv      int
	uidSeq  int
}

type laEvent struct {
	kind   string // add | update | delete
	op, np *podSnap
	om, nm *metricSnap
}

// mAssigned is what the cache is expected to hold for one pod on one node.
type mAssigned struct {
	snap *podSnap
	ts   time.Time
}

type bindTask struct {
	name, uid, node string
	assumed         *podSnap
	fail            bool
	skewS           int64
	holdUntil       int
}

type laSim struct {
	r     *sim.Run
	cfg   laCfg
	st    *laStore
	pl    *Plugin
	cache *podAssignCache

	nodeCfg   map[string]*laNode
	nodeObjs  map[string]*corev1.Node
	nodeInfos map[string]fwktype.NodeInfo
	nodeNames []string

	podQ    []laEvent
	metricQ []laEvent
	view    map[string]*podSnap // what the pod informer delivered last, by name
	busy    map[string]bool

	// expectations
	mMetric     map[string]*metricSnap           // last delivered NodeMetric per node
	mAssign     map[string]map[string]*mAssigned // node -> uid -> expected cache entry (event semantics)
	assumed     map[string]string                // uid -> node: reserved by the scheduler, binding not yet confirmed by the informer
	podBusy     map[string]bool
	inflight    map[string]int // node -> operations in progress that may change the node's cache state
	ver         map[string]int // node -> number of completed state-changing operations
	cleanups    map[string]int // node -> how often the node's entry was emptied
	afterRemove func(n string) // set by mutate around model(): called by a model step right after it removed a pod from node n
	addRecs     map[string][]*addRec
	schedQ      []laOp
	bindQ       []*bindTask
	apiDone     bool
	burst       int
	lastBurst   bool
}

func ptrBool(b bool) *bool { return &b }

func newLaSim(r *sim.Run) *laSim {
	s := &laSim{r: r, st: &laStore{pods: map[string]*podSnap{}, metrics: map[string]*metricSnap{}},
		nodeCfg: map[string]*laNode{}, nodeObjs: map[string]*corev1.Node{}, nodeInfos: map[string]fwktype.NodeInfo{},
		view: map[string]*podSnap{}, busy: map[string]bool{}, mMetric: map[string]*metricSnap{}, mAssign: map[string]map[string]*mAssigned{},
		assumed: map[string]string{}, podBusy: map[string]bool{}, inflight: map[string]int{}, ver: map[string]int{}, cleanups: map[string]int{}, addRecs: map[string][]*addRec{}}
	r.Plan.GetCfg(&s.cfg)
	cfg := &s.cfg
	args := &config.LoadAwareSchedulingArgs{
		FilterExpiredNodeMetrics:             ptrBool(cfg.FilterExpired),
		NodeMetricExpirationSeconds:          &cfg.ExpSec,
		EnableScheduleWhenNodeMetricsExpired: ptrBool(cfg.SchedWhenExpired),
		UsageThresholds:                      toThr(cfg.Usage),
		ProdUsageThresholds:                  toThr(cfg.Prod),
		ProdUsageIncludeSys:                  cfg.IncludeSys,
		EstimatedScalingFactors:              toThr(cfg.Factors),
		EstimatedSecondsAfterPodScheduled:    cfg.SecSched,
		EstimatedSecondsAfterInitialized:     cfg.SecInit,
		AllowCustomizeEstimation:             cfg.AllowCustom,
	}
	if cfg.Agg != nil {
		args.Aggregated = &config.LoadAwareSchedulingAggregatedArgs{UsageThresholds: toThr(cfg.Agg.Thr),
			UsageAggregationType:    extension.AggregationType(cfg.Agg.Type),
			UsageAggregatedDuration: metav1.Duration{Duration: time.Duration(cfg.Agg.Dur) * time.Second}}
	}
	est, err := estimator.NewDefaultEstimator(args, nil)
	if err != nil {
		r.HarnessFail("estimator: %v", err)
	}
	vz := NewResourceVectorizerFromArgs(args) // (observations are read by resource name, see liveQuery: no layout is assumed)
	s.cache = newPodAssignCache(est, vz, args)
	s.pl = &Plugin{args: args, vectorizer: vz, filterProfile: NewUsageThresholdsFilterProfile(args, vz), estimator: est, podAssignCache: s.cache}
	for i := range cfg.Nodes {
		n := &cfg.Nodes[i]
		s.nodeCfg[n.Name] = n
		s.nodeObjs[n.Name] = n.obj()
		ni := framework.NewNodeInfo()
		ni.SetNode(s.nodeObjs[n.Name])
		s.nodeInfos[n.Name] = ni
		s.nodeNames = append(s.nodeNames, n.Name)
	}
	return s
}

// allocFor is the allocatable the usage percentage refers to: the physical
// (raw) figure on an amplified node.
func (s *laSim) allocFor(node string) vec2 {
	n := s.nodeCfg[node]
	a := vec2{n.CPU, n.Mem}
	if n.RawCPU > 0 {
		a[0] = n.RawCPU
	}
	if n.RawMem > 0 {
		a[1] = n.RawMem
	}
	return a
}

// ---------------------------------------------------------------- store operations

func (s *laSim) emitPod(kind string, old, new *podSnap) {
	s.podQ = append(s.podQ, laEvent{kind: kind, op: old, np: new})
}

func truncSec(t time.Time) time.Time { return t.Truncate(time.Second) }

func (s *laSim) newPodFromOp(op *laOp) *podSnap {
	s.st.rv++
	s.st.uidSeq++
	p := &podSnap{Name: op.P, UID: fmt.Sprintf("u%d-%s", s.st.uidSeq, op.P), RV: s.st.rv, Prio: classOf(op.PrioVal), PrioVal: op.PrioVal, Kind: op.Kind,
		Cs: append([]cRes(nil), op.Cs...), DS: op.DS, Phase: corev1.PodPending, Factors: op.Factors, SecSched: op.SecSched, SecInit: op.SecInit}
	if op.N != "" && s.nodeCfg[op.N] != nil {
		p.Node = op.N
		p.Phase = corev1.PodRunning
		if !op.NoCond {
			t := truncSec(time.Now()).Add(time.Duration(op.SkewS) * time.Second)
			p.SchedAt = &t
		}
	}
	return p.build()
}

// apply executes one API-level operation; ok=false when not applicable here.
func (s *laSim) apply(op *laOp) bool {
	st := s.st
	now := time.Now()
	switch op.K {
	case "pod_create":
		if op.P == "" || st.pods[op.P] != nil {
			return false
		}
		p := s.newPodFromOp(op)
		st.pods[p.Name] = p
		s.emitPod("add", nil, p)
		return true
	case "pod_recreate":
		old := st.pods[op.P]
		if old == nil {
			return false
		}
		p := s.newPodFromOp(op)
		st.pods[p.Name] = p
		// a relist after a watch gap delivers delete + re-create under one name as a single update
		if s.r.Fault("pod-recreate", faultMergeDeleteAdd) != "" {
			s.emitPod("update", old, p)
		} else {
			s.emitPod("delete", old, nil)
			s.emitPod("add", nil, p)
		}
		return true
	case "pod_delete":
		old := st.pods[op.P]
		if old == nil {
			return false
		}
		delete(st.pods, op.P)
		s.emitPod("delete", old, nil)
		return true
	case "pod_update":
		old := st.pods[op.P]
		if old == nil {
			return false
		}
		p := old.clone()
		switch op.U {
		case "resize":
			if len(p.Cs) == 0 || old.terminated() {
				return false
			}
			c := &p.Cs[0]
			c.CPUReq = c.CPUReq * int64(op.Pct) / 100
			c.CPULim = c.CPULim * int64(op.Pct) / 100
			c.MemReq = c.MemReq * int64(op.Pct) / 100
			c.MemLim = c.MemLim * int64(op.Pct) / 100
			if *c == old.Cs[0] {
				return false
			}
		case "prio":
			if op.PrioVal == old.PrioVal {
				return false
			}
			p.PrioVal = op.PrioVal
			p.Prio = classOf(op.PrioVal)
		case "init":
			if old.InitAt != nil || old.Node == "" || old.terminated() {
				return false
			}
			t := truncSec(now)
			p.InitAt = &t
		case "ready":
			if old.Node == "" || old.terminated() {
				return false
			}
			p.Ready = !old.Ready
		case "move":
			if old.Node == "" || old.Node == op.N || s.nodeCfg[op.N] == nil || old.terminated() {
				return false
			}
			p.Node = op.N
		case "bindext": // bound by somebody else
			if old.Node != "" || s.nodeCfg[op.N] == nil || old.terminated() {
				return false
			}
			p.Node = op.N
			p.Phase = corev1.PodRunning
			t := truncSec(now).Add(time.Duration(op.SkewS) * time.Second)
			p.SchedAt = &t
		case "terminate":
			if old.terminated() {
				return false
			}
			p.Phase = []corev1.PodPhase{corev1.PodSucceeded, corev1.PodFailed}[old.RV%2]
			p.Ready = false
		default:
			return false
		}
		st.rv++
		p.RV = st.rv
		st.pods[p.Name] = p.build()
		s.emitPod("update", old, p)
		return true
	case "metric_empty":
		if s.nodeCfg[op.N] == nil || st.metrics[op.N] != nil {
			return false
		}
		st.rv++
		m := (&metricSnap{Node: op.N, RV: st.rv, Interval: s.nodeCfg[op.N].Interval}).build()
		st.metrics[op.N] = m
		s.metricQ = append(s.metricQ, laEvent{kind: "add", nm: m})
		return true
	case "metric_delete":
		old := st.metrics[op.N]
		if old == nil {
			return false
		}
		delete(st.metrics, op.N)
		s.metricQ = append(s.metricQ, laEvent{kind: "delete", om: old})
		return true
	case "metric_report":
		if s.nodeCfg[op.N] == nil {
			return false
		}
		old := st.metrics[op.N]
		st.rv++
		m := s.makeReport(op, now)
		m.RV = st.rv
		m.build()
		st.metrics[op.N] = m
		if old == nil {
			s.metricQ = append(s.metricQ, laEvent{kind: "add", nm: m})
		} else {
			s.metricQ = append(s.metricQ, laEvent{kind: "update", om: old, nm: m})
		}
		return true
	}
	return false
}

func bp(total int64, basisPoints int) int64 {
	if basisPoints < 0 {
		basisPoints = 0
	}
	return total/10000*int64(basisPoints) + total%10000*int64(basisPoints)/10000
}

// makeReport is the koordlet stub: what it reports depends on the pods bound to
// the node in the API server at this moment; every choice is a pure function of
// the op's seed and the pod's name, so the op stays meaningful under shrinking.
func (s *laSim) makeReport(op *laOp, now time.Time) *metricSnap {
	alloc := s.allocFor(op.N)
	if len(op.NodeBP) < 2 || len(op.SysBP) < 2 {
		s.r.HarnessFail("metric_report without usage figures")
	}
	m := &metricSnap{Node: op.N, Interval: s.nodeCfg[op.N].Interval, Reported: true, UpdateAt: truncSec(now.Add(-time.Duration(op.AgeMs) * time.Millisecond)),
		NodeU: vec2{bp(alloc[0], op.NodeBP[0]), bp(alloc[1], op.NodeBP[1])}, SysU: vec2{bp(alloc[0], op.SysBP[0]), bp(alloc[1], op.SysBP[1])}}
	for _, a := range op.Aggs {
		av := aggVal{Dur: a.Dur, Usage: map[string]*vec2{}}
		for _, t := range sortedKeys(a.Pct) {
			v := a.Pct[t]
			if v[0] < 0 && v[1] < 0 {
				av.Usage[t] = nil
				continue
			}
			av.Usage[t] = &vec2{bp(alloc[0], v[0]), bp(alloc[1], v[1])}
		}
		m.Aggs = append(m.Aggs, av)
	}
	others := []string{"prod", "batch", "mid", "free"}
	for _, name := range sortedKeys(s.st.pods) {
		p := s.st.pods[name]
		if p.Node != op.N {
			continue
		}
		h := sim.Mix(op.Seed, sim.HashString(name))
		if int(h%100) >= op.Cover {
			continue
		}
		var req vec2
		for _, c := range p.Cs {
			req[0] += max(c.CPUReq, c.CPULim)
			req[1] += max(c.MemReq, c.MemLim)
		}
		if req[0] == 0 {
			req[0] = 400
		}
		if req[1] == 0 {
			req[1] = 300 * miB
		}
		k := []int64{0, 10, 40, 70, 85, 100, 130}[(h>>8)%7]
		k2 := []int64{5, 50, 70, 100, 120}[(h>>16)%5]
		pu := podUsage{Name: name, HasU: (h>>24)%10 != 0, Prio: p.Prio, U: vec2{req[0] * k / 100, req[1] / 100 * k2}}
		if int((h>>32)%100) < op.Wrong {
			pu.Prio = others[(h>>40)%4]
		}
		m.Pods = append(m.Pods, pu)
	}
	for i := 0; i < op.Ghosts; i++ { // a terminated pod leaked in the report
		m.Pods = append(m.Pods, podUsage{Name: fmt.Sprintf("gone%d", i), HasU: true, Prio: "prod", U: vec2{300, 200 * miB}})
	}
	return m
}

// ---------------------------------------------------------------- bookkeeping around the real calls

func (s *laSim) lockPods(site string, uids ...string) {
	s.r.WaitUntil(site, func() bool {
		for _, u := range uids {
			if s.podBusy[u] {
				return false
			}
		}
		return true
	})
	for _, u := range uids {
		s.podBusy[u] = true
	}
}

func (s *laSim) unlockPods(uids ...string) {
	for _, u := range uids {
		delete(s.podBusy, u)
	}
}

func (s *laSim) nodeEmpty(n string) bool { return s.mMetric[n] == nil && len(s.mAssign[n]) == 0 }

// addRec remembers one completed add/update for a node: what it added and how
// often the node's entry was emptied (and therefore deleted) while it was in progress.
type addRec struct {
	key       string // uid, or "metric"
	emptyings int
}

// emptyBut: the node is expected to hold nothing except objects named in keys.
func (s *laSim) emptyBut(n string, keys map[string]bool) bool {
	if s.mMetric[n] != nil && !keys["metric"] {
		return false
	}
	for _, uid := range sortedUIDs(s.mAssign[n]) {
		if !keys[uid] {
			return false
		}
	}
	return true
}

// mutate brackets one real state-changing call: the nodes it may touch are
// marked in flight while it runs, the expectation is updated in the same step
// in which the real call returns. addNode/addKey name what the call adds (if anything).
func (s *laSim) mutate(nodes []string, addNode, addKey string, real func(), model func()) {
	before := map[string]int{}
	addsBefore := map[string]int{}
	for _, n := range nodes {
		s.inflight[n]++
		before[n] = s.cleanups[n]
		addsBefore[n] = len(s.addRecs[n])
	}
	real()
	if addNode != "" && addKey != "" {
		n := addNode
		rec := &addRec{key: addKey, emptyings: s.cleanups[n] - before[n]}
		s.addRecs[n] = append(s.addRecs[n], rec)
		if rec.emptyings > 0 {
			s.r.Probe("deleted-nodeinfo-retry-window")
		}
		if rec.emptyings >= 2 {
			// History class of a recorded finding: the node's entry was emptied and removed twice while this add/update was
			// in progress (each of its two attempts can take hold of an entry that is deleted before the attempt locks it).
			s.r.Probe("node-entry-deleted-twice-during-add")
			s.r.Tag("add-during-entry-deletion-window")
		}
		// First shape of the same finding (repaired by c1f9615): the add ran while the node's entry in the map was marked
		// deleted but not yet removed. Nothing yields between the last failed attempt and the return, so the entry is still
		// there, still marked, exactly then.
		if v, ok := s.cache.items.Load(n); ok && v.(*nodeInfo).deleted {
			s.r.Tag("add-during-entry-deletion-window")
		}
	}
	// Did this call empty a node's entry? Objects added by adds that ran to completion while this call was in progress are
	// left out of the question: had such an add reached the entry before this call locked it, the entry would not be
	// empty; if the entry is empty, the add met it afterwards (deleted) and its own object went elsewhere or nowhere.
	during := map[string]map[string]bool{}
	wasEmpty := map[string]bool{}
	for _, n := range nodes {
		during[n] = map[string]bool{}
		for _, rec := range s.addRecs[n][addsBefore[n]:] {
			if !(n == addNode && rec.key == addKey) {
				during[n][rec.key] = true
			}
		}
		wasEmpty[n] = s.emptyBut(n, during[n])
	}
	// An update that replaces the pod on its node (new uid, same node) removes the old pod and places the new one within
	// ONE call: when the old pod was the entry's only content, the entry is emptied and removed in the middle of the call
	// although it is non-empty before and after it.
	midEmptied := map[string]bool{}
	s.afterRemove = func(n string) {
		if !wasEmpty[n] && s.emptyBut(n, during[n]) {
			midEmptied[n] = true
		}
	}
	model()
	s.afterRemove = nil
	for _, n := range nodes {
		if !wasEmpty[n] && (s.emptyBut(n, during[n]) || midEmptied[n]) {
			s.cleanups[n]++
			// adds that completed while this (emptying) call was in progress saw one more deletion of the entry
			for _, rec := range s.addRecs[n][addsBefore[n]:] {
				if n == addNode && rec.key == addKey {
					continue
				}
				rec.emptyings++
				if rec.emptyings >= 2 {
					s.r.Probe("node-entry-deleted-twice-during-add")
					s.r.Tag("add-during-entry-deletion-window")
				}
			}
		}
		s.inflight[n]--
		s.ver[n]++
	}
}

func specOrCondsChanged(a, b *corev1.Pod) bool {
	return !reflect.DeepEqual(&a.Spec, &b.Spec) || !reflect.DeepEqual(a.Status.Conditions, b.Status.Conditions)
}

func assignTime(p *podSnap, now time.Time) time.Time {
	if p.SchedAt != nil && !p.SchedAt.IsZero() {
		return *p.SchedAt
	}
	return now
}

func (s *laSim) mRemove(node, uid string) {
	if node == "" {
		return
	}
	if m := s.mAssign[node]; m != nil {
		delete(m, uid)
		if len(m) == 0 {
			delete(s.mAssign, node)
		}
	}
}

// mPlace: the pod object p is (re)announced as placed on p.Node. always=true for
// add events and Reserve (the entry is replaced), false for updates (the entry is
// renewed only when spec or conditions differ from the cached object).
func (s *laSim) mPlace(p *podSnap, now time.Time, always bool) {
	if p.Node == "" {
		return
	}
	if p.terminated() {
		s.mRemove(p.Node, p.UID)
		return
	}
	cur := s.mAssign[p.Node][p.UID]
	if cur != nil && !always && !specOrCondsChanged(cur.snap.obj, p.obj) {
		return
	}
	if s.mAssign[p.Node] == nil {
		s.mAssign[p.Node] = map[string]*mAssigned{}
	}
	s.mAssign[p.Node][p.UID] = &mAssigned{snap: p, ts: assignTime(p, now)}
}

func updKey(p *podSnap) string {
	if p.Node == "" || p.terminated() {
		return ""
	}
	return p.UID
}

func nonEmpty(xs ...string) []string {
	var out []string
	for _, x := range xs {
		dup := false
		for _, y := range out {
			dup = dup || x == y
		}
		if x != "" && !dup {
			out = append(out, x)
		}
	}
	return out
}

func (s *laSim) deliverPod(ev laEvent) {
	r := s.r
	now := time.Now()
	switch ev.kind {
	case "add":
		p := ev.np
		s.lockPods("pod-lock", p.UID)
		s.mutate(nonEmpty(p.Node), p.Node, updKey(p), func() { s.cache.OnAdd(p.obj, false) }, func() {
			s.view[p.Name] = p
			if p.terminated() {
				return // an add never removes
			}
			s.mPlace(p, now, true)
		})
		s.unlockPods(p.UID)
	case "update":
		o, p := ev.op, ev.np
		uids := nonEmpty(o.UID, p.UID)
		s.lockPods("pod-lock", uids...)
		if o.UID != p.UID {
			r.Probe("update-with-new-uid")
			if o.Node != "" && s.mAssign[o.Node][o.UID] != nil {
				// history class of a recorded finding: the replaced pod is still cached when the merged update arrives
				r.Tag("pod-update-replaces-uid")
			}
		}
		s.mutate(nonEmpty(o.Node, p.Node), p.Node, updKey(p), func() { s.cache.OnUpdate(o.obj, p.obj) }, func() {
			s.view[p.Name] = p
			if o.UID != p.UID || (o.Node != "" && o.Node != p.Node) {
				s.mRemove(o.Node, o.UID)
				if s.afterRemove != nil && o.Node != "" {
					s.afterRemove(o.Node)
				}
			}
			// once the informer shows the pod on the node it was assumed on, the pod's presence there follows the informer
			if o.Node != "" && s.assumed[o.UID] == o.Node {
				delete(s.assumed, o.UID)
			}
			if p.Node != "" && s.assumed[p.UID] == p.Node {
				delete(s.assumed, p.UID)
			}
			s.mPlace(p, now, false)
		})
		s.unlockPods(uids...)
	case "delete":
		o := ev.op
		s.lockPods("pod-lock", o.UID)
		s.mutate(nonEmpty(o.Node), "", "", func() { s.cache.OnDelete(o.obj) }, func() {
			if v := s.view[o.Name]; v != nil && v.UID == o.UID {
				delete(s.view, o.Name)
			}
			if o.Node != "" && s.assumed[o.UID] == o.Node {
				delete(s.assumed, o.UID) // the deleted pod was known to be on the assumed node: the delete removes it
			}
			s.mRemove(o.Node, o.UID)
		})
		s.unlockPods(o.UID)
	}
	name := ""
	if ev.np != nil {
		name = ev.np.Name
	} else {
		name = ev.op.Name
	}
	r.Event("deliver pod %s %s", ev.kind, name)
}

func (s *laSim) deliverMetric(ev laEvent) {
	h := s.cache.NodeMetricHandler()
	switch ev.kind {
	case "add":
		s.mutate([]string{ev.nm.Node}, ev.nm.Node, "metric", func() { h.OnAdd(ev.nm.obj, false) }, func() { s.mMetric[ev.nm.Node] = ev.nm })
	case "update":
		s.mutate([]string{ev.nm.Node}, ev.nm.Node, "metric", func() { h.OnUpdate(ev.om.obj, ev.nm.obj) }, func() { s.mMetric[ev.nm.Node] = ev.nm })
	case "delete":
		s.mutate([]string{ev.om.Node}, "", "", func() { h.OnDelete(ev.om.obj) }, func() { delete(s.mMetric, ev.om.Node) })
	}
	n := ""
	if ev.nm != nil {
		n = ev.nm.Node
	} else {
		n = ev.om.Node
	}
	s.r.Event("deliver metric %s %s", ev.kind, n)
}

// ---------------------------------------------------------------- scheduler and binder

type filterPre struct{ ver, inflight int }

func (s *laSim) cycle(op laOp) {
	r := s.r
	snap := s.view[op.P]
	// the scheduling queue only hands out pending pods that are neither bound nor assumed
	if snap == nil || snap.Node != "" || snap.terminated() || s.assumed[snap.UID] != "" || len(op.Cands) == 0 {
		r.OpSkipped()
		return
	}
	ctx := context.TODO()
	state := framework.NewCycleState()
	s.pl.PreFilter(ctx, state, snap.obj, nil)
	chosen := ""
	for _, ci := range op.Cands {
		node := s.nodeNames[ci%len(s.nodeNames)]
		pre := filterPre{s.ver[node], s.inflight[node]}
		st := s.pl.Filter(ctx, state, snap.obj, s.nodeInfos[node])
		r.Event("filter %s %s %v", op.P, node, st.Code())
		s.checkFilter(snap, node, st, pre)
		if st.IsSuccess() && chosen == "" {
			chosen = node
			if !op.All {
				break
			}
		}
	}
	r.OpDone()
	if chosen == "" {
		r.Probe("no-feasible-node")
		return
	}
	// assume: the scheduler works on a copy of the pod with nodeName set
	assumed := snap.clone()
	assumed.Node = chosen
	assumed.build()
	now := time.Now()
	s.lockPods("pod-lock", snap.UID)
	s.mutate([]string{chosen}, chosen, snap.UID, func() {
		if st := s.pl.Reserve(ctx, state, assumed.obj, chosen); !st.IsSuccess() {
			r.Fail("reserve", "", "Reserve failed: %v", st.Message())
		}
	}, func() {
		s.assumed[snap.UID] = chosen
		s.mPlace(assumed, now, true)
	})
	s.unlockPods(snap.UID)
	r.Event("reserve %s %s", op.P, chosen)
	t := &bindTask{name: op.P, uid: snap.UID, node: chosen, assumed: assumed, fail: op.Fail, skewS: op.SkewS, holdUntil: s.burst}
	if !s.lastBurst && r.Flip(0.2) {
		t.holdUntil = s.burst + 1 + r.Choose(2) // the binding cycle (permit, pre-bind) takes a while
		r.Probe("binding-held-across-quiescence")
	}
	s.bindQ = append(s.bindQ, t)
}

func (s *laSim) unreserve(t *bindTask) {
	ctx := context.TODO()
	s.lockPods("pod-lock", t.uid)
	// (the pod is locked: no informer event for it is delivered between this look at the view and the end of the call)
	boundHere := false
	if v := s.view[t.name]; v != nil && v.UID == t.uid && v.Node == t.node && !v.terminated() {
		// history class of a recorded finding: the roll-back arrives after the informer already delivered the pod as
		// bound to this very node (lost bind acknowledgement, or another scheduler bound it to the same node)
		s.r.Tag("unreserve-after-binding-visible")
		s.r.Probe("unreserve-after-binding-visible")
		boundHere = true
	}
	s.mutate([]string{t.node}, "", "", func() {
		s.pl.Unreserve(ctx, framework.NewCycleState(), t.assumed.obj, t.node)
		if s.cfg.Forget {
			// frameworkext.ForgetPod runs the handler the plugin registered in New()
			s.cache.unAssign(t.assumed.obj.Spec.NodeName, t.assumed.obj)
		}
	}, func() {
		delete(s.assumed, t.uid)
		// The expectation follows the statement ("the pods currently assigned to the node"), not the code: a roll-back
		// of the reservation takes the pod off the node unless the informer has already shown it bound there - then
		// its presence follows the informer and the entry (object, assign time) stays as the events so far left it
		// (the informer's object, or the assumed one when the Reserve came after the informer's update: two schedulers).
		// The unchanged code drops the pod in that history too (recorded finding, tagged above): there the membership
		// oracle reports it; a tree that keeps the pod is right.
		if !boundHere {
			s.mRemove(t.node, t.uid)
		}
	})
	s.unlockPods(t.uid)
	s.r.Event("unreserve %s %s", t.name, t.node)
}

func (s *laSim) bind(t *bindTask) {
	r := s.r
	cur := s.st.pods[t.name]
	if t.fail || cur == nil || cur.UID != t.uid || cur.Node != "" || cur.terminated() {
		if !t.fail {
			r.Probe("bind-rejected-by-api")
		}
		s.unreserve(t)
		return
	}
	p := cur.clone()
	p.Node = t.node
	p.Phase = corev1.PodRunning
	at := truncSec(time.Now()).Add(time.Duration(t.skewS) * time.Second)
	p.SchedAt = &at
	s.st.rv++
	p.RV = s.st.rv
	s.st.pods[t.name] = p.build()
	s.emitPod("update", cur, p)
	r.Event("bound %s %s", t.name, t.node)
	if r.Fault("bind", faultLostBindAck) != "" {
		// the write is applied, the scheduler sees a timeout and rolls back
		s.unreserve(t)
	}
}

func (s *laSim) bindable() int {
	for i, t := range s.bindQ {
		if t.holdUntil <= s.burst {
			return i
		}
	}
	return -1
}

func (s *laSim) idle() bool {
	if len(s.podQ) > 0 || len(s.metricQ) > 0 || len(s.schedQ) > 0 || s.bindable() >= 0 {
		return false
	}
	for _, k := range sortedKeys(s.busy) {
		if s.busy[k] {
			return false
		}
	}
	return true
}

func (s *laSim) producersDone() bool {
	return s.apiDone && len(s.schedQ) == 0 && !s.busy["sched"] && s.bindable() < 0 && !s.busy["binder"]
}

func (laEngine) Execute(r *sim.Run) {
	s := newLaSim(r)
	var ops []laOp
	r.Plan.GetOps(&ops)
	r.Sample("cfg nodes=%d usage=%v prod=%v agg=%v factors=%v expiry=%v/%ds/%v secSched=%v serial=%v", len(s.cfg.Nodes), s.cfg.Usage, s.cfg.Prod, s.cfg.Agg != nil, s.cfg.Factors,
		s.cfg.FilterExpired, s.cfg.ExpSec, s.cfg.SchedWhenExpired, s.cfg.SecSched != nil, s.cfg.Serial)
	var bursts [][]laOp
	var cur []laOp
	for _, op := range ops {
		if op.K == "barrier" {
			if len(cur) > 0 {
				bursts = append(bursts, cur)
				cur = nil
			}
			continue
		}
		cur = append(cur, op)
	}
	if len(cur) > 0 {
		bursts = append(bursts, cur)
	}
	for bi, burst := range bursts {
		s.burst = bi
		s.lastBurst = bi == len(bursts)-1
		s.apiDone = false
		burst := burst
		r.Spawn("api", func() {
			for _, op := range burst {
				op := op
				r.Yield("api:" + op.K)
				switch op.K {
				case "schedule":
					if op.Serial {
						r.WaitUntil("api:serial-wait", s.idle)
						s.busy["api"] = true
						s.cycle(op)
						s.busy["api"] = false
					} else {
						s.schedQ = append(s.schedQ, op)
					}
				case "tick":
					r.Sleep(time.Duration(op.D) * time.Millisecond)
					r.OpDone()
					r.Event("tick %d", op.D)
				default:
					if !s.apply(&op) {
						r.OpSkipped()
						continue
					}
					r.OpDone()
					r.Sample("%s p=%s n=%s u=%s", op.K, op.P, op.N, op.U)
					r.Event("api %s %s%s %s", op.K, op.P, op.N, op.U)
				}
			}
			s.apiDone = true
		})
		r.Spawn("informer-pod", func() {
			for {
				r.WaitUntil("inf-wait:pod", func() bool { return len(s.podQ) > 0 || s.producersDone() })
				if len(s.podQ) == 0 {
					return
				}
				ev := s.podQ[0]
				s.podQ = s.podQ[1:]
				s.busy["pod"] = true
				// consecutive updates of one object may be merged by the informer
				for ev.kind == "update" && len(s.podQ) > 0 && s.podQ[0].kind == "update" && s.podQ[0].op == ev.np && r.Flip(0.15) {
					ev = laEvent{kind: "update", op: ev.op, np: s.podQ[0].np}
					s.podQ = s.podQ[1:]
					r.Probe("updates-coalesced")
				}
				s.deliverPod(ev)
				if r.Flip(0.04) { // resync
					if names := sortedKeys(s.view); len(names) > 0 {
						p := s.view[names[r.Choose(len(names))]]
						s.deliverPod(laEvent{kind: "update", op: p, np: p})
						r.Probe("resync")
					}
				}
				s.busy["pod"] = false
			}
		})
		r.Spawn("informer-metric", func() {
			for {
				r.WaitUntil("inf-wait:metric", func() bool { return len(s.metricQ) > 0 || s.producersDone() })
				if len(s.metricQ) == 0 {
					return
				}
				ev := s.metricQ[0]
				s.metricQ = s.metricQ[1:]
				s.busy["metric"] = true
				for ev.kind == "update" && len(s.metricQ) > 0 && s.metricQ[0].kind == "update" && s.metricQ[0].om == ev.nm && r.Flip(0.15) {
					ev = laEvent{kind: "update", om: ev.om, nm: s.metricQ[0].nm}
					s.metricQ = s.metricQ[1:]
					r.Probe("updates-coalesced")
				}
				s.deliverMetric(ev)
				s.busy["metric"] = false
			}
		})
		r.Spawn("sched", func() {
			for {
				r.WaitUntil("sched-wait", func() bool { return len(s.schedQ) > 0 || s.apiDone })
				if len(s.schedQ) == 0 {
					return
				}
				op := s.schedQ[0]
				s.schedQ = s.schedQ[1:]
				s.busy["sched"] = true
				s.cycle(op)
				s.busy["sched"] = false
			}
		})
		r.Spawn("binder", func() {
			for {
				r.WaitUntil("binder-wait", func() bool {
					return s.bindable() >= 0 || (s.apiDone && len(s.schedQ) == 0 && !s.busy["sched"] && !s.busy["api"])
				})
				i := s.bindable()
				if i < 0 {
					return
				}
				t := s.bindQ[i]
				s.bindQ = append(s.bindQ[:i:i], s.bindQ[i+1:]...)
				s.busy["binder"] = true
				s.bind(t)
				s.busy["binder"] = false
			}
		})
		if s.cfg.Reader {
			// a second Filter worker / the score path: concurrent readers of the cache
			r.SpawnDaemon("reader", func() {
				for k := 0; k < 4; k++ {
					r.Yield("reader")
					node := s.nodeNames[r.Choose(len(s.nodeNames))]
					_, _, _, _ = s.cache.GetNodeMetricAndEstimatedOfExisting(node, k%2 == 0, metav1.Duration{}, "", false)
				}
			})
		}
		r.Drive()
		r.DrainDaemons()
		s.checkQuiescent(bi)
	}
}

func sortedUIDs(m map[string]*mAssigned) []string {
	ks := make([]string, 0, len(m))
	for k := range m {
		ks = append(ks, k)
	}
	sort.Strings(ks)
	return ks
}
