//go:build verif

package loadaware

// Engine `loadaware` (C08): the real podAssignCache (sync.Map of per-node
// nodeInfo guarded by RW locks) and Plugin.PreFilter/Filter/Reserve/Unreserve
// run under the token-passing scheduler; pod informer, NodeMetric informer,
// scheduler, binder and a reader are separate actors interleaved at every
// instrumented lock acquisition and sync.Map call.
// See /verif/DESIGN.md §4 C08.
//
// This file: plan types, object snapshots/builders, workload generation.
// loadaware_exec_verif_test.go: execution (actors, model bookkeeping).
// loadaware_oracle_verif_test.go: oracles.

import (
	"encoding/json"
	"fmt"
	"sort"
	"testing"
	"time"

	corev1 "k8s.io/api/core/v1"
	"k8s.io/apimachinery/pkg/api/resource"
	metav1 "k8s.io/apimachinery/pkg/apis/meta/v1"
	"k8s.io/apimachinery/pkg/types"

	"github.com/koordinator-sh/koordinator/apis/extension"
	slov1alpha1 "github.com/koordinator-sh/koordinator/apis/slo/v1alpha1"
	sim "github.com/koordinator-sh/koordinator/pkg/verifsim"
)

func TestVerifSim(t *testing.T) { sim.Main(t, &laEngine{}) }

type laEngine struct{}

func (laEngine) Name() string { return "loadaware" }

// ---------------------------------------------------------------- plan types

// vec2 is {cpu in milli-cores, memory in bytes}.
type vec2 [2]int64

var laRes = []string{"cpu", "memory"}

type laAgg struct {
	Thr  map[string]int64 `json:"thr"`
	Type string           `json:"type"`
	Dur  int64            `json:"dur"` // seconds, 0 = "the longest period reported"
}

type laCustom struct {
	Usage map[string]int64 `json:"usage,omitempty"`
	Prod  map[string]int64 `json:"prod,omitempty"`
	Agg   *laAgg           `json:"agg,omitempty"`
}

type laNode struct {
	Name     string    `json:"name"`
	CPU      int64     `json:"cpu"` // status.allocatable
	Mem      int64     `json:"mem"`
	RawCPU   int64     `json:"raw_cpu,omitempty"` // raw-allocatable annotation of an amplified node (0 = absent)
	RawMem   int64     `json:"raw_mem,omitempty"`
	Interval int64     `json:"interval,omitempty"` // NodeMetric report interval seconds (0 = spec names none)
	Custom   *laCustom `json:"custom,omitempty"`
}

type laCfg struct {
	Nodes            []laNode         `json:"nodes"`
	Factors          map[string]int64 `json:"factors"`
	Usage            map[string]int64 `json:"usage,omitempty"`
	Prod             map[string]int64 `json:"prod,omitempty"`
	Agg              *laAgg           `json:"agg,omitempty"`
	IncludeSys       bool             `json:"include_sys,omitempty"`
	FilterExpired    bool             `json:"filter_expired"`
	ExpSec           int64            `json:"exp_sec"`
	SchedWhenExpired bool             `json:"sched_when_expired,omitempty"`
	SecSched         *int64           `json:"sec_sched,omitempty"`
	SecInit          *int64           `json:"sec_init,omitempty"`
	AllowCustom      bool             `json:"allow_custom,omitempty"`
	Serial           bool             `json:"serial,omitempty"`
	Forget           bool             `json:"forget,omitempty"` // the forget-pod handler runs after Unreserve
	Reader           bool             `json:"reader,omitempty"`
}

type cRes struct {
	CPUReq int64 `json:"cr,omitempty"`
	CPULim int64 `json:"cl,omitempty"`
	MemReq int64 `json:"mr,omitempty"`
	MemLim int64 `json:"ml,omitempty"`
}

type aggSpec struct {
	Dur int64             `json:"dur"`
	Pct map[string][2]int `json:"pct"` // aggregation type -> usage in basis points of allocatable {cpu, mem}; {-1,-1} = empty entry
}

type laOp struct {
	K string `json:"k"`
	P string `json:"p,omitempty"`
	N string `json:"n,omitempty"`
	// pod_create / pod_recreate
	Prio     string           `json:"prio,omitempty"` // prod | mid | batch | free
	PrioVal  int32            `json:"prio_val,omitempty"`
	Kind     string           `json:"kind,omitempty"` // resource names used by the containers: native | batch | mid
	Cs       []cRes           `json:"cs,omitempty"`
	DS       bool             `json:"ds,omitempty"`
	Factors  map[string]int64 `json:"factors,omitempty"`
	SecSched *int64           `json:"sec_sched,omitempty"`
	SecInit  *int64           `json:"sec_init,omitempty"`
	NoCond   bool             `json:"no_cond,omitempty"` // bound without a PodScheduled condition (kubelet has not written it yet)
	// pod_update
	U   string `json:"u,omitempty"` // resize | prio | init | ready | move | bindext | terminate
	Pct int    `json:"pct,omitempty"`
	// schedule
	Cands  []int `json:"cands,omitempty"`
	All    bool  `json:"all,omitempty"`    // filter every candidate even after one passed
	Serial bool  `json:"serial,omitempty"` // run while nothing else runs
	Fail   bool  `json:"bind_fails,omitempty"`
	SkewS  int64 `json:"skew_s,omitempty"` // API-server clock minus scheduler clock when the binding is stamped
	// metric_report
	Seed   uint64    `json:"seed,omitempty"`
	Cover  int       `json:"cover,omitempty"`
	AgeMs  int64     `json:"age_ms,omitempty"`
	NodeBP []int     `json:"node_bp,omitempty"` // node usage in basis points of the allocatable
	SysBP  []int     `json:"sys_bp,omitempty"`
	Aggs   []aggSpec `json:"aggs,omitempty"`
	Ghosts int       `json:"ghosts,omitempty"`
	Wrong  int       `json:"wrong,omitempty"` // percent of pods reported under another priority class
	// tick
	D int64 `json:"d_ms,omitempty"`
}

// ---------------------------------------------------------------- object snapshots

// podSnap is one version of a pod as the API server holds it. It is immutable
// once built; obj is what informers and the scheduler hand to the real code.
type podSnap struct {
	Name     string
	UID      string
	RV       int
	Node     string
	Prio     string
	PrioVal  int32
	Kind     string
	Cs       []cRes
	DS       bool
	Phase    corev1.PodPhase
	SchedAt  *time.Time // PodScheduled=True transition time
	InitAt   *time.Time // Initialized=True transition time
	Ready    bool
	Factors  map[string]int64
	SecSched *int64
	SecInit  *int64
	obj      *corev1.Pod
}

func (p *podSnap) clone() *podSnap {
	q := *p
	q.Cs = append([]cRes(nil), p.Cs...)
	q.obj = nil
	return &q
}

func (p *podSnap) terminated() bool {
	return p.Phase == corev1.PodSucceeded || p.Phase == corev1.PodFailed
}

var prioRange = map[string][2]int32{"prod": {9000, 9999}, "mid": {7000, 7999}, "batch": {5000, 5999}, "free": {3000, 3999}}

func classOf(v int32) string {
	for _, c := range []string{"prod", "mid", "batch", "free"} {
		if r := prioRange[c]; v >= r[0] && v <= r[1] {
			return c
		}
	}
	return "prod"
}

func resNames(kind string) (corev1.ResourceName, corev1.ResourceName) {
	switch kind {
	case "batch":
		return extension.BatchCPU, extension.BatchMemory
	case "mid":
		return extension.MidCPU, extension.MidMemory
	}
	return corev1.ResourceCPU, corev1.ResourceMemory
}

func cpuQ(kind string, v int64) resource.Quantity {
	if kind == "native" || kind == "" {
		return *resource.NewMilliQuantity(v, resource.DecimalSI)
	}
	return *resource.NewQuantity(v, resource.DecimalSI) // batch-cpu / mid-cpu count milli-cores as plain integers
}

func (p *podSnap) build() *podSnap {
	cn, mn := resNames(p.Kind)
	pod := &corev1.Pod{
		ObjectMeta: metav1.ObjectMeta{Name: p.Name, Namespace: "default", UID: types.UID(p.UID), ResourceVersion: fmt.Sprint(p.RV),
			Labels: map[string]string{}, Annotations: map[string]string{}},
		Spec:   corev1.PodSpec{NodeName: p.Node, Priority: &[]int32{p.PrioVal}[0]},
		Status: corev1.PodStatus{Phase: p.Phase},
	}
	for i, c := range p.Cs {
		rr := corev1.ResourceRequirements{Requests: corev1.ResourceList{}, Limits: corev1.ResourceList{}}
		if c.CPUReq > 0 {
			rr.Requests[cn] = cpuQ(p.Kind, c.CPUReq)
		}
		if c.CPULim > 0 {
			rr.Limits[cn] = cpuQ(p.Kind, c.CPULim)
		}
		if c.MemReq > 0 {
			rr.Requests[mn] = *resource.NewQuantity(c.MemReq, resource.BinarySI)
		}
		if c.MemLim > 0 {
			rr.Limits[mn] = *resource.NewQuantity(c.MemLim, resource.BinarySI)
		}
		pod.Spec.Containers = append(pod.Spec.Containers, corev1.Container{Name: fmt.Sprintf("c%d", i), Resources: rr})
	}
	if p.DS {
		pod.OwnerReferences = []metav1.OwnerReference{{APIVersion: "apps/v1", Kind: "DaemonSet", Name: "ds", UID: "ds-uid"}}
	}
	if len(p.Factors) > 0 {
		m := map[corev1.ResourceName]int64{}
		for k, v := range p.Factors {
			m[corev1.ResourceName(k)] = v
		}
		b, _ := json.Marshal(m)
		pod.Annotations[extension.AnnotationCustomEstimatedScalingFactors] = string(b)
	}
	if p.SecSched != nil {
		pod.Annotations[extension.AnnotationCustomEstimatedSecondsAfterPodScheduled] = fmt.Sprint(*p.SecSched)
	}
	if p.SecInit != nil {
		pod.Annotations[extension.AnnotationCustomEstimatedSecondsAfterInitialized] = fmt.Sprint(*p.SecInit)
	}
	if p.InitAt != nil {
		pod.Status.Conditions = append(pod.Status.Conditions, corev1.PodCondition{Type: corev1.PodInitialized, Status: corev1.ConditionTrue, LastTransitionTime: metav1.NewTime(*p.InitAt)})
	}
	if p.SchedAt != nil {
		pod.Status.Conditions = append(pod.Status.Conditions, corev1.PodCondition{Type: corev1.PodScheduled, Status: corev1.ConditionTrue, LastTransitionTime: metav1.NewTime(*p.SchedAt)})
	} else if p.Node == "" && p.RV > 1 {
		// an earlier attempt left the usual "unschedulable" condition
		pod.Status.Conditions = append(pod.Status.Conditions, corev1.PodCondition{Type: corev1.PodScheduled, Status: corev1.ConditionFalse, Reason: corev1.PodReasonUnschedulable})
	}
	if p.Ready {
		pod.Status.Conditions = append(pod.Status.Conditions, corev1.PodCondition{Type: corev1.PodReady, Status: corev1.ConditionTrue})
	}
	p.obj = pod
	return p
}

type podUsage struct {
	Name string
	U    vec2
	HasU bool
	Prio string
}

// metricSnap is one version of a NodeMetric object.
type metricSnap struct {
	Node     string
	RV       int
	Interval int64 // 0 = the spec names none
	Reported bool
	UpdateAt time.Time
	NodeU    vec2
	SysU     vec2
	Aggs     []aggVal
	Pods     []podUsage
	obj      *slov1alpha1.NodeMetric
}

type aggVal struct {
	Dur   int64
	Usage map[string]*vec2 // nil value = an entry with an empty resource list
}

func rlist(v vec2) corev1.ResourceList {
	return corev1.ResourceList{
		corev1.ResourceCPU:    *resource.NewMilliQuantity(v[0], resource.DecimalSI),
		corev1.ResourceMemory: *resource.NewQuantity(v[1], resource.BinarySI),
	}
}

func (m *metricSnap) build() *metricSnap {
	nm := &slov1alpha1.NodeMetric{ObjectMeta: metav1.ObjectMeta{Name: m.Node, ResourceVersion: fmt.Sprint(m.RV)}}
	if m.Interval > 0 {
		iv := m.Interval
		nm.Spec.CollectPolicy = &slov1alpha1.NodeMetricCollectPolicy{ReportIntervalSeconds: &iv}
	}
	if m.Reported {
		t := metav1.NewTime(m.UpdateAt)
		nm.Status.UpdateTime = &t
		info := &slov1alpha1.NodeMetricInfo{
			NodeUsage:   slov1alpha1.ResourceMap{ResourceList: rlist(m.NodeU)},
			SystemUsage: slov1alpha1.ResourceMap{ResourceList: rlist(m.SysU)},
		}
		for _, a := range m.Aggs {
			au := slov1alpha1.AggregatedUsage{Duration: metav1.Duration{Duration: time.Duration(a.Dur) * time.Second}, Usage: map[extension.AggregationType]slov1alpha1.ResourceMap{}}
			for t, v := range a.Usage {
				if v == nil {
					au.Usage[extension.AggregationType(t)] = slov1alpha1.ResourceMap{}
				} else {
					au.Usage[extension.AggregationType(t)] = slov1alpha1.ResourceMap{ResourceList: rlist(*v)}
				}
			}
			info.AggregatedNodeUsages = append(info.AggregatedNodeUsages, au)
		}
		nm.Status.NodeMetric = info
		for _, pu := range m.Pods {
			pm := &slov1alpha1.PodMetricInfo{Name: pu.Name, Namespace: "default", Priority: extension.PriorityClass("koord-" + pu.Prio)}
			if pu.HasU {
				pm.PodUsage = slov1alpha1.ResourceMap{ResourceList: rlist(pu.U)}
			}
			nm.Status.PodsMetric = append(nm.Status.PodsMetric, pm)
		}
	}
	m.obj = nm
	return m
}

func (n *laNode) obj() *corev1.Node {
	node := &corev1.Node{ObjectMeta: metav1.ObjectMeta{Name: n.Name, Annotations: map[string]string{}},
		Status: corev1.NodeStatus{Allocatable: rlist(vec2{n.CPU, n.Mem})}}
	if n.RawCPU > 0 || n.RawMem > 0 {
		raw := corev1.ResourceList{}
		if n.RawCPU > 0 {
			raw[corev1.ResourceCPU] = *resource.NewMilliQuantity(n.RawCPU, resource.DecimalSI)
		}
		if n.RawMem > 0 {
			raw[corev1.ResourceMemory] = *resource.NewQuantity(n.RawMem, resource.BinarySI)
		}
		extension.SetNodeRawAllocatable(node, raw)
	}
	if c := n.Custom; c != nil {
		cu := &extension.CustomUsageThresholds{UsageThresholds: toThr(c.Usage), ProdUsageThresholds: toThr(c.Prod)}
		if c.Agg != nil {
			cu.AggregatedUsage = &extension.CustomAggregatedUsage{UsageThresholds: toThr(c.Agg.Thr), UsageAggregationType: extension.AggregationType(c.Agg.Type)}
			if c.Agg.Dur > 0 {
				cu.AggregatedUsage.UsageAggregatedDuration = &metav1.Duration{Duration: time.Duration(c.Agg.Dur) * time.Second}
			}
		}
		b, _ := json.Marshal(cu)
		node.Annotations[extension.AnnotationCustomUsageThresholds] = string(b)
	}
	return node
}

func toThr(m map[string]int64) map[corev1.ResourceName]int64 {
	if len(m) == 0 {
		return nil
	}
	out := map[corev1.ResourceName]int64{}
	for k, v := range m {
		out[corev1.ResourceName(k)] = v
	}
	return out
}

func sortedKeys[V any](m map[string]V) []string {
	ks := make([]string, 0, len(m))
	for k := range m {
		ks = append(ks, k)
	}
	sort.Strings(ks)
	return ks
}
