//go:build verif

package loadaware

import (
	"fmt"
	"sort"
	"strings"
	"time"

	corev1 "k8s.io/api/core/v1"
	metav1 "k8s.io/apimachinery/pkg/apis/meta/v1"
	fwktype "k8s.io/kube-scheduler/framework"
	testingclock "k8s.io/utils/clock/testing"

	"k8s.io/apimachinery/pkg/types"

	"github.com/koordinator-sh/koordinator/apis/extension"
	slov1alpha1 "github.com/koordinator-sh/koordinator/apis/slo/v1alpha1"
	sim "github.com/koordinator-sh/koordinator/pkg/verifsim"
)

// ---------------------------------------------------------------- independent model (written from the statement)

// classKind: which resource names a priority class consumes.
var classKind = map[string]string{"prod": "native", "batch": "batch", "mid": "mid", "free": ""}

// estimate is the pod's estimated usage: max(request, limit) scaled by the
// factor in percent, rounded to the nearest unit, never above the limit; when the
// pod requests nothing of a resource the documented default (0.25 core / 200 MiB)
// is taken. Requests are read under the resource names of the pod's priority class.
func (s *laSim) estimate(p *podSnap) vec2 {
	factors := s.cfg.Factors
	if s.cfg.AllowCustom && len(p.Factors) > 0 {
		f := map[string]int64{}
		for k, v := range s.cfg.Factors {
			f[k] = v
		}
		for k, v := range p.Factors {
			f[k] = v
		}
		factors = f
	}
	ck := classKind[p.Prio]
	var req, lim vec2
	if ck != "" && p.Kind == ck {
		for _, c := range p.Cs {
			req[0] += c.CPUReq
			lim[0] += c.CPULim
			req[1] += c.MemReq
			lim[1] += c.MemLim
		}
	}
	var out vec2
	for i, res := range laRes {
		f, ok := factors[res]
		if !ok || ck == "" {
			continue
		}
		q := max(req[i], lim[i])
		if q == 0 {
			if ck == "native" || ck == "batch" {
				out[i] = []int64{250, 200 * miB}[i]
			}
			continue
		}
		e := (q*f + 50) / 100
		if lim[i] > 0 && e > lim[i] {
			e = lim[i]
		}
		out[i] = e
	}
	return out
}

// deadline: until when the pod's estimate is forced (0 = never).
func (s *laSim) deadline(p *podSnap, ts time.Time) time.Time {
	afterSched, afterInit := int64(-1), int64(-1)
	if s.cfg.AllowCustom {
		if p.SecSched != nil {
			afterSched = *p.SecSched
		}
		if p.SecInit != nil {
			afterInit = *p.SecInit
		}
	}
	if afterSched < 0 && s.cfg.SecSched != nil {
		afterSched = *s.cfg.SecSched
	}
	if afterInit < 0 && s.cfg.SecInit != nil {
		afterInit = *s.cfg.SecInit
	}
	if afterInit > 0 && p.InitAt != nil && !p.InitAt.IsZero() {
		return p.InitAt.Add(time.Duration(afterInit) * time.Second)
	}
	if afterSched > 0 {
		return ts.Add(time.Duration(afterSched) * time.Second)
	}
	return time.Time{}
}

type qShape struct {
	prod    bool
	aggType string
	dur     int64
}

func (q qShape) String() string {
	if q.prod {
		return "prod"
	}
	if q.aggType == "" {
		return "node"
	}
	return fmt.Sprintf("agg-%s-%d", q.aggType, q.dur)
}

func posSub(a, b int64) int64 {
	if a > b {
		return a - b
	}
	return 0
}

// modelQuery recomputes "usage + sum over pods not yet reflected of (estimate - reported)+" for one node and query
// shape from the expected assignment and the last delivered report. found=false: the node has no NodeMetric.
// defined=false: the statement does not say what the figure is (status not reported yet; the configured aggregation
// period is absent from the report).
func (s *laSim) modelQuery(node string, sh qShape) (v vec2, found, defined bool) {
	m := s.mMetric[node]
	if m == nil {
		return v, false, false
	}
	if !m.Reported {
		return v, true, false
	}
	interval := m.Interval
	if interval == 0 {
		interval = 60 // documented default report interval
	}
	usage := map[string]*podUsage{}
	for i := range m.Pods {
		if m.Pods[i].HasU {
			usage[m.Pods[i].Name] = &m.Pods[i]
		}
	}
	var base vec2
	switch {
	case sh.prod:
		if s.cfg.IncludeSys {
			base = m.SysU
		}
	case sh.aggType == "":
		base = m.NodeU
	default:
		var hit *vec2
		var hitDur int64 = -1
		for _, a := range m.Aggs {
			u := a.Usage[sh.aggType]
			if u == nil {
				continue
			}
			if sh.dur != 0 && a.Dur == sh.dur {
				hit = u
			}
			if sh.dur == 0 && a.Dur > hitDur {
				hit, hitDur = u, a.Dur
			}
		}
		if hit == nil {
			if sh.dur != 0 {
				return v, true, false
			}
			base = m.NodeU // no period recorded at all: the plain node usage is used
		} else {
			base = *hit
		}
	}
	v = base
	cutoff := m.UpdateAt.Add(-time.Duration(interval) * time.Second)
	for _, uid := range sortedUIDs(s.mAssign[node]) {
		a := s.mAssign[node][uid]
		e := s.estimate(a.snap)
		pu := usage[a.snap.Name]
		reflected := pu != nil
		if a.ts.After(cutoff) {
			reflected = false // assigned within the last report interval: the report cannot cover it fully yet
		}
		if d := s.deadline(a.snap, a.ts); !d.IsZero() && d.After(m.UpdateAt) {
			reflected = false // estimation is forced until the deadline
		}
		var u vec2
		if pu != nil {
			u = pu.U
		}
		if !sh.prod {
			if !reflected {
				v[0] += posSub(e[0], u[0])
				v[1] += posSub(e[1], u[1])
			}
			continue
		}
		if a.snap.Prio != "prod" {
			continue
		}
		// a prod pod's reported usage counts as prod usage only when the report also lists it as prod
		if pu != nil && pu.Prio == "prod" {
			v[0] += u[0]
			v[1] += u[1]
			if !reflected {
				v[0] += posSub(e[0], u[0])
				v[1] += posSub(e[1], u[1])
			}
		} else {
			// its usage is in nobody's prod figure: the whole estimate stands in for it
			if pu != nil || !reflected {
				v[0] += e[0]
				v[1] += e[1]
			}
		}
	}
	return v, true, true
}

func anyPos(m map[string]int64) bool {
	for _, v := range m {
		if v > 0 {
			return true
		}
	}
	return false
}

// modelFilter is the statement's verdict for one pod on one node.
func (s *laSim) modelFilter(p *podSnap, node string, now time.Time) (pass bool, why string, defined bool) {
	if p.DS {
		return true, "daemonset", true
	}
	usage, prod, agg := s.cfg.Usage, s.cfg.Prod, s.cfg.Agg
	if c := s.nodeCfg[node].Custom; c != nil && (len(c.Usage) > 0 || len(c.Prod) > 0 || c.Agg != nil) {
		if len(c.Usage) > 0 {
			usage = c.Usage
		}
		if len(c.Prod) > 0 {
			prod = c.Prod
		}
		if c.Agg != nil {
			agg = c.Agg
		}
	}
	var thr map[string]int64
	sh := qShape{}
	switch {
	case anyPos(prod) && p.Prio == "prod":
		thr, sh = prod, qShape{prod: true}
	case agg != nil:
		thr, sh = agg.Thr, qShape{aggType: agg.Type, dur: agg.Dur}
	default:
		thr = usage
	}
	if !anyPos(thr) {
		return true, "no-threshold", true
	}
	m := s.mMetric[node]
	if m == nil {
		return true, "no-metric", true
	}
	if s.cfg.FilterExpired {
		expired := !m.Reported
		if m.Reported {
			age := now.Sub(m.UpdateAt)
			lim := time.Duration(s.cfg.ExpSec) * time.Second
			if age == lim {
				return false, "expiry-boundary", false
			}
			expired = age > lim
		}
		if expired {
			if s.cfg.SchedWhenExpired {
				return true, "expired-allowed", true
			}
			return false, "expired", true
		}
	}
	if !m.Reported {
		return true, "not-reported", true
	}
	v, _, def := s.modelQuery(node, sh)
	if !def {
		return false, "agg-period-missing", false
	}
	e := s.estimate(p)
	alloc := s.allocFor(node)
	pass, why = true, "under"
	for i, res := range laRes {
		t := thr[res]
		if t <= 0 || alloc[i] <= 0 {
			continue
		}
		total := v[i] + e[i]
		if 100*total > t*alloc[i] {
			pass, why = false, "over-"+res
			if 200*total < (2*t+1)*alloc[i] {
				// history class of a recorded finding: utilization strictly between T% and (T+0.5)%
				s.r.Tag("filter-within-half-point-above-threshold")
				s.r.Probe("half-point-window")
			}
		}
		if 100*total == t*alloc[i] {
			s.r.Probe("exactly-at-threshold")
		}
	}
	return pass, why, true
}

func (s *laSim) checkFilter(p *podSnap, node string, st *fwktype.Status, pre filterPre) {
	r := s.r
	if pre.inflight != 0 || s.inflight[node] != 0 || pre.ver != s.ver[node] {
		r.Probe("filter-overlapped-change-unchecked")
		return
	}
	exp, why, defined := s.modelFilter(p, node, time.Now())
	if !defined {
		r.Probe("filter-suspended:" + why)
		return
	}
	r.OracleEval()
	r.Probe("filter-verdict:" + why)
	if st.Code() == fwktype.Error {
		r.Fail("filter", "error-status", "Filter(%s,%s) returned Error: %s", p.Name, node, st.Message())
	}
	got := st.IsSuccess()
	switch {
	case got && !exp:
		r.Fail("filter", "passed-"+strings.SplitN(why, "-", 2)[0], "pod %s passed Filter on node %s although the statement rejects it (%s): %s", p.Name, node, why, s.explain(p, node))
	case !got && exp:
		r.Fail("filter", "rejected-"+strings.SplitN(why, "-", 2)[0], "pod %s was rejected on node %s (%s) although the statement admits it (%s): %s", p.Name, node, st.Message(), why, s.explain(p, node))
	}
}

func (s *laSim) explain(p *podSnap, node string) string {
	var sb strings.Builder
	fmt.Fprintf(&sb, "incoming=%v alloc=%v", s.estimate(p), s.allocFor(node))
	for _, sh := range []qShape{{prod: true}, {}} {
		v, f, d := s.modelQuery(node, sh)
		fmt.Fprintf(&sb, " %s=%v(found=%v,defined=%v)", sh, v, f, d)
	}
	if s.cfg.Agg != nil {
		sh := qShape{aggType: s.cfg.Agg.Type, dur: s.cfg.Agg.Dur}
		v, f, d := s.modelQuery(node, sh)
		fmt.Fprintf(&sb, " %s=%v(found=%v,defined=%v)", sh, v, f, d)
	}
	return sb.String()
}

// ---------------------------------------------------------------- quiescent oracles

func liveQuery(c *podAssignCache, node string, sh qShape) (vec2, bool) {
	_, est, _, err := c.GetNodeMetricAndEstimatedOfExisting(node, sh.prod, metav1.Duration{Duration: time.Duration(sh.dur) * time.Second}, extension.AggregationType(sh.aggType), false)
	if err != nil {
		return vec2{}, false
	}
	// read by resource name: the layout of the code's vectors is its own business (a resource the code's vectorizer does
	// not know reads as zero, which the estimate oracles then report)
	var v vec2
	for i, name := range c.vectorizer {
		if i >= len(est) {
			break
		}
		switch name {
		case corev1.ResourceCPU:
			v[0] = est[i]
		case corev1.ResourceMemory:
			v[1] = est[i]
		}
	}
	return v, true
}

func (s *laSim) shapes(node string) []qShape {
	out := []qShape{{prod: true}, {}}
	seen := map[qShape]bool{}
	add := func(t string, d int64) {
		sh := qShape{aggType: t, dur: d}
		if !seen[sh] {
			seen[sh] = true
			out = append(out, sh)
		}
	}
	ts := []string{"p95"}
	ds := []int64{0, 600}
	if a := s.cfg.Agg; a != nil {
		ts = append(ts, a.Type)
		ds = append(ds, a.Dur)
	}
	if c := s.nodeCfg[node].Custom; c != nil && c.Agg != nil {
		ts = append(ts, c.Agg.Type)
		ds = append(ds, c.Agg.Dur)
	}
	for _, t := range ts {
		for _, d := range ds {
			add(t, d)
		}
	}
	return out
}

// freshCache builds a new cache that is given only the node's current metric
// and the currently assigned pods with their assign timestamps.
func (s *laSim) freshCache(node string, metricFirst bool, order *sim.Rng) *podAssignCache {
	c := newPodAssignCache(s.pl.estimator, s.pl.vectorizer, s.pl.args)
	fc := testingclock.NewFakeClock(time.Now())
	c.clock = fc
	m := s.mMetric[node]
	if m != nil && metricFirst {
		c.AddOrUpdateNodeMetric(m.obj)
	}
	uids := sortedUIDs(s.mAssign[node])
	if order != nil {
		perm := order.Perm(len(uids))
		u2 := make([]string, len(uids))
		for i, j := range perm {
			u2[i] = uids[j]
		}
		uids = u2
	}
	for _, uid := range uids {
		a := s.mAssign[node][uid]
		fc.SetTime(a.ts)
		c.assign(node, a.snap.obj)
	}
	if m != nil && !metricFirst {
		c.AddOrUpdateNodeMetric(m.obj)
	}
	return c
}

func (s *laSim) checkQuiescent(burst int) {
	r := s.r
	r.OracleEval()
	// ---- (1a) node entries: exactly the nodes that have a metric or an assigned pod
	live := map[string]*nodeInfo{}
	s.cache.items.Range(func(k, v any) bool {
		live[k.(string)] = v.(*nodeInfo)
		return true
	})
	// expected membership from what the informer delivered as bound plus the scheduler's in-flight reservations
	truth := map[string]map[string]bool{}
	put := func(node, uid string) {
		if truth[node] == nil {
			truth[node] = map[string]bool{}
		}
		truth[node][uid] = true
	}
	for _, name := range sortedKeys(s.view) {
		if p := s.view[name]; p.Node != "" && !p.terminated() {
			put(p.Node, p.UID)
		}
	}
	for _, uid := range sortedKeys(s.assumed) {
		put(s.assumed[uid], uid)
	}
	nodes := map[string]bool{}
	for n := range live {
		nodes[n] = true
	}
	for n := range truth {
		nodes[n] = true
	}
	for n := range s.mMetric {
		nodes[n] = true
	}
	for n := range s.mAssign {
		nodes[n] = true
	}
	// ---- harness self-check (the real cache is NOT consulted): the expected membership is computed twice from the
	// history, by state (what the informer shows as bound + the in-flight reservations = truth) and by events (every
	// delivered event and scheduler call applied to mAssign, which also carries the expected object and assign time).
	// The two must name the same pods on the same nodes; if they do not, the harness's bookkeeping is wrong and no
	// verdict about the cache can be trusted. Whether the REAL cache agrees with the expectation is never a matter of
	// this check: that is what the membership oracle below decides (r.Fail), whatever tree is under test.
	for _, n := range sortedKeys(nodes) {
		for _, uid := range sortedKeys(truth[n]) {
			if s.mAssign[n][uid] == nil {
				r.HarnessFail("harness bookkeeping: node %s uid %s is bound/reserved there by the informer view, but the event model has no entry (burst %d)", n, uid, burst)
			}
		}
		for _, uid := range sortedUIDs(s.mAssign[n]) {
			if !truth[n][uid] {
				r.HarnessFail("harness bookkeeping: node %s uid %s is in the event model, but neither bound there by the informer view nor reserved (burst %d)", n, uid, burst)
			}
		}
	}
	for _, n := range sortedKeys(nodes) {
		ni := live[n]
		wantEntry := s.mMetric[n] != nil || len(truth[n]) > 0
		if ni != nil && ni.deleted {
			r.Fail("membership", "deleted-entry-reachable", "node %s: an entry marked deleted is still stored in the cache", n)
		}
		if ni != nil && !wantEntry && ni.nodeMetric == nil && len(ni.podInfos) == 0 {
			r.Fail("membership", "node-entry-leaked", "node %s has neither a metric nor assigned pods but its cache entry still exists (burst %d)", n, burst)
		}
		// ---- (1b) no event lost, no ghost
		var liveUIDs []string
		if ni != nil {
			for uid := range ni.podInfos {
				liveUIDs = append(liveUIDs, string(uid))
			}
			sort.Strings(liveUIDs)
		}
		for _, uid := range liveUIDs {
			if !truth[n][uid] {
				r.Fail("membership", "ghost-pod", "node %s caches pod uid %s which is neither bound there (as delivered by the informer) nor reserved by the scheduler (burst %d)", n, uid, burst)
			}
		}
		for _, uid := range sortedKeys(truth[n]) {
			if ni == nil || ni.podInfos[typesUID(uid)] == nil {
				r.Fail("membership", "lost-pod", "pod uid %s is assigned to node %s (bound or reserved) but missing from the cache (burst %d)", uid, n, burst)
			}
		}
		var wantMetric any
		if m := s.mMetric[n]; m != nil {
			wantMetric = m.obj
		}
		var gotMetric any
		if ni != nil && ni.nodeMetric != nil {
			gotMetric = ni.nodeMetric
		}
		if wantMetric != gotMetric {
			r.Fail("membership", "metric-event-lost", "node %s: cache holds metric %v, the informer delivered %v last (burst %d)", n, rvOf(gotMetric), rvOf(wantMetric), burst)
		}
		// ---- (1b') the same against the event-derived expectation, entry by entry: pod, object version, assign time.
		// (Membership by events equals membership by state - checked above without looking at the cache - so a
		// difference between the cache and the event model is a finding about the cache, never about the harness.)
		for _, uid := range liveUIDs {
			a := s.mAssign[n][uid]
			if a == nil {
				r.Fail("membership", "ghost-pod", "node %s caches pod uid %s although the delivered events and scheduler calls leave no pod with that uid on the node (burst %d)", n, uid, burst)
			}
			pi := ni.podInfos[typesUID(uid)]
			if pi.pod != a.snap.obj {
				r.Fail("membership", "stale-pod-object", "node %s pod %s: cache holds version %s, the latest (re)assignment was version %s", n, a.snap.Name, pi.pod.ResourceVersion, a.snap.obj.ResourceVersion)
			}
			if !pi.timestamp.Equal(a.ts) {
				r.Fail("membership", "assign-timestamp", "node %s pod %s: cached assign time %v, expected %v", n, a.snap.Name, pi.timestamp, a.ts)
			}
		}
		for _, uid := range sortedUIDs(s.mAssign[n]) {
			if ni == nil || ni.podInfos[typesUID(uid)] == nil {
				r.Fail("membership", "lost-pod", "pod uid %s was placed on node %s by the delivered events / scheduler calls and never taken off, but it is missing from the cache (burst %d)", uid, n, burst)
			}
		}
		// ---- (1c) estimates: live == fresh caches == independent recomputation
		var fresh []*podAssignCache
		if s.mMetric[n] != nil {
			fresh = append(fresh, s.freshCache(n, true, nil), s.freshCache(n, false, sim.NewRng(sim.Mix(r.Plan.Seed, uint64(burst)))))
		}
		var sb strings.Builder
		for _, sh := range s.shapes(n) {
			got, found := liveQuery(s.cache, n, sh)
			if found != (s.mMetric[n] != nil) {
				r.Fail("estimate", "found", "node %s %s: query found=%v but metric present=%v", n, sh, found, s.mMetric[n] != nil)
			}
			if !found {
				continue
			}
			for k, f := range fresh {
				fv, ff := liveQuery(f, n, sh)
				if !ff || fv != got {
					r.Fail("differential", shapeClass(sh), "node %s %s: incrementally maintained estimate %v != fresh cache (variant %d) %v found=%v (burst %d)", n, sh, got, k, fv, ff, burst)
				}
			}
			if mv, _, def := s.modelQuery(n, sh); def {
				if mv != got {
					r.Fail("estimate", shapeClass(sh), "node %s %s: cache reports %v, recomputed from the report and the assigned pods %v (burst %d)", n, sh, got, mv, burst)
				}
				r.Probe("estimate-recomputed")
			} else {
				r.Probe("estimate-undefined-shape")
			}
			fmt.Fprintf(&sb, " %s=%v", sh, got)
		}
		r.Event("state %s metric=%s pods=%s%s", n, rvOf(wantMetric), strings.Join(liveUIDs, ","), sb.String())
	}
}

func shapeClass(sh qShape) string {
	if sh.prod {
		return "prod"
	}
	if sh.aggType == "" {
		return "node"
	}
	return "aggregated"
}

func typesUID(s string) types.UID { return types.UID(s) }

func rvOf(m any) string {
	if nm, ok := m.(*slov1alpha1.NodeMetric); ok && nm != nil {
		return "rv" + nm.ResourceVersion
	}
	return "none"
}
