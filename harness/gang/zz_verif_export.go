//go:build verif

package core

// Export shim for the /verif `gang` engine (C04). It only ADDS identifiers: a
// constructor that builds the PodGroupManager + GangCache without informers or
// clients (NewPodGroupManager registers informer handlers and needs factories),
// and forwarders to the unexported informer event handlers of GangCache.

import (
	fwktype "k8s.io/kube-scheduler/framework"

	"github.com/koordinator-sh/koordinator/pkg/scheduler/apis/config"
)

// NewVerifPodGroupManager mirrors NewPodGroupManager minus informer wiring,
// preemption evaluator, network-topology solver and workload auditor.
// cacheHandle is what NewPodGroupManager passes to NewGangCache (the framework handle).
func NewVerifPodGroupManager(handle fwktype.Handle, cacheHandle fwktype.Handle, args *config.CoschedulingArgs) *PodGroupManager {
	gangCache := NewGangCache(args, nil, nil, nil, cacheHandle)
	return &PodGroupManager{
		handle: handle,
		args:   args,
		cache:  gangCache,
	}
}

func (pgMgr *PodGroupManager) VerifOnPodAdd(obj interface{}) { pgMgr.cache.onPodAdd(obj) }
func (pgMgr *PodGroupManager) VerifOnPodUpdate(oldObj, newObj interface{}) {
	pgMgr.cache.onPodUpdate(oldObj, newObj)
}
func (pgMgr *PodGroupManager) VerifOnPodDelete(obj interface{})   { pgMgr.cache.onPodDelete(obj) }
func (pgMgr *PodGroupManager) VerifOnPodGroupAdd(obj interface{}) { pgMgr.cache.onPodGroupAdd(obj) }
func (pgMgr *PodGroupManager) VerifOnPodGroupUpdate(oldObj, newObj interface{}) {
	pgMgr.cache.onPodGroupUpdate(oldObj, newObj)
}
func (pgMgr *PodGroupManager) VerifOnPodGroupDelete(obj interface{}) {
	pgMgr.cache.onPodGroupDelete(obj)
}

// VerifSchedulingContext reports the gang group currently drained by NextPod ("" when none).
func (pgMgr *PodGroupManager) VerifSchedulingContext() (gangGroupID string, failed bool) {
	c := pgMgr.holder.getCurrentGangSchedulingContext()
	if c == nil {
		return "", false
	}
	return c.gangGroupID, c.failedMessage != ""
}
