//go:build verif

package coscheduling

// Engine `gang` (C04): the real Coscheduling extension points, PodGroupManager,
// GangCache, Gang, GangGroupInfo and the gang scheduling context run under the
// token-passing scheduler. Stubbed: the kube-scheduler cycle driver (ScheduleOne,
// scheduling queue, scheduler cache "assumed" state, failure handler), the
// framework's waiting-pod map with permit timers on the simulated clock, filter
// verdicts, the bind API, the informers (two listeners of the pod informer with
// independent lag + the pod-group informer). See /verif/DESIGN.md §4 C04.

import (
	"context"
	"encoding/json"
	"flag"
	"fmt"
	"io"
	"os"
	"runtime"
	"sort"
	"strings"
	"testing"
	"time"

	corev1 "k8s.io/api/core/v1"
	metav1 "k8s.io/apimachinery/pkg/apis/meta/v1"
	"k8s.io/apimachinery/pkg/types"
	k8sfeature "k8s.io/apiserver/pkg/util/feature"
	"k8s.io/client-go/tools/cache"
	"k8s.io/klog/v2"
	fwktype "k8s.io/kube-scheduler/framework"
	"k8s.io/kubernetes/pkg/scheduler/framework"
	"k8s.io/utils/ptr"

	"github.com/koordinator-sh/koordinator/apis/extension"
	"github.com/koordinator-sh/koordinator/apis/thirdparty/scheduler-plugins/pkg/apis/scheduling/v1alpha1"
	"github.com/koordinator-sh/koordinator/pkg/scheduler/apis/config"
	"github.com/koordinator-sh/koordinator/pkg/scheduler/frameworkext"
	"github.com/koordinator-sh/koordinator/pkg/scheduler/plugins/coscheduling/core"
	sim "github.com/koordinator-sh/koordinator/pkg/verifsim"
)

func TestVerifSim(t *testing.T) {
	kfs := flag.NewFlagSet("klog", flag.ContinueOnError)
	klog.InitFlags(kfs)
	_ = kfs.Set("logtostderr", "false")
	_ = kfs.Set("alsologtostderr", "false")
	_ = kfs.Set("stderrthreshold", "FATAL")
	klog.SetOutput(io.Discard)
	// patchGangPendingPodsCondition needs a clientset + Parallelizer (API side effects only): out of scope
	if err := k8sfeature.DefaultMutableFeatureGate.Set("GangPendingPodsConditionPatch=false"); err != nil {
		t.Fatalf("feature gate: %v", err)
	}
	sim.Main(t, &gangEngine{})
}

type gangEngine struct{}

func (gangEngine) Name() string { return "gang" }

const (
	gvNS   = "default"
	gvNode = "node-0"
	gvTick = time.Second
)

// ---------------------------------------------------------------- plan types

type gvGang struct {
	Name   string `json:"name"`
	PG     bool   `json:"pg"` // defined by a PodGroup object (else by pod annotations)
	Min    int    `json:"min"`
	Total  int    `json:"total"`
	Strict bool   `json:"strict"`
	Policy string `json:"policy"` // "" = plugin default
	WaitS  int    `json:"wait_s"` // 0 = unspecified (plugin default timeout)
	Group  int    `json:"group"`
}

type gvCfg struct {
	Gangs           []gvGang `json:"gangs"`
	DefaultPolicy   string   `json:"default_policy"`
	DefaultTimeoutS int      `json:"default_timeout_s"`
	Readers         int      `json:"readers"`
}

type gvOp struct {
	K      string `json:"k"`
	G      int    `json:"g,omitempty"`
	P      string `json:"p,omitempty"`
	Min    int    `json:"min,omitempty"`
	Mode   string `json:"mode,omitempty"`   // pg_update: "strict" | "nonstrict" (annotation-only change)
	Pol    string `json:"pol,omitempty"`    // pg_update: new match-policy annotation
	Grp    string `json:"grp,omitempty"`    // pg_update / pg_create: gang-groups annotation "x" = also lists a gang that does not exist (yet), "plain" = the group's gangs only
	Bound  bool   `json:"bound,omitempty"`  // pod_create: the pod already runs (fail-over)
	Fit    bool   `json:"fit,omitempty"`    // sched: filter verdict
	D      int    `json:"d,omitempty"`      // seconds (sleep / delay before a scheduling cycle)
	Tomb   bool   `json:"tomb,omitempty"`   // pod_delete: delivered as DeletedFinalStateUnknown
	Resync bool   `json:"resync,omitempty"` // pod_update: Update(obj,obj) with identical resourceVersion
}

func (c *gvCfg) gangID(g int) string { return gvNS + "/" + c.Gangs[g].Name }

func (c *gvCfg) groupOf(g int) []int {
	var out []int
	for i := range c.Gangs {
		if c.Gangs[i].Group == c.Gangs[g].Group {
			out = append(out, i)
		}
	}
	return out
}

func (c *gvCfg) groupAnnotation(g int) string {
	var ids []string
	for _, i := range c.groupOf(g) {
		ids = append(ids, c.gangID(i))
	}
	sort.Strings(ids)
	b, _ := json.Marshal(ids)
	return string(b)
}

// phantomID names a gang that is listed in a gang-groups annotation but is never defined by any PodGroup or pod
// ("the job is attached to a group together with a future gang").
func (c *gvCfg) phantomID(g int) string { return fmt.Sprintf("%s/gx%d", gvNS, c.Gangs[g].Group) }

func (c *gvCfg) groupAnnotationX(g int, phantom bool) string {
	if !phantom {
		return c.groupAnnotation(g)
	}
	var ids []string
	for _, i := range c.groupOf(g) {
		ids = append(ids, c.gangID(i))
	}
	ids = append(ids, c.phantomID(g))
	sort.Strings(ids)
	b, _ := json.Marshal(ids)
	return string(b)
}

func (c *gvCfg) policyOf(g int) string {
	if p := c.Gangs[g].Policy; p != "" {
		return p
	}
	return c.DefaultPolicy
}

func (c *gvCfg) waitOf(g int) time.Duration {
	if w := c.Gangs[g].WaitS; w > 0 {
		return time.Duration(w) * time.Second
	}
	return time.Duration(c.DefaultTimeoutS) * time.Second
}

func (c *gvCfg) modeString(g int) string {
	if c.Gangs[g].Strict {
		return extension.GangModeStrict
	}
	return extension.GangModeNonStrict
}

// ---------------------------------------------------------------- model store (the "API server")

type gvPod struct {
	name string
	g    int
	rv   int
	rev  int
	node string
	obj  *corev1.Pod
}

type gvPG struct {
	g       int
	rv      int
	gen     int // incarnation of the object under this name (a re-created PodGroup is a new object with a new UID)
	min     int
	strict  bool
	policy  string // annotation value ("" = no annotation: plugin default)
	phantom bool   // the gang-groups annotation also lists a gang that does not exist
	obj     *v1alpha1.PodGroup
}

type gvStore struct {
	cfg     *gvCfg
	rv      int
	pods    map[string]*gvPod // live pods
	ever    map[string]bool   // names are never reused
	perGang map[int]int       // pods ever created per gang
	pgs     map[int]*gvPG
	pgGen   map[int]int // PodGroup objects ever created per gang
}

func newGvStore(cfg *gvCfg) *gvStore {
	return &gvStore{cfg: cfg, pods: map[string]*gvPod{}, ever: map[string]bool{}, perGang: map[int]int{}, pgs: map[int]*gvPG{}, pgGen: map[int]int{}}
}

type gvEvent struct {
	typ, kind string // pod|pg ; add|update|delete
	name      string
	g         int
	old, new  any
	tomb      bool
	ver       int // pg: version index of `new`
}

func (s *gvStore) podObj(p *gvPod) *corev1.Pod {
	gang := s.cfg.Gangs[p.g]
	pod := &corev1.Pod{
		ObjectMeta: metav1.ObjectMeta{Name: p.name, Namespace: gvNS, UID: types.UID("uid-" + p.name), ResourceVersion: fmt.Sprint(p.rv),
			Labels: map[string]string{"rev": fmt.Sprint(p.rev)}, Annotations: map[string]string{}},
		Spec:   corev1.PodSpec{NodeName: p.node, SchedulerName: "koord-scheduler", Containers: []corev1.Container{{Name: "c"}}},
		Status: corev1.PodStatus{Phase: corev1.PodPending},
	}
	if p.node != "" {
		pod.Status.Phase = corev1.PodRunning
	}
	if gang.PG {
		pod.Labels[v1alpha1.PodGroupLabel] = gang.Name
	} else {
		a := pod.Annotations
		a[extension.AnnotationGangName] = gang.Name
		a[extension.AnnotationGangMinNum] = fmt.Sprint(gang.Min)
		a[extension.AnnotationGangTotalNum] = fmt.Sprint(gang.Total)
		a[extension.AnnotationGangMode] = s.cfg.modeString(p.g)
		if gang.Policy != "" {
			a[extension.AnnotationGangMatchPolicy] = gang.Policy
		}
		if gang.WaitS > 0 {
			a[extension.AnnotationGangWaitTime] = fmt.Sprintf("%ds", gang.WaitS)
		}
		a[extension.AnnotationGangGroups] = s.cfg.groupAnnotation(p.g)
	}
	return pod
}

func (s *gvStore) pgObj(p *gvPG) *v1alpha1.PodGroup {
	gang := s.cfg.Gangs[p.g]
	pg := &v1alpha1.PodGroup{
		ObjectMeta: metav1.ObjectMeta{Name: gang.Name, Namespace: gvNS, UID: types.UID(fmt.Sprintf("pg-%s-%d", gang.Name, p.gen)), ResourceVersion: fmt.Sprint(p.rv),
			Annotations: map[string]string{
				extension.AnnotationGangTotalNum: fmt.Sprint(gang.Total),
				extension.AnnotationGangMode:     map[bool]string{true: extension.GangModeStrict, false: extension.GangModeNonStrict}[p.strict],
				extension.AnnotationGangGroups:   s.cfg.groupAnnotationX(p.g, p.phantom),
			}},
		Spec: v1alpha1.PodGroupSpec{MinMember: int32(p.min)},
	}
	if p.policy != "" {
		pg.Annotations[extension.AnnotationGangMatchPolicy] = p.policy
	}
	if gang.WaitS > 0 {
		pg.Spec.ScheduleTimeoutSeconds = ptr.To(int32(gang.WaitS))
	}
	return pg
}

// apply executes one API-level operation; ok=false when it is not applicable in this state.
func (s *gvStore) apply(op *gvOp) (evs []gvEvent, ok bool) {
	switch op.K {
	case "pg_create":
		if op.G < 0 || op.G >= len(s.cfg.Gangs) || !s.cfg.Gangs[op.G].PG || s.pgs[op.G] != nil {
			return nil, false
		}
		s.rv++
		s.pgGen[op.G]++
		pg := &gvPG{g: op.G, rv: s.rv, gen: s.pgGen[op.G], min: s.cfg.Gangs[op.G].Min, strict: s.cfg.Gangs[op.G].Strict, policy: s.cfg.Gangs[op.G].Policy,
			phantom: op.Grp == "x" && len(s.cfg.groupOf(op.G)) == 1}
		pg.obj = s.pgObj(pg)
		s.pgs[op.G] = pg
		return []gvEvent{{typ: "pg", kind: "add", name: s.cfg.Gangs[op.G].Name, g: op.G, new: pg.obj}}, true
	case "pg_delete":
		// the job is cleaned up: a PodGroup is deleted only after every member pod was deleted in the API (the delete
		// events of those pods may still be under way)
		old := s.pgs[op.G]
		if old == nil {
			return nil, false
		}
		for _, p := range s.pods {
			if p.g == op.G {
				return nil, false
			}
		}
		delete(s.pgs, op.G)
		return []gvEvent{{typ: "pg", kind: "delete", name: s.cfg.Gangs[op.G].Name, g: op.G, old: old.obj, tomb: op.Tomb}}, true
	case "pg_update":
		old := s.pgs[op.G]
		if old == nil {
			return nil, false
		}
		pg := &gvPG{g: op.G, gen: old.gen, min: old.min, strict: old.strict, policy: old.policy, phantom: old.phantom}
		// the list is rewritten only in groups of one gang (attached to / detached from a second gang that does not exist
		// yet), so that all existing gangs of a group carry the same list at all times
		if len(s.cfg.groupOf(op.G)) == 1 {
			switch op.Grp {
			case "x":
				pg.phantom = true
			case "plain":
				pg.phantom = false
			}
		}
		if op.Min >= 1 {
			pg.min = op.Min
		}
		switch op.Mode {
		case "strict":
			pg.strict = true
		case "nonstrict":
			pg.strict = false
		}
		if op.Pol != "" {
			pg.policy = op.Pol
		}
		if pg.min == old.min && pg.strict == old.strict && pg.policy == old.policy && pg.phantom == old.phantom {
			return nil, false
		}
		s.rv++
		pg.rv = s.rv
		pg.obj = s.pgObj(pg)
		s.pgs[op.G] = pg
		return []gvEvent{{typ: "pg", kind: "update", name: s.cfg.Gangs[op.G].Name, g: op.G, old: old.obj, new: pg.obj}}, true
	case "pod_create":
		if op.P == "" || s.ever[op.P] || op.G < 0 || op.G >= len(s.cfg.Gangs) {
			return nil, false
		}
		s.rv++
		p := &gvPod{name: op.P, g: op.G, rv: s.rv}
		if op.Bound {
			p.node = gvNode
		}
		p.obj = s.podObj(p)
		s.pods[op.P] = p
		s.ever[op.P] = true
		s.perGang[op.G]++
		return []gvEvent{{typ: "pod", kind: "add", name: op.P, g: op.G, new: p.obj}}, true
	case "pod_update":
		old := s.pods[op.P]
		if old == nil {
			return nil, false
		}
		if op.Resync {
			return []gvEvent{{typ: "pod", kind: "update", name: op.P, g: old.g, old: old.obj, new: old.obj}}, true
		}
		s.rv++
		p := *old
		p.rv, p.rev = s.rv, old.rev+1
		p.obj = s.podObj(&p)
		s.pods[op.P] = &p
		return []gvEvent{{typ: "pod", kind: "update", name: op.P, g: old.g, old: old.obj, new: p.obj}}, true
	case "pod_delete":
		old := s.pods[op.P]
		if old == nil {
			return nil, false
		}
		delete(s.pods, op.P)
		return []gvEvent{{typ: "pod", kind: "delete", name: op.P, g: old.g, old: old.obj, tomb: op.Tomb}}, true
	}
	return nil, false
}

// bind is the pods/binding API call.
func (s *gvStore) bind(name string) (ev *gvEvent, ok bool) {
	old := s.pods[name]
	if old == nil || old.node != "" {
		return nil, false
	}
	s.rv++
	p := *old
	p.rv, p.node = s.rv, gvNode
	p.obj = s.podObj(&p)
	s.pods[name] = &p
	return &gvEvent{typ: "pod", kind: "update", name: name, g: old.g, old: old.obj, new: p.obj}, true
}

// ---------------------------------------------------------------- generation

func (gangEngine) Generate(p *sim.Plan, g *sim.Rng) {
	if path := os.Getenv("VERIF_GANG_DEV_PLAN"); path != "" {
		// development aid: explore schedules / deliveries of ONE fixed history (cfg and ops of a replay file)
		var rf struct {
			Plan struct {
				Cfg json.RawMessage   `json:"cfg"`
				Ops []json.RawMessage `json:"ops"`
			} `json:"plan"`
		}
		if b, err := os.ReadFile(path); err == nil && json.Unmarshal(b, &rf) == nil && len(rf.Plan.Ops) > 0 {
			p.Cfg, p.Ops = rf.Plan.Cfg, rf.Plan.Ops
			return
		}
	}
	cfg := gvCfg{DefaultPolicy: g.Pick(extension.GangMatchPolicyOnceSatisfied, extension.GangMatchPolicyOnlyWaiting, extension.GangMatchPolicyWaitingAndRunning),
		DefaultTimeoutS: g.PickInt(10, 30, 60), Readers: g.PickInt(0, 1, 1, 2)}
	policies := []string{extension.GangMatchPolicyOnceSatisfied, extension.GangMatchPolicyOnlyWaiting, extension.GangMatchPolicyWaitingAndRunning, ""}
	nGroups := 1
	if g.Bool(0.3) {
		nGroups = 2
	}
	podBudget := 9
	if p.Tier == "thorough" {
		podBudget = 16
	}
	for gi := 0; gi < nGroups; gi++ {
		nG := g.PickInt(1, 1, 1, 2, 2, 2, 3)
		strict, policy, pg := g.Bool(0.6), policies[g.Intn(len(policies))], g.Bool(0.5)
		for k := 0; k < nG; k++ {
			gg := gvGang{Name: fmt.Sprintf("g%d", len(cfg.Gangs)), PG: pg, Strict: strict, Policy: policy, Group: gi,
				Min: g.PickInt(1, 2, 2, 2, 3, 3, 4), WaitS: g.PickInt(5, 10, 20, 30, 60, 0)}
			if g.Bool(0.15) {
				gg.PG = !gg.PG
			}
			if g.Bool(0.1) {
				gg.Strict = !gg.Strict
			}
			if g.Bool(0.1) {
				gg.Policy = policies[g.Intn(len(policies))]
			}
			if gg.Min > podBudget {
				gg.Min = 1
			}
			gg.Total = gg.Min + g.PickInt(0, 0, 1, 2)
			podBudget -= gg.Min
			if podBudget < 1 {
				podBudget = 1
			}
			cfg.Gangs = append(cfg.Gangs, gg)
		}
	}
	// faults: bind API failures; one run in four is fault free
	if g.Bool(0.75) {
		p.FaultRate = []float64{0.05, 0.15, 0.3}[g.Intn(3)]
		switch g.Intn(3) {
		case 0:
			p.Faults = []string{"err-before"}
		case 1:
			p.Faults = []string{"err-after"}
		default:
			p.Faults = []string{"err-before", "err-after"}
		}
	}
	serial := g.Bool(0.2)
	st := newGvStore(&cfg)
	var ops []gvOp
	add := func(op gvOp) bool {
		switch op.K {
		case "sched", "requeue", "sleep", "barrier", "pod_delete_inflight":
			ops = append(ops, op)
			return true
		}
		if _, ok := st.apply(&op); ok {
			ops = append(ops, op)
			return true
		}
		return false
	}
	var pods []string
	np := 0
	newPod := func(gi int, bound bool) {
		name := fmt.Sprintf("p%d", np)
		np++
		if add(gvOp{K: "pod_create", G: gi, P: name, Bound: bound}) {
			pods = append(pods, name)
		}
	}
	// set-up phase in random order: pod groups and most of the members
	var setup []gvOp
	for gi, gg := range cfg.Gangs {
		if gg.PG && g.Bool(0.9) {
			setup = append(setup, gvOp{K: "pg_create", G: gi})
		}
		n := gg.Min
		if g.Bool(0.3) {
			n = gg.Total
		}
		if g.Bool(0.15) && n > 0 {
			n--
		}
		for k := 0; k < n; k++ {
			setup = append(setup, gvOp{K: "pod_create", G: gi})
		}
	}
	for _, i := range g.Perm(len(setup)) {
		op := setup[i]
		if op.K == "pod_create" {
			newPod(op.G, g.Bool(0.04))
		} else {
			add(op)
		}
		if serial {
			ops = append(ops, gvOp{K: "barrier"})
		}
	}
	if g.Bool(0.5) {
		ops = append(ops, gvOp{K: "barrier"})
	}
	nOps := len(ops) + g.Range(10, 40)
	if p.Tier == "thorough" {
		nOps = len(ops) + g.Range(10, 80)
	}
	// life-cycle runs (about one in three): at some point a whole gang group (or one gang of it) is torn down -- pods
	// deleted, then the PodGroup -- and set up again under the same names: the new incarnation starts from nothing
	recycles, recycleAt := 0, -1
	if g.Bool(0.35) {
		recycles = 1
		if p.Tier == "thorough" && g.Bool(0.4) {
			recycles = 2
		}
		recycleAt = len(ops) + g.Range(4, 24)
	}
	livePodsOf := func(gi int) []string {
		var out []string
		for n, sp := range st.pods {
			if sp.g == gi {
				out = append(out, n)
			}
		}
		sort.Strings(out)
		return out
	}
	toggleGroups := func(gi int) {
		if pg := st.pgs[gi]; pg != nil {
			if pg.phantom {
				add(gvOp{K: "pg_update", G: gi, Grp: "plain"})
			} else {
				add(gvOp{K: "pg_update", G: gi, Grp: "x"})
			}
		}
	}
	recycle := func() {
		gi := g.Intn(len(cfg.Gangs))
		scope := []int{gi}
		if g.Bool(0.75) {
			scope = cfg.groupOf(gi)
		}
		if g.Bool(0.5) {
			// let what is there get scheduled first, so that the old incarnation has usually been satisfied
			for k := g.Range(2, 5); k > 0; k-- {
				add(gvOp{K: "sched", Fit: true})
			}
			if g.Bool(0.5) {
				ops = append(ops, gvOp{K: "barrier"})
			}
		}
		if g.Bool(0.6) {
			// the gang-groups annotation of a PodGroup of the group is rewritten while the gang exists
			var pgs []int
			for _, k := range cfg.groupOf(gi) {
				if st.pgs[k] != nil {
					pgs = append(pgs, k)
				}
			}
			if len(pgs) > 0 {
				toggleGroups(pgs[g.Intn(len(pgs))])
				if g.Bool(0.3) {
					add(gvOp{K: "sched", Fit: true})
				}
			}
		}
		lateBinder := g.Bool(0.25)
		if lateBinder {
			// a pod that is in the permit / binding stage goes first (its binding goroutine may come back much later)
			add(gvOp{K: "pod_delete_inflight", Tomb: g.Bool(0.2)})
		}
		for _, i := range g.Perm(len(scope)) {
			k := scope[i]
			for _, n := range livePodsOf(k) {
				add(gvOp{K: "pod_delete", P: n, Tomb: g.Bool(0.15)})
			}
			if st.pgs[k] != nil && g.Bool(0.92) {
				add(gvOp{K: "pg_delete", G: k, Tomb: g.Bool(0.15)})
			}
			st.perGang[k] = 0
		}
		switch g.Intn(4) {
		case 0, 1:
			ops = append(ops, gvOp{K: "barrier"})
		case 2:
			add(gvOp{K: "sleep", D: g.PickInt(1, 2, 5)})
		}
		var again []gvOp
		for _, k := range scope {
			if cfg.Gangs[k].PG && st.pgs[k] == nil && g.Bool(0.92) {
				op := gvOp{K: "pg_create", G: k}
				if g.Bool(0.1) {
					op.Grp = "x"
				}
				again = append(again, op)
			}
			n := g.Range(1, cfg.Gangs[k].Min)
			if g.Bool(0.3) {
				n = cfg.Gangs[k].Min
			}
			for ; n > 0; n-- {
				again = append(again, gvOp{K: "pod_create", G: k})
			}
		}
		for _, i := range g.Perm(len(again)) {
			if op := again[i]; op.K == "pod_create" {
				newPod(op.G, g.Bool(0.03))
			} else {
				add(op)
			}
			if serial {
				ops = append(ops, gvOp{K: "barrier"})
			}
		}
		for k := g.Range(1, len(again)+1); k > 0; k-- {
			add(gvOp{K: "sched", Fit: true})
		}
		if lateBinder || g.Bool(0.2) {
			add(gvOp{K: "sched", Fit: true, D: g.PickInt(1, 2, 5)})
			add(gvOp{K: "sched", Fit: true})
		}
		nOps += g.Range(4, 12)
	}
	for len(ops) < nOps {
		if recycles > 0 && len(ops) >= recycleAt {
			recycle()
			recycles--
			recycleAt = len(ops) + g.Range(8, 24)
			continue
		}
		x := g.Intn(100)
		switch {
		case x < 40:
			op := gvOp{K: "sched", Fit: g.Bool(0.85)}
			if g.Bool(0.2) {
				op.D = g.PickInt(1, 2, 5, 10, 20, 40)
				if g.Bool(0.5) {
					// wake up exactly when the permit timer of a member that started waiting just before fires
					op.D = int(cfg.waitOf(g.Intn(len(cfg.Gangs))) / time.Second)
					add(op)
					op = gvOp{K: "sched", Fit: true}
				}
			}
			add(op)
		case x < 52:
			if len(pods) > 0 {
				add(gvOp{K: "requeue", P: pods[g.Intn(len(pods))]})
			}
		case x < 62:
			gi := g.Intn(len(cfg.Gangs))
			if st.perGang[gi] < cfg.Gangs[gi].Total+1 {
				newPod(gi, g.Bool(0.08))
			}
		case x < 70:
			if len(pods) > 0 {
				add(gvOp{K: "pod_update", P: pods[g.Intn(len(pods))], Resync: g.Bool(0.25)})
			}
		case x < 73:
			if len(pods) > 0 {
				add(gvOp{K: "pod_delete", P: pods[g.Intn(len(pods))], Tomb: g.Bool(0.2)})
			}
		case x < 78:
			// the victim is chosen at execution time among the pods that are in the permit stage or binding
			add(gvOp{K: "pod_delete_inflight", Tomb: g.Bool(0.2)})
			if g.Bool(0.6) {
				// ... while the scheduling goroutine goes on with the other members of the gang
				add(gvOp{K: "sched", Fit: true})
				if g.Bool(0.5) {
					add(gvOp{K: "sched", Fit: true})
				}
			}
		case x < 84:
			gi := g.Intn(len(cfg.Gangs))
			if cfg.Gangs[gi].PG {
				if st.pgs[gi] == nil {
					add(gvOp{K: "pg_create", G: gi})
				} else {
					switch g.Intn(6) {
					case 0: // annotation-only updates: spec unchanged
						add(gvOp{K: "pg_update", G: gi, Mode: g.Pick("strict", "nonstrict")})
					case 1:
						add(gvOp{K: "pg_update", G: gi, Pol: g.Pick(extension.GangMatchPolicyOnceSatisfied, extension.GangMatchPolicyOnlyWaiting, extension.GangMatchPolicyWaitingAndRunning)})
					case 2:
						toggleGroups(gi)
					case 3:
						// applicable only when every member pod is gone
						if add(gvOp{K: "pg_delete", G: gi, Tomb: g.Bool(0.2)}) {
							st.perGang[gi] = 0
						}
					default:
						add(gvOp{K: "pg_update", G: gi, Min: g.Range(1, 4)})
					}
				}
			}
		case x < 91:
			add(gvOp{K: "sleep", D: g.PickInt(1, 2, 5, 10, 20, 30)})
		default:
			if len(ops) > 0 && ops[len(ops)-1].K != "barrier" {
				ops = append(ops, gvOp{K: "barrier"})
			}
		}
		if serial && len(ops) > 0 && ops[len(ops)-1].K != "barrier" {
			ops = append(ops, gvOp{K: "barrier"})
		}
	}
	p.SetCfg(cfg)
	p.SetOps(ops)
}

// ---------------------------------------------------------------- execution state

type gvIv struct{ start, end uint64 } // end==0: still open

// gvMPod is the harness model of one pod's life in the scheduler.
type gvMPod struct {
	name string
	g    int
	// informer progress (gang listener)
	gangAddStart uint64
	gangAddDone  uint64
	gangDelStart uint64
	gangDelDone  uint64
	gangDropped  uint64 // the delete of the pod's PodGroup was handled while the gang cache still knew the pod (deleted in the API, its events under way)
	// resource holding, as seen from outside the plugin
	waits     []gvIv // assumed/reserved and neither unreserved nor post-bound
	bound     gvIv   // bound in the API (start = bind call applied / created bound) until the delete was delivered to the gang cache
	permitted bool   // Permit returned Wait/Success and neither Unreserve nor PostBind completed yet
	permitInv uint64 // latest Permit call of this pod: invoke / return stamps (return 0 while in progress)
	permitRet uint64
	boundSeen uint64 // the gang listener finished handling an event that carries the pod's node name
	nodeDeliv []gvIv // the gang listener's handling of events that carry the pod's node name
	lostAck   bool   // a bind of this pod was applied although the scheduler saw an error
}

func (m *gvMPod) openWait(seq uint64) { m.waits = append(m.waits, gvIv{start: seq}) }
func (m *gvMPod) closeWait(seq uint64) {
	if n := len(m.waits); n > 0 && m.waits[n-1].end == 0 {
		m.waits[n-1].end = seq
	}
}

func ivOverlaps(iv gvIv, t0, now uint64) bool {
	return iv.start != 0 && iv.start <= now && (iv.end == 0 || iv.end >= t0)
}

// gvVer is one version of a gang's definition (PodGroup spec + annotations) with its way through the informer.
type gvVer struct {
	min                  int
	strict               bool
	policy               string // effective match policy
	phantom              bool   // the gang-groups annotation lists a gang that does not exist
	deleted              bool   // the PodGroup was deleted: the gang is undefined from here on (until a new PodGroup of that name)
	created              bool   // the version a PodGroup object was created with (delivered as an add event)
	storeSeq             uint64
	delivStart, delivEnd uint64
}

type gvWP struct {
	s        *gvSim
	name     string
	g        int
	pod      *corev1.Pod
	signal   string // "" | allow | reject : the first signal wins (buffered channel of size 1)
	by       string
	addedAt  time.Time
	inMap    bool
	allowSeq uint64
	// permit timer
	deadline  time.Time
	timerDone bool
}

type gvBinder struct {
	name  string
	state string // waiting | running | done
	w     *gvWP
}

type gvPermitCtx struct {
	pod    string
	g      int
	invoke uint64
}

type gvSim struct {
	r   *sim.Run
	cfg gvCfg
	st  *gvStore
	cs  *Coscheduling
	mgr *core.PodGroupManager
	h   *gvHandle

	podEvents         []gvEvent
	gangCur, queueCur int
	listerPos         int
	lister            map[string]*corev1.Pod // the pod informer's indexer (at least as fresh as its fastest listener)
	pgEvents          []gvEvent
	pgCur             int
	busy              map[string]bool

	// kube-scheduler stub: queue + cache
	qState     map[string]string // "" | active | unsched
	qObj       map[string]*corev1.Pod
	qLocked    bool
	popped     map[string]bool // in flight in the queue's sense (popped, Done not yet called)
	assumed    map[string]bool
	cacheBound map[string]bool

	// framework stub: waiting pods
	waiting       map[string]*gvWP
	iterating     int
	permit        *gvPermitCtx
	permitPending string             // Permit returned Wait for this pod, the framework has not added it to the waiting map yet
	unres         map[uint64]*gvMPod // goroutine -> member whose Unreserve it is executing
	activity      int                // bumped when something starts that an observer may want to look into

	// model
	mp      map[string]*gvMPod
	minHist map[int][]*gvVer
	vanish  map[int][]uint64 // group -> instants at which nothing of the group was left (no PodGroup, no pod): what comes later is a new incarnation

	gangHandling     *gvMPod // the pod whose event the gang listener is handling right now
	gangHandlingKind string
	gangCreating     bool // ... and that event may (re-)create the Gang object of an annotation-defined gang (no other pod of it is known)

	schedQ    []gvOp
	apiDone   bool
	binders   []*gvBinder
	cycles    int
	lastEvent uint64
}

func (s *gvSim) ctx() context.Context { return context.TODO() }

func (s *gvSim) model(name string) *gvMPod { return s.mp[name] }

// ---------------------------------------------------------------- framework handle stub

type gvHandle struct {
	frameworkext.ExtendedHandle // nil: anything not overridden below is outside the simulated surface
	s                           *gvSim
}

type gvNodeLister struct{}

func (gvNodeLister) List() ([]fwktype.NodeInfo, error)                     { return nil, nil }
func (gvNodeLister) HavePodsWithAffinityList() ([]fwktype.NodeInfo, error) { return nil, nil }
func (gvNodeLister) HavePodsWithRequiredAntiAffinityList() ([]fwktype.NodeInfo, error) {
	return nil, nil
}
func (gvNodeLister) Get(string) (fwktype.NodeInfo, error) { return nil, fmt.Errorf("no node") }

type gvSharedLister struct{}

func (gvSharedLister) NodeInfos() fwktype.NodeInfoLister       { return gvNodeLister{} }
func (gvSharedLister) StorageInfos() fwktype.StorageInfoLister { return nil }

func (h *gvHandle) SnapshotSharedLister() fwktype.SharedLister { return gvSharedLister{} }

func (h *gvHandle) sortedWaiting() []*gvWP {
	names := make([]string, 0, len(h.s.waiting))
	for n := range h.s.waiting {
		names = append(names, n)
	}
	sort.Strings(names)
	out := make([]*gvWP, 0, len(names))
	for _, n := range names {
		out = append(out, h.s.waiting[n])
	}
	return out
}

// IterateOverWaitingPods: the framework holds the map's read lock for the whole iteration (add/remove wait).
func (h *gvHandle) IterateOverWaitingPods(cb func(fwktype.WaitingPod)) {
	s := h.s
	if m := s.unres[gvGoid()]; m != nil {
		// the roll-back of m becomes externally visible (the group is being rejected on its behalf): whatever the
		// linearisation point of this Unreserve is, it is not later than this; m no longer counts as holding resources
		// for a Permit invoked from now on
		m.closeWait(s.r.Seq())
		s.r.Probe("rollback-visible-before-unreserve-returned")
	}
	s.stall("wpmap:rlock")
	ws := h.sortedWaiting()
	if n := len(ws); n > 1 { // map iteration order is arbitrary
		k := s.r.Choose(n)
		ws = append(append([]*gvWP{}, ws[k:]...), ws[:k]...)
	}
	s.iterating++
	for _, w := range ws {
		cb(w)
	}
	s.iterating--
}

func (h *gvHandle) GetWaitingPod(uid types.UID) fwktype.WaitingPod {
	h.s.r.Yield("wpmap:get")
	for _, w := range h.sortedWaiting() {
		if w.pod.UID == uid {
			return w
		}
	}
	return nil
}

func (h *gvHandle) RejectWaitingPod(uid types.UID) bool {
	if w := h.GetWaitingPod(uid); w != nil {
		w.Reject("", "removed")
		return true
	}
	return false
}

func (h *gvHandle) Scheduler() frameworkext.Scheduler { return gvScheduler{h.s} }

type gvScheduler struct{ s *gvSim }

func (x gvScheduler) GetCache() frameworkext.SchedulerCache            { return nil }
func (x gvScheduler) GetSchedulingQueue() frameworkext.SchedulingQueue { return gvQueue{x.s} }
func (x gvScheduler) StopEverything() <-chan struct{}                  { return nil }

// gvQueue is what the gang cache sees of the scheduling queue: only Activate is used.
type gvQueue struct{ s *gvSim }

func (q gvQueue) Add(klog.Logger, *corev1.Pod)                 {}
func (q gvQueue) Update(klog.Logger, *corev1.Pod, *corev1.Pod) {}
func (q gvQueue) Delete(*corev1.Pod)                           {}
func (q gvQueue) AddUnschedulableIfNotPresent(klog.Logger, *framework.QueuedPodInfo, int64) error {
	return nil
}
func (q gvQueue) SchedulingCycle() int64                                                         { return int64(q.s.cycles) }
func (q gvQueue) AssignedPodAdded(klog.Logger, *corev1.Pod)                                      {}
func (q gvQueue) AssignedPodUpdated(klog.Logger, *corev1.Pod, *corev1.Pod, fwktype.ClusterEvent) {}
func (q gvQueue) MoveAllToActiveOrBackoffQueue(klog.Logger, fwktype.ClusterEvent, interface{}, interface{}, frameworkext.PreEnqueueCheck) {
}
func (q gvQueue) Done(types.UID) {}
func (q gvQueue) Activate(_ klog.Logger, pods map[string]*corev1.Pod) {
	names := make([]string, 0, len(pods))
	for _, p := range pods {
		names = append(names, p.Name)
	}
	sort.Strings(names)
	for _, n := range names {
		q.s.r.Probe("cache-activate")
		q.s.qActivate(n, "activate")
	}
}

func (w *gvWP) GetPod() *corev1.Pod { return w.pod }
func (w *gvWP) GetPendingPlugins() []string {
	if w.signal == "" {
		return []string{Name}
	}
	return nil
}

// Allow: the plugin releases the pod from the permit stage (oracle 1 is evaluated here).
func (w *gvWP) Allow(plugin string) {
	s := w.s
	s.r.Yield("wp:allow")
	s.r.Event("allow %s signal=%q", w.name, w.signal)
	if w.signal != "" {
		s.r.Probe("allow-after-signal")
		if w.signal == "reject" && w.by == "timeout" {
			s.r.Probe("allow-lost-race-with-permit-timeout")
		}
		return
	}
	s.checkRelease(w.name, w.g, "allow")
	w.signal, w.by, w.allowSeq = "allow", plugin, s.r.Seq()
	s.r.Probe("allow")
}

func (w *gvWP) Reject(plugin, msg string) {
	s := w.s
	s.r.Yield("wp:reject")
	s.r.Event("reject %s by=%q signal=%q", w.name, plugin, w.signal)
	if w.signal != "" {
		if w.signal == "allow" {
			s.r.Probe("reject-after-allow")
		}
		return
	}
	w.signal, w.by = "reject", plugin
	s.r.Probe("reject:" + plugin)
}

func (s *gvSim) wpAdd(w *gvWP, wait time.Duration) {
	s.r.WaitUntil("wpmap:wlock", func() bool { return s.iterating == 0 })
	w.addedAt, w.inMap = time.Now(), true
	s.waiting[w.name] = w
	s.r.Event("waiting+ %s wait=%v", w.name, wait)
	// the permit timer (time.AfterFunc in newWaitingPod)
	w.deadline = w.addedAt.Add(wait)
	s.r.SpawnDaemon("timer-"+w.name, func() {
		s.r.Sleep(wait)
		w.timerDone = true
		if w.signal == "" {
			w.signal, w.by = "reject", "timeout"
			s.r.Event("timeout %s", w.name)
			s.r.Probe("permit-timeout")
		}
	})
}

func (s *gvSim) wpRemove(w *gvWP) {
	s.r.WaitUntil("wpmap:wlock", func() bool { return s.iterating == 0 })
	delete(s.waiting, w.name)
	w.inMap = false
	s.r.Event("waiting- %s %s", w.name, w.signal)
	// oracle 4: nobody stays in the waiting map beyond the gang's configured wait time + one tick
	s.r.OracleEval()
	if stay, lim := time.Since(w.addedAt), s.cfg.waitOf(w.g)+gvTick; stay > lim {
		s.r.Fail("bounded-wait", "overstay", "pod %s stayed %v in the waiting map, its gang %s is configured to wait %v", w.name, stay, s.cfg.Gangs[w.g].Name, s.cfg.waitOf(w.g))
	}
}

// ---------------------------------------------------------------- informer transport

func (s *gvSim) emit(evs []gvEvent) {
	for _, ev := range evs {
		if ev.typ == "pg" {
			v := &gvVer{deleted: true, storeSeq: s.r.Seq()}
			if ev.kind != "delete" {
				npg := ev.new.(*v1alpha1.PodGroup)
				v = &gvVer{min: int(npg.Spec.MinMember), strict: npg.Annotations[extension.AnnotationGangMode] == extension.GangModeStrict,
					policy: npg.Annotations[extension.AnnotationGangMatchPolicy], storeSeq: v.storeSeq, created: ev.kind == "add",
					phantom: strings.Contains(npg.Annotations[extension.AnnotationGangGroups], `"`+s.cfg.phantomID(ev.g)+`"`)}
				if v.policy == "" {
					v.policy = s.cfg.DefaultPolicy
				}
			}
			s.minHist[ev.g] = append(s.minHist[ev.g], v)
			ev.ver = len(s.minHist[ev.g]) - 1
			// coalescing: two consecutive updates of one object merged before any handler saw the first
			if n := len(s.pgEvents); ev.kind == "update" && n > 0 && n-1 >= s.pgCur && s.pgEvents[n-1].kind == "update" && s.pgEvents[n-1].name == ev.name && s.r.Flip(0.2) {
				s.pgEvents[n-1].new, s.pgEvents[n-1].ver = ev.new, ev.ver
				s.r.Probe("coalesced-pg-update")
				continue
			}
			s.pgEvents = append(s.pgEvents, ev)
			continue
		}
		if n := len(s.podEvents); ev.kind == "update" && n > 0 && n-1 >= s.gangCur && n-1 >= s.queueCur && s.podEvents[n-1].kind == "update" &&
			s.podEvents[n-1].name == ev.name && s.podEvents[n-1].old != s.podEvents[n-1].new && ev.old != ev.new && s.r.Flip(0.2) {
			s.podEvents[n-1].new = ev.new
			s.r.Probe("coalesced-pod-update")
			continue
		}
		s.podEvents = append(s.podEvents, ev)
	}
}

// advanceLister brings the informer's indexer up to event index idx (inclusive).
func (s *gvSim) advanceLister(idx int) {
	for ; s.listerPos <= idx && s.listerPos < len(s.podEvents); s.listerPos++ {
		ev := s.podEvents[s.listerPos]
		if ev.kind == "delete" {
			delete(s.lister, ev.name)
		} else {
			s.lister[ev.name] = ev.new.(*corev1.Pod)
		}
	}
}

func (s *gvSim) deliverGang(ev gvEvent) {
	r := s.r
	m := s.model(ev.name)
	r.Event("gang-inf pod %s %s", ev.kind, ev.name)
	s.activity++
	carriesNode := ev.kind != "delete" && gvAssigned(ev.new.(*corev1.Pod))
	if carriesNode {
		m.nodeDeliv = append(m.nodeDeliv, gvIv{start: r.Seq()})
	}
	s.gangHandling, s.gangHandlingKind = m, ev.kind
	s.gangCreating = ev.kind != "delete" && !s.cfg.Gangs[m.g].PG && !s.podsInView(m.g, m)
	if s.gangCreating {
		s.tagPermitOverlapsGangInit(m.g) // evaluated on both sides of the handler
	}
	switch ev.kind {
	case "add":
		m.gangAddStart = r.Seq()
		s.tagPodEventDuringPodGroupDelete(m.g) // evaluated on both sides of the handler
		s.mgr.VerifOnPodAdd(ev.new)
		s.tagPodEventDuringPodGroupDelete(m.g)
		m.gangAddDone = r.Seq()
	case "update":
		if m.permitted {
			r.Probe("pod-update-while-waiting")
		}
		s.tagPodEventDuringPodGroupDelete(m.g)
		s.mgr.VerifOnPodUpdate(ev.old, ev.new)
		s.tagPodEventDuringPodGroupDelete(m.g)
	case "delete":
		m.gangDelStart = r.Seq()
		if m.permitted {
			r.Probe("pod-delete-while-waiting")
		}
		lastOfGang := !s.cfg.Gangs[m.g].PG && !s.podsInView(m.g, m)
		if lastOfGang {
			s.tagBesideUninitialised(m.g) // evaluated on both sides of the handler: the other listener may be at work
		}
		s.tagPodDeleteDuringPodGroupAdd(m.g)
		if ev.tomb {
			r.Probe("tombstone-delivered")
			s.mgr.VerifOnPodDelete(cache.DeletedFinalStateUnknown{Key: gvNS + "/" + ev.name, Obj: ev.old})
		} else {
			s.mgr.VerifOnPodDelete(ev.old)
		}
		m.gangDelDone = r.Seq()
		if m.bound.start != 0 && m.bound.end == 0 {
			m.bound.end = m.gangDelDone
		}
		if lastOfGang {
			s.tagBesideUninitialised(m.g)
		}
		s.tagPodDeleteDuringPodGroupAdd(m.g)
		s.noteVanish(s.cfg.Gangs[m.g].Group, m.gangDelDone)
	}
	if s.gangCreating {
		s.tagPermitOverlapsGangInit(m.g)
	}
	s.gangHandling, s.gangHandlingKind, s.gangCreating = nil, "", false
	if carriesNode {
		m.nodeDeliv[len(m.nodeDeliv)-1].end = r.Seq()
		if m.boundSeen == 0 {
			m.boundSeen = r.Seq()
		}
	}
}

func gvAssigned(p *corev1.Pod) bool { return p.Spec.NodeName != "" }

// deliverQueue mirrors kube-scheduler's own pod event handlers (eventhandlers.go).
func (s *gvSim) deliverQueue(ev gvEvent) {
	r := s.r
	r.Event("queue-inf pod %s %s", ev.kind, ev.name)
	switch ev.kind {
	case "add":
		np := ev.new.(*corev1.Pod)
		if gvAssigned(np) {
			s.cacheBound[ev.name], s.assumed[ev.name] = true, false
		} else {
			s.qAdd(np)
		}
	case "update":
		op, np := ev.old.(*corev1.Pod), ev.new.(*corev1.Pod)
		switch {
		case gvAssigned(op):
		case gvAssigned(np):
			// the binding is confirmed: the assumed pod becomes an added pod
			s.cacheBound[ev.name], s.assumed[ev.name] = true, false
			s.qDelete(ev.name)
		default:
			if op.ResourceVersion == np.ResourceVersion || s.assumed[ev.name] {
				return
			}
			s.qUpdate(np)
		}
	case "delete":
		op := ev.old.(*corev1.Pod)
		if gvAssigned(op) || ev.tomb {
			s.cacheBound[ev.name] = false
		}
		if !gvAssigned(op) || ev.tomb {
			s.qDelete(ev.name)
			if s.assumed[ev.name] {
				// handleAssumedPodDeletion
				r.Probe("assumed-pod-deleted")
				if !s.h.RejectWaitingPod(op.UID) {
					s.assumed[ev.name] = false
				}
			}
		}
	}
}

func (s *gvSim) deliverPG(ev gvEvent) {
	r := s.r
	r.Event("pg-inf %s %s", ev.kind, ev.name)
	s.activity++
	v := s.minHist[ev.g][ev.ver]
	v.delivStart = r.Seq()
	switch ev.kind {
	case "add":
		if ev.ver > 0 {
			r.Probe("podgroup-recreated-under-same-name")
		}
		s.tagPodGroupAdd(ev.g, v) // history classes of recorded findings, evaluated on both sides of the handler
		s.tagPermitOverlapsGangInit(ev.g)
		s.mgr.VerifOnPodGroupAdd(ev.new)
		s.tagPodGroupAdd(ev.g, v)
		s.tagPermitOverlapsGangInit(ev.g)
	case "delete":
		for _, m := range s.podsOfGang(ev.g) {
			if m.gangAddStart != 0 && m.gangDelDone == 0 {
				// deleted in the API (a PodGroup is deleted after its pods), the gang listener has not handled that yet
				m.gangDropped = v.delivStart
				r.Probe("podgroup-delete-handled-before-pod-delete")
			}
		}
		s.tagBesideUninitialised(ev.g) // evaluated on both sides of the handler: the pod listener may be at work
		if ev.tomb {
			r.Probe("podgroup-tombstone-delivered")
			s.mgr.VerifOnPodGroupDelete(cache.DeletedFinalStateUnknown{Key: gvNS + "/" + ev.name, Obj: ev.old})
		} else {
			s.mgr.VerifOnPodGroupDelete(ev.old)
		}
		s.tagBesideUninitialised(ev.g)
		v.delivEnd = r.Seq()
		r.Probe("podgroup-deleted")
		s.noteVanish(s.cfg.Gangs[ev.g].Group, v.delivEnd)
		return
	case "update":
		if v.phantom != s.minHist[ev.g][ev.ver-1].phantom {
			r.Probe("podgroup-gang-groups-annotation-changed")
		}
		for _, w := range s.h.sortedWaiting() {
			if s.cfg.Gangs[w.g].Group == s.cfg.Gangs[ev.g].Group && w.signal == "" {
				r.Probe("pg-min-changed-while-waiting")
				break
			}
		}
		s.mgr.VerifOnPodGroupUpdate(ev.old, ev.new)
	}
	v.delivEnd = r.Seq()
}

// ---------------------------------------------------------------- scheduling queue stub

func (s *gvSim) withQLock(fn func()) {
	s.r.WaitUntil("queue:lock", func() bool { return !s.qLocked })
	s.qLocked = true
	fn()
	s.qLocked = false
}

// preEnqueue runs the real PreEnqueue; must be called with the queue lock held.
func (s *gvSim) preEnqueue(pod *corev1.Pod, why string) bool {
	st := s.cs.PreEnqueue(s.ctx(), pod)
	ok := st.IsSuccess()
	s.r.Event("preenqueue %s %s -> %v", why, pod.Name, ok)
	if ok {
		s.r.Probe("preenqueue-accept")
	} else {
		s.r.Probe("preenqueue-reject")
	}
	return ok
}

func (s *gvSim) enqueue(pod *corev1.Pod, why string) {
	s.qObj[pod.Name] = pod
	if s.preEnqueue(pod, why) {
		s.qState[pod.Name] = "active"
	} else {
		s.qState[pod.Name] = "unsched"
	}
}

func (s *gvSim) qAdd(pod *corev1.Pod) { s.withQLock(func() { s.enqueue(pod, "add") }) }

func (s *gvSim) qUpdate(pod *corev1.Pod) {
	s.withQLock(func() {
		n := pod.Name
		switch {
		case s.popped[n]: // in flight: the update is recorded as an event for the requeue decision
		case s.qState[n] == "active":
			s.qObj[n] = pod
		case s.qState[n] == "unsched":
			s.qObj[n] = pod
			if s.r.Flip(0.5) { // whether an update of an unschedulable pod moves it depends on queueing hints
				s.enqueue(pod, "update")
			}
		default: // "If pod is not in any of the queues, we put it in the active queue"
			s.r.Probe("update-of-unqueued-pod")
			s.enqueue(pod, "update-unqueued")
		}
	})
}

func (s *gvSim) qDelete(name string) {
	s.withQLock(func() {
		s.qState[name] = ""
		delete(s.qObj, name)
	})
}

// qActivate: Activate / MoveAllToActiveOrBackoffQueue / flush — re-evaluates an unschedulable pod.
func (s *gvSim) qActivate(name, why string) bool {
	moved := false
	s.withQLock(func() {
		if s.qState[name] != "unsched" {
			return
		}
		s.enqueue(s.qObj[name], why)
		moved = s.qState[name] == "active"
	})
	return moved
}

// failureHandler mirrors handleSchedulingFailure: requeue the pod unless the informer cache says it is gone or assigned.
func (s *gvSim) failureHandler(name string) {
	cached := s.lister[name]
	s.withQLock(func() {
		s.popped[name] = false
		if cached == nil || gvAssigned(cached) {
			s.r.Probe("failure-not-requeued")
			return
		}
		if s.qState[name] != "" {
			return // "already present in the ... queue"
		}
		s.qObj[name], s.qState[name] = cached, "unsched"
		if s.r.Flip(0.4) { // queueing strategy immediate/backoff: PreEnqueue is evaluated right away
			s.enqueue(cached, "requeue")
		}
	})
}

// ---------------------------------------------------------------- oracles 1 and 3

func (s *gvSim) podsOfGang(g int) []*gvMPod {
	var out []*gvMPod
	for _, m := range s.mp {
		if m.g == g {
			out = append(out, m)
		}
	}
	sort.Slice(out, func(i, j int) bool { return out[i].name < out[j].name })
	return out
}

// admissible: the versions of the gang's definition the gang cache may legitimately hold at some instant of [t0, now]
// (the one in effect at t0 and everything written to the API since); empty = the gang is undefined.
func (s *gvSim) admissible(g int, t0, now uint64) []*gvVer {
	gang := s.cfg.Gangs[g]
	if !gang.PG {
		if len(s.podsOfGang(g)) == 0 {
			return nil
		}
		return []*gvVer{{min: gang.Min, strict: gang.Strict, policy: s.cfg.policyOf(g)}}
	}
	vs := s.minHist[g]
	first := 0
	for i, v := range vs {
		if v.delivEnd != 0 && v.delivEnd < t0 {
			first = i
		}
	}
	var out []*gvVer
	for _, v := range vs[first:] {
		if v.storeSeq <= now {
			out = append(out, v)
		}
	}
	return out
}

// pgInView / podsInView: what the two listeners have handled (or are handling) so far says the gang cache holds of gang k.
func (s *gvSim) pgInView(k int) bool {
	var last *gvVer
	for _, v := range s.minHist[k] {
		if v.delivStart != 0 {
			last = v
		}
	}
	return last != nil && !(last.deleted && last.delivEnd != 0)
}

func (s *gvSim) podsInView(k int, except *gvMPod) bool {
	for _, m := range s.podsOfGang(k) {
		if m != except && m.gangAddStart != 0 && m.gangDelDone == 0 {
			return true
		}
	}
	return false
}

// besideUninitialisedGang is evaluated while gang k is being removed from the gang cache (its PodGroup's delete event, or
// the delete event of the last pod of an annotation-defined gang, is handled): apart from k, no gang of the group is
// defined any more in what the listeners have handled, but at least one PodGroup-defined gang of the group is known
// through its pods only (its PodGroup has not been seen, or is already gone). History class of a recorded finding.
func (s *gvSim) besideUninitialisedGang(k int) bool {
	found := false
	for _, j := range s.cfg.groupOf(k) {
		if j == k {
			continue
		}
		known := s.podsInView(j, nil)
		if s.cfg.Gangs[j].PG {
			if s.pgInView(j) {
				return false
			}
			if known {
				found = true
			}
		} else if known {
			return false
		}
	}
	return found
}

func (s *gvSim) tagBesideUninitialised(k int) {
	if s.besideUninitialisedGang(k) && !gvNoTag("last-gang-removed-beside-uninitialised-gang") {
		s.r.Tag("last-gang-removed-beside-uninitialised-gang")
	}
	// same defect, the placeholder carries the name of the gang that is going away: the gang listener is in the middle of
	// an add / update event of a pod of gang k while the pod-group listener handles the delete of k's PodGroup (the pod
	// event re-creates an uninitialised Gang object of that name between the removal and the look at the group)
	if h := s.gangHandling; s.cfg.Gangs[k].PG && h != nil && h.g == k && s.gangHandlingKind != "delete" && !gvNoTag("podgroup-delete-overlaps-pod-event") {
		s.r.Tag("podgroup-delete-overlaps-pod-event")
	}
}

// tagPodEventDuringPodGroupDelete is the gang listener's side of the same overlap.
func (s *gvSim) tagPodEventDuringPodGroupDelete(g int) {
	for _, v := range s.minHist[g] {
		if v.deleted && v.delivStart != 0 && v.delivEnd == 0 && !gvNoTag("podgroup-delete-overlaps-pod-event") {
			s.r.Tag("podgroup-delete-overlaps-pod-event")
		}
	}
}

// tagPodDeleteDuringPodGroupAdd (called by the gang listener around the handling of a pod delete): the pod-group listener
// is in the middle of handling the add event of that pod's PodGroup. History class of a recorded finding.
func (s *gvSim) tagPodDeleteDuringPodGroupAdd(g int) {
	for _, v := range s.minHist[g] {
		if v.created && v.delivStart != 0 && v.delivEnd == 0 && !gvNoTag("podgroup-add-overlaps-pod-delete") {
			s.r.Tag("podgroup-add-overlaps-pod-delete")
		}
	}
}

// tagPodGroupAdd (called by the pod-group listener around the handling of a PodGroup add).
func (s *gvSim) tagPodGroupAdd(g int, v *gvVer) {
	known, maybePending := 0, false
	for _, m := range s.podsOfGang(g) {
		if m.gangDelStart != 0 && m.gangDelDone == 0 && !gvNoTag("podgroup-add-overlaps-pod-delete") {
			// the gang listener is in the middle of handling the delete of a pod of this gang
			s.r.Tag("podgroup-add-overlaps-pod-delete")
		}
		if m.gangAddStart == 0 || m.gangDelDone != 0 {
			continue
		}
		known++
		nodeUnderWay := len(m.nodeDeliv) > 0 && m.nodeDeliv[len(m.nodeDeliv)-1].end == 0
		inPermit := m.permitted || (s.permit != nil && s.permit.pod == m.name)
		if m.gangAddDone != 0 && m.gangDelStart == 0 && m.boundSeen == 0 && !nodeUnderWay && !inPermit {
			maybePending = true // certainly a pending child
		}
	}
	// the gang cache knows at least min members of the gang and none of them is pending (all of them run already, or
	// wait in the permit stage): e.g. the PodGroup of a running job is seen after its pods (restart, fail-over). Matters
	// in groups of several gangs only.
	if len(s.cfg.groupOf(g)) > 1 && known >= v.min && !maybePending && !gvNoTag("podgroup-add-finds-no-pending-member") {
		s.r.Tag("podgroup-add-finds-no-pending-member")
	}
}

// tagPostBindAfterGroupGone (around PostBind): the pod's delete event has been handled and, since then, the incarnation
// of its gang group has ended (nothing of the group was left): whatever gang of that name exists now is a new one.
// History class of a recorded finding.
func (s *gvSim) tagPostBindAfterGroupGone(m *gvMPod) {
	if m.gangDelDone == 0 || gvNoTag("postbind-after-group-gone") {
		return
	}
	for _, v := range s.vanish[s.cfg.Gangs[m.g].Group] {
		if v >= m.gangDelDone {
			s.r.Tag("postbind-after-group-gone")
		}
	}
}

// tagPermitOverlapsGangInit: a Permit call of a pod of gang g is in progress while the event that creates and initialises
// the Gang object of g is being handled (the first pod add of an annotation-defined gang [incarnation], the add of the
// PodGroup of a PodGroup-defined one). History class of a recorded finding; called from all three parties.
func (s *gvSim) tagPermitOverlapsGangInit(g int) {
	if s.permit == nil || s.permit.g != g {
		return
	}
	initialising := s.gangCreating && s.gangHandling != nil && s.gangHandling.g == g
	for _, v := range s.minHist[g] {
		if v.created && v.delivStart != 0 && v.delivEnd == 0 {
			initialising = true
		}
	}
	if initialising {
		gvTag(s.r, "permit-overlaps-gang-initialisation")
	}
}

// gvTag sets a history tag unless it is switched off for development (see gvNoTag).
func gvTag(r *sim.Run, name string) {
	if !gvNoTag(name) {
		r.Tag(name)
	}
}

// gvNoTag: development aid (VERIF_GANG_NOTAG=<tag>[,<tag>]): run without the history tag of a recorded finding, e.g. to
// check a proposed repair of /repo with --patch.
func gvNoTag(tag string) bool {
	for _, t := range strings.Split(os.Getenv("VERIF_GANG_NOTAG"), ",") {
		if t == tag {
			return true
		}
	}
	return false
}

// noteVanish is called when the gang listener or the pod-group listener has finished handling a delete event (at seq):
// if, in what has been delivered so far, nothing of the group is left -- no PodGroup of a PodGroup-defined gang, no pod
// of any of its gangs -- and no other delivery for the group is under way, the incarnation of the group ends here.
// Gangs (and a group) of the same names that appear later are new: they have never been satisfied.
func (s *gvSim) noteVanish(grp int, seq uint64) {
	for k := range s.cfg.Gangs {
		if s.cfg.Gangs[k].Group != grp {
			continue
		}
		if s.cfg.Gangs[k].PG {
			var last *gvVer
			for _, v := range s.minHist[k] {
				if v.delivStart != 0 {
					last = v
				}
			}
			if last != nil && !(last.deleted && last.delivEnd != 0) {
				return
			}
		}
		for _, m := range s.podsOfGang(k) {
			if m.gangAddStart != 0 && m.gangDelDone == 0 {
				return
			}
		}
	}
	s.vanish[grp] = append(s.vanish[grp], seq)
	s.r.Event("group %d: nothing left of it in what the listeners have handled", grp)
	s.r.Probe("group-incarnation-ended")
}

// incarnationBase: the end of the last incarnation of the group that was over before t0 (0: the first one is still on).
func (s *gvSim) incarnationBase(grp int, t0 uint64) uint64 {
	base := uint64(0)
	for _, v := range s.vanish[grp] {
		if v < t0 {
			base = v
		}
	}
	return base
}

// groupSatisfied: some incarnation of the group that overlaps [t0, now] has been satisfied -- a member of one of its
// gangs was bound (bind call applied, or created bound) and the gang cache may have known that pod at some instant of
// that incarnation (its delete event had not been handled when the previous incarnation ended). A pod that was bound and
// deleted while an EARLIER incarnation was on says nothing about this one.
func (s *gvSim) groupSatisfied(grp int, t0 uint64) bool {
	base := s.incarnationBase(grp, t0)
	for _, m := range s.mp {
		if s.cfg.Gangs[m.g].Group == grp && m.bound.start != 0 && (m.bound.end == 0 || m.bound.end > base) {
			return true
		}
	}
	return false
}

// groupEverSatisfied: a member of some incarnation of the group was bound at some time.
func (s *gvSim) groupEverSatisfied(grp int) bool {
	for _, m := range s.mp {
		if s.cfg.Gangs[m.g].Group == grp && m.bound.start != 0 {
			return true
		}
	}
	return false
}

// checkRelease is oracle 1: a pod leaves the permit stage (Allow on a waiting pod, or Permit == Success).
func (s *gvSim) checkRelease(pod string, g int, kind string) {
	r := s.r
	r.OracleEval()
	now := r.Seq()
	t0 := now
	if s.permit != nil {
		t0 = s.permit.invoke
	}
	grp := s.cfg.Gangs[g].Group
	satisfied := s.groupSatisfied(grp, t0)
	if s.incarnationBase(grp, t0) != 0 {
		r.Probe("release-checked-in-later-incarnation")
		if !satisfied {
			r.Probe("release-checked-in-later-incarnation-not-yet-satisfied")
		}
	}
	inherited := ""
	if !satisfied && s.groupEverSatisfied(grp) {
		inherited = "/only-an-earlier-incarnation-was-satisfied"
	}
	onceEscape := false
	for _, k := range s.cfg.groupOf(g) {
		vers := s.admissible(k, t0, now)
		justified := false
		var why []string
		for _, v := range vers {
			if v.deleted {
				why = append(why, "{PodGroup deleted: undefined}")
				continue
			}
			if v.policy == extension.GangMatchPolicyOnceSatisfied && satisfied {
				r.Probe("release-after-once-satisfied")
				justified, onceEscape = true, true
				break
			}
			cnt := 0
			var who []string
			for _, m := range s.podsOfGang(k) {
				held := false
				for _, iv := range m.waits {
					if ivOverlaps(iv, t0, now) {
						held = true
					}
				}
				if v.policy == extension.GangMatchPolicyWaitingAndRunning && ivOverlaps(m.bound, t0, now) {
					held = true
				}
				if held {
					cnt++
					who = append(who, m.name)
				}
			}
			if cnt >= v.min {
				justified = true
				break
			}
			why = append(why, fmt.Sprintf("{policy %s min %d: %d holding %v}", v.policy, v.min, cnt, who))
		}
		if !justified {
			pol := "undefined"
			if len(vers) > 0 && !vers[len(vers)-1].deleted {
				pol = vers[len(vers)-1].policy
			}
			r.Fail("release-soundness", kind+"/"+pol+inherited, "pod %s released (%s) while gang %s of its group does not have its minimum of members holding resources under any admissible linearisation and gang definition: %v (this incarnation of the group satisfied=%v, an earlier one=%v, incarnations ended at %v, window [%d,%d])",
				pod, kind, s.cfg.Gangs[k].Name, why, satisfied, s.groupEverSatisfied(grp), s.vanish[grp], t0, now)
		}
	}
	// a gang that the pod's gang lists in its group but that no PodGroup or pod defines has no members at all
	if vers := s.admissible(g, t0, now); s.cfg.Gangs[g].PG && len(vers) > 0 && !onceEscape {
		listed := true
		for _, v := range vers {
			if v.deleted || !v.phantom {
				listed = false
			}
		}
		if listed {
			r.Fail("release-soundness", kind+"/listed-gang-undefined"+inherited, "pod %s released (%s) although its gang %s lists gang %s in its group under every admissible definition and that gang does not exist (this incarnation of the group satisfied=%v)",
				pod, kind, s.cfg.Gangs[g].Name, s.cfg.phantomID(g), satisfied)
		}
		r.Probe("release-checked-listed-gang")
	}
	r.Probe("release-checked:" + kind)
}

type gvStrictSnap struct {
	g    int
	kind string
	ws   []*gvWP
	t0   uint64
}

// pgDeletePending: a delete of the gang's PodGroup is in the pod-group stream and has not been handled completely.
func (s *gvSim) pgDeletePending(g int) bool {
	for _, v := range s.minHist[g] {
		if v.deleted && v.delivEnd == 0 {
			return true
		}
	}
	return false
}

// gangKnownInit: the gang cache definitely holds an initialised Gang object for g during [t0, now].
func (s *gvSim) gangKnownInit(g int, t0 uint64) bool {
	if s.cfg.Gangs[g].PG {
		known := false
		for _, v := range s.minHist[g] { // in the order of the pod-group stream
			switch {
			case v.deleted:
				if v.delivStart != 0 {
					known = false
				}
			case v.delivEnd != 0 && v.delivEnd < t0:
				known = true
			}
		}
		return known
	}
	for _, m := range s.podsOfGang(g) {
		if m.gangAddDone != 0 && m.gangAddDone < t0 && m.gangDelStart == 0 {
			return true
		}
	}
	return false
}

// strictBefore/strictAfter are oracle 3 around Unreserve and AfterPostFilter of a member.
func (s *gvSim) strictBefore(g int, kind string) *gvStrictSnap {
	snap := &gvStrictSnap{g: g, kind: kind, t0: s.r.Seq()}
	for _, w := range s.h.sortedWaiting() {
		if s.cfg.Gangs[w.g].Group == s.cfg.Gangs[g].Group && w.signal == "" {
			snap.ws = append(snap.ws, w)
		}
	}
	return snap
}

func (s *gvSim) strictAfter(snap *gvStrictSnap) {
	if snap == nil {
		return
	}
	r := s.r
	if !s.gangKnownInit(snap.g, snap.t0) {
		r.Probe("strict-check-skipped:gang-not-certainly-known")
		return
	}
	vers := s.admissible(snap.g, snap.t0, r.Seq())
	if len(vers) == 0 {
		return
	}
	for _, v := range vers {
		if v.deleted {
			r.Probe("strict-check-skipped:podgroup-deleted")
			return // the gang cache may legitimately not know the gang
		}
		if !v.strict {
			return // the gang cache may legitimately see the gang as non-strict
		}
		if v.policy == extension.GangMatchPolicyOnceSatisfied && s.groupSatisfied(s.cfg.Gangs[snap.g].Group, snap.t0) {
			r.Probe("strict-check-skipped:once-satisfied")
			return
		}
	}
	r.OracleEval()
	for _, k := range s.cfg.groupOf(snap.g) {
		for _, m := range s.podsOfGang(k) {
			if w := s.waiting[m.name]; m.permitted && w == nil && s.permitPending == m.name {
				// the member's Permit returned Wait but the framework has not registered it in the waiting map yet: the
				// plugin cannot reject it, it will wait alone until its own timeout (bounded; not part of oracle 3)
				r.Probe("strict-reject-misses-pod-not-yet-in-waiting-map")
			}
		}
	}
	for _, w := range snap.ws {
		if w.signal == "" && w.inMap {
			r.Fail("strict-reject", snap.kind, "strict gang %s: after %s of a member completed, pod %s that was waiting in the group before is neither rejected nor released", s.cfg.Gangs[snap.g].Name, snap.kind, w.name)
		}
	}
	if len(snap.ws) > 0 {
		r.Probe("strict-reject-checked:" + snap.kind)
	}
}

// ---------------------------------------------------------------- the scheduling cycle (kube-scheduler ScheduleOne)

func gvQueuedCopy(pod *corev1.Pod) *corev1.Pod {
	// frameworkext.RecordPodQueueInfoToPod: a shallow copy carrying queue info in managedFields
	cp := &corev1.Pod{TypeMeta: pod.TypeMeta, ObjectMeta: pod.ObjectMeta, Spec: pod.Spec, Status: pod.Status}
	cp.ManagedFields = []metav1.ManagedFieldsEntry{{Manager: "scheduler.scheduling.koordinator.sh/initialTimestamp"}, {Manager: "scheduler.scheduling.koordinator.sh/attempts", Subresource: "1"}}
	return cp
}

func (s *gvSim) scheduleOne(op gvOp) {
	r := s.r
	// NextPod: the plugin's suggestion first (the gang scheduling context drains its group), else Pop
	pod := s.cs.NextPod()
	if pod != nil {
		r.Probe("nextpod-hit")
		s.qDelete(pod.Name)
	} else {
		var act []string
		for n, st := range s.qState {
			if st == "active" {
				act = append(act, n)
			}
		}
		if len(act) == 0 {
			r.OpSkipped()
			r.Event("sched idle")
			return
		}
		sort.Strings(act)
		n := act[r.Choose(len(act))]
		s.withQLock(func() {
			if s.qState[n] == "active" {
				pod = gvQueuedCopy(s.qObj[n])
				s.qState[n] = ""
				delete(s.qObj, n)
				s.popped[n] = true
			}
		})
		if pod == nil {
			r.OpSkipped()
			return
		}
	}
	name := pod.Name
	m := s.model(name)
	s.cycles++
	r.OpDone()
	r.Event("cycle %s fit=%v", name, op.Fit)
	if s.st.pods[name] == nil {
		r.Probe("cycle-for-deleted-pod")
	}
	// skipPodSchedule
	if s.assumed[name] {
		r.Probe("skip-assumed")
		s.popped[name] = false
		return
	}
	state := framework.NewCycleState()
	frameworkext.InitDiagnosis(state, pod)
	_, _, st := s.cs.BeforePreFilter(s.ctx(), state, pod)
	if st.IsSuccess() {
		if _, pst := s.cs.PreFilter(s.ctx(), state, pod, nil); !pst.IsSuccess() {
			st = pst
		}
	} else {
		r.Probe("beforeprefilter-reject")
	}
	if !st.IsSuccess() || !op.Fit {
		// FitError -> RunPostFilterPlugins (+ AfterPostFilter transformers) -> failure handler
		nts := framework.NewDefaultNodeToStatus()
		_, pfs := s.cs.PostFilter(s.ctx(), state, pod, nts)
		snap := s.strictBefore(m.g, "afterpostfilter")
		s.cs.AfterPostFilter(s.ctx(), state, pod, nts, pfs)
		s.strictAfter(snap)
		r.Event("unschedulable %s", name)
		r.Probe("cycle-unschedulable")
		s.failureHandler(name)
		return
	}
	// assume
	if s.assumed[name] || s.cacheBound[name] {
		r.Probe("assume-failed")
		s.failureHandler(name)
		return
	}
	if m.lostAck {
		// history class of a recorded finding (known_findings.jsonl): an earlier bind of this pod was applied by the API
		// server although the scheduler saw an error, the pod was rolled back and requeued from a stale informer cache,
		// and it now passes assume again because the scheduler's own pod listener has not seen the binding yet
		gvTag(r, "rescheduled-after-lost-bind-ack")
	}
	assumed := pod.DeepCopy()
	assumed.Spec.NodeName = gvNode
	s.assumed[name] = true
	if rst := s.cs.Reserve(s.ctx(), state, assumed, gvNode); !rst.IsSuccess() {
		r.Fail("reserve", "", "Reserve failed: %v", rst.Message())
	}
	// Permit
	if m.gangAddDone == 0 {
		// history class of a recorded finding (known_findings.jsonl): the pod is scheduled although the gang cache's pod
		// listener has not handled its add event yet (PreEnqueue/BeforePreFilter let unknown pods of a once-satisfied
		// group through), so Permit may record it in a Gang object that the cache is dropping or about to re-create
		gvTag(r, "permit-before-gang-cache-saw-pod")
	}
	s.activity++
	s.observe("before-permit")
	s.permit = &gvPermitCtx{pod: name, g: m.g, invoke: r.Seq()}
	m.openWait(s.permit.invoke)
	m.permitInv, m.permitRet = s.permit.invoke, 0
	s.tagPermitOverlapsGangInit(m.g) // evaluated on both sides of the call
	pst, wait := s.cs.Permit(s.ctx(), state, assumed, gvNode)
	s.tagPermitOverlapsGangInit(m.g)
	m.permitRet = r.Seq()
	r.Event("permit %s -> %v %v", name, pst.Code(), wait)
	switch {
	case pst.IsSuccess():
		r.Probe("permit-success")
		s.checkRelease(name, m.g, "permit-success")
		s.permit = nil
		m.permitted = true
		s.spawnBinder(assumed, state, nil)
	case pst.IsWait():
		r.Probe("permit-wait")
		s.permit = nil
		m.permitted = true
		if wait > 15*time.Minute {
			wait = 15 * time.Minute
		}
		w := &gvWP{s: s, name: name, g: m.g, pod: assumed}
		s.permitPending = name
		s.stall("permit:before-waitingpods-add") // RunPermitPlugins adds the pod to the map after the plugins returned
		s.wpAdd(w, wait)
		s.permitPending = ""
		s.spawnBinder(assumed, state, w)
	default:
		s.permit = nil
		r.Probe("permit-rejected")
		s.unreserve(assumed, state, "unreserve-permit")
		s.assumed[name] = false
		s.failureHandler(name)
	}
}

// gvGoid identifies the calling goroutine (only used to attribute call-backs into the framework stub to the
// extension-point call they come from; never enters the event log).
func gvGoid() uint64 {
	var b [64]byte
	n := runtime.Stack(b[:], false)
	var id uint64
	for _, c := range b[len("goroutine "):n] {
		if c < '0' || c > '9' {
			break
		}
		id = id*10 + uint64(c-'0')
	}
	return id
}

func (s *gvSim) unreserve(pod *corev1.Pod, state fwktype.CycleState, kind string) {
	m := s.model(pod.Name)
	s.activity++
	gid := gvGoid()
	s.unres[gid] = m // no defer: deferred harness code must not touch shared state while an aborted run unwinds
	snap := s.strictBefore(m.g, "unreserve")
	for _, k := range s.cfg.groupOf(m.g) {
		for _, o := range s.podsOfGang(k) {
			if o.name != m.name && o.bound.start != 0 && o.bound.end == 0 {
				s.r.Probe("unreserve-after-partial-bind")
			}
		}
	}
	s.r.Event("%s %s", kind, pod.Name)
	s.cs.Unreserve(s.ctx(), state, pod, gvNode)
	delete(s.unres, gid)
	m.closeWait(s.r.Seq())
	m.permitted = false
	s.strictAfter(snap)
}

// stall is a scheduling point at which the goroutine may additionally be held up until everything else has gone
// quiet (a slow goroutine: simulator-side anomaly, shrinks away).
func (s *gvSim) stall(site string) {
	if s.r.Flip(0.08) {
		s.r.Probe("stalled")
		s.r.Sleep(time.Millisecond)
		return
	}
	s.r.Yield(site)
}

// spawnBinder starts the binding cycle goroutine of one pod.
func (s *gvSim) spawnBinder(pod *corev1.Pod, state fwktype.CycleState, w *gvWP) {
	r := s.r
	name := pod.Name
	m := s.model(name)
	b := &gvBinder{name: name, state: "running", w: w}
	if w != nil {
		b.state = "waiting"
	}
	s.binders = append(s.binders, b)
	r.SpawnDaemon("bind-"+name, func() {
		defer func() { b.state = "done" }()
		fail := func(kind string) {
			// handleBindingCycleError: Unreserve, ForgetPod, failure handler
			s.unreserve(pod, state, kind)
			s.assumed[name] = false
			s.failureHandler(name)
		}
		if w != nil {
			// WaitOnPermit
			r.WaitUntil("binder:wait-on-permit", func() bool { return w.signal != "" })
			b.state = "running"
			s.wpRemove(w)
			if w.signal == "reject" {
				r.Probe("permit-rejected-while-waiting")
				fail("unreserve-rejected")
				return
			}
		}
		s.popped[name] = false // SchedulingQueue.Done
		s.stall("binder:prebind")
		if st := s.cs.PreBind(s.ctx(), state, pod.DeepCopy(), gvNode); !st.IsSuccess() {
			r.Fail("prebind", "", "PreBind failed: %v", st.Message())
		}
		s.stall("binder:bind")
		// the bind API call
		f := r.Fault("bind", "err-before", "err-after")
		applied := false
		if f != "err-before" {
			if ev, ok := s.st.bind(name); ok {
				applied = true
				if m.bound.start == 0 {
					m.bound.start = r.Seq()
				}
				s.emit([]gvEvent{*ev})
				r.Event("bound %s", name)
			} else if s.st.pods[name] == nil {
				r.Probe("bind-pod-gone")
			} else {
				r.Probe("bind-already-bound")
			}
		}
		if f != "" || !applied {
			if applied {
				m.lostAck = true
				r.Probe("bind-lost-ack")
			}
			s.stall("binder:bind-failed")
			fail("unreserve-bindfail")
			return
		}
		if os.Getenv("VERIF_GANG_DEV_LATE_POSTBIND") != "" && r.Flip(0.5) {
			// development aid: make binding goroutines that reach PostBind long after everything else common
			r.Sleep(time.Millisecond)
		} else {
			s.stall("binder:postbind")
		}
		if s.st.pods[name] == nil {
			r.Probe("postbind-after-delete")
		}
		if m.gangDelStart != 0 {
			// history class of a recorded finding (known_findings.jsonl): the pod was deleted after its bind call
			// succeeded and the gang cache handled the delete event before the binding goroutine reached PostBind
			gvTag(r, "postbind-after-delete-event")
		}
		s.tagPostBindAfterGroupGone(m)
		s.cs.PostBind(s.ctx(), state, pod, gvNode)
		if m.gangDelStart != 0 {
			gvTag(r, "postbind-after-delete-event") // the delete event was handled while PostBind was between its two locks
		}
		s.tagPostBindAfterGroupGone(m)
		m.closeWait(r.Seq())
		m.permitted = false
		r.Event("postbind %s", name)
		r.Probe("bound")
	})
}

// ---------------------------------------------------------------- quiescence

func (s *gvSim) idle() bool {
	if s.gangCur < len(s.podEvents) || s.queueCur < len(s.podEvents) || s.pgCur < len(s.pgEvents) || len(s.schedQ) > 0 {
		return false
	}
	for _, k := range []string{"gang", "queue", "pg", "sched"} {
		if s.busy[k] {
			return false
		}
	}
	now := time.Now()
	for _, b := range s.binders {
		if b.state == "running" || (b.state == "waiting" && b.w.signal != "") {
			return false
		}
		// a permit timer that is due fires before the system is quiet
		if b.state == "waiting" && !b.w.timerDone && !b.w.deadline.IsZero() && !now.Before(b.w.deadline) {
			return false
		}
	}
	return true
}

func setList(x interface{ UnsortedList() []string }) []string {
	l := x.UnsortedList()
	sort.Strings(l)
	return l
}

// observe is oracle 2 at an arbitrary instant: one GetGangSummaries call (each gang is read under its own lock, so
// every gang's four sets are one consistent snapshot). "Always in exactly one set" is checked for every member, with
// the exceptions a history legitimately produces while operations are in progress:
//   - a child in no set: only while the gang cache is between the two steps of handling an add/update that carries
//     the pod's node name;
//   - pending+bound: only until the event carrying the node name has been handled (a stale update after PostBind);
//   - a waiting member that is not a child: only when its own Permit overlapped or followed the handling of its
//     delete event (the pod is in flight and will be unreserved), or the cache has not seen its add yet;
//   - anything else that is not a child: never.
func (s *gvSim) observe(tag string) {
	r := s.r
	r.OracleEval()
	// the gangs are read one after the other: an exception counts if it applied at some instant of [t0, now]
	t0 := r.Seq()
	sums := s.mgr.GetGangSummaries()
	now := r.Seq()
	ids := make([]string, 0, len(sums))
	for id := range sums {
		ids = append(ids, id)
	}
	sort.Strings(ids)
	for _, id := range ids {
		sum := sums[id]
		in := map[string][]string{}
		for _, p := range setList(sum.PendingChildren) {
			in[p] = append(in[p], "pending")
		}
		for _, p := range setList(sum.WaitingForBindChildren) {
			in[p] = append(in[p], "waiting")
		}
		for _, p := range setList(sum.BoundChildren) {
			in[p] = append(in[p], "bound")
		}
		all := setList(sum.Children)
		for p := range in {
			if !sum.Children.Has(p) {
				all = append(all, p)
			}
		}
		sort.Strings(all)
		for _, p := range all {
			name := strings.TrimPrefix(p, gvNS+"/")
			m := s.mp[name]
			if m == nil {
				continue
			}
			sets, child := in[p], sum.Children.Has(p)
			bad := ""
			switch {
			case child && len(sets) == 0:
				bad = "child-in-no-set"
				for _, iv := range m.nodeDeliv {
					if ivOverlaps(iv, t0, now) {
						bad = ""
					}
				}
			case len(sets) > 1:
				if strings.Join(sets, "+") != "pending+bound" || (m.boundSeen != 0 && m.boundSeen < t0) {
					bad = strings.Join(sets, "+")
				}
			case !child && (m.gangAddDone == 0 || m.gangAddDone >= t0):
				// the cache has not (completely) handled the pod's add yet
			case !child && m.gangDropped != 0:
				// the Gang object the pod was a child of went away with its PodGroup; the pod itself is deleted in the API,
				// only its own delete event has not been handled yet: whatever its scheduling / binding cycle still records
				// goes into an object that does not list it
				r.Probe("observed-in-flight-pod-of-deleted-podgroup")
			case !child && sets[0] == "waiting":
				if m.gangDelStart == 0 || (m.permitRet != 0 && m.permitRet < m.gangDelStart) {
					bad = "waiting-not-child"
				}
			case !child:
				bad = sets[0] + "-not-child"
			}
			if bad != "" {
				r.Fail("partition-instant", bad, "observed (%s) gang %s: member %s is child=%v in sets %v (children=%v pending=%v waiting=%v bound=%v; delete event handling started=%v finished=%v, last Permit returned before it=%v)",
					tag, id, p, child, sets, setList(sum.Children), setList(sum.PendingChildren), setList(sum.WaitingForBindChildren), setList(sum.BoundChildren),
					m.gangDelStart != 0, m.gangDelDone != 0, m.permitRet != 0 && m.permitRet < m.gangDelStart)
			}
		}
	}
	r.Probe("observed:" + tag)
}

// checkQuiescent is oracle 2 (partition and agreement with the model) at a point where no operation is in progress.
func (s *gvSim) checkQuiescent(tag string) {
	r := s.r
	r.OracleEval()
	sums := s.mgr.GetGangSummaries()
	ids := make([]string, 0, len(sums))
	for id := range sums {
		ids = append(ids, id)
	}
	sort.Strings(ids)
	where := map[string]string{}
	for _, id := range ids {
		sum := sums[id]
		P, W, B, C := setList(sum.PendingChildren), setList(sum.WaitingForBindChildren), setList(sum.BoundChildren), setList(sum.Children)
		r.Event("state %s %s init=%v min=%d sat=%v C=%v P=%v W=%v B=%v", tag, id, sum.HasGangInit, sum.MinRequiredNumber, sum.OnceResourceSatisfied, C, P, W, B)
		cnt := map[string][]string{}
		for _, p := range P {
			cnt[p] = append(cnt[p], "pending")
		}
		for _, p := range W {
			cnt[p] = append(cnt[p], "waiting")
		}
		for _, p := range B {
			cnt[p] = append(cnt[p], "bound")
		}
		all := append([]string{}, C...)
		for p := range cnt {
			all = append(all, p)
		}
		sort.Strings(all)
		for _, p := range all {
			sets := cnt[p]
			if len(sets) != 1 {
				sigd := "in-no-set"
				if len(sets) > 1 {
					sigd = strings.Join(sets, "+")
				}
				r.Fail("partition", sigd, "gang %s at quiescence (%s): member %s is in sets %v (children=%v pending=%v waiting=%v bound=%v)", id, tag, p, sets, C, P, W, B)
			}
			where[strings.TrimPrefix(p, gvNS+"/")] = sets[0]
		}
	}
	names := make([]string, 0, len(s.mp))
	for n := range s.mp {
		names = append(names, n)
	}
	sort.Strings(names)
	for _, n := range names {
		m := s.mp[n]
		sp := s.st.pods[n]
		actual := where[n]
		if actual == "" {
			actual = "absent"
		}
		var want []string
		switch {
		case sp == nil && m.permitted:
			want = []string{"absent", "waiting"}
		case sp == nil:
			want = []string{"absent"}
		case sp.node != "":
			want = []string{"bound"}
		case m.permitted:
			want = []string{"waiting"}
		default:
			want = []string{"pending"}
		}
		ok := false
		for _, w := range want {
			if w == actual {
				ok = true
			}
		}
		if !ok {
			r.Fail("partition-model", strings.Join(want, "|")+"->"+actual, "at quiescence (%s) pod %s of gang %s is %s in the gang cache, the history says %v (exists=%v bound=%v in-permit/binding=%v)",
				tag, n, s.cfg.Gangs[m.g].Name, actual, want, sp != nil, sp != nil && sp.node != "", m.permitted)
		}
		if sp != nil {
			if sum := sums[s.cfg.gangID(m.g)]; sum == nil || !sum.Children.Has(gvNS+"/"+n) {
				r.Fail("partition-model", "not-a-child", "at quiescence (%s) live pod %s is not a child of gang %s", tag, n, s.cfg.Gangs[m.g].Name)
			}
		}
	}
	// the framework's waiting map and the model agree by construction; log it
	for _, w := range s.h.sortedWaiting() {
		r.Event("waiting %s signal=%q", w.name, w.signal)
	}
}

// ---------------------------------------------------------------- Execute

func (gangEngine) Execute(r *sim.Run) {
	s := &gvSim{r: r, lister: map[string]*corev1.Pod{}, busy: map[string]bool{}, qState: map[string]string{}, qObj: map[string]*corev1.Pod{},
		popped: map[string]bool{}, assumed: map[string]bool{}, cacheBound: map[string]bool{}, waiting: map[string]*gvWP{}, mp: map[string]*gvMPod{},
		unres: map[uint64]*gvMPod{}, minHist: map[int][]*gvVer{}, vanish: map[int][]uint64{}}
	r.Plan.GetCfg(&s.cfg)
	var ops []gvOp
	r.Plan.GetOps(&ops)
	if len(s.cfg.Gangs) == 0 {
		return
	}
	s.st = newGvStore(&s.cfg)
	s.h = &gvHandle{s: s}
	args := &config.CoschedulingArgs{DefaultTimeout: metav1.Duration{Duration: time.Duration(s.cfg.DefaultTimeoutS) * time.Second},
		EnablePreemption: ptr.To(false), AwareNetworkTopology: ptr.To(false), DefaultMatchPolicy: s.cfg.DefaultPolicy}
	s.mgr = core.NewVerifPodGroupManager(s.h, s.h, args)
	s.cs = &Coscheduling{args: args, frameworkHandler: s.h, pgMgr: s.mgr}
	for i, g := range s.cfg.Gangs {
		r.Sample("gang %d %+v", i, g)
	}

	var bursts [][]gvOp
	var cur []gvOp
	for _, op := range ops {
		if op.K == "barrier" {
			if len(cur) > 0 {
				bursts = append(bursts, cur)
				cur = nil
			}
			continue
		}
		cur = append(cur, op)
	}
	if len(cur) > 0 {
		bursts = append(bursts, cur)
	}
	for bi, burst := range bursts {
		s.runPhase(burst, false)
		s.checkQuiescent(fmt.Sprintf("burst%d", bi))
	}
	// final phase: let every permit timer fire and every binding cycle end while the informers keep delivering
	s.runPhase(nil, true)
	r.DrainDaemons()
	r.OracleEval()
	for _, w := range s.h.sortedWaiting() {
		r.Fail("bounded-wait", "left-waiting", "pod %s is still in the waiting map after all permit timers fired", w.name)
	}
	s.checkQuiescent("final")
}

func (s *gvSim) bindersDone() bool {
	for _, b := range s.binders {
		if b.state != "done" {
			return false
		}
	}
	return true
}

// runPhase runs one burst of operations with all actors; final=true: no new operations, wait for every binding cycle.
func (s *gvSim) runPhase(burst []gvOp, final bool) {
	r := s.r
	s.apiDone = false
	r.Spawn("api", func() {
		for _, op := range burst {
			op := op
			r.Yield("api:" + op.K)
			switch op.K {
			case "sched":
				s.schedQ = append(s.schedQ, op)
				continue
			case "sleep":
				r.Sleep(time.Duration(op.D) * time.Second)
				r.OpDone()
				continue
			case "requeue":
				if s.qState[op.P] != "unsched" {
					r.OpSkipped()
					continue
				}
				r.OpDone()
				if s.qActivate(op.P, "flush") {
					r.Probe("requeue-accepted")
				}
				continue
			}
			if op.K == "pod_delete_inflight" {
				var cand, hot []string
				for n, m := range s.mp {
					if sp := s.st.pods[n]; m.permitted && sp != nil {
						cand = append(cand, n)
						if sp.node != "" { // the bind call was applied, PostBind / Unreserve has not run yet
							hot = append(hot, n)
						}
					}
				}
				if len(cand) == 0 {
					r.OpSkipped()
					continue
				}
				if len(hot) > 0 && r.Flip(0.7) {
					cand = hot
				}
				sort.Strings(cand)
				op.K, op.P = "pod_delete", cand[r.Choose(len(cand))]
				r.Probe("delete-of-inflight-pod")
			}
			if op.K == "pod_create" && op.G >= 0 && op.G < len(s.cfg.Gangs) && s.pgDeletePending(op.G) {
				// pods of the next incarnation are created after the scheduler has seen the old PodGroup go (a live pod that is
				// added to a Gang object which is about to be dropped with its PodGroup is outside what C04 quantifies over)
				r.Probe("pod-create-waits-until-podgroup-delete-handled")
				g := op.G
				r.WaitUntil("api:pg-delete-seen", func() bool { return !s.pgDeletePending(g) })
			}
			evs, ok := s.st.apply(&op)
			if !ok {
				r.OpSkipped()
				continue
			}
			r.OpDone()
			r.Sample("%s g=%d p=%s min=%d mode=%s pol=%s grp=%s bound=%v", op.K, op.G, op.P, op.Min, op.Mode, op.Pol, op.Grp, op.Bound)
			r.Event("api %s g=%d p=%s min=%d mode=%s pol=%s grp=%s", op.K, op.G, op.P, op.Min, op.Mode, op.Pol, op.Grp)
			if op.K == "pod_create" {
				m := &gvMPod{name: op.P, g: op.G}
				if op.Bound {
					m.bound.start = r.Seq()
				}
				s.mp[op.P] = m
			}
			s.emit(evs)
		}
		if final {
			r.WaitUntil("api:final", func() bool { return s.idle() && s.bindersDone() })
		} else {
			r.WaitUntil("api:quiesce", s.idle)
		}
		s.apiDone = true
	})
	r.Spawn("inf-pod-gang", func() {
		for {
			r.WaitUntil("inf-gang:wait", func() bool { return s.gangCur < len(s.podEvents) || s.apiDone })
			if s.gangCur >= len(s.podEvents) {
				return
			}
			idx := s.gangCur
			s.gangCur++
			s.busy["gang"] = true
			s.advanceLister(idx)
			s.deliverGang(s.podEvents[idx])
			s.busy["gang"] = false
		}
	})
	r.Spawn("inf-pod-queue", func() {
		for {
			r.WaitUntil("inf-queue:wait", func() bool { return s.queueCur < len(s.podEvents) || s.apiDone })
			if s.queueCur >= len(s.podEvents) {
				return
			}
			idx := s.queueCur
			s.queueCur++
			s.busy["queue"] = true
			s.advanceLister(idx)
			s.deliverQueue(s.podEvents[idx])
			s.busy["queue"] = false
		}
	})
	r.Spawn("inf-pg", func() {
		for {
			r.WaitUntil("inf-pg:wait", func() bool { return s.pgCur < len(s.pgEvents) || s.apiDone })
			if s.pgCur >= len(s.pgEvents) {
				return
			}
			idx := s.pgCur
			s.pgCur++
			s.busy["pg"] = true
			s.deliverPG(s.pgEvents[idx])
			s.busy["pg"] = false
		}
	})
	r.Spawn("sched", func() {
		for {
			r.WaitUntil("sched:wait", func() bool { return len(s.schedQ) > 0 || s.apiDone })
			if len(s.schedQ) == 0 {
				return
			}
			op := s.schedQ[0]
			s.schedQ = s.schedQ[1:]
			s.busy["sched"] = true
			if op.D > 0 {
				r.Sleep(time.Duration(op.D) * time.Second)
			}
			s.scheduleOne(op)
			s.busy["sched"] = false
		}
	})
	if !final {
		for i := 0; i < s.cfg.Readers; i++ {
			r.Spawn(fmt.Sprintf("reader%d", i), func() {
				// a summary reader (the plugin's debug service): wakes when something starts, at most 12 looks per burst
				seen := -1
				for k := 0; k < 12; k++ {
					r.WaitUntil("reader", func() bool { return s.activity != seen || s.apiDone })
					if s.activity == seen {
						return
					}
					seen = s.activity
					s.observe("reader")
				}
			})
		}
	}
	r.Drive()
}
