//go:build verif

package memoryevict

// Engine `evict` (C11): the real memoryEvictor.memoryEvict() round (threshold -> release target -> victim
// selection and ordering -> util.KillAndEvictPods -> DefaultEvictionExecutor -> Evictor with its TTL cache ->
// policy/v1 eviction call on a fake clientset) is run tick by tick on the simulated clock against hand-written
// fakes of StatesInformer and MetricCache, a recording eviction API with fault injection and a kubelet stub that
// lets evicted pods linger. The oracles look at the recorded Evict history of every round and are written from
// the statement of C11 (eligible victims, published order, stop exactly when the target is covered, no double
// eviction, no useless victim). See /verif/DESIGN.md section 4, C11.

import (
	"encoding/json"
	"fmt"
	"io"
	"os"
	"sort"
	"strconv"
	"strings"
	"testing"
	"testing/synctest"
	"time"

	topov1alpha1 "github.com/k8stopologyawareschedwg/noderesourcetopology-api/pkg/apis/topology/v1alpha1"
	"github.com/prometheus/prometheus/model/labels"
	promstorage "github.com/prometheus/prometheus/storage"
	"github.com/prometheus/prometheus/tsdb/tsdbutil"
	corev1 "k8s.io/api/core/v1"
	policyv1 "k8s.io/api/policy/v1"
	apierrors "k8s.io/apimachinery/pkg/api/errors"
	"k8s.io/apimachinery/pkg/api/resource"
	metav1 "k8s.io/apimachinery/pkg/apis/meta/v1"
	"k8s.io/apimachinery/pkg/runtime"
	"k8s.io/apimachinery/pkg/runtime/schema"
	"k8s.io/apimachinery/pkg/types"
	clientsetfake "k8s.io/client-go/kubernetes/fake"
	clienttesting "k8s.io/client-go/testing"
	"k8s.io/client-go/tools/record"
	"k8s.io/component-base/featuregate"
	"k8s.io/klog/v2"

	apiext "github.com/koordinator-sh/koordinator/apis/extension"
	slov1alpha1 "github.com/koordinator-sh/koordinator/apis/slo/v1alpha1"
	"github.com/koordinator-sh/koordinator/pkg/features"
	"github.com/koordinator-sh/koordinator/pkg/koordlet/metriccache"
	maframework "github.com/koordinator-sh/koordinator/pkg/koordlet/metricsadvisor/framework"
	"github.com/koordinator-sh/koordinator/pkg/koordlet/qosmanager/framework"
	qosutil "github.com/koordinator-sh/koordinator/pkg/koordlet/qosmanager/plugins/util"
	"github.com/koordinator-sh/koordinator/pkg/koordlet/statesinformer"
	sim "github.com/koordinator-sh/koordinator/pkg/verifsim"
)

func TestVerifSim(t *testing.T) {
	// the code under test logs every round with klog.Infof/Warningf: keep the workers quiet
	klog.LogToStderr(false)
	klog.SetOutput(io.Discard)
	sim.Main(t, &evEngine{})
}

type evEngine struct{}

func (evEngine) Name() string { return "evict" }

const (
	evMi = int64(1) << 20
	// koordlet remembers an evicted pod for two minutes (Evictor.podsEvicted, an expiring cache with the default TTL)
	evTTL = 2 * time.Minute

	fBE    = "BEMemoryEvict"
	fAlloc = "MemoryAllocatableEvict"
	fUsed  = "MemoryEvict"

	tUsed = "podUsed"
	tReq  = "podResourceRequest"
)

var evFeatureOrder = []string{fBE, fAlloc, fUsed}
var evAllPolicies = []string{fBE, fAlloc, fUsed, "BECPUEvict", "CPUEvict", "CPUAllocatableEvict"}

// ---------------------------------------------------------------- plan types

type evThr struct {
	Enable       bool   `json:"enable"`
	MemThr       *int64 `json:"mem_thr,omitempty"`
	MemLower     *int64 `json:"mem_lower,omitempty"`
	AllocThr     *int64 `json:"alloc_thr,omitempty"`
	AllocLower   *int64 `json:"alloc_lower,omitempty"`
	PrioThr      *int32 `json:"prio_thr,omitempty"`       // evictEnabledPriorityThreshold (MemoryEvict)
	AllocPrioThr *int32 `json:"alloc_prio_thr,omitempty"` // allocatableEvictPriorityThreshold (MemoryAllocatableEvict)
}

type evPod struct {
	Name     string  `json:"name"`
	QoS      string  `json:"qos,omitempty"`
	Prio     int32   `json:"prio"`
	Sub      *int    `json:"sub,omitempty"`     // label koordinator.sh/priority
	Enabled  string  `json:"enabled,omitempty"` // label koordinator.sh/eviction-enabled ("" = absent)
	EvPrio   *string `json:"evprio,omitempty"`  // annotation koordinator.sh/eviction-priority (raw)
	Policy   *string `json:"policy,omitempty"`  // annotation koordinator.sh/eviction-policy (raw JSON)
	Req      int64   `json:"req"`               // memory request, MiB, in the resource name of the pod's priority class
	Native   bool    `json:"native,omitempty"`  // requests plain "memory" although its class is batch/mid
	Used     int64   `json:"used"`              // memory usage, MiB
	Phase    string  `json:"phase,omitempty"`   // "" = Running
	NoMetric bool    `json:"no_metric,omitempty"`
}

type evCfg struct {
	Features  []string         `json:"features"`
	IntervalS int              `json:"interval_s"`
	CoolS     int              `json:"cool_s"`
	CollectS  int              `json:"collect_s"`
	CapMi     int64            `json:"cap_mi"`
	Alloc     map[string]int64 `json:"alloc"` // "memory" | "batch" | "mid" -> MiB (absent key = resource not on the node)
	Thr       evThr            `json:"thr"`
	SysUsed   int64            `json:"sys_used"`
	Pods      []evPod          `json:"pods"`
	Shuffle   bool             `json:"shuffle"`
	Profile   string           `json:"profile,omitempty"` // "" | "shared" (informational: how the generator biased this plan)
}

type evOp struct {
	K    string  `json:"k"` // tick | usage | sys | addpod | delpod | restart | stall | thr | label | phase
	N    int     `json:"n,omitempty"`
	Pod  string  `json:"pod,omitempty"`
	V    int64   `json:"v,omitempty"`
	Spec *evPod  `json:"spec,omitempty"`
	Thr  *evThr  `json:"thr,omitempty"`
	What string  `json:"what,omitempty"` // label op: evprio | enabled | policy | sub
	S    *string `json:"s,omitempty"`
}

// ---------------------------------------------------------------- generation

func evP64(v int64) *int64  { return &v }
func evP32(v int32) *int32  { return &v }
func evPS(v string) *string { return &v }
func evPI(v int) *int       { return &v }

func evGenThr(g *sim.Rng) evThr {
	t := evThr{Enable: !g.Bool(0.04)}
	if !g.Bool(0.04) {
		t.MemThr = evP64(g.PickI64(50, 60, 70, 80, 90))
		switch x := g.Intn(20); {
		case x < 5: // default lower = threshold - 2
		case x < 19:
			t.MemLower = evP64(*t.MemThr - g.PickI64(1, 2, 3, 5, 5, 10, 20))
		default:
			t.MemLower = evP64(*t.MemThr + g.PickI64(0, 5)) // invalid: lower >= threshold
		}
	}
	if !g.Bool(0.04) {
		t.AllocThr = evP64(g.PickI64(40, 60, 80, 100, 120))
		switch x := g.Intn(20); {
		case x < 1:
		case x < 19:
			t.AllocLower = evP64(*t.AllocThr - g.PickI64(1, 2, 5, 10, 20))
		default:
			t.AllocLower = evP64(*t.AllocThr)
		}
	}
	if !g.Bool(0.04) {
		t.PrioThr = evP32(int32(g.PickInt(3999, 5500, 5999, 7999, 9999)))
	}
	if !g.Bool(0.03) {
		t.AllocPrioThr = evP32(int32(g.PickInt(3999, 5500, 5999, 5999, 7999, 7999, 8500)))
	}
	return t
}

func evGenPod(g *sim.Rng, name string, capMi int64) evPod {
	p := evPod{Name: name}
	switch x := g.Intn(100); {
	case x < 42:
		p.QoS, p.Prio = "BE", int32(g.PickInt(5000, 5500, 5500, 5999))
	case x < 52:
		p.QoS, p.Prio = g.Pick("LS", "BE"), int32(g.PickInt(7000, 7500, 7999))
	case x < 60:
		p.QoS, p.Prio = "LS", int32(g.PickInt(7000, 7500))
	case x < 74:
		p.QoS, p.Prio = g.Pick("LS", "LS", "LSR", "LSE"), int32(g.PickInt(9000, 9500, 9999))
	case x < 82:
		p.QoS, p.Prio = g.Pick("BE", ""), int32(g.PickInt(3000, 3500))
	case x < 94:
		p.QoS, p.Prio = g.Pick("", "", "LS"), int32(g.PickInt(0, 0, 100, 4500, 6500, 8500))
	default:
		p.QoS, p.Prio = "SYSTEM", int32(g.PickInt(0, 9999))
	}
	if g.Bool(0.3) {
		p.Sub = evPI(g.PickInt(0, 1, 5, 9999))
	}
	switch x := g.Intn(100); {
	case x < 58:
		p.Enabled = "true"
	case x < 68:
		p.Enabled = "false"
	}
	switch x := g.Intn(100); {
	case x < 33:
		p.EvPrio = evPS(g.Pick("-10", "-1", "0", "1", "5", "100"))
	case x < 37:
		p.EvPrio = evPS(g.Pick("abc", "", "1.5"))
	}
	switch x := g.Intn(100); {
	case x < 28:
		var sel []string
		for _, f := range evAllPolicies {
			if g.Bool(0.45) {
				sel = append(sel, f)
			}
		}
		b, _ := json.Marshal(sel)
		if sel == nil {
			b = []byte("[]")
		}
		p.Policy = evPS(string(b))
	case x < 32:
		p.Policy = evPS(g.Pick("BEMemoryEvict", "{}", ""))
	}
	p.Req = capMi * g.PickI64(0, 1, 2, 3, 5, 5, 8, 10) / 100
	p.Native = g.Bool(0.06)
	p.Used = capMi * g.PickI64(0, 1, 2, 3, 4, 5, 6, 8, 10, 15) / 100
	switch x := g.Intn(100); {
	case x < 7:
		p.Phase, p.Used = "Pending", 0
	case x < 10:
		p.Phase, p.Used = "Succeeded", 0
	case x < 13:
		p.Phase, p.Used = "Failed", 0
	}
	p.NoMetric = g.Bool(0.05)
	return p
}

// boundary magnitudes of the "extreme" profile. The two values just outside the int32 range are invalid annotations
// (implicit eviction priority 0).
var evExtremeEvPrio = []string{"2000000000", "-2000000000", "2147483647", "2147483646", "-2147483648", "-2147483647", "1073741824", "-1073741825", "2147483648", "-2147483649"}
var evExtremePrio = []int{-2147483648, -2147483647, -2000000000, -1000000000, 1000000000, 2000000000, 2000001000}

// evExtremePod: half of the pods of an "extreme" plan carry a boundary eviction priority, a third of those that are
// not labelled BE (a BE pod keeps a priority inside its koordinator band, see the assumptions) a boundary spec.priority;
// such pods mostly have eviction enabled, so that they are candidates.
func evExtremePod(g *sim.Rng, p *evPod) {
	touched := false
	if g.Bool(0.5) {
		p.EvPrio = evPS(g.Pick(evExtremeEvPrio...))
		touched = true
	}
	if p.QoS != "BE" && p.QoS != "SYSTEM" && g.Bool(0.33) {
		p.Prio = int32(g.PickInt(evExtremePrio...))
		touched = true
	}
	if touched && g.Bool(0.6) {
		p.Enabled = "true"
	}
}

// evSharedThr: thresholds of the "shared" profile: every strategy validly configured, wide release bands, priority
// thresholds under which most pods are candidates of the priority strategies.
func evSharedThr(g *sim.Rng) evThr {
	t := evThr{Enable: true}
	t.MemThr = evP64(g.PickI64(50, 60, 70, 80))
	t.MemLower = evP64(*t.MemThr - g.PickI64(5, 10, 20, 30))
	t.AllocThr = evP64(g.PickI64(40, 60, 80, 100))
	t.AllocLower = evP64(*t.AllocThr - g.PickI64(5, 10, 20))
	t.PrioThr = evP32(int32(g.PickInt(7999, 9999, 9999)))
	t.AllocPrioThr = evP32(int32(g.PickInt(5999, 7999, 7999)))
	return t
}

// evSharedPod: pods of the "shared" profile are mostly regular candidates: eviction enabled, no policy annotation, a
// usage sample, non-zero usage and request.
func evSharedPod(g *sim.Rng, p *evPod, capMi int64) {
	if g.Bool(0.8) {
		p.Enabled = "true"
	}
	if p.Policy != nil && g.Bool(0.7) {
		p.Policy = nil
	}
	if p.Phase == "" && p.Used == 0 && g.Bool(0.8) {
		p.Used = capMi * g.PickI64(1, 2, 3, 5, 8) / 100
	}
	if p.Req == 0 && g.Bool(0.8) {
		p.Req = capMi * g.PickI64(1, 2, 5) / 100
	}
	if p.NoMetric && g.Bool(0.7) {
		p.NoMetric = false
	}
}

func (evEngine) Generate(p *sim.Plan, g *sim.Rng) {
	cfg := evCfg{}
	// Profile "shared" (a quarter of the plans): the cross-task clauses of the statement ("one or several simultaneous
	// tasks", "all patterns of individual eviction calls failing"). Two or three strategies are enabled and validly
	// configured with wide release bands, most pods are candidates of more than one of them, the node is well over its
	// thresholds, cooling is short, and (in the fault-injecting plans) eviction calls are refused often with at least
	// one kind of refusal that leaves the pod running (err-before / 429), so that rounds in which a later task meets a
	// candidate an earlier task was refused are common.
	shared := g.Bool(0.25)
	// Profile "extreme" (a fifth of the plans, independent of "shared"): boundary magnitudes of the two integer order
	// keys. koordinator.sh/eviction-priority is parsed as an int32 (apis/extension.GetPodEvictionPriority; a value
	// outside the range is invalid and counts as 0), spec.priority is an int32 whose realistic range is
	// [-2^31, 2000001000] (user classes up to 1e9, the two system classes at 2e9 and 2e9+1000): values near both ends
	// are mixed with the ordinary small ones, so that pairs more than 2^31 apart occur.
	extreme := g.Bool(0.2)
	if extreme {
		cfg.Profile = "extreme"
	}
	switch x := g.Intn(10); {
	case shared:
		cfg.Profile = strings.TrimPrefix(cfg.Profile+"+shared", "+")
		switch g.Intn(4) {
		case 0:
			cfg.Features = []string{fBE, fUsed}
		case 1:
			cfg.Features = []string{fAlloc, fUsed}
		case 2:
			cfg.Features = []string{fBE, fAlloc}
		default:
			cfg.Features = append([]string{}, evFeatureOrder...)
		}
	case x < 5:
		cfg.Features = []string{evFeatureOrder[g.Intn(3)]}
	case x < 8:
		i := g.Intn(3)
		for j, f := range evFeatureOrder {
			if j != i {
				cfg.Features = append(cfg.Features, f)
			}
		}
	default:
		cfg.Features = append([]string{}, evFeatureOrder...)
	}
	cfg.IntervalS = g.PickInt(1, 2, 5, 10, 10, 30)
	cfg.CoolS = g.PickInt(0, 4, 4, 20, 60, 150)
	if shared {
		cfg.CoolS = g.PickInt(0, 0, 4, 20)
	}
	cfg.CollectS = g.PickInt(1, 1, 5, 10, 30)
	cfg.CapMi = g.PickI64(1000, 4096, 10000, 65536)
	cfg.Alloc = map[string]int64{"memory": cfg.CapMi * g.PickI64(80, 90, 100) / 100}
	if x := g.Intn(10); x < 7 {
		cfg.Alloc["batch"] = cfg.CapMi * g.PickI64(10, 20, 30, 50) / 100
	} else if x < 8 {
		cfg.Alloc["batch"] = 0
	}
	if x := g.Intn(10); x < 5 {
		cfg.Alloc["mid"] = cfg.CapMi * g.PickI64(5, 10, 20) / 100
	} else if x < 6 {
		cfg.Alloc["mid"] = 0
	}
	cfg.Thr = evGenThr(g)
	if shared {
		cfg.Thr = evSharedThr(g)
	}
	if extreme && cfg.Thr.PrioThr != nil && g.Bool(0.3) {
		// "every priority may be evicted": pods of the highest classes become candidates of the used-threshold strategy
		cfg.Thr.PrioThr = evP32(int32(g.PickInt(1000000000, 2000001000, 2147483647)))
	}
	cfg.Shuffle = g.Bool(0.7)
	n := g.Range(5, 14)
	nops := g.Range(8, 30)
	if p.Tier == "thorough" {
		n = g.Range(5, 25)
		nops = g.Range(8, 50)
	}
	var total int64
	for i := 0; i < n; i++ {
		pod := evGenPod(g, fmt.Sprintf("p%02d", i), cfg.CapMi)
		if shared {
			evSharedPod(g, &pod, cfg.CapMi)
		}
		if extreme {
			evExtremePod(g, &pod)
		}
		cfg.Pods = append(cfg.Pods, pod)
		total += pod.Used
	}
	// node usage around the threshold
	thr := int64(70)
	if cfg.Thr.MemThr != nil {
		thr = *cfg.Thr.MemThr
	}
	want := cfg.CapMi * (thr + g.PickI64(-8, -2, 0, 0, 1, 2, 3, 5, 8, 12)) / 100
	if shared {
		want = cfg.CapMi * (thr + g.PickI64(2, 5, 8, 12, 15, 20)) / 100
	}
	cfg.SysUsed = want - total
	if cfg.SysUsed < 0 {
		cfg.SysUsed = 0
	}

	if g.Bool(0.2) {
		p.FaultRate = 0
	} else {
		p.FaultRate = []float64{0.05, 0.15, 0.3}[g.Intn(3)]
		kinds := []string{"err-before", "err-after", "429", "not-found"}
		for _, k := range kinds {
			if g.Bool(0.4) {
				p.Faults = append(p.Faults, k)
			}
		}
		if len(p.Faults) == 0 {
			p.Faults = []string{kinds[g.Intn(len(kinds))]}
		}
		if shared {
			p.FaultRate = []float64{0.15, 0.3, 0.3, 0.5}[g.Intn(4)]
			refusal := false
			for _, k := range p.Faults {
				if k == "err-before" || k == "429" {
					refusal = true
				}
			}
			if !refusal {
				p.Faults = append(p.Faults, g.Pick("err-before", "429"))
			}
		}
	}

	names := func() []string {
		out := make([]string, 0, len(cfg.Pods)+4)
		for _, q := range cfg.Pods {
			out = append(out, q.Name)
		}
		return out
	}()
	var ops []evOp
	ticks := 0
	added := 0
	for len(ops) < nops {
		x := g.Intn(100)
		switch {
		case x < 45 || len(ops) == 0:
			k := g.PickInt(1, 1, 2, 3, 5, 8)
			if ticks+k > 70 {
				k = 1
			}
			ticks += k
			ops = append(ops, evOp{K: "tick", N: k})
		case x < 60:
			ops = append(ops, evOp{K: "usage", Pod: names[g.Intn(len(names))], V: cfg.CapMi * g.PickI64(0, 1, 2, 3, 5, 8, 10, 15, 20) / 100})
		case x < 68:
			d := cfg.CapMi * g.PickI64(-10, -5, -2, 1, 2, 3, 5, 10) / 100
			ops = append(ops, evOp{K: "sys", V: d})
		case x < 74:
			added++
			pod := evGenPod(g, fmt.Sprintf("n%02d", added), cfg.CapMi)
			if shared {
				evSharedPod(g, &pod, cfg.CapMi)
			}
			if extreme {
				evExtremePod(g, &pod)
			}
			names = append(names, pod.Name)
			ops = append(ops, evOp{K: "addpod", Spec: &pod})
		case x < 78:
			ops = append(ops, evOp{K: "delpod", Pod: names[g.Intn(len(names))]})
		case x < 83:
			ops = append(ops, evOp{K: "restart"})
		case x < 88:
			ops = append(ops, evOp{K: "stall", N: g.PickInt(1, 2, 3, 5)})
		case x < 92:
			t := evGenThr(g)
			ops = append(ops, evOp{K: "thr", Thr: &t})
		case x < 98:
			op := evOp{K: "label", Pod: names[g.Intn(len(names))], What: g.Pick("evprio", "evprio", "enabled", "policy", "sub")}
			switch op.What {
			case "evprio":
				if g.Bool(0.8) {
					op.S = evPS(g.Pick("-10", "-1", "0", "1", "5", "100"))
					if extreme && g.Bool(0.5) {
						op.S = evPS(g.Pick(evExtremeEvPrio...))
					}
				}
			case "enabled":
				if g.Bool(0.8) {
					op.S = evPS(g.Pick("true", "true", "false"))
				}
			case "policy":
				if g.Bool(0.7) {
					var sel []string
					for _, f := range evAllPolicies {
						if g.Bool(0.4) {
							sel = append(sel, f)
						}
					}
					b, _ := json.Marshal(sel)
					if sel == nil {
						b = []byte("[]")
					}
					op.S = evPS(string(b))
				}
			case "sub":
				if g.Bool(0.7) {
					op.S = evPS(g.Pick("0", "1", "5", "9999"))
				}
			}
			ops = append(ops, op)
		default:
			ops = append(ops, evOp{K: "phase", Pod: names[g.Intn(len(names))], What: g.Pick("Running", "Succeeded", "Failed")})
		}
	}
	p.SetCfg(cfg)
	p.SetOps(ops)
}

// ---------------------------------------------------------------- fakes: states informer

type evInformer struct {
	node *corev1.Node
	slo  *slov1alpha1.NodeSLO
	pods []*statesinformer.PodMeta
}

func (f *evInformer) Run(stopCh <-chan struct{}) error                  { return nil }
func (f *evInformer) HasSynced() bool                                   { return true }
func (f *evInformer) GetNode() *corev1.Node                             { return f.node }
func (f *evInformer) GetNodeSLO() *slov1alpha1.NodeSLO                  { return f.slo }
func (f *evInformer) GetNodeMetricSpec() *slov1alpha1.NodeMetricSpec    { return nil }
func (f *evInformer) GetNodeTopo() *topov1alpha1.NodeResourceTopology   { return nil }
func (f *evInformer) GetVolumeName(pvcNamespace, pvcName string) string { return "" }
func (f *evInformer) RegisterCallbacks(objType statesinformer.RegisterType, name, description string, callbackFn statesinformer.UpdateCbFn) {
}
func (f *evInformer) GetAllPods() []*statesinformer.PodMeta {
	out := make([]*statesinformer.PodMeta, len(f.pods))
	copy(out, f.pods)
	return out
}

// ---------------------------------------------------------------- fakes: metric cache (time-window honouring)

type evSample struct {
	t int64 // unix milli
	v float64
}

func (s evSample) T() int64   { return s.t }
func (s evSample) V() float64 { return s.v }

type evMetricCache struct {
	series  map[string][]evSample
	kv      map[interface{}]interface{}
	queries int
}

func evSeriesKey(kind string, props map[string]string) string {
	if len(props) == 0 {
		return kind
	}
	ks := make([]string, 0, len(props))
	for k := range props {
		ks = append(ks, k)
	}
	sort.Strings(ks)
	var sb strings.Builder
	sb.WriteString(kind)
	for _, k := range ks {
		sb.WriteString("|")
		sb.WriteString(k)
		sb.WriteString("=")
		sb.WriteString(props[k])
	}
	return sb.String()
}

func (m *evMetricCache) put(meta metriccache.MetricMeta, t time.Time, v float64) {
	k := evSeriesKey(meta.GetKind(), meta.GetProperties())
	s := append(m.series[k], evSample{t.UnixMilli(), v})
	if len(s) > 8 {
		s = append([]evSample(nil), s[len(s)-4:]...)
	}
	m.series[k] = s
}

func (m *evMetricCache) Run(stopCh <-chan struct{}) error { return nil }
func (m *evMetricCache) Close() error                     { return nil }
func (m *evMetricCache) Appender() metriccache.Appender   { return evAppender{} }
func (m *evMetricCache) Get(key interface{}) (interface{}, bool) {
	v, ok := m.kv[key]
	return v, ok
}
func (m *evMetricCache) Set(key, value interface{}) { m.kv[key] = value }
func (m *evMetricCache) Querier(start, end time.Time) (metriccache.Querier, error) {
	return &evQuerier{m: m, lo: start.UnixMilli(), hi: end.UnixMilli()}, nil
}

type evAppender struct{}

func (evAppender) Append(s []metriccache.MetricSample) error { return nil }
func (evAppender) Commit() error                             { return nil }

type evQuerier struct {
	m      *evMetricCache
	lo, hi int64
}

func (q *evQuerier) Query(meta metriccache.MetricMeta, hints *metriccache.QueryHints, result metriccache.MetricResult) error {
	q.m.queries++
	props := meta.GetProperties()
	k := evSeriesKey(meta.GetKind(), props)
	var in []tsdbutil.Sample
	for _, s := range q.m.series[k] {
		if s.t >= q.lo && s.t <= q.hi {
			in = append(in, s)
		}
	}
	if len(in) == 0 {
		return nil // like the TSDB: no series selected, the result stays empty
	}
	lm := make(map[string]string, len(props)+1)
	for a, b := range props {
		lm[a] = b
	}
	lm["__name__"] = meta.GetKind()
	return result.AddSeries(promstorage.NewListSeries(labels.FromMap(lm), in))
}
func (q *evQuerier) QueryAndClose(meta metriccache.MetricMeta, hints *metriccache.QueryHints, result metriccache.MetricResult) error {
	return q.Query(meta, hints, result)
}
func (q *evQuerier) Close() {}

// ---------------------------------------------------------------- model

type evMPod struct {
	spec    evPod
	uid     string
	obj     *corev1.Pod
	present bool
	used    int64 // bytes, ground truth

	// termination (kubelet stub)
	terminating bool
	never       bool
	goneAt      time.Time
	failAt      time.Time // containers stopped but the object lingers: phase Failed, usage 0

	// eviction knowledge of the agent (since its last restart)
	acked bool
	ackAt time.Time
	// history of this pod (probes only)
	everAcked, lostAck, ackedBeforeRestart bool

	// collector
	hasSample bool
	sampleAt  time.Time
	sampleV   int64
}

type evCall struct {
	pod     string
	feature string
	api     bool   // the request reached the API
	outcome string // ok | err-before | err-after | 429 | not-found | gone
	applied bool
	ret     bool
}

type evSim struct {
	r   *sim.Run
	cfg evCfg
	thr evThr

	pods  map[string]*evMPod
	order []string
	sys   int64 // bytes

	si      *evInformer
	mc      *evMetricCache
	cs      *clientsetfake.Clientset
	stop    chan struct{}
	evictor *qosutil.Evictor
	agent   *memoryEvictor

	start         time.Time
	lastCollect   time.Time
	stallLeft     int
	nodeSampleAt  time.Time
	nodeSampleV   int64
	hasNodeSample bool

	cur      *evCall
	calls    []*evCall
	round    int
	classes  []string
	deferred *evDeferred
	// time of the last round in which an eviction was newly acknowledged (this agent instance)
	lastEvict time.Time
}

// evDeferred is the first violation of a run that belongs to a recorded finding (oracle + history class): it is
// reported when the run ends, unless a violation outside the recorded findings is met first.
type evDeferred struct {
	oracle, detail, msg string
	classes             []string
}

// evClassOf / evPrioOf: the koordinator priority class and priority value of the pod as the API package defines them
// (spec.priority, else the default of the class derived from the priority-class label / the QoS class).
func evClassOf(pod *corev1.Pod) string {
	switch apiext.GetPodPriorityClassWithDefault(pod) {
	case apiext.PriorityProd:
		return "prod"
	case apiext.PriorityMid:
		return "mid"
	case apiext.PriorityBatch:
		return "batch"
	case apiext.PriorityFree:
		return "free"
	}
	return "none"
}

func evPrioOf(pod *corev1.Pod) int64 {
	if p := apiext.GetPodPriorityValueWithDefault(pod); p != nil {
		return int64(*p)
	}
	return 0
}

// evSpecClass: the class the pod's creator had in mind when naming the requested resource (band of spec.priority,
// else BE -> batch); only used to build the pod object.
func evSpecClass(p *evPod) string {
	pr := p.Prio
	switch {
	case pr >= 7000 && pr <= 7999:
		return "mid"
	case pr >= 5000 && pr <= 5999:
		return "batch"
	}
	if pr == 0 && p.QoS == "BE" {
		return "batch"
	}
	return "none"
}

func evResOfClass(class string) corev1.ResourceName {
	switch class {
	case "batch":
		return apiext.BatchMemory
	case "mid":
		return apiext.MidMemory
	}
	return corev1.ResourceMemory
}

func evEvPrio(p *evPod) int64 {
	if p.EvPrio == nil {
		return 0
	}
	v, err := strconv.ParseInt(*p.EvPrio, 10, 32)
	if err != nil {
		return 0 // documented: invalid values take the implicit priority 0
	}
	return v
}

// evPolicy: +1 allowed, -1 opted out, 0 undecidable (annotation present but not a JSON list of strings)
func evPolicy(p *evPod, feature string) int {
	if p.Policy == nil {
		return 1
	}
	var l []string
	if err := json.Unmarshal([]byte(*p.Policy), &l); err != nil {
		return 0
	}
	for _, f := range l {
		if f == feature {
			return 1
		}
	}
	return -1
}

func (m *evMPod) build(now time.Time) {
	p := &m.spec
	lb := map[string]string{}
	an := map[string]string{}
	if p.QoS != "" {
		lb[apiext.LabelPodQoS] = p.QoS
	}
	if p.Sub != nil {
		lb[apiext.LabelPodPriority] = strconv.Itoa(*p.Sub)
	}
	if p.Enabled != "" {
		lb[apiext.LabelPodEvictEnabled] = p.Enabled
	}
	if p.EvPrio != nil {
		an[apiext.AnnotationPodEvictionPriority] = *p.EvPrio
	}
	if p.Policy != nil {
		an[apiext.AnnotationPodEvictPolicy] = *p.Policy
	}
	res := evResOfClass(evSpecClass(p))
	if p.Native {
		res = corev1.ResourceMemory
	}
	rl := corev1.ResourceList{}
	if p.Req > 0 || res != corev1.ResourceMemory {
		rl[res] = *resource.NewQuantity(p.Req*evMi, resource.BinarySI)
	}
	phase := corev1.PodPhase(p.Phase)
	if p.Phase == "" {
		phase = corev1.PodRunning
	}
	prio := p.Prio
	pod := &corev1.Pod{
		TypeMeta:   metav1.TypeMeta{Kind: "Pod", APIVersion: "v1"},
		ObjectMeta: metav1.ObjectMeta{Name: p.Name, Namespace: "default", UID: types.UID(m.uid), Labels: lb, Annotations: an},
		Spec: corev1.PodSpec{
			NodeName:   "node0",
			Priority:   &prio,
			Containers: []corev1.Container{{Name: "main", Resources: corev1.ResourceRequirements{Requests: rl, Limits: rl.DeepCopy()}}},
		},
		Status: corev1.PodStatus{Phase: phase},
	}
	if m.terminating {
		ts := metav1.NewTime(now)
		if m.obj != nil && m.obj.DeletionTimestamp != nil {
			ts = *m.obj.DeletionTimestamp
		}
		pod.DeletionTimestamp = &ts
	}
	m.obj = pod
}

func (s *evSim) running(m *evMPod) bool { return m.spec.Phase == "" || m.spec.Phase == "Running" }
func (s *evSim) active(m *evMPod) bool {
	return m.spec.Phase == "" || m.spec.Phase == "Running" || m.spec.Phase == "Pending"
}

func (s *evSim) addPod(spec evPod, now time.Time) {
	m := &evMPod{spec: spec, uid: "uid-" + spec.Name, present: true, used: spec.Used * evMi}
	if !s.running(m) {
		m.used = 0
	}
	m.build(now)
	s.pods[spec.Name] = m
	s.order = append(s.order, spec.Name)
}

func (s *evSim) buildNode() {
	capQ := *resource.NewQuantity(s.cfg.CapMi*evMi, resource.BinarySI)
	alloc := corev1.ResourceList{corev1.ResourceCPU: resource.MustParse("64")}
	for _, k := range []string{"memory", "batch", "mid"} {
		v, ok := s.cfg.Alloc[k]
		if !ok {
			continue
		}
		rn := corev1.ResourceMemory
		if k == "batch" {
			rn = apiext.BatchMemory
		} else if k == "mid" {
			rn = apiext.MidMemory
		}
		alloc[rn] = *resource.NewQuantity(v*evMi, resource.BinarySI)
	}
	s.si.node = &corev1.Node{
		ObjectMeta: metav1.ObjectMeta{Name: "node0"},
		Status: corev1.NodeStatus{
			Capacity:    corev1.ResourceList{corev1.ResourceMemory: capQ, corev1.ResourceCPU: resource.MustParse("64")},
			Allocatable: alloc,
		},
	}
}

func (s *evSim) buildSLO() {
	t := s.thr
	en := t.Enable
	st := &slov1alpha1.ResourceThresholdStrategy{
		Enable:                                 &en,
		MemoryEvictThresholdPercent:            t.MemThr,
		MemoryEvictLowerPercent:                t.MemLower,
		MemoryAllocatableEvictThresholdPercent: t.AllocThr,
		MemoryAllocatableEvictLowerPercent:     t.AllocLower,
		EvictEnabledPriorityThreshold:          t.PrioThr,
		AllocatableEvictPriorityThreshold:      t.AllocPrioThr,
	}
	s.si.slo = &slov1alpha1.NodeSLO{ObjectMeta: metav1.ObjectMeta{Name: "node0"}, Spec: slov1alpha1.NodeSLOSpec{ResourceUsedThresholdWithBE: st}}
}

// ---------------------------------------------------------------- agent (the real code)

type evExec struct {
	s     *evSim
	inner qosutil.EvictionExecutor
}

func (e *evExec) Evict(pod *corev1.Pod, node *corev1.Node, releaseReason string, message string) bool {
	c := &evCall{pod: pod.Name}
	// message = "<task reason>, kill pod: <name>", task reason = "trigger by koordlet feature <feature>"
	if i := strings.Index(message, qosutil.EvictReasonPrefix); i >= 0 {
		f := message[i+len(qosutil.EvictReasonPrefix):]
		if j := strings.Index(f, ","); j >= 0 {
			f = f[:j]
		}
		c.feature = f
	}
	e.s.cur = c
	c.ret = e.inner.Evict(pod, node, releaseReason, message)
	e.s.cur = nil
	e.s.calls = append(e.s.calls, c)
	return c.ret
}

func (e *evExec) IsPodEvicted(pod *corev1.Pod) bool { return e.inner.IsPodEvicted(pod) }

func (s *evSim) startAgent() {
	if s.stop != nil {
		close(s.stop)
		synctest.Wait()
	}
	s.stop = make(chan struct{})
	s.evictor = qosutil.NewEvictor(s.cs, &record.FakeRecorder{}, policyv1.SchemeGroupVersion.Version)
	_ = s.evictor.Start(s.stop)
	fc := framework.NewDefaultConfig()
	fc.MemoryEvictIntervalSeconds = s.cfg.IntervalS
	fc.MemoryEvictCoolTimeSeconds = s.cfg.CoolS
	mac := maframework.NewDefaultConfig()
	mac.CollectResUsedInterval = time.Duration(s.cfg.CollectS) * time.Second
	opt := &framework.Options{StatesInformer: s.si, MetricCache: s.mc, Config: fc, MetricAdvisorConfig: mac, KubeClient: s.cs}
	m := New(opt).(*memoryEvictor)
	m.Setup(&framework.Context{Evictor: s.evictor, OnlyEvictByAPI: true})
	m.evictExecutor = &evExec{s: s, inner: m.evictExecutor}
	if !m.Enabled() {
		s.r.HarnessFail("memory evictor reports not enabled with features %v", s.cfg.Features)
	}
	s.agent = m
	s.lastEvict = time.Time{}
	for _, n := range s.order {
		if p := s.pods[n]; p.acked {
			p.acked = false
			p.ackedBeforeRestart = true
		}
	}
}

var evPodGR = schema.GroupResource{Resource: "pods"}

// react is the policy/v1 eviction endpoint of the simulated API server.
func (s *evSim) react(action clienttesting.Action) (bool, runtime.Object, error) {
	if action.GetSubresource() != "eviction" {
		return false, nil, nil
	}
	ca, ok := action.(clienttesting.CreateAction)
	if !ok {
		s.r.HarnessFail("unexpected action %#v", action)
	}
	ev, ok := ca.GetObject().(*policyv1.Eviction)
	c := s.cur
	if !ok || c == nil {
		s.r.HarnessFail("eviction request outside an executor call: %#v", action)
	}
	if c.api {
		s.r.Fail("api-called-twice", "", "one Evict(%s) produced more than one API request", c.pod)
	}
	c.api = true
	m := s.pods[ev.Name]
	if ev.Name != c.pod || ev.Namespace != "default" || m == nil {
		s.r.Fail("wrong-eviction-target", "", "Evict(%s) produced an eviction request for %s/%s", c.pod, ev.Namespace, ev.Name)
	}
	if ev.DeleteOptions != nil && ev.DeleteOptions.Preconditions != nil && ev.DeleteOptions.Preconditions.UID != nil &&
		string(*ev.DeleteOptions.Preconditions.UID) != m.uid {
		s.r.Fail("wrong-eviction-target", "uid", "eviction of %s carries UID precondition %s, pod has %s", ev.Name, *ev.DeleteOptions.Preconditions.UID, m.uid)
	}
	now := time.Now()
	if !m.present {
		c.outcome = "gone"
		return true, nil, apierrors.NewNotFound(evPodGR, ev.Name)
	}
	switch s.r.Fault("evict-api", "err-before", "err-after", "429", "not-found") {
	case "err-before":
		c.outcome = "err-before"
		return true, nil, apierrors.NewInternalError(fmt.Errorf("injected: etcdserver: request timed out"))
	case "429":
		c.outcome = "429"
		return true, nil, apierrors.NewTooManyRequests("Cannot evict pod as it would violate the pod's disruption budget.", 0)
	case "not-found":
		// deleted by somebody else between the agent's pod list and its request
		c.outcome = "not-found"
		m.present = false
		s.r.Event("pod %s vanished", m.spec.Name)
		return true, nil, apierrors.NewNotFound(evPodGR, ev.Name)
	case "err-after":
		c.outcome = "err-after"
		c.applied = true
		s.terminate(m, now)
		return true, nil, apierrors.NewTimeoutError("injected: the server was unable to return a response in the time allotted, but may still be processing the request", 1)
	}
	c.outcome = "ok"
	c.applied = true
	s.terminate(m, now)
	return true, ev, nil
}

// terminate: the API server accepted a deletion; the kubelet stub decides how long the pod lingers.
func (s *evSim) terminate(m *evMPod, now time.Time) {
	if m.terminating {
		s.r.Probe("evict-of-terminating-pod")
		return
	}
	m.terminating = true
	delays := []int{0, 1, 5, 15, 30, 60, 120, -1}
	d := delays[s.r.Choose(len(delays))]
	if d < 0 {
		m.never = true
		s.r.Probe("pod-never-terminates")
	} else {
		m.goneAt = now.Add(time.Duration(d) * time.Second)
		if d >= 5 && s.r.Flip(0.15) {
			m.failAt = now.Add(time.Duration(d/2) * time.Second)
		}
	}
	m.build(now)
	s.r.Event("pod %s terminating delay=%d", m.spec.Name, d)
}

// ---------------------------------------------------------------- environment stubs

func (s *evSim) kubeletStep(now time.Time) {
	for _, n := range s.order {
		m := s.pods[n]
		if !m.present || !m.terminating {
			continue
		}
		if !m.failAt.IsZero() && !now.Before(m.failAt) && s.active(m) {
			m.spec.Phase = "Failed"
			m.used = 0
			m.build(now)
			s.r.Probe("terminating-pod-goes-inactive")
			s.r.Event("pod %s failed", n)
		}
		if !m.never && !now.Before(m.goneAt) {
			m.present = false
			s.r.Event("pod %s gone", n)
		}
	}
}

func (s *evSim) nodeUsed() int64 {
	t := s.sys
	for _, n := range s.order {
		if m := s.pods[n]; m.present {
			t += m.used
		}
	}
	return t
}

var evNodeMeta, _ = metriccache.NodeMemoryUsageMetric.BuildQueryMeta(nil)

// collectorStep: the metrics advisor publishes node and pod memory usage at every collect interval (aligned to the
// agent's start); only the latest instant <= now matters for the "last" aggregation used by memory eviction.
func (s *evSim) collectorStep(now time.Time) {
	ci := time.Duration(s.cfg.CollectS) * time.Second
	k := now.Sub(s.start) / ci
	t := s.start.Add(k * ci)
	if !t.After(s.lastCollect) {
		return
	}
	missed := int(t.Sub(s.lastCollect) / ci)
	s.lastCollect = t
	if s.stallLeft > 0 {
		if s.stallLeft >= missed {
			s.stallLeft -= missed
			s.r.Probe("collector-stalled")
			return
		}
		s.stallLeft = 0
	}
	s.mc.put(evNodeMeta, t, float64(s.nodeUsed()))
	s.hasNodeSample, s.nodeSampleAt, s.nodeSampleV = true, t, s.nodeUsed()
	for _, n := range s.order {
		m := s.pods[n]
		if !m.present || !s.running(m) || m.spec.NoMetric {
			continue
		}
		meta, err := metriccache.PodMemUsageMetric.BuildQueryMeta(metriccache.MetricPropertiesFunc.Pod(m.uid))
		if err != nil {
			s.r.HarnessFail("query meta: %v", err)
		}
		s.mc.put(meta, t, float64(m.used))
		m.hasSample, m.sampleAt, m.sampleV = true, t, m.used
	}
}

func (s *evSim) refreshPodList(shuffle bool) {
	var l []*statesinformer.PodMeta
	for _, n := range s.order {
		if m := s.pods[n]; m.present {
			l = append(l, &statesinformer.PodMeta{Pod: m.obj, CgroupDir: "kubepods/pod" + m.uid})
		}
	}
	if shuffle {
		for i := len(l) - 1; i > 0; i-- {
			j := s.r.Choose(i + 1)
			l[i], l[j] = l[j], l[i]
		}
	}
	s.si.pods = l
}

// ---------------------------------------------------------------- one round and its oracles

// evView is what the round's oracles know about one pod that was on the node when the round started.
type evView struct {
	m        *evMPod
	spec     evPod
	class    string
	prio     int64 // both order keys are kept in 64 bits: they span the whole int32 range and are only ever compared
	evprio   int64
	fresh    bool  // a usage sample lies inside the agent's query window
	usedLo   int64 // bytes the agent can know the pod uses (0 when unknown)
	usedHi   int64
	req      int64 // bytes requested in the pod's class resource
	reqRes   corev1.ResourceName
	active   bool
	pendCert bool // evicted (acknowledged) by this agent instance less than the TTL ago and still on the node
	pendPoss bool
}

type evTask struct {
	feature string
	typ     string
	target  map[corev1.ResourceName]int64
}

type evAcc map[string]map[corev1.ResourceName]int64

func (a evAcc) add(typ string, rn corev1.ResourceName, v int64) {
	if a[typ] == nil {
		a[typ] = map[corev1.ResourceName]int64{}
	}
	a[typ][rn] += v
}

func (v *evView) addRelease(lo, hi evAcc) {
	if lo != nil {
		lo.add(tUsed, corev1.ResourceMemory, v.usedLo)
		lo.add(tReq, v.reqRes, v.req)
	}
	if hi != nil {
		hi.add(tUsed, corev1.ResourceMemory, v.usedHi)
		hi.add(tReq, v.reqRes, v.req)
	}
}

// releaseHi: the most the pod's removal can free in dimension rn of release type typ
func (v *evView) releaseHi(typ string, rn corev1.ResourceName) int64 {
	if typ == tUsed {
		if rn == corev1.ResourceMemory {
			return v.usedHi
		}
		return 0
	}
	if rn == v.reqRes {
		return v.req
	}
	return 0
}

// releaseLo: what the agent can know the pod's removal frees in dimension rn of release type typ
func (v *evView) releaseLo(typ string, rn corev1.ResourceName) int64 {
	if typ == tUsed {
		if rn == corev1.ResourceMemory {
			return v.usedLo
		}
		return 0
	}
	if rn == v.reqRes {
		return v.req
	}
	return 0
}

func (s *evSim) view(now time.Time) map[string]*evView {
	win := 2 * time.Duration(s.cfg.CollectS) * time.Second
	out := map[string]*evView{}
	for _, n := range s.order {
		m := s.pods[n]
		if !m.present {
			continue
		}
		v := &evView{m: m, spec: m.spec, class: evClassOf(m.obj), prio: evPrioOf(m.obj), evprio: evEvPrio(&m.spec), active: s.active(m)}
		v.reqRes = evResOfClass(v.class)
		if q, ok := m.obj.Spec.Containers[0].Resources.Requests[v.reqRes]; ok {
			v.req = q.Value()
		}
		if m.hasSample && !m.sampleAt.Before(now.Add(-win)) {
			v.fresh, v.usedLo, v.usedHi = true, m.sampleV, m.sampleV
		} else {
			v.usedHi = m.used
			if m.hasSample && m.sampleV > v.usedHi {
				v.usedHi = m.sampleV
			}
		}
		if m.acked {
			age := now.Sub(m.ackAt)
			v.pendCert = age < evTTL
			v.pendPoss = age <= evTTL
		}
		out[n] = v
	}
	return out
}

func (s *evSim) featureOn(f string) bool {
	for _, x := range s.cfg.Features {
		if x == f {
			return true
		}
	}
	return false
}

// peekTasks asks the real buildEvictTask for the release targets of this round (the statement takes "the computed
// target" as given); nothing but ToReleaseResource and ReleaseTarget is used.
func (s *evSim) peekTasks() []*evTask {
	var out []*evTask
	slo, node := s.si.GetNodeSLO(), s.si.GetNode()
	for _, f := range evFeatureOrder {
		if !s.featureOn(f) {
			continue
		}
		if dis, err := features.IsFeatureDisabled(slo, featuregate.Feature(f)); err != nil || dis {
			continue
		}
		t, err := s.agent.buildEvictTask(featuregate.Feature(f), slo, node)
		if err != nil || t == nil {
			continue
		}
		et := &evTask{feature: f, typ: string(t.ReleaseTarget), target: map[corev1.ResourceName]int64{}}
		for rn, q := range t.ToReleaseResource {
			if q.Value() > 0 {
				et.target[rn] = q.Value()
			}
		}
		if len(et.target) > 0 {
			out = append(out, et)
		}
	}
	return out
}

func evSortedRes(m map[corev1.ResourceName]int64) []corev1.ResourceName {
	ks := make([]corev1.ResourceName, 0, len(m))
	for k := range m {
		ks = append(ks, k)
	}
	sort.Slice(ks, func(i, j int) bool { return ks[i] < ks[j] })
	return ks
}

// statement: "best-effort QoS, or priority not above the configured threshold with eviction enabled, and not opted out"
func (s *evSim) allowed(v *evView, f string) bool {
	if evPolicy(&v.spec, f) < 0 {
		return false
	}
	if f == fBE {
		return v.spec.QoS == "BE"
	}
	if v.spec.QoS == "BE" {
		return true
	}
	thr := s.thr.PrioThr
	if f == fAlloc {
		thr = s.thr.AllocPrioThr
	}
	return thr != nil && v.prio <= int64(*thr) && v.spec.Enabled == "true"
}

// candidate: a pod this feature's policy names as a victim (what a round must not skip). 0 = no, 1 = optional
// (the statement leaves it open: undecidable annotation, finished pod, no usage sample), 2 = yes.
func (s *evSim) candidate(v *evView, f string) int {
	pol := evPolicy(&v.spec, f)
	if pol < 0 {
		return 0
	}
	lvl := 2
	if pol == 0 {
		lvl = 1
	}
	if f == fBE {
		if v.spec.QoS != "BE" {
			return 0
		}
		return lvl
	}
	thr := s.thr.PrioThr
	if f == fAlloc {
		thr = s.thr.AllocPrioThr
	}
	if thr == nil || v.prio > int64(*thr) || v.spec.Enabled != "true" {
		return 0
	}
	if !v.active || !v.fresh {
		lvl = 1
	}
	return lvl
}

// mustPrecede: the published order of the feature's strategy (eviction priority, then priority, then usage resp.
// request, larger first) puts a strictly before b. Pairs the statement does not order (different sub-priority
// labels, unknown usage) are free.
func evMustPrecede(a, b *evView, feature string) bool {
	if a.evprio != b.evprio {
		return a.evprio < b.evprio
	}
	if a.prio != b.prio {
		return a.prio < b.prio
	}
	as, bs := -1, -1
	if a.spec.Sub != nil {
		as = *a.spec.Sub
	}
	if b.spec.Sub != nil {
		bs = *b.spec.Sub
	}
	if as != bs {
		return false
	}
	return evKeyBefore(a, b, feature)
}

// evKeyBefore: third key of the published order. Memory: usage for the used-threshold strategies, request for the
// allocatable strategy. A pod without a usage sample in the agent's window counts as usage zero for ordering ("by
// usage" implies it: nothing is known to be freed by it): it must not be taken before a candidate with known positive
// usage; two such pods, or one of them and a pod with a zero sample, are a genuine tie.
func evKeyBefore(a, b *evView, feature string) bool {
	if feature == fAlloc {
		return a.req > b.req
	}
	return a.usedLo > b.usedLo // usedLo is 0 unless a fresh sample exists
}

func evKind(f string) string {
	switch f {
	case fBE:
		return "be"
	case fAlloc:
		return "allocatable"
	case fUsed:
		return "used"
	}
	return "unknown"
}

func (s *evSim) doRound() {
	r := s.r
	now := time.Now()
	s.round++
	s.kubeletStep(now)
	s.collectorStep(now)
	s.refreshPodList(s.cfg.Shuffle)
	views := s.view(now)
	s.calls = nil
	// cooling as the recorded history implies it (not the agent's own field)
	cooling := !s.lastEvict.IsZero() && now.Before(s.lastEvict.Add(time.Duration(s.cfg.CoolS)*time.Second))

	s.agent.memoryEvict() // the real round

	r.OpDone()
	if len(s.calls) == 0 && cooling {
		r.Probe("round-in-cooling")
		r.Event("round %d cooling", s.round)
		return
	}
	if cooling {
		r.Probe("evict-while-history-says-cooling")
	}
	// the pod list is still the one the round saw (a pod that vanished during the round is still in it)
	tasks := s.peekTasks()
	if len(s.calls) == 0 && len(tasks) == 0 {
		r.Event("round %d no-pressure", s.round)
		return
	}
	s.checkRound(now, views, tasks)
	// what the agent now knows
	for _, c := range s.calls {
		m := s.pods[c.pod]
		if m == nil {
			continue
		}
		if c.ret && c.api && c.outcome == "ok" {
			if !views[c.pod].pendCert {
				m.acked, m.ackAt, m.everAcked = true, now, true
			}
			s.lastEvict = now
		}
		if c.outcome == "err-after" {
			m.lostAck = true
		}
	}
}

func (s *evSim) checkRound(now time.Time, views map[string]*evView, tasks []*evTask) {
	r := s.r
	r.OracleEval()
	s.classes = s.classify(views, tasks)
	for _, c := range s.classes {
		r.Probe("class:" + c)
	}
	byF := map[string]*evTask{}
	var tdesc []string
	for _, t := range tasks {
		byF[t.feature] = t
		r.Probe("task:" + t.feature)
		var ds []string
		for _, rn := range evSortedRes(t.target) {
			ds = append(ds, fmt.Sprintf("%s=%d", rn, t.target[rn]))
		}
		tdesc = append(tdesc, fmt.Sprintf("%s[%s %s]", t.feature, t.typ, strings.Join(ds, ",")))
	}
	if len(tasks) > 1 {
		r.Probe(fmt.Sprintf("round-with-%d-tasks", len(tasks)))
	}
	var cdesc []string
	for _, c := range s.calls {
		cdesc = append(cdesc, fmt.Sprintf("%s:%s:%s:%v", c.feature, c.pod, c.outcome, c.ret))
	}
	hist := fmt.Sprintf("round %d t=+%ds tasks=%v calls=%v", s.round, int(now.Sub(s.start)/time.Second), tdesc, cdesc)
	r.Event(hist)
	r.Sample(hist)
	s.checkTriggers(now, views, tasks, hist)

	lo, hi := evAcc{}, evAcc{}
	npend := 0
	for _, n := range s.order {
		v := views[n]
		if v == nil {
			continue
		}
		if v.pendCert {
			v.addRelease(lo, nil)
			npend++
		}
		if v.pendPoss {
			v.addRelease(nil, hi)
		}
	}
	if npend > 0 {
		r.Probe("round-with-pending-release")
	}
	if len(s.calls) == 0 {
		r.Probe("pressure-but-no-evict-call")
	}
	shortLo := func(t *evTask) []corev1.ResourceName { // dimensions that may still be short
		var out []corev1.ResourceName
		for _, rn := range evSortedRes(t.target) {
			if lo[t.typ][rn] < t.target[rn] {
				out = append(out, rn)
			}
		}
		return out
	}
	attempted := map[string]bool{}    // any task, this round
	succeeded := map[string]bool{}    // acknowledged this round
	perTask := map[string][]*evView{} // attempts of each task in order
	// The statement lets a task pass over a pod its order puts first only if that pod "has been evicted, is counted as
	// pending release, or was really tried and refused" BY THIS TASK: a refusal met by another task of the round (a
	// transient API error) says nothing about the pod, which is still running and still evictable.
	//   tried:   per task, the pods it made an eviction call for
	//   settled: pods that are no longer evictable because of a call of this round, whichever task made it (the API
	//            applied the eviction, acknowledged or not, or answered that the pod does not exist)
	//   refusedBy: pods some task's call was refused for (still on the node, not evicted) -> the first such task
	tried := map[string]map[string]bool{}
	settled := map[string]bool{}
	refusedBy := map[string]string{}
	for i, c := range s.calls {
		v := views[c.pod]
		if v == nil {
			s.fail("victim-not-on-node", "", "", "%s\ncall #%d evicts %s which was not on the node when the round started", hist, i, c.pod)
		}
		t := byF[c.feature]
		kind := evKind(c.feature)
		if t == nil {
			s.fail("evict-without-target", kind, "", "%s\ncall #%d evicts %s on behalf of %q which has no release target in this round", hist, i, c.pod, c.feature)
		}
		// 1. eligibility
		if !s.allowed(v, c.feature) {
			s.fail("ineligible-victim", kind, "", "%s\ncall #%d: %s evicts %s (qos=%q priority=%d eviction-enabled=%q policy=%v): not allowed by the policy (thresholds %s)",
				hist, i, c.feature, c.pod, v.spec.QoS, v.prio, v.spec.Enabled, evStr(v.spec.Policy), s.thrString())
		}
		// 2. twice
		switch {
		case v.pendCert:
		case v.m.acked:
			r.Probe("re-evict-after-ttl")
		case v.m.ackedBeforeRestart:
			r.Probe("re-evict-after-restart")
		case v.m.lostAck:
			r.Probe("re-evict-after-lost-ack")
		}
		if v.pendCert {
			s.fail("evicted-twice", kind, "", "%s\ncall #%d: %s evicts %s again, %v after its acknowledged eviction (remembered for %v, no restart since)", hist, i, c.feature, c.pod, now.Sub(v.m.ackAt), evTTL)
		}
		if attempted[c.pod] && succeeded[c.pod] {
			s.fail("evicted-twice", kind+"/same-round", "", "%s\ncall #%d: %s evicts %s which was already evicted in this round", hist, i, c.feature, c.pod)
		}
		// 3. target already met?
		short := shortLo(t)
		if len(short) == 0 {
			s.fail("evict-after-target-met", kind, s.firstClass(clsPendingBehind, clsNativeTarget), "%s\ncall #%d: %s evicts %s although the release accumulated so far (victims of this round + pods already evicted and still terminating) covers its target: accumulated[%s]=%v",
				hist, i, c.feature, c.pod, t.typ, evAccStr(lo[t.typ]))
		}
		// 4. frees nothing of what is still short
		useful := false
		for _, rn := range short {
			if v.releaseHi(t.typ, rn) > 0 {
				useful = true
			}
		}
		if !useful && len(short) > 0 {
			cls := ""
			if s.candidate(v, c.feature) >= 1 {
				cls = clsFreesNothing // a regular candidate of the task: nothing in the code looks at what a candidate frees
			}
			s.fail("useless-victim", kind, cls, "%s\ncall #%d: %s evicts %s (class %s, request %d of %s, usage<=%d) which frees nothing of what is still short (%v of %s)",
				hist, i, c.feature, c.pod, v.class, v.req, v.reqRes, v.usedHi, short, t.typ)
		}
		// 5. published order
		for _, q := range perTask[c.feature] {
			if q != v && evMustPrecede(v, q, c.feature) {
				cls := ""
				if c.feature == fBE && v.evprio != q.evprio {
					cls = clsBEEvPrio
				}
				s.fail("order", kind, cls, "%s\ncall #%d: %s evicts %s after %s although the published order puts it first (%s vs %s)", hist, i, c.feature, c.pod, q.spec.Name, evOrd(v), evOrd(q))
			}
		}
		if f, ok := refusedBy[c.pod]; ok && f != c.feature && !settled[c.pod] {
			r.Probe("candidate-refused-in-earlier-task-retried")
		}
		for _, n := range s.order {
			q := views[n]
			if q == nil || q == v || settled[n] || tried[c.feature][n] || q.pendPoss || s.candidate(q, c.feature) < 2 {
				continue
			}
			qUseful := false
			for _, rn := range short {
				if q.releaseLo(t.typ, rn) > 0 {
					qUseful = true
				}
			}
			if qUseful && evMustPrecede(q, v, c.feature) {
				cls := ""
				if c.feature == fBE && v.evprio != q.evprio {
					cls = clsBEEvPrio
				}
				if f, ok := refusedBy[n]; ok {
					// q is still running and evictable: the only call made for it in this round was refused to another task
					s.fail("skipped-candidate", kind+"/refused-to-earlier-task-only", cls, "%s\ncall #%d: %s evicts %s but never tried %s which the published order puts first (%s vs %s): it is neither evicted nor pending release, and the only eviction call made for it in this round was refused to %s, not to this task",
						hist, i, c.feature, c.pod, n, evOrd(q), evOrd(v), f)
				}
				s.fail("skipped-candidate", kind, cls, "%s\ncall #%d: %s evicts %s but never tried %s which the published order puts first (%s vs %s) and which is neither evicted nor failing",
					hist, i, c.feature, c.pod, n, evOrd(q), evOrd(v))
			}
		}
		for _, n := range s.order {
			// (probe only) the situation in which a refusal met by an earlier task matters to this task's order
			if f, ok := refusedBy[n]; ok && f != c.feature && !settled[n] && n != c.pod {
				if q := views[n]; q != nil && s.candidate(q, c.feature) >= 2 && evMustPrecede(q, v, c.feature) {
					r.Probe("victim-behind-candidate-refused-in-earlier-task")
					break
				}
			}
		}
		perTask[c.feature] = append(perTask[c.feature], v)
		attempted[c.pod] = true
		if tried[c.feature] == nil {
			tried[c.feature] = map[string]bool{}
		}
		tried[c.feature][c.pod] = true
		switch {
		case c.applied || c.outcome == "not-found" || c.outcome == "gone":
			settled[c.pod] = true
		case !c.ret:
			if _, ok := refusedBy[c.pod]; !ok {
				refusedBy[c.pod] = c.feature
			}
		}
		r.Probe("evict-call:" + c.feature)
		if c.ret {
			if !c.api {
				// the executor answered "evicted" without an API request although the model does not know the pod as evicted
				s.fail("success-without-request", kind, "", "%s\ncall #%d: Evict(%s) returned success but no eviction request reached the API", hist, i, c.pod)
			}
			if c.outcome != "ok" {
				s.fail("failed-eviction-reported-as-success", kind, "", "%s\ncall #%d: Evict(%s) returned success although the API answered %s", hist, i, c.pod, c.outcome)
			}
			succeeded[c.pod] = true
			v.addRelease(lo, hi)
		} else {
			r.Probe("evict-call-failed:" + c.outcome)
			if c.outcome == "ok" {
				s.fail("successful-eviction-reported-as-failure", kind, "", "%s\ncall #%d: Evict(%s) returned failure although the API accepted the eviction", hist, i, c.pod)
			}
		}
	}
	// 6. stopped although the target is not covered and candidates were left
	for _, t := range tasks {
		var short []corev1.ResourceName
		for _, rn := range evSortedRes(t.target) {
			if hi[t.typ][rn] < t.target[rn] {
				short = append(short, rn)
			}
		}
		if len(short) == 0 {
			r.Probe("round-ends-with-target-covered")
			continue
		}
		r.Probe("round-ends-short")
		for _, n := range s.order {
			q := views[n]
			if q == nil || settled[n] || tried[t.feature][n] || q.pendPoss || s.candidate(q, t.feature) < 2 {
				continue
			}
			useful := false
			for _, rn := range short {
				if q.releaseLo(t.typ, rn) > 0 {
					useful = true
				}
			}
			if !useful {
				continue
			}
			if f, ok := refusedBy[n]; ok {
				s.fail("stops-early", evKind(t.feature)+"/refused-to-earlier-task-only", "", "%s\nthe round ends with %s short of its target (accumulated[%s]=%v, short in %v) although %s never tried candidate %s (%s): the only eviction call made for it in this round was refused to %s",
					hist, t.feature, t.typ, evAccStr(hi[t.typ]), short, t.feature, n, evOrd(q), f)
			}
			s.fail("stops-early", evKind(t.feature), "", "%s\nthe round ends with %s short of its target (accumulated[%s]=%v, short in %v) although candidate %s (%s) was never tried",
				hist, t.feature, t.typ, evAccStr(hi[t.typ]), short, n, evOrd(q))
		}
	}
}

// checkTriggers: a release target may only exist while the configured threshold is exceeded (the amount of the
// target is taken as computed; only its existence is checked against the documented meaning of the thresholds).
func (s *evSim) checkTriggers(now time.Time, views map[string]*evView, tasks []*evTask, hist string) {
	t := s.thr
	capB := s.cfg.CapMi * evMi
	win := 2 * time.Duration(s.cfg.CollectS) * time.Second
	for _, task := range tasks {
		kind := evKind(task.feature)
		switch task.feature {
		case fBE, fUsed:
			ok := t.Enable && t.MemThr != nil && *t.MemThr >= 0
			if ok {
				lower := *t.MemThr - 2 // documented default: threshold - 2
				if t.MemLower != nil {
					lower = *t.MemLower
				}
				ok = lower < *t.MemThr
			}
			if ok && task.feature == fUsed {
				ok = t.PrioThr != nil
			}
			if ok {
				ok = s.hasNodeSample && !s.nodeSampleAt.Before(now.Add(-win)) && s.nodeSampleV*100 >= *t.MemThr*capB
			}
			if !ok {
				s.fail("target-without-pressure", kind, "", "%s\n%s has a release target although its threshold is not exceeded or its configuration is invalid (node usage sample %d of %d, fresh=%v, thresholds %s)",
					hist, task.feature, s.nodeSampleV, capB, s.hasNodeSample && !s.nodeSampleAt.Before(now.Add(-win)), s.thrString())
			}
		case fAlloc:
			ok := t.Enable && t.AllocThr != nil && *t.AllocThr >= 0 && t.AllocLower != nil && *t.AllocLower < *t.AllocThr && t.AllocPrioThr != nil && *t.AllocPrioThr <= 7999
			if !ok {
				s.fail("target-without-pressure", kind, "", "%s\n%s has a release target although its configuration is invalid (thresholds %s)", hist, task.feature, s.thrString())
				continue
			}
			for _, rn := range evSortedRes(task.target) {
				aq, has := s.si.node.Status.Allocatable[rn]
				if !has || aq.IsZero() {
					continue
				}
				var req int64
				for _, n := range s.order {
					if v := views[n]; v != nil && v.prio <= int64(*t.AllocPrioThr) && v.reqRes == rn {
						req += v.req
					}
				}
				if req*100 <= *t.AllocThr*aq.Value() {
					s.fail("target-without-pressure", kind, "", "%s\n%s has a release target for %s although the requests of the pods under its priority threshold (%d) do not exceed %d%% of the allocatable (%d)",
						hist, task.feature, rn, req, *t.AllocThr, aq.Value())
				}
			}
		}
	}
}

// ---------------------------------------------------------------- history classes of recorded findings

const (
	// a best-effort task whose candidates carry different eviction-priority annotations
	clsBEEvPrio = "be-candidates-differ-in-eviction-priority"
	// a task one of whose candidates frees nothing in (one of) the dimension(s) of the task's target
	clsFreesNothing = "candidate-frees-nothing-in-a-target-dimension"
	// a pod already evicted and still terminating contributes to a task's target but the task meets a candidate that
	// is not evicted before it meets that pod (or never meets it: the pod is not one of the task's candidates)
	clsPendingBehind = "pending-release-behind-candidate"
	// an allocatable task whose target names a resource other than the batch/mid ones: no pod is ever counted as
	// releasing it
	clsNativeTarget = "allocatable-target-on-native-resource"
)

// classify names the history classes (conditions on the round's inputs, not on what the code did) for which a
// genuine defect is recorded in /verif/known_findings.jsonl. They are attached to a violation found in this round only.
func (s *evSim) classify(views map[string]*evView, tasks []*evTask) []string {
	var out []string
	var vs []*evView
	for _, n := range s.order {
		if v := views[n]; v != nil {
			vs = append(vs, v)
		}
	}
	beEv, nothing, behind := false, false, false
	for _, t := range tasks {
		var cands []*evView
		for _, v := range vs {
			if s.candidate(v, t.feature) >= 1 {
				cands = append(cands, v)
			}
		}
		for _, v := range cands {
			if t.feature == fBE && v.evprio != cands[0].evprio {
				beEv = true
			}
			for _, rn := range evSortedRes(t.target) {
				if v.releaseHi(t.typ, rn) == 0 {
					nothing = true
				}
			}
		}
		for _, q := range vs {
			if !q.pendCert {
				continue
			}
			contributes := false
			for _, rn := range evSortedRes(t.target) {
				if q.releaseHi(t.typ, rn) > 0 {
					contributes = true
				}
			}
			if !contributes {
				continue
			}
			qIsCand := s.candidate(q, t.feature) >= 2 // certain to be met by the task
			for _, p := range cands {
				if p == q || p.pendPoss {
					continue
				}
				if !qIsCand || !evMustPrecede(q, p, t.feature) || (t.feature == fBE && q.evprio != p.evprio) {
					behind = true // (the BE strategies do not look at the eviction priority: p may well come first)
				}
			}
		}
	}
	for _, t := range tasks {
		if t.feature != fAlloc {
			continue
		}
		for _, rn := range evSortedRes(t.target) {
			if _, ok := apiext.ReverseResourceNameMap[rn]; !ok {
				out = append(out, clsNativeTarget)
				break
			}
		}
	}
	if beEv {
		out = append(out, clsBEEvPrio)
	}
	if nothing {
		out = append(out, clsFreesNothing)
	}
	if behind {
		out = append(out, clsPendingBehind)
	}
	return out
}

// firstClass returns the first of the named classes that is present in the current round ("" if none is).
func (s *evSim) firstClass(names ...string) string {
	for _, n := range names {
		for _, c := range s.classes {
			if c == n {
				return n
			}
		}
	}
	return ""
}

// fail reports a violation found in the current round, tagged with the round's history classes. cls names the
// recorded finding (history class) that explains this particular violation, "" if none does. A violation explained by
// a recorded finding whose class is present in the round does not end the run at once (the later rounds would never
// be explored: half of all runs meet one in their first evicting round); it is kept and reported at the end of the
// run, unless a violation outside the recorded findings is met first.
func (s *evSim) fail(oracle, detail, cls, format string, args ...any) {
	// development aids (never set by verifctl): VERIF_EVICT_HARD=1 ends the run at the first violation even if it is a
	// recorded finding; VERIF_EVICT_RENAME=x- prefixes every oracle name so that no signature matches a recorded finding
	// and the full messages are printed
	if cls != "" && os.Getenv("VERIF_EVICT_HARD") == "" {
		for _, c := range s.classes {
			if c == cls {
				if s.deferred == nil {
					s.deferred = &evDeferred{oracle: oracle, detail: detail, msg: fmt.Sprintf(format, args...), classes: append([]string(nil), s.classes...)}
				}
				s.r.Probe("recorded-finding-met:" + oracle)
				return
			}
		}
	}
	// this violation is not explained by a recorded finding: it must not carry the history class under which a
	// violation of the same oracle is recorded (its signature would match the finding's pattern)
	for _, c := range s.classes {
		if !evRecordedFor(oracle, c) {
			s.r.Tag(c)
		}
	}
	s.r.Fail(os.Getenv("VERIF_EVICT_RENAME")+oracle, detail, format, args...)
}

// evRecordedFor: violations of oracle are a recorded finding under history class cls (known_findings.jsonl)
func evRecordedFor(oracle, cls string) bool {
	switch oracle {
	case "order", "skipped-candidate":
		return cls == clsBEEvPrio
	case "useless-victim":
		return cls == clsFreesNothing
	case "evict-after-target-met":
		return cls == clsPendingBehind || cls == clsNativeTarget
	}
	return false
}

func evStr(p *string) string {
	if p == nil {
		return "<none>"
	}
	return *p
}

func evOrd(v *evView) string {
	sub := "-"
	if v.spec.Sub != nil {
		sub = strconv.Itoa(*v.spec.Sub)
	}
	return fmt.Sprintf("%s{evprio=%d prio=%d sub=%s used=%d fresh=%v req=%d %s}", v.spec.Name, v.evprio, v.prio, sub, v.usedLo, v.fresh, v.req, v.reqRes)
}

func evAccStr(m map[corev1.ResourceName]int64) string {
	var ds []string
	for _, rn := range evSortedRes(m) {
		ds = append(ds, fmt.Sprintf("%s=%d", rn, m[rn]))
	}
	return "{" + strings.Join(ds, ",") + "}"
}

func evI64(p *int64) string {
	if p == nil {
		return "nil"
	}
	return strconv.FormatInt(*p, 10)
}
func evI32(p *int32) string {
	if p == nil {
		return "nil"
	}
	return strconv.FormatInt(int64(*p), 10)
}

func (s *evSim) thrString() string {
	t := s.thr
	return fmt.Sprintf("enable=%v mem=%s/%s alloc=%s/%s prioThr=%s allocPrioThr=%s", t.Enable, evI64(t.MemThr), evI64(t.MemLower), evI64(t.AllocThr), evI64(t.AllocLower), evI32(t.PrioThr), evI32(t.AllocPrioThr))
}

// ---------------------------------------------------------------- execution

func (evEngine) Execute(r *sim.Run) {
	s := &evSim{r: r, pods: map[string]*evMPod{}, si: &evInformer{}, mc: &evMetricCache{series: map[string][]evSample{}, kv: map[interface{}]interface{}{}}}
	r.Plan.GetCfg(&s.cfg)
	var ops []evOp
	r.Plan.GetOps(&ops)
	if s.cfg.IntervalS <= 0 || s.cfg.CollectS <= 0 || s.cfg.CapMi <= 0 || len(s.cfg.Features) == 0 {
		r.HarnessFail("bad cfg %+v", s.cfg)
	}
	gates := map[string]bool{}
	for _, f := range evFeatureOrder {
		gates[f] = s.featureOn(f)
	}
	if err := features.DefaultMutableKoordletFeatureGate.SetFromMap(gates); err != nil {
		r.HarnessFail("feature gates: %v", err)
	}
	defer func() {
		_ = features.DefaultMutableKoordletFeatureGate.SetFromMap(map[string]bool{fBE: false, fAlloc: false, fUsed: false})
		if s.stop != nil {
			close(s.stop)
		}
	}()
	s.cs = &clientsetfake.Clientset{}
	s.cs.AddReactor("create", "pods", s.react)
	s.start = time.Now()
	s.lastCollect = s.start.Add(-time.Nanosecond)
	s.thr = s.cfg.Thr
	s.sys = s.cfg.SysUsed * evMi
	for _, p := range s.cfg.Pods {
		s.addPod(p, s.start)
	}
	s.buildNode()
	s.buildSLO()
	s.startAgent()
	s.collectorStep(s.start)
	r.Sample("profile=%q features=%v interval=%ds cool=%ds collect=%ds cap=%dMi alloc=%v thr{%s} pods=%d sys=%dMi faults=%v@%.2f",
		s.cfg.Profile, s.cfg.Features, s.cfg.IntervalS, s.cfg.CoolS, s.cfg.CollectS, s.cfg.CapMi, s.cfg.Alloc, s.thrString(), len(s.cfg.Pods), s.cfg.SysUsed, r.Plan.Faults, r.Plan.FaultRate)

	if s.cfg.Profile != "" {
		r.Probe("profile:" + s.cfg.Profile)
	}
	interval := time.Duration(s.cfg.IntervalS) * time.Second
	for _, op := range ops {
		op := op
		now := time.Now()
		m := s.pods[op.Pod]
		switch op.K {
		case "tick":
			n := op.N
			if n < 1 {
				n = 1
			}
			for i := 0; i < n; i++ {
				time.Sleep(interval)
				synctest.Wait() // let the evictor cache's GC goroutine finish if its timer fired
				s.doRound()
			}
			continue
		case "usage":
			if m == nil || !m.present || !s.running(m) {
				r.OpSkipped()
				continue
			}
			m.used = op.V * evMi
			r.Event("usage %s=%d", op.Pod, op.V)
		case "sys":
			v := s.sys + op.V*evMi
			if v < 0 {
				v = 0
			}
			if v > s.cfg.CapMi*evMi {
				v = s.cfg.CapMi * evMi
			}
			s.sys = v
			r.Event("sys %d", v/evMi)
		case "addpod":
			if op.Spec == nil || s.pods[op.Spec.Name] != nil {
				r.OpSkipped()
				continue
			}
			s.addPod(*op.Spec, now)
			r.Event("addpod %s", op.Spec.Name)
		case "delpod":
			if m == nil || !m.present || m.terminating {
				r.OpSkipped()
				continue
			}
			s.terminate(m, now)
			r.Probe("pod-deleted-by-user")
		case "restart":
			s.startAgent()
			r.Probe("agent-restart")
			r.Event("restart")
		case "stall":
			s.stallLeft += op.N
			r.Event("stall %d", op.N)
		case "thr":
			if op.Thr == nil {
				r.OpSkipped()
				continue
			}
			s.thr = *op.Thr
			s.buildSLO()
			r.Event("thr %s", s.thrString())
		case "label":
			if m == nil || !m.present {
				r.OpSkipped()
				continue
			}
			switch op.What {
			case "evprio":
				m.spec.EvPrio = op.S
			case "enabled":
				m.spec.Enabled = evStr(op.S)
				if op.S == nil {
					m.spec.Enabled = ""
				}
			case "policy":
				m.spec.Policy = op.S
			case "sub":
				m.spec.Sub = nil
				if op.S != nil {
					if x, err := strconv.Atoi(*op.S); err == nil {
						m.spec.Sub = &x
					}
				}
			default:
				r.OpSkipped()
				continue
			}
			m.build(now)
			r.Event("label %s %s=%s", op.Pod, op.What, evStr(op.S))
		case "phase":
			if m == nil || !m.present || m.terminating || m.spec.Phase == "Succeeded" || m.spec.Phase == "Failed" {
				r.OpSkipped()
				continue
			}
			if op.What == "Running" {
				if m.spec.Phase != "Pending" {
					r.OpSkipped()
					continue
				}
				m.spec.Phase = ""
			} else {
				m.spec.Phase = op.What
				m.used = 0
			}
			m.build(now)
			r.Event("phase %s %s", op.Pod, op.What)
		default:
			r.OpSkipped()
			continue
		}
		r.OpDone()
	}
	if d := s.deferred; d != nil {
		for _, c := range d.classes {
			r.Tag(c)
		}
		r.Fail(os.Getenv("VERIF_EVICT_RENAME")+d.oracle, d.detail, "%s", d.msg)
	}
}
