//go:build verif

package loadaware

// Engine `balance` (C18): the real LowNodeLoad.Balance (processOneNodePool, getNodeUsage, getNodeThresholds,
// classifyNodes, filterRealAbnormalNodes + anomaly.BasicDetector, evictPodsFromSourceNodes / balancePods / evictPods
// and the continue-eviction condition) driven over SEVERAL successive rounds against a simulated cluster:
// a koordlet stub (re)writes NodeMetric objects (late, with old timestamps, or not at all), a scheduler stub re-places
// evicted pods, nodes are cordoned / relabelled / removed, the simulated clock crosses metric expiry, detector timeouts
// and the detector cache TTL. The evictor records every Evict(pod) and may refuse single evictions.
//
// Oracle (from the statement of C18, see /verif/DESIGN.md §4 C18): every recorded Evict(pod) is checked against a
// usage/threshold table that the harness recomputes from its own integer model of this round's inputs.

import (
	"context"
	"fmt"
	"math"
	"os"
	"sort"
	"strings"
	"testing"
	"time"

	"github.com/go-logr/logr"
	gocache "github.com/patrickmn/go-cache"
	corev1 "k8s.io/api/core/v1"
	"k8s.io/apimachinery/pkg/api/resource"
	metav1 "k8s.io/apimachinery/pkg/apis/meta/v1"
	"k8s.io/apimachinery/pkg/util/sets"
	"k8s.io/client-go/tools/cache"
	"k8s.io/klog/v2"

	"github.com/koordinator-sh/koordinator/apis/extension"
	slov1alpha1 "github.com/koordinator-sh/koordinator/apis/slo/v1alpha1"
	koordslolisters "github.com/koordinator-sh/koordinator/pkg/client/listers/slo/v1alpha1"
	deschedulerconfig "github.com/koordinator-sh/koordinator/pkg/descheduler/apis/config"
	"github.com/koordinator-sh/koordinator/pkg/descheduler/apis/config/validation"
	"github.com/koordinator-sh/koordinator/pkg/descheduler/framework"
	podutil "github.com/koordinator-sh/koordinator/pkg/descheduler/pod"
	sim "github.com/koordinator-sh/koordinator/pkg/verifsim"
)

func init() {
	// the code under test logs every classification and every eviction: keep the workers quiet
	klog.SetLogger(logr.Discard())
}

func TestVerifSim(t *testing.T) { sim.Main(t, &blEngine{}) }

type blEngine struct{}

func (blEngine) Name() string { return "balance" }

const (
	blCPU = "cpu"    // milli-cores
	blMem = "memory" // bytes

	blCPUUnit = int64(50)
	blMemUnit = int64(64 << 20)
	blGi      = int64(1 << 30)
)

// ---------------------------------------------------------------- plan types

type blThr map[string]float64 // resource -> percent (absolute) or percent points (deviation)

type blAnom struct {
	N        uint32 `json:"n"`    // ConsecutiveAbnormalities
	Norm     uint32 `json:"norm"` // ConsecutiveNormalities
	TimeoutS int    `json:"timeout_s"`
}

type blPoolCfg struct {
	Name  string  `json:"name"`
	Sel   string  `json:"sel"` // value of node label "pool"; "" = nil selector (every node)
	Dev   bool    `json:"dev,omitempty"`
	Low   blThr   `json:"low,omitempty"`
	High  blThr   `json:"high,omitempty"`
	PLow  blThr   `json:"plow,omitempty"`
	PHigh blThr   `json:"phigh,omitempty"`
	Anom  *blAnom `json:"anom,omitempty"`
	WCPU  int64   `json:"wcpu"`
	WMem  int64   `json:"wmem"`
}

type blNodeCfg struct {
	Name    string `json:"name"`
	Pool    string `json:"pool"`
	CPU     int64  `json:"cpu"`
	Mem     int64  `json:"mem"`
	Amp     bool   `json:"amp,omitempty"` // allocatable amplified x2 on cpu, raw-allocatable annotation carries the real capacity
	Unsched bool   `json:"unsched,omitempty"`
	Taint   bool   `json:"taint,omitempty"`
	SSD     bool   `json:"ssd,omitempty"`
	SysCPU  int64  `json:"sys_cpu"`
	SysMem  int64  `json:"sys_mem"`
}

type blPodCfg struct {
	Name     string `json:"name"`
	NS       string `json:"ns"`
	Node     string `json:"node"`
	Class    string `json:"class"` // prod | mid | batch | none
	ByLabel  bool   `json:"by_label,omitempty"`
	DS       bool   `json:"ds,omitempty"`
	App      string `json:"app"`
	CPU      int64  `json:"cpu"`
	Mem      int64  `json:"mem"`
	ReqCPU   int64  `json:"req_cpu,omitempty"`
	ReqMem   int64  `json:"req_mem,omitempty"`
	NoMetric bool   `json:"no_metric,omitempty"`
	Tol      bool   `json:"tol,omitempty"`
	SSD      bool   `json:"want_ssd,omitempty"`
}

type blCfg struct {
	Pools    []blPoolCfg `json:"pools"`
	NodeFit  bool        `json:"node_fit,omitempty"`
	DryRun   bool        `json:"dry_run,omitempty"`
	NumNodes int32       `json:"number_of_nodes,omitempty"`
	ExpS     int64       `json:"expire_s"`
	CacheS   int         `json:"detector_cache_s"`
	Incl     []string    `json:"incl_ns,omitempty"`
	Excl     []string    `json:"excl_ns,omitempty"`
	SelApps  []string    `json:"sel_apps,omitempty"`
	EvPrio   int32       `json:"evictor_prio,omitempty"`     // evictor refuses pods with priority >= EvPrio (0 = off)
	LimitBy  string      `json:"evictor_limit_by,omitempty"` // stateful evictor filter: at most LimitK evictions per app | ns | node in one round
	LimitK   int         `json:"evictor_limit_k,omitempty"`
	Nodes    []blNodeCfg `json:"nodes"`
	Pods     []blPodCfg  `json:"pods"`
}

type blOp struct {
	K     string    `json:"k"`
	N     string    `json:"n,omitempty"`
	P     string    `json:"p,omitempty"` // ns/name
	D     int64     `json:"d,omitempty"` // seconds
	CPU   int64     `json:"cpu,omitempty"`
	Mem   int64     `json:"mem,omitempty"`
	Pool  string    `json:"pool,omitempty"`
	Which string    `json:"which,omitempty"`
	Res   string    `json:"res,omitempty"`
	Off   int64     `json:"off,omitempty"`
	Pod   *blPodCfg `json:"pod,omitempty"`
}

// ---------------------------------------------------------------- generation

func blPickF(g *sim.Rng, xs ...float64) float64 { return xs[g.Intn(len(xs))] }

func blGenPool(g *sim.Rng, name, sel string) blPoolCfg {
	pc := blPoolCfg{Name: name, Sel: sel, WCPU: 1, WMem: 1, Low: blThr{}, High: blThr{}}
	if g.Bool(0.2) {
		pc.WCPU = 2
	}
	rs := [][]string{{blCPU}, {blCPU, blMem}, {blCPU, blMem}, {blMem}}[g.Intn(4)]
	pc.Dev = g.Bool(0.25)
	for _, r := range rs {
		if pc.Dev {
			lo := blPickF(g, 1, 2, 5, 10, 15, 7.5)
			hi := lo + blPickF(g, 0, 0, 2, 5, 10, 20)
			pc.Low[r], pc.High[r] = lo, hi
		} else {
			lo := blPickF(g, 10, 20, 30, 40, 45, 50, 50, 33.3, 12.5)
			hi := lo + blPickF(g, 0, 0, 0, 2.5, 5, 10, 20, 30, 16.6)
			if hi > 95 {
				hi = 95
			}
			pc.Low[r], pc.High[r] = lo, hi
		}
	}
	if g.Bool(0.4) {
		pc.PLow, pc.PHigh = blThr{}, blThr{}
		prs := rs
		if len(rs) > 1 && g.Bool(0.5) {
			prs = rs[:1]
		}
		for _, r := range prs {
			hi := pc.High[r]
			var plo, phi float64
			if pc.Dev {
				plo = blPickF(g, 1, 2, 5)
				if plo > hi {
					plo = hi
				}
				phi = plo + blPickF(g, 0, 0, 2, 5)
			} else {
				plo = blPickF(g, 5, 10, 20, 25, 30)
				phi = plo + blPickF(g, 0, 0, 5, 10, 20)
			}
			if phi > hi { // validation: prod high <= node high
				phi = hi
			}
			if plo > phi {
				plo = phi
			}
			if plo <= 0 {
				continue
			}
			pc.PLow[r], pc.PHigh[r] = plo, phi
		}
		if len(pc.PLow) == 0 {
			pc.PLow, pc.PHigh = nil, nil
		}
	}
	if !g.Bool(0.12) {
		pc.Anom = &blAnom{N: uint32(g.PickInt(1, 1, 1, 2, 2, 3, 5)), Norm: uint32(g.PickInt(1, 2, 3)), TimeoutS: g.PickInt(30, 60, 120, 300)}
	}
	return pc
}

func (blEngine) Generate(p *sim.Plan, g *sim.Rng) {
	thorough := p.Tier == "thorough"
	cfg := blCfg{}
	if !g.Bool(0.25) {
		p.FaultRate = blPickF(g, 0.05, 0.15, 0.3)
		p.Faults = []string{"evict-refused"}
	}
	// ---- pools
	nPools := 1 + g.Intn(2)
	if g.Bool(0.12) {
		// what the v1alpha2 conversion produces when only nodePools are configured: an inert default pool first
		cfg.Pools = append(cfg.Pools, blPoolCfg{Name: "__default_node_pool__", Sel: "", WCPU: 1, WMem: 1,
			Anom: &blAnom{N: 5, Norm: 3, TimeoutS: 60}})
	}
	poolLabels := []string{"a", "b"}[:nPools]
	if nPools == 1 && len(cfg.Pools) == 0 && g.Bool(0.5) {
		cfg.Pools = append(cfg.Pools, blGenPool(g, "all", ""))
	} else {
		for _, l := range poolLabels {
			cfg.Pools = append(cfg.Pools, blGenPool(g, "pool-"+l, l))
		}
	}
	cfg.NodeFit = g.Bool(0.4)
	cfg.DryRun = g.Bool(0.04)
	if g.Bool(0.25) {
		cfg.NumNodes = int32(1 + g.Intn(2))
	}
	cfg.ExpS = g.PickI64(60, 120, 180, 180, 300)
	cfg.CacheS = g.PickInt(60, 120, 300, 300, 600)
	switch g.Intn(6) {
	case 0:
		cfg.Incl = []string{"default", "ns1"}
	case 1:
		cfg.Excl = []string{"kube-system"}
	}
	if g.Bool(0.2) {
		cfg.SelApps = []string{"web", "job"}[:1+g.Intn(2)]
	}
	if g.Bool(0.3) {
		cfg.EvPrio = int32(g.PickInt(9500, 7000, 9999))
	}
	if g.Bool(0.3) {
		// koordinator's arbitrating evictor: max migrating pods per workload / namespace / node
		cfg.LimitBy, cfg.LimitK = g.Pick("app", "app", "ns", "node"), g.PickInt(1, 1, 2)
	}
	// ---- nodes and pods
	nNodes := g.Range(2, 8)
	if thorough {
		nNodes = g.Range(2, 12)
	}
	npod := 0
	genPod := func(node string, cpu, mem int64) blPodCfg {
		npod++
		pc := blPodCfg{Name: fmt.Sprintf("p%d", npod), NS: g.Pick("default", "default", "default", "ns1", "kube-system"), Node: node,
			Class: g.Pick("prod", "prod", "batch", "batch", "mid", "none"), ByLabel: g.Bool(0.6), DS: g.Bool(0.06),
			App: g.Pick("web", "web", "db", "job"), CPU: cpu, Mem: mem, NoMetric: g.Bool(0.1), Tol: g.Bool(0.5), SSD: g.Bool(0.1)}
		switch g.Intn(3) {
		case 0:
			pc.ReqCPU, pc.ReqMem = cpu, mem
		case 1:
			pc.ReqCPU = (cpu/2/blCPUUnit + 1) * blCPUUnit
		}
		return pc
	}
	for i := 0; i < nNodes; i++ {
		nc := blNodeCfg{Name: fmt.Sprintf("n%d", i), Pool: poolLabels[g.Intn(len(poolLabels))],
			CPU: g.PickI64(4000, 8000, 8000, 16000, 32000), Mem: g.PickI64(8, 16, 32, 64) * blGi,
			Amp: g.Bool(0.1), Unsched: g.Bool(0.06), Taint: g.Bool(0.1), SSD: g.Bool(0.7)}
		if g.Bool(0.04) {
			nc.Pool = "none"
		}
		// the pool this node will be judged by (for aiming the usage only; the run never trusts it)
		var pc *blPoolCfg
		for k := range cfg.Pools {
			if len(cfg.Pools[k].Low) > 0 && (cfg.Pools[k].Sel == "" || cfg.Pools[k].Sel == nc.Pool) {
				pc = &cfg.Pools[k]
				break
			}
		}
		class := g.Intn(100)
		target := map[string]int64{}
		for _, r := range []string{blCPU, blMem} {
			capR, unit := nc.CPU, blCPUUnit
			if r == blMem {
				capR, unit = nc.Mem, blMemUnit
			}
			pct := float64(g.Range(5, 90))
			edge := int64(0)
			if pc != nil && !pc.Dev {
				lo, hasLo := pc.Low[r]
				hi := pc.High[r]
				if hasLo {
					switch {
					case class < 35: // above the high threshold
						pct = hi + blPickF(g, 0.5, 1, 3, 10, 25)
					case class < 70: // below the low threshold
						pct = lo * blPickF(g, 0.2, 0.5, 0.8, 0.95, 0.99)
					case class < 85: // between
						pct = lo + (hi-lo)*blPickF(g, 0.3, 0.5, 0.9)
						if hi == lo {
							pct = lo + blPickF(g, -1, 1)
						}
					default: // at a boundary
						pct = []float64{lo, hi}[g.Intn(2)]
						edge = g.PickI64(-2, -1, -1, 0, 1, 1, 2, 3)
					}
				}
			} else if pc != nil {
				pct = blPickF(g, 10, 20, 30, 40, 50, 60, 70, 85)
			}
			if pct > 98 {
				pct = 98
			}
			tv := int64(pct * float64(capR) / 100)
			if edge == 0 && class < 85 {
				tv = tv / unit * unit
				if pc != nil && !pc.Dev && class < 35 {
					if hi, ok := pc.High[r]; ok && float64(tv) <= hi*float64(capR)/100 {
						tv += unit // rounding must not pull an "above" node back onto the threshold
					}
				}
			}
			tv += edge
			if tv < 0 {
				tv = 0
			}
			target[r] = tv
		}
		// split the target between system usage and 1..5 pods
		k := g.Range(1, 5)
		restC, restM := target[blCPU], target[blMem]
		for j := 0; j < k; j++ {
			c := restC * int64(g.Range(10, 45)) / 100 / blCPUUnit * blCPUUnit
			m := restM * int64(g.Range(10, 45)) / 100 / blMemUnit * blMemUnit
			if c <= 0 && m <= 0 {
				continue
			}
			cfg.Pods = append(cfg.Pods, genPod(nc.Name, c, m))
			restC -= c
			restM -= m
		}
		nc.SysCPU, nc.SysMem = restC, restM
		cfg.Nodes = append(cfg.Nodes, nc)
	}
	// ---- one run in eight is a history aimed at the anomaly gate: one node is pushed just over a (prod) high threshold for
	// several rounds, relieved by an eviction, left alone, pushed over again (the rest of the cluster stays random)
	if g.Bool(0.12) {
		blGenGateRun(p, g, &cfg, nNodes, thorough)
		return
	}
	// ---- and one in eight is aimed at the EXPIRY of the abnormal state: rounds follow each other at fractions of AnomalyCondition.Timeout,
	// one node stays above a (prod) high threshold although pods are evicted from it, now and then it is measured between the thresholds
	if g.Bool(0.14) {
		blGenExpiryRun(p, g, &cfg, nNodes, thorough)
		return
	}
	// ---- ops
	nodeName := func() string { return fmt.Sprintf("n%d", g.Intn(nNodes)) }
	podKey := func() string {
		if len(cfg.Pods) == 0 {
			return "default/p0"
		}
		pc := cfg.Pods[g.Intn(len(cfg.Pods))]
		return pc.NS + "/" + pc.Name
	}
	ops := []blOp{{K: "reportall"}}
	rounds := g.Range(2, 8)
	if thorough {
		rounds = g.Range(2, 12)
	}
	for rd := 0; rd < rounds; rd++ {
		for m := g.Intn(4); m > 0; m-- {
			switch x := g.Intn(100); {
			case x < 18:
				ops = append(ops, blOp{K: "usage", P: podKey(), CPU: int64(g.Range(0, 60)) * blCPUUnit, Mem: int64(g.Range(0, 40)) * blMemUnit})
			case x < 30:
				ops = append(ops, blOp{K: "sys", N: nodeName(), CPU: int64(g.Range(0, 80)) * blCPUUnit, Mem: int64(g.Range(0, 60)) * blMemUnit})
			case x < 58:
				ops = append(ops, blOp{K: "aim", N: nodeName(), Which: g.Pick("high", "high", "low", "low", "phigh", "plow", "room"),
					Res: g.Pick(blCPU, blCPU, blMem), Off: g.PickI64(-2, -1, -1, 0, 1, 1, 2, 3*blCPUUnit, -3*blCPUUnit, 10*blCPUUnit, 1, blCPUUnit)})
			case x < 64:
				ops = append(ops, blOp{K: g.Pick("cordon", "uncordon"), N: nodeName()})
			case x < 70:
				ops = append(ops, blOp{K: "relabel", N: nodeName(), Pool: g.Pick("a", "b", "a", "b", "none")})
			case x < 76:
				ops = append(ops, blOp{K: g.Pick("remove", "readd"), N: nodeName()})
			case x < 80:
				ops = append(ops, blOp{K: g.Pick("taint", "untaint"), N: nodeName()})
			case x < 87:
				pc := genPod(nodeName(), int64(g.Range(1, 40))*blCPUUnit, int64(g.Range(1, 30))*blMemUnit)
				cfg.Pods = append(cfg.Pods, pc) // only so that later ops can name it
				ops = append(ops, blOp{K: "addpod", Pod: &pc})
			case x < 92:
				ops = append(ops, blOp{K: "delpod", P: podKey()})
			case x < 96:
				ops = append(ops, blOp{K: "dropmetric", N: nodeName(), Which: g.Pick("delete", "nil-status", "no-time")})
			default:
				ops = append(ops, blOp{K: "restart"})
			}
		}
		if g.Bool(0.8) {
			ops = append(ops, blOp{K: "tick", D: g.PickI64(10, 30, 60, 60, 90, 120, 200, 400, 700, cfg.ExpS-1, cfg.ExpS+1, 45, 150, 20, cfg.ExpS)})
		}
		switch x := g.Intn(10); {
		case x < 7:
			ops = append(ops, blOp{K: "reportall", D: g.PickI64(0, 0, 0, 5, 30, 100, cfg.ExpS-10)})
		case x < 9:
			for i := 0; i < nNodes; i++ {
				if g.Bool(0.6) {
					ops = append(ops, blOp{K: "report", N: fmt.Sprintf("n%d", i), D: g.PickI64(0, 0, 0, 10, 50, cfg.ExpS-1, cfg.ExpS+30, cfg.ExpS-20)})
				}
			}
		}
		if g.Bool(0.3) {
			ops = append(ops, blOp{K: "tick", D: g.PickI64(1, 10, 10, 30, 9, 19, cfg.ExpS)})
		}
		ops = append(ops, blOp{K: "balance"})
		if g.Bool(0.75) {
			ops = append(ops, blOp{K: "placeall"})
		}
	}
	// the generation-time pod list contains pods that only appear through addpod ops: keep only the initial ones
	initial := cfg.Pods[:0:0]
	added := map[string]bool{}
	for _, op := range ops {
		if op.K == "addpod" {
			added[op.Pod.NS+"/"+op.Pod.Name] = true
		}
	}
	for _, pc := range cfg.Pods {
		if !added[pc.NS+"/"+pc.Name] {
			initial = append(initial, pc)
		}
	}
	cfg.Pods = initial
	p.SetCfg(cfg)
	p.SetOps(ops)
}

// blGenGateRun rewrites the first pool with thresholds and the nodes n0 (the source) and n1 (an under-used target) and emits the ops.
func blGenGateRun(p *sim.Plan, g *sim.Rng, cfg *blCfg, nNodes int, thorough bool) {
	var pc *blPoolCfg
	for k := range cfg.Pools {
		if len(cfg.Pools[k].Low) > 0 {
			pc = &cfg.Pools[k]
			break
		}
	}
	prod := g.Bool(0.6)
	pc.Dev = false
	pc.Low, pc.High = blThr{blCPU: 30}, blThr{blCPU: blPickF(g, 50, 60, 62.5)}
	pc.PLow, pc.PHigh = nil, nil
	if prod || g.Bool(0.3) {
		pc.PLow, pc.PHigh = blThr{blCPU: 10}, blThr{blCPU: blPickF(g, 25, 30)}
	}
	pc.Anom = &blAnom{N: uint32(g.PickInt(2, 2, 3)), Norm: uint32(g.PickInt(1, 2, 3)), TimeoutS: g.PickInt(120, 300, 300)}
	cfg.NodeFit, cfg.DryRun, cfg.NumNodes = g.Bool(0.15), false, 0
	cfg.ExpS, cfg.CacheS = 300, g.PickInt(300, 600)
	cfg.Incl, cfg.Excl, cfg.SelApps, cfg.EvPrio = nil, nil, nil, 0
	// n0: four reported prod pods of 5% each + 15% system usage (between the thresholds); n1: 10% system usage only
	var pods []blPodCfg
	for _, q := range cfg.Pods {
		if q.Node != "n0" && q.Node != "n1" {
			pods = append(pods, q)
		}
	}
	for i := 0; i < 2; i++ {
		n := &cfg.Nodes[i]
		n.Pool, n.Unsched, n.Taint = "a", false, false
		if pc.Sel != "" {
			n.Pool = pc.Sel
		}
		n.SysCPU, n.SysMem = n.CPU/10/blCPUUnit*blCPUUnit, n.Mem/10/blMemUnit*blMemUnit
	}
	n0 := &cfg.Nodes[0]
	n0.SysCPU = n0.CPU * 15 / 100 / blCPUUnit * blCPUUnit
	for i := 0; i < 4; i++ {
		pods = append(pods, blPodCfg{Name: fmt.Sprintf("g%d", i), NS: "default", Node: "n0", Class: g.Pick("prod", "prod", "none"), ByLabel: g.Bool(0.5),
			App: g.Pick("web", "db", "job"), CPU: n0.CPU * 5 / 100 / blCPUUnit * blCPUUnit, Mem: blMemUnit, ReqCPU: blCPUUnit, Tol: true})
	}
	cfg.Pods = pods
	which := "high"
	if prod {
		which = "phigh"
	}
	ops := []blOp{{K: "reportall"}}
	rounds := g.Range(5, 9)
	if thorough {
		rounds = g.Range(5, 12)
	}
	for rd := 0; rd < rounds; rd++ {
		if rd == 0 || g.Bool(0.55) {
			ops = append(ops, blOp{K: "aim", N: "n0", Which: which, Res: blCPU, Off: g.PickI64(1, 2, blCPUUnit, 2*blCPUUnit, 3*blCPUUnit)})
		}
		if g.Bool(0.1) {
			ops = append(ops, blOp{K: "aim", N: fmt.Sprintf("n%d", g.Intn(nNodes)), Which: g.Pick("high", "low", "phigh"), Res: blCPU, Off: g.PickI64(-1, 1, blCPUUnit)})
		}
		ops = append(ops, blOp{K: "tick", D: g.PickI64(5, 10, 20, 30)}, blOp{K: "reportall"}, blOp{K: "balance"})
		if g.Bool(0.25) {
			ops = append(ops, blOp{K: "placeall"})
		}
	}
	p.SetCfg(*cfg)
	p.SetOps(ops)
}

// blGenExpiryRun: like blGenGateRun, but the clock moves by amounts comparable to AnomalyCondition.Timeout between rounds and the source
// node n0 is NOT relieved by the evictions (its excess is larger than what the evictor lets go per round, or than all its evictable pods);
// new small pods keep arriving on n0 so that every round has something to evict.
func blGenExpiryRun(p *sim.Plan, g *sim.Rng, cfg *blCfg, nNodes int, thorough bool) {
	var pc *blPoolCfg
	for k := range cfg.Pools {
		if len(cfg.Pools[k].Low) > 0 {
			pc = &cfg.Pools[k]
			break
		}
	}
	prod := g.Bool(0.4)
	pc.Dev = false
	pc.Low, pc.High = blThr{blCPU: 30}, blThr{blCPU: blPickF(g, 50, 60, 62.5)}
	pc.PLow, pc.PHigh = nil, nil
	if prod || g.Bool(0.2) {
		pc.PLow, pc.PHigh = blThr{blCPU: 10}, blThr{blCPU: blPickF(g, 25, 30)}
	}
	timeout := g.PickInt(30, 60, 60, 120, 300)
	pc.Anom = &blAnom{N: uint32(g.PickInt(2, 2, 2, 3)), Norm: uint32(g.PickInt(1, 2, 3)), TimeoutS: timeout}
	cfg.NodeFit, cfg.DryRun, cfg.NumNodes = g.Bool(0.1), false, 0
	cfg.ExpS, cfg.CacheS = 300, g.PickInt(300, 600, 600)
	cfg.Incl, cfg.Excl, cfg.SelApps, cfg.EvPrio = nil, nil, nil, 0
	cfg.LimitBy, cfg.LimitK = "", 0
	if g.Bool(0.6) {
		cfg.LimitBy, cfg.LimitK = "node", g.PickInt(1, 1, 2)
	}
	var pods []blPodCfg
	for _, q := range cfg.Pods {
		if q.Node != "n0" && q.Node != "n1" {
			pods = append(pods, q)
		}
	}
	for i := 0; i < 2; i++ {
		n := &cfg.Nodes[i]
		n.Pool, n.Unsched, n.Taint = "a", false, false
		if pc.Sel != "" {
			n.Pool = pc.Sel
		}
		n.SysCPU, n.SysMem = n.CPU/10/blCPUUnit*blCPUUnit, n.Mem/10/blMemUnit*blMemUnit
	}
	n0 := &cfg.Nodes[0]
	small := n0.CPU * 2 / 100 / blCPUUnit * blCPUUnit // 2% of the node (>= 1 unit for every generated capacity)
	if small < blCPUUnit {
		small = blCPUUnit
	}
	class := "batch"
	if prod {
		class = "prod"
		// a big prod pod the evictor never lets go carries the prod excess; node usage stays between the node thresholds
		pods = append(pods, blPodCfg{Name: "gbig", NS: "default", Node: "n0", Class: "prod", ByLabel: true, DS: true, App: "db",
			CPU: n0.CPU * 30 / 100 / blCPUUnit * blCPUUnit, Mem: blMemUnit, ReqCPU: blCPUUnit, Tol: true})
		n0.SysCPU = n0.CPU * 5 / 100 / blCPUUnit * blCPUUnit
	}
	nsmall := 0
	smallPod := func() blPodCfg {
		nsmall++
		return blPodCfg{Name: fmt.Sprintf("e%d", nsmall), NS: "default", Node: "n0", Class: class, ByLabel: g.Bool(0.5),
			App: g.Pick("web", "db", "job"), CPU: small, Mem: blMemUnit, ReqCPU: blCPUUnit, Tol: true}
	}
	for i := g.Range(2, 4); i > 0; i-- {
		pods = append(pods, smallPod())
	}
	cfg.Pods = pods
	which, pin := "high", ""
	if prod {
		which, pin = "phigh", "default/gbig"
	}
	// excess over the threshold while "above": 6..12% of the node, a multiple of the unit (never on a threshold boundary)
	excess := func() int64 { return n0.CPU * g.PickI64(6, 8, 10, 12) / 100 / blCPUUnit * blCPUUnit }
	frac := blPickF(g, 0.2, 0.3, 0.4, 0.5, 0.6, 0.7)
	ops := []blOp{{K: "reportall"}}
	rounds := g.Range(7, 11)
	if thorough {
		rounds = g.Range(7, 16)
	}
	for rd := 0; rd < rounds; rd++ {
		if rd < 3 || !g.Bool(0.18) {
			ops = append(ops, blOp{K: "aim", N: "n0", Which: which, Res: blCPU, P: pin, Off: excess()})
		} else {
			ops = append(ops, blOp{K: "aim", N: "n0", Which: which, Res: blCPU, P: pin, Off: -g.PickI64(1, 2, 4) * blCPUUnit}) // between the thresholds
		}
		if g.Bool(0.08) {
			ops = append(ops, blOp{K: "aim", N: fmt.Sprintf("n%d", g.Intn(nNodes)), Which: g.Pick("high", "low", "phigh"), Res: blCPU, Off: g.PickI64(-1, 1, blCPUUnit)})
		}
		f := frac
		switch g.Intn(8) {
		case 0:
			f = frac / 2
		case 1:
			f = blPickF(g, 0.2, 0.5, 0.9, 1.1)
		}
		d := int64(f * float64(timeout))
		if g.Bool(0.7) {
			d += g.PickI64(-1, 1, 1, 2, 3) // keep most instants off the exact expiry
		}
		if d < 1 {
			d = 1
		}
		ops = append(ops, blOp{K: "tick", D: d}, blOp{K: "reportall"}, blOp{K: "balance"})
		if g.Bool(0.2) {
			ops = append(ops, blOp{K: "placeall"})
		}
		if g.Bool(0.75) {
			pd := smallPod()
			ops = append(ops, blOp{K: "addpod", Pod: &pd})
		}
		if g.Bool(0.03) {
			ops = append(ops, blOp{K: "restart"})
		}
	}
	p.SetCfg(*cfg)
	p.SetOps(ops)
}

// ---------------------------------------------------------------- execution state

type blNode struct {
	blNodeCfg
	present bool
	obj     *corev1.Node
}

type blPod struct {
	blPodCfg
	obj *corev1.Pod
}

func (p *blPod) key() string { return p.NS + "/" + p.Name }

// isProd: koordinator's priority class of the pod. A pod that declares none (no label, no priority value) is Prod unless
// it is a Kubernetes best-effort pod (documented default: plain LS pods are Prod, BE pods are Batch).
func (p *blPod) isProd() bool {
	return p.Class == "prod" || (p.Class == "none" && (p.ReqCPU > 0 || p.ReqMem > 0))
}
func (p *blPod) prio() *int32 {
	var v int32
	switch p.Class {
	case "prod":
		v = 9500
	case "mid":
		v = 7500
	case "batch":
		v = 5500
	default:
		return nil
	}
	return &v
}

type blPM struct {
	key      string
	cpu, mem int64
}

// blMetric is what the koordlet stub last wrote for one node (the harness's own integer copy of the NodeMetric).
type blMetric struct {
	exists, nilInfo, noTime bool
	update                  time.Time
	sys                     map[string]int64
	pods                    []blPM
}

type blEvict struct {
	key, node string
	ok        bool
	passNow   bool // the evictor's (stateful) filter accepted the pod at the moment of the Evict call
}

type blSim struct {
	r   *sim.Run
	cfg blCfg
	pl  *LowNodeLoad
	idx cache.Indexer

	nodes     map[string]*blNode
	nodeNames []string
	pods      map[string]*blPod
	metrics   map[string]*blMetric
	evicts    []blEvict
	inBalance bool
	round     int

	// per variant (0 node usage, 1 prod usage): consecutive rounds above the high threshold, per node
	streak               [2]map[string]int
	lastHi               [2]map[string]time.Time // last round in which the node was above (for the history class of the recorded finding)
	afterInt             [2]map[string]bool      // the current streak started after an interruption while the detector entry was still cached
	lastPool             [2]map[string]*blPoolCfg
	otherPool            [2]map[string]bool // the cached detector entry was created while the node belonged to a pool with another anomaly condition
	gapBelow, afterBelow [2]map[string]bool // the interruption included a round in which the node was measured and not above
	// stale: the node's detector may still hold abnormal marks / the anomaly state of earlier rounds: set by every round in which the node
	// is above, cleared when the entry expires, the plugin restarts, or the plugin's OWN eviction brought the node's estimate back under
	// the high threshold and the stop condition was evaluated again (which resets the detector: continueEvictionCond -> resetNodesAsNormal)
	stale, recovered [2]map[string]bool
	recoveredNow     [2]map[string]bool // ... in the round being judged
	maybeRecovered   [2]map[string]bool // an eviction of the round being judged left the node's estimate possibly under the threshold

	// gate: the oracle's reading of the anomaly condition (N consecutive rounds reach a verdict that is valid for Timeout), per variant and node
	gate        [2]map[string]*blGate
	readingDead [2]bool // reading i (verdict after N+i consecutive rounds) is contradicted by an eviction of this run
	// det: what a gate that is NOT cleared by a round without measurement-above can still hold (history class of the recorded finding)
	det        [2]map[string]*blDet
	carriedNow [2]map[string]bool

	// the evictor's state (per round) and what it answered
	evCount   map[string]int  // successful evictions per limiting key
	classPass map[string]bool // pod -> answer of the first Filter call of the round (= pod classification)
	chkCount  map[string]int  // evCount replayed while the recorded evictions are judged in order
}

// ---- the two seams of LowNodeLoad: handle (pods per node, evictor) and the NodeMetric lister

type blHandle struct {
	framework.Handle
	s *blSim
}

func (h *blHandle) Evictor() framework.Evictor { return &blEvictor{h.s} }
func (h *blHandle) GetPodsAssignedToNodeFunc() framework.GetPodsAssignedToNodeFunc {
	return h.s.podsOnNode
}

type blEvictor struct{ s *blSim }

// the evictor's own filter (stands for the default evictor): no daemonset pods, nothing at or above the priority threshold
func blEvictorAllows(cfg *blCfg, p *blPod) bool {
	if p.DS {
		return false
	}
	if cfg.EvPrio > 0 {
		if v := p.prio(); v != nil && *v >= cfg.EvPrio {
			return false
		}
	}
	return true
}

// blLimitKey: the key of the stateful part of the evictor's filter ("" = no limit configured)
func blLimitKey(cfg *blCfg, p *blPod) string {
	switch cfg.LimitBy {
	case "app":
		return "app:" + p.App
	case "ns":
		return "ns:" + p.NS
	case "node":
		return "node:" + p.Node
	}
	return ""
}

func (s *blSim) evictorPasses(p *blPod, counts map[string]int) bool {
	if !blEvictorAllows(&s.cfg, p) {
		return false
	}
	if k := blLimitKey(&s.cfg, p); k != "" && counts[k] >= s.cfg.LimitK {
		return false
	}
	return true
}

func (e *blEvictor) Filter(pod *corev1.Pod) bool {
	key := pod.Namespace + "/" + pod.Name
	p := e.s.pods[key]
	if p == nil {
		return false
	}
	ok := e.s.evictorPasses(p, e.s.evCount)
	if _, had := e.s.classPass[key]; !had && e.s.inBalance {
		e.s.classPass[key] = ok
	}
	return ok
}
func (e *blEvictor) PreEvictionFilter(pod *corev1.Pod) bool { return e.Filter(pod) }
func (e *blEvictor) Evict(ctx context.Context, pod *corev1.Pod, opts framework.EvictOptions) bool {
	s := e.s
	if !s.inBalance {
		s.r.HarnessFail("Evict called outside a Balance round")
	}
	ok := true
	if f := s.r.Fault("evict", "evict-refused"); f != "" {
		ok = false // eviction limiter / PDB / API error: this pod is not evicted
		s.r.Probe("evict-refused")
	}
	ev := blEvict{key: pod.Namespace + "/" + pod.Name, node: pod.Spec.NodeName, ok: ok}
	if p := s.pods[ev.key]; p != nil {
		ev.passNow = s.evictorPasses(p, s.evCount)
		if ok {
			if k := blLimitKey(&s.cfg, p); k != "" {
				s.evCount[k]++
			}
		}
	}
	s.evicts = append(s.evicts, ev)
	s.r.Event("evict %s/%s from %s ok=%v", pod.Namespace, pod.Name, pod.Spec.NodeName, ok)
	return ok
}

func (s *blSim) podsOnNode(nodeName string, filter framework.FilterFunc) ([]*corev1.Pod, error) {
	var keys []string
	for k, p := range s.pods {
		if p.Node == nodeName {
			keys = append(keys, k)
		}
	}
	sort.Strings(keys)
	out := make([]*corev1.Pod, 0, len(keys))
	for _, k := range keys {
		if o := s.pods[k].obj; filter == nil || filter(o) {
			out = append(out, o)
		}
	}
	return out, nil
}

// ---- object builders

func blQ(r string, v int64) resource.Quantity {
	if r == blCPU {
		return *resource.NewMilliQuantity(v, resource.DecimalSI)
	}
	return *resource.NewQuantity(v, resource.BinarySI)
}

func blRL(cpu, mem int64) corev1.ResourceList {
	return corev1.ResourceList{corev1.ResourceCPU: blQ(blCPU, cpu), corev1.ResourceMemory: blQ(blMem, mem)}
}

func (n *blNode) build() {
	o := &corev1.Node{ObjectMeta: metav1.ObjectMeta{Name: n.Name, Labels: map[string]string{"pool": n.Pool}}}
	if n.SSD {
		o.Labels["disk"] = "ssd"
	}
	o.Spec.Unschedulable = n.Unsched
	if n.Taint {
		o.Spec.Taints = []corev1.Taint{{Key: "dedicated", Value: "x", Effect: corev1.TaintEffectNoSchedule}}
	}
	o.Status.Allocatable = blRL(n.allocCPU(), n.Mem)
	o.Status.Allocatable[corev1.ResourcePods] = *resource.NewQuantity(110, resource.DecimalSI)
	if n.Amp {
		extension.SetNodeRawAllocatable(o, blRL(n.CPU, n.Mem))
	}
	n.obj = o
}

func (n *blNode) allocCPU() int64 {
	if n.Amp {
		return 2 * n.CPU
	}
	return n.CPU
}

func (n *blNode) capOf(r string) int64 {
	if r == blCPU {
		return n.CPU
	}
	return n.Mem
}

func (p *blPod) build() {
	o := &corev1.Pod{ObjectMeta: metav1.ObjectMeta{Name: p.Name, Namespace: p.NS, Labels: map[string]string{"app": p.App}}}
	if p.ByLabel && p.Class != "none" {
		o.Labels[extension.LabelPodPriorityClass] = "koord-" + p.Class
	}
	if p.DS {
		t := true
		o.OwnerReferences = []metav1.OwnerReference{{Kind: "DaemonSet", Name: "ds", APIVersion: "apps/v1", Controller: &t}}
	}
	o.Spec.NodeName = p.Node
	o.Spec.Priority = p.prio()
	if p.SSD {
		o.Spec.NodeSelector = map[string]string{"disk": "ssd"}
	}
	if p.Tol {
		o.Spec.Tolerations = []corev1.Toleration{{Key: "dedicated", Operator: corev1.TolerationOpExists}}
	}
	req := corev1.ResourceList{}
	if p.ReqCPU > 0 {
		req[corev1.ResourceCPU] = blQ(blCPU, p.ReqCPU)
	}
	if p.ReqMem > 0 {
		req[corev1.ResourceMemory] = blQ(blMem, p.ReqMem)
	}
	o.Spec.Containers = []corev1.Container{{Name: "c", Resources: corev1.ResourceRequirements{Requests: req}}}
	o.Status.Phase = corev1.PodRunning
	p.obj = o
}

func (s *blSim) newPlugin() {
	cfg := &s.cfg
	exp := cfg.ExpS
	args := &deschedulerconfig.LowNodeLoadArgs{
		DryRun: cfg.DryRun, NumberOfNodes: cfg.NumNodes, NodeMetricExpirationSeconds: &exp, NodeFit: cfg.NodeFit,
		DetectorCacheTimeout: &metav1.Duration{Duration: time.Duration(cfg.CacheS) * time.Second},
	}
	if len(cfg.Incl) > 0 || len(cfg.Excl) > 0 {
		args.EvictableNamespaces = &deschedulerconfig.Namespaces{Include: cfg.Incl, Exclude: cfg.Excl}
	}
	if len(cfg.SelApps) > 0 {
		args.PodSelectors = []deschedulerconfig.LowNodeLoadPodSelector{{Name: "apps", Selector: &metav1.LabelSelector{
			MatchExpressions: []metav1.LabelSelectorRequirement{{Key: "app", Operator: metav1.LabelSelectorOpIn, Values: cfg.SelApps}}}}}
	}
	toRT := func(t blThr) deschedulerconfig.ResourceThresholds {
		if t == nil {
			return nil
		}
		out := deschedulerconfig.ResourceThresholds{}
		for k, v := range t {
			out[corev1.ResourceName(k)] = deschedulerconfig.Percentage(v)
		}
		return out
	}
	for _, pc := range cfg.Pools {
		np := deschedulerconfig.LowNodeLoadNodePool{Name: pc.Name, UseDeviationThresholds: pc.Dev,
			LowThresholds: toRT(pc.Low), HighThresholds: toRT(pc.High), ProdLowThresholds: toRT(pc.PLow), ProdHighThresholds: toRT(pc.PHigh),
			ResourceWeights: map[corev1.ResourceName]int64{corev1.ResourceCPU: pc.WCPU, corev1.ResourceMemory: pc.WMem}}
		if pc.Sel != "" {
			np.NodeSelector = &metav1.LabelSelector{MatchLabels: map[string]string{"pool": pc.Sel}}
		}
		if pc.Anom != nil {
			np.AnomalyCondition = &deschedulerconfig.LoadAnomalyCondition{Timeout: metav1.Duration{Duration: time.Duration(pc.Anom.TimeoutS) * time.Second},
				ConsecutiveAbnormalities: pc.Anom.N, ConsecutiveNormalities: pc.Anom.Norm}
		}
		args.NodePools = append(args.NodePools, np)
	}
	// generator constraint: only configurations the plugin's own validation admits
	if err := validation.ValidateLowLoadUtilizationArgs(nil, args); err != nil {
		s.r.HarnessFail("generated args rejected by validation: %v", err)
	}
	h := &blHandle{s: s}
	// same construction as NewLowNodeLoad (which additionally needs a koordinator clientset and starts an informer)
	podSelectorFn, err := filterPods(args.PodSelectors)
	if err != nil {
		s.r.HarnessFail("filterPods: %v", err)
	}
	var excl, incl sets.String
	if args.EvictableNamespaces != nil {
		excl = sets.NewString(args.EvictableNamespaces.Exclude...)
		incl = sets.NewString(args.EvictableNamespaces.Include...)
	}
	podFilter, err := podutil.NewOptions().
		WithFilter(podutil.WrapFilterFuncs(h.Evictor().Filter, podSelectorFn)).
		WithoutNamespaces(excl).WithNamespaces(incl).BuildFilterFunc()
	if err != nil {
		s.r.HarnessFail("BuildFilterFunc: %v", err)
	}
	ttl := time.Duration(cfg.CacheS) * time.Second
	s.pl = &LowNodeLoad{handle: h, podFilter: podFilter, nodeMetricLister: koordslolisters.NewNodeMetricLister(s.idx), args: args,
		// cleanup interval 0: no janitor goroutine (it would outlive the synctest bubble); Get() checks expiry itself
		nodeAnomalyDetectors: gocache.New(ttl, 0), prodAnomalyDetectors: gocache.New(ttl, 0)}
}

// ---------------------------------------------------------------- simulated cluster operations

func (s *blSim) actual(node string) (cpu, mem int64) {
	n := s.nodes[node]
	cpu, mem = n.SysCPU, n.SysMem
	for _, p := range s.pods {
		if p.Node == node {
			cpu += p.CPU
			mem += p.Mem
		}
	}
	return
}

func (s *blSim) sortedPodKeys() []string {
	keys := make([]string, 0, len(s.pods))
	for k := range s.pods {
		keys = append(keys, k)
	}
	sort.Strings(keys)
	return keys
}

// report: the koordlet of node n writes its NodeMetric: a consistent snapshot of what runs there now, stamped now-delay.
func (s *blSim) report(name string, delay int64) bool {
	n := s.nodes[name]
	if n == nil {
		return false
	}
	m := &blMetric{exists: true, update: time.Now().Add(-time.Duration(delay) * time.Second), sys: map[string]int64{blCPU: n.SysCPU, blMem: n.SysMem}}
	for _, k := range s.sortedPodKeys() {
		p := s.pods[k]
		if p.Node != name {
			continue
		}
		if p.NoMetric {
			// not yet reported per pod: its usage shows up in the node's remainder (system usage = node - sum(pods))
			m.sys[blCPU] += p.CPU
			m.sys[blMem] += p.Mem
			continue
		}
		m.pods = append(m.pods, blPM{key: k, cpu: p.CPU, mem: p.Mem})
	}
	s.metrics[name] = m
	s.writeMetric(name)
	return true
}

func (s *blSim) writeMetric(name string) {
	m := s.metrics[name]
	old, had, _ := s.idx.GetByKey(name)
	if m == nil || !m.exists {
		if had {
			_ = s.idx.Delete(old)
		}
		return
	}
	nm := &slov1alpha1.NodeMetric{ObjectMeta: metav1.ObjectMeta{Name: name}}
	if !m.noTime {
		nm.Status.UpdateTime = &metav1.Time{Time: m.update}
	}
	if !m.nilInfo {
		tc, tm := m.sys[blCPU], m.sys[blMem]
		for _, pm := range m.pods {
			tc += pm.cpu
			tm += pm.mem
			ns, nme, _ := strings.Cut(pm.key, "/")
			info := &slov1alpha1.PodMetricInfo{Namespace: ns, Name: nme, PodUsage: slov1alpha1.ResourceMap{ResourceList: blRL(pm.cpu, pm.mem)}}
			if p := s.pods[pm.key]; p != nil && p.Class != "none" {
				info.Priority = extension.PriorityClass("koord-" + p.Class)
			}
			nm.Status.PodsMetric = append(nm.Status.PodsMetric, info)
		}
		nm.Status.NodeMetric = &slov1alpha1.NodeMetricInfo{
			NodeUsage:   slov1alpha1.ResourceMap{ResourceList: blRL(tc, tm)},
			SystemUsage: slov1alpha1.ResourceMap{ResourceList: blRL(m.sys[blCPU], m.sys[blMem])},
		}
	}
	if had {
		_ = s.idx.Update(nm)
	} else {
		_ = s.idx.Add(nm)
	}
}

// evalPool returns the first pool with thresholds that selects the node (the pool whose thresholds judge it).
func (s *blSim) evalPool(n *blNode) *blPoolCfg {
	for k := range s.cfg.Pools {
		pc := &s.cfg.Pools[k]
		if len(pc.Low) == 0 && len(pc.PLow) == 0 {
			continue
		}
		if pc.Sel == "" || pc.Sel == n.Pool {
			return pc
		}
	}
	return nil
}

// aim moves the real load of a node next to one of its (absolute) thresholds; visible at the next report.
func (s *blSim) aim(op *blOp) bool {
	n := s.nodes[op.N]
	if n == nil {
		return false
	}
	pc := s.evalPool(n)
	if pc == nil || pc.Dev {
		return false
	}
	r := op.Res
	capR := n.capOf(r)
	get := func(p *blPod) int64 {
		if r == blCPU {
			return p.CPU
		}
		return p.Mem
	}
	set := func(p *blPod, v int64) {
		if r == blCPU {
			p.CPU = v
		} else {
			p.Mem = v
		}
	}
	var pct float64
	var ok bool
	switch op.Which {
	case "high", "room":
		pct, ok = pc.High[r]
	case "low":
		pct, ok = pc.Low[r]
	case "phigh":
		pct, ok = pc.PHigh[r]
	case "plow":
		pct, ok = pc.PLow[r]
	}
	if !ok {
		return false
	}
	target := int64(math.Floor(pct*float64(capR)/100)) + op.Off
	if op.Which == "room" {
		// leave exactly the usage of one or two pods of some other node as head-room below the high threshold
		var donors []int64
		for _, k := range s.sortedPodKeys() {
			if p := s.pods[k]; p.Node != "" && p.Node != op.N && !p.NoMetric && get(p) > 0 {
				donors = append(donors, get(p))
			}
		}
		if len(donors) == 0 {
			return false
		}
		room := donors[s.r.Choose(len(donors))]
		if s.r.Flip(0.3) {
			room += donors[s.r.Choose(len(donors))]
		}
		target = int64(math.Floor(pct*float64(capR)/100)) - room
	}
	if target < 0 || target > capR {
		return false
	}
	switch op.Which {
	case "high", "low", "room":
		var podsum int64
		for _, p := range s.pods {
			if p.Node == op.N {
				podsum += get(p)
			}
		}
		if target < podsum {
			return false
		}
		if r == blCPU {
			n.SysCPU = target - podsum
		} else {
			n.SysMem = target - podsum
		}
	default:
		// prod usage: adjust one reported prod pod
		var cands []string
		var others int64
		for _, k := range s.sortedPodKeys() {
			if p := s.pods[k]; p.Node == op.N && p.isProd() && !p.NoMetric {
				cands = append(cands, k)
				others += get(p)
			}
		}
		if len(cands) == 0 {
			return false
		}
		var p *blPod
		if op.P != "" {
			// pinned: the pod whose load changes is named by the op
			if !blHas(cands, op.P) {
				return false
			}
			p = s.pods[op.P]
		} else {
			p = s.pods[cands[s.r.Choose(len(cands))]]
		}
		others -= get(p)
		v := target - others
		if v < 0 {
			return false
		}
		oldv := get(p)
		set(p, v)
		if c, m := s.actual(op.N); c > n.CPU || m > n.Mem {
			set(p, oldv)
			return false
		}
	}
	return true
}

func (s *blSim) placeAll() int {
	placed := 0
	for _, k := range s.sortedPodKeys() {
		p := s.pods[k]
		if p.Node != "" {
			continue
		}
		var cands []string
		for _, name := range s.nodeNames {
			n := s.nodes[name]
			if !n.present || n.Unsched {
				continue
			}
			c, m := s.actual(name)
			if c+p.CPU <= n.CPU && m+p.Mem <= n.Mem {
				cands = append(cands, name)
			}
		}
		if len(cands) == 0 {
			continue
		}
		p.Node = cands[s.r.Choose(len(cands))]
		p.NoMetric = s.r.Flip(0.1)
		p.build()
		placed++
		s.r.Event("place %s on %s", k, p.Node)
	}
	return placed
}

// ---------------------------------------------------------------- the oracle's table of one pool in one round

const (
	blNo = iota
	blYes
	blMaybe
)

type blBound struct{ lo, hi int64 } // the implementation's integer threshold lies in [lo, hi]

type blRow struct {
	name       string
	valid      bool
	why        string
	use        [2]map[string]int64 // variant -> resource -> measured usage
	lowB, higB [2]map[string]blBound
	hi, lo     [2]int // tri-state per variant
}

type blTable struct {
	pool     *blPoolCfg
	res      [2][]string // configured resources per variant
	names    []string
	rows     map[string]*blRow
	exact    bool
	boundary bool
	// running state of the round
	est    [2]map[string]map[string]int64 // variant -> node -> resource -> usage minus evicted
	room   [2]map[string]int64            // variant -> resource -> upper bound of the remaining head-room of the under-used nodes
	broken bool
}

func blKeys(m blThr) []string {
	out := make([]string, 0, len(m))
	for k := range m {
		out = append(out, k)
	}
	sort.Strings(out)
	return out
}

func blBoundOf(pct float64, capR int64) blBound {
	// clamped percentages: 0 and 100 give exactly 0 and the capacity (0*x and 100*0.01*x are exact in floating point)
	switch {
	case pct < -1e-9:
		return blBound{0, 0}
	case pct > 100+1e-9:
		return blBound{capR, capR}
	case pct == 0:
		return blBound{0, 0}
	case pct == 100:
		return blBound{capR, capR}
	}
	if pct > 100 {
		pct = 100
	}
	if pct < 0 {
		pct = 0
	}
	b := pct * float64(capR) / 100
	d := 0.01 + 1e-12*float64(capR)
	return blBound{lo: int64(math.Floor(b - d)), hi: int64(math.Floor(b + d))}
}

func (s *blSim) buildTable(pc *blPoolCfg, now time.Time) *blTable {
	t := &blTable{pool: pc, rows: map[string]*blRow{}}
	t.res[0], t.res[1] = blKeys(pc.Low), blKeys(pc.PLow)
	exp := time.Duration(s.cfg.ExpS) * time.Second
	nValid := 0
	for _, name := range s.nodeNames {
		n := s.nodes[name]
		if !n.present || (pc.Sel != "" && n.Pool != pc.Sel) {
			continue
		}
		row := &blRow{name: name}
		t.names = append(t.names, name)
		t.rows[name] = row
		m := s.metrics[name]
		switch {
		case m == nil || !m.exists:
			row.why = "no-nodemetric-object"
		case m.nilInfo:
			row.why = "nodemetric-without-status"
		case m.noTime:
			row.why = "nodemetric-without-update-time"
		case now.Sub(m.update) > exp:
			row.why = "expired"
		case now.Sub(m.update) == exp:
			row.why = "expiry-boundary"
			t.boundary = true
		default:
			row.valid = true
		}
		if !row.valid {
			continue
		}
		nValid++
		row.use[0] = map[string]int64{blCPU: m.sys[blCPU], blMem: m.sys[blMem]}
		row.use[1] = map[string]int64{blCPU: 0, blMem: 0}
		for _, pm := range m.pods {
			row.use[0][blCPU] += pm.cpu
			row.use[0][blMem] += pm.mem
			// prod usage: the reported usage of the prod pods that are on the node now
			if p := s.pods[pm.key]; p != nil && p.Node == name && p.isProd() {
				row.use[1][blCPU] += pm.cpu
				row.use[1][blMem] += pm.mem
			}
		}
	}
	// mean usage percentages (deviation thresholds)
	var avg [2]map[string]float64
	if pc.Dev && nValid > 0 {
		for v := 0; v < 2; v++ {
			avg[v] = map[string]float64{}
			for _, r := range t.res[v] {
				sum := 0.0
				for _, name := range t.names {
					if row := t.rows[name]; row.valid {
						sum += float64(row.use[v][r]) / float64(s.nodes[name].capOf(r)) * 100
					}
				}
				avg[v][r] = sum / float64(nValid)
			}
		}
	}
	t.exact = !t.boundary
	for v := 0; v < 2; v++ {
		t.est[v] = map[string]map[string]int64{}
		t.room[v] = map[string]int64{}
	}
	for _, name := range t.names {
		row := t.rows[name]
		if !row.valid {
			continue
		}
		n := s.nodes[name]
		for v := 0; v < 2; v++ {
			lowT, highT := pc.Low, pc.High
			if v == 1 {
				lowT, highT = pc.PLow, pc.PHigh
			}
			row.lowB[v], row.higB[v] = map[string]blBound{}, map[string]blBound{}
			anyAbove, allBelowHigh, allUnderLow, anyOverLow := false, true, true, false
			for _, r := range t.res[v] {
				pl, ph := lowT[r], highT[r]
				if pc.Dev {
					pl, ph = avg[v][r]-lowT[r], avg[v][r]+highT[r]
				}
				lb, hb := blBoundOf(pl, n.capOf(r)), blBoundOf(ph, n.capOf(r))
				row.lowB[v][r], row.higB[v][r] = lb, hb
				u := row.use[v][r]
				if u > hb.hi {
					anyAbove = true
				}
				if u > hb.lo {
					allBelowHigh = false
				}
				if u > lb.lo {
					allUnderLow = false
				}
				if u > lb.hi {
					anyOverLow = true
				}
			}
			switch {
			case anyAbove:
				row.hi[v] = blYes
			case allBelowHigh:
				row.hi[v] = blNo
			default:
				row.hi[v] = blMaybe
			}
			switch {
			case allUnderLow:
				row.lo[v] = blYes
			case anyOverLow:
				row.lo[v] = blNo
			default:
				row.lo[v] = blMaybe
			}
			if row.hi[v] == blMaybe || row.lo[v] == blMaybe {
				t.exact = false
				s.r.Probe("verdict-on-threshold-boundary:" + []string{"node", "prod"}[v])
			}
			t.est[v][name] = map[string]int64{blCPU: row.use[v][blCPU], blMem: row.use[v][blMem]}
		}
	}
	for _, name := range t.names {
		row := t.rows[name]
		if !row.valid {
			continue
		}
		for v := 0; v < 2; v++ {
			if row.lo[v] == blNo {
				continue
			}
			for _, r := range t.res[v] {
				if d := row.higB[v][r].hi - row.use[v][r]; d > 0 {
					t.room[v][r] += d
				}
			}
		}
	}
	return t
}

func (t *blTable) describe() string {
	var sb strings.Builder
	fmt.Fprintf(&sb, "pool %s exact=%v:", t.pool.Name, t.exact)
	tri := []string{"-", "Y", "?"}
	for _, name := range t.names {
		row := t.rows[name]
		if !row.valid {
			fmt.Fprintf(&sb, " %s(%s)", name, row.why)
			continue
		}
		fmt.Fprintf(&sb, " %s(hi=%s lo=%s phi=%s plo=%s cpu=%d mem=%dMi pcpu=%d)", name, tri[row.hi[0]], tri[row.lo[0]], tri[row.hi[1]], tri[row.lo[1]],
			row.use[0][blCPU], row.use[0][blMem]>>20, row.use[1][blCPU])
	}
	return sb.String()
}

// modelFit: the scheduler-level predicates of "node fit" on the harness's model (selector, taint, requests, cordon).
func (s *blSim) modelFit(p *blPod, m *blNode) bool {
	if m.Unsched || (p.SSD && !m.SSD) || (m.Taint && !p.Tol) {
		return false
	}
	var rc, rm int64
	for _, q := range s.pods {
		if q.Node == m.Name {
			rc += q.ReqCPU
			rm += q.ReqMem
		}
	}
	if p.ReqCPU > 0 && p.ReqCPU > m.allocCPU()-rc {
		return false
	}
	if p.ReqMem > 0 && p.ReqMem > m.Mem-rm {
		return false
	}
	return true
}

// ---------------------------------------------------------------- one Balance round

func (s *blSim) balance() {
	r := s.r
	s.round++
	now := time.Now()
	var nodes []*corev1.Node
	for _, name := range s.nodeNames {
		if n := s.nodes[name]; n.present {
			nodes = append(nodes, n.obj)
		}
	}
	if len(nodes) > 1 && r.Flip(0.3) { // the node lister's order is arbitrary
		k := r.Choose(len(nodes))
		nodes = append(nodes[k:], nodes[:k]...)
	}
	// the oracle's tables, from the model of this round's inputs
	var tables []*blTable
	judge := map[string]*blTable{} // node -> the table of the pool that judges it
	for k := range s.cfg.Pools {
		pc := &s.cfg.Pools[k]
		if len(pc.Low) == 0 && len(pc.PLow) == 0 {
			continue // no thresholds: nothing can be above them
		}
		t := s.buildTable(pc, now)
		tables = append(tables, t)
		for _, name := range t.names {
			if judge[name] == nil {
				judge[name] = t
			}
		}
		r.Event("round %d %s", s.round, t.describe())
		r.Sample("round %d t=%ds %s", s.round, int(now.Sub(s.start()).Seconds()), t.describe())
	}
	s.updateStreaks(judge, now)

	s.evicts = nil
	s.evCount, s.classPass, s.chkCount = map[string]int{}, map[string]bool{}, map[string]int{}
	for v := 0; v < 2; v++ {
		s.recoveredNow[v], s.maybeRecovered[v] = map[string]bool{}, map[string]bool{}
	}
	s.inBalance = true
	st := s.pl.Balance(r.T.Context(), nodes)
	s.inBalance = false
	if st != nil && st.Err != nil {
		r.Event("balance error %v", st.Err)
	}
	r.Probe(fmt.Sprintf("evictions-in-round:%d", blMin(len(s.evicts), 4)))

	// ---- verdicts
	r.OracleEval()
	seen := map[string]bool{}
	for i := range s.evicts {
		s.checkEvict(&s.evicts[i], judge, seen)
	}
	// what the round leaves behind in the detectors (history classes of the recorded findings)
	for _, name := range s.nodeNames {
		for v := 0; v < 2; v++ {
			if g := s.gate[v][name]; g != nil && blDebug {
				r.Event("DBG gate %s v=%d m=%+v exact=%v recNow=%v maybe=%v", name, v, g.m, g.exact, s.recoveredNow[v][name], s.maybeRecovered[v][name])
			}
			switch {
			case s.recoveredNow[v][name]:
				s.stale[v][name], s.afterInt[v][name], s.afterBelow[v][name], s.recovered[v][name] = false, false, false, true
				r.Probe("detector-reset-by-own-eviction")
				// relieved by the plugin's own eviction: the required rounds are counted again from zero, nothing is carried
				if g := s.gate[v][name]; g != nil {
					g.m = [2]blGateSt{}
				}
				if d := s.det[v][name]; d != nil {
					d.sts, d.hadInt, d.unknown = map[blGateSt]bool{{}: true}, false, false
				}
			case s.maybeRecovered[v][name]:
				if g := s.gate[v][name]; g != nil {
					g.exact = false
				}
				if d := s.det[v][name]; d != nil {
					d.addCleared(false)
				}
				if s.streak[v][name] > 0 {
					s.stale[v][name] = true
				}
			case s.streak[v][name] > 0:
				s.stale[v][name] = true
			}
		}
	}
	// reach counters on what the round looked like
	anyHigh, anyLow := false, false
	for _, t := range tables {
		for _, name := range t.names {
			if row := t.rows[name]; row.valid {
				anyHigh = anyHigh || row.hi[0] == blYes || row.hi[1] == blYes
				anyLow = anyLow || row.lo[0] == blYes
			} else {
				r.Probe("node-unmeasured:" + row.why)
			}
		}
		if !t.exact {
			r.Probe("inexact-round")
		}
	}
	switch {
	case !anyHigh:
		r.Probe("round-without-high-node")
	case !anyLow:
		r.Probe("round-high-but-no-low-node")
	case len(s.evicts) == 0:
		r.Probe("round-high-and-low-but-no-eviction")
	default:
		r.Probe("round-with-evictions")
	}
	// ---- the evictions take effect
	for _, e := range s.evicts {
		if !e.ok {
			continue
		}
		p := s.pods[e.key]
		if p == nil || p.Node == "" {
			continue
		}
		if r.Flip(0.1) {
			delete(s.pods, e.key) // a bare pod: gone for good
			continue
		}
		p.Node = ""
		p.build()
	}
}

func blMin(a, b int) int {
	if a < b {
		return a
	}
	return b
}

func (s *blSim) start() time.Time { return blEpoch }

var blEpoch time.Time

var blDebug = os.Getenv("VERIF_BALANCE_DEBUG") != ""

// ---------------------------------------------------------------- the anomaly condition, as documented
//
// LoadAnomalyCondition (pkg/descheduler/apis/config): "ConsecutiveAbnormalities indicates the number of consecutive abnormalities",
// "Timeout indicates the expiration time of the abnormal state"; LowNodeLoadArgs: "DetectorCacheTimeout indicates the cache expiration
// time of nodeAnomalyDetectors". Read together with the statement of C18 ("has been so for the required consecutive rounds"):
// a node enters the abnormal state in the round in which it has been measured above its high threshold for the required number of
// consecutive rounds; the state is valid for Timeout from that moment; afterwards (and after any round in which the node is not above,
// after a restart, after the node has not been looked at for DetectorCacheTimeout, after the plugin's own eviction relieved the node)
// the required consecutive rounds are counted again from zero. Pods may be evicted only while the state is valid.
// Two readings of "the required number" are accepted (N rounds, or more than N rounds as the anomaly package documents its default
// condition "more than 5"), but ONE of them has to explain every eviction of the run (readingDead).

type blGateSt struct {
	cnt   int   // consecutive rounds above, counted since the last clear
	open  bool  // abnormal state reached ...
	until int64 // ... and valid until this instant (unix nanoseconds)
}

type blGate struct {
	m         [2]blGateSt // reading 0: N rounds, reading 1: N+1 rounds
	exact     bool        // false: something happened that the documentation leaves open (boundary instants, condition changed by a relabel, ...)
	anom      blAnom
	lastAbove time.Time
}

func blGateMark(st blGateSt, need int, timeout time.Duration, now time.Time) (out blGateSt, boundary bool) {
	n := now.UnixNano()
	if st.open {
		switch {
		case n > st.until:
			st = blGateSt{}
		case n == st.until:
			return st, true
		default:
			return st, false
		}
	}
	st.cnt++
	if st.cnt >= need {
		st = blGateSt{open: true, until: now.Add(timeout).UnixNano()}
	}
	return st, false
}

func blAnomTimeout(a *blAnom) time.Duration {
	if a.TimeoutS <= 0 {
		return 60 * time.Second // documented default
	}
	return time.Duration(a.TimeoutS) * time.Second
}

// stepGate: the node is above (variant v) in the round that starts now.
func (s *blSim) stepGate(v int, name string, t *blTable, now time.Time) {
	a := t.pool.Anom
	if a == nil || a.N <= 1 {
		delete(s.gate[v], name)
		return
	}
	row := t.rows[name]
	g := s.gate[v][name]
	if g == nil {
		g = &blGate{exact: true, anom: *a}
		s.gate[v][name] = g
	} else {
		if g.anom != *a {
			g.exact = false // relabelled into a pool with another condition while above: what carries over is not documented
			g.anom = *a
		}
		ttl := time.Duration(s.cfg.CacheS) * time.Second
		switch gap := now.Sub(g.lastAbove); {
		case gap > ttl:
			g.m = [2]blGateSt{} // not looked at for DetectorCacheTimeout: counted again from zero
		case gap == ttl:
			g.exact = false
		}
	}
	if row == nil || !row.valid || row.hi[v] != blYes {
		g.exact = false // on a threshold / expiry boundary: counted or not
	}
	if v == 1 && row != nil && row.valid && row.hi[0] != blNo {
		g.exact = false // above both thresholds: the node counts as a node-usage source in this round, its prod count may pause
	}
	for i := range g.m {
		st, boundary := blGateMark(g.m[i], int(a.N)+i, blAnomTimeout(a), now)
		if boundary {
			g.exact = false
		}
		g.m[i] = st
	}
	g.lastAbove = now
}

// gateAllows: some reading that is still consistent with the run has the node in a valid abnormal state.
func (s *blSim) gateAllows(g *blGate) bool {
	for i := range g.m {
		if !s.readingDead[i] && g.m[i].open {
			return true
		}
	}
	return false
}

// ---------------------------------------------------------------- history class of the recorded finding "interrupted-high-streak"
//
// The recorded defect: a round in which the node is NOT above (between the thresholds, unmeasured, absent) neither clears the count
// nor closes the abnormal state. blDet follows, over the history, everything such a never-cleared-by-interruption gate can still hold
// for the node: the set of possible (count, state, expiry) after every round, with the clears that do happen (state expiry after
// Timeout, entry not refreshed for DetectorCacheTimeout, restart, reset of a node in the abnormal state that is seen under the low
// thresholds or relieved by the plugin's own eviction; where the history does not decide whether a clear happened, both are kept).
// The class is: the entry has lived through such a round (hadInt) and can still hold an abnormal state (possiblyOpen) in a round in
// which the oracle above does not allow an eviction. Only then is the run tagged; an eviction without the required rounds in any
// other history (e.g. after the earlier state has EXPIRED) is not covered by the recorded finding.

type blDet struct {
	n        int
	timeout  time.Duration
	anom     blAnom
	sts      map[blGateSt]bool
	lastSet  time.Time // latest instant at which the entry may have been refreshed
	lastSure time.Time // latest instant at which it certainly was
	hadInt   bool
	unknown  bool
}

func blNewDet(a *blAnom) *blDet {
	return &blDet{n: int(a.N), timeout: blAnomTimeout(a), anom: *a, sts: map[blGateSt]bool{{}: true}}
}

func (d *blDet) marked(now time.Time) map[blGateSt]bool {
	out := map[blGateSt]bool{}
	n := now.UnixNano()
	for st := range d.sts {
		if st.open {
			if n < st.until {
				out[st] = true
				continue
			}
			if n == st.until {
				out[st] = true // and the expired branch below
			}
			st = blGateSt{}
		}
		st.cnt++
		if st.cnt > d.n {
			st = blGateSt{open: true, until: now.Add(d.timeout).UnixNano()}
		}
		out[st] = true
	}
	return out
}

func (d *blDet) possiblyOpen(now time.Time) bool {
	if d.unknown {
		return true
	}
	for st := range d.sts {
		if st.open && st.until >= now.UnixNano() {
			return true
		}
	}
	return false
}

func (d *blDet) addCleared(onlyIfOpen bool) {
	add := !onlyIfOpen
	for st := range d.sts {
		if st.open {
			add = true
		}
	}
	if add {
		d.sts[blGateSt{}] = true
	}
}

// stepDet: one balance round starts now; t is the table of the pool that judges the node (nil: none).
func (s *blSim) stepDet(v int, name string, t *blTable, now time.Time) {
	ttl := time.Duration(s.cfg.CacheS) * time.Second
	d := s.det[v][name]
	if d != nil && now.Sub(d.lastSet) > ttl {
		d = nil
		delete(s.det[v], name)
	}
	marked, lowish := blNo, false
	var a *blAnom
	if t != nil && s.nodes[name].present {
		a = t.pool.Anom
		switch row := t.rows[name]; {
		case row == nil:
		case row.why == "expiry-boundary":
			marked, lowish = blMaybe, true
		case !row.valid:
		default:
			marked = row.hi[0]
			if v == 1 {
				// the prod gate is consulted only for nodes that are not node-usage sources
				switch {
				case row.hi[1] == blNo || row.hi[0] == blYes:
					marked = blNo
				case row.hi[1] == blYes && row.hi[0] == blNo:
					marked = blYes
				default:
					marked = blMaybe
				}
			}
			lowish = row.lo[v] != blNo
		}
	}
	if a == nil || a.N <= 1 {
		marked = blNo // no gate configured for this pool: entries are not consulted
	}
	if marked == blNo {
		if d != nil {
			d.hadInt = true
			if lowish {
				d.addCleared(true)
			}
		}
		return
	}
	if d == nil {
		d = blNewDet(a)
		s.det[v][name] = d
		if marked == blMaybe {
			d.sts = map[blGateSt]bool{{}: true}
			for st := range d.marked(now) {
				d.sts[st] = true
			}
			d.lastSet = now
			return
		}
	} else {
		if now.Sub(d.lastSure) > ttl {
			// the entry may have expired since its last certain refresh: possibly a fresh one
			if d.anom != *a {
				d.unknown = true
			}
			d.sts[blGateSt{}] = true
		}
		if marked == blMaybe {
			d.hadInt = true
			for st := range d.marked(now) {
				d.sts[st] = true
			}
			if lowish {
				d.addCleared(true)
			}
			d.lastSet = now
			return
		}
	}
	d.sts = d.marked(now)
	d.lastSet, d.lastSure = now, now
	if len(d.sts) > 64 {
		d.unknown = true
	}
}

func (s *blSim) updateStreaks(judge map[string]*blTable, now time.Time) {
	ttl := time.Duration(s.cfg.CacheS) * time.Second
	for _, name := range s.nodeNames {
		t := judge[name]
		for v := 0; v < 2; v++ {
			above := false
			if t != nil && s.nodes[name].present {
				if row := t.rows[name]; row != nil && row.valid && row.hi[v] != blNo {
					above = true
				} else if row != nil && row.why == "expiry-boundary" && s.streak[v][name] > 0 {
					above = true // the statement does not say whether age == expiration is expired: do not break the streak
				}
			}
			s.stepDet(v, name, t, now)
			s.carriedNow[v][name] = false
			if !above {
				s.streak[v][name] = 0
				delete(s.gate[v], name) // not above in this round: the required consecutive rounds start again from zero
				if t != nil && t.rows[name] != nil && t.rows[name].valid {
					s.gapBelow[v][name] = true // measured and not above (as opposed to: not measured / not in the list)
				}
				continue
			}
			// history classes of the two recorded defects of the anomaly gate (known_findings.jsonl): the node's detector entry
			// is still cached (last seen above less than DetectorCacheTimeout ago) and ...
			last, had := s.lastHi[v][name]
			if had && now.Sub(last) <= ttl {
				if s.streak[v][name] == 0 && s.stale[v][name] {
					// ... the node was NOT above in some round since then, and nothing has reset the detector meanwhile
					s.afterInt[v][name], s.recovered[v][name] = true, false
					if s.gapBelow[v][name] {
						s.afterBelow[v][name] = true
					}
				}
				if lp := s.lastPool[v][name]; lp != nil && lp != t.pool && !blSameAnom(lp.Anom, t.pool.Anom) {
					s.otherPool[v][name] = true // ... it was created under another pool's anomaly condition
				}
			} else {
				s.afterInt[v][name], s.otherPool[v][name], s.afterBelow[v][name] = false, false, false
				s.stale[v][name], s.recovered[v][name] = false, false
			}
			s.gapBelow[v][name] = false
			s.streak[v][name]++
			s.lastHi[v][name] = now
			s.lastPool[v][name] = t.pool
			s.stepGate(v, name, t, now)
			if a := t.pool.Anom; a != nil && a.N > 1 {
				// history class of the recorded finding: the node's gate has lived through a round that did not touch it and can
				// still hold an abnormal state now, while the node has not been above for the required rounds / its own state expired
				// (a condition on the history alone; it only matters when the oracle does not allow an eviction in this round)
				if d := s.det[v][name]; d != nil && d.hadInt && d.possiblyOpen(now) {
					s.carriedNow[v][name] = true
					s.r.Tag("interrupted-high-streak")
				}
				if s.otherPool[v][name] {
					s.r.Tag("detector-from-other-pool")
				}
			}
		}
	}
}

func blSameAnom(a, b *blAnom) bool {
	if a == nil || b == nil {
		return a == b
	}
	return *a == *b
}

func (s *blSim) checkEvict(e *blEvict, judge map[string]*blTable, seen map[string]bool) {
	r := s.r
	r.OracleEval()
	r.Probe("evict-call")
	if s.cfg.DryRun {
		r.Fail("evicted-in-dry-run", "", "Evict(%s) although DryRun is set", e.key)
	}
	p := s.pods[e.key]
	if p == nil || p.Node != e.node || p.Node == "" {
		r.Fail("evicted-unknown-pod", "", "Evict(%s) on node %q: no such pod is assigned to that node", e.key, e.node)
	}
	// the pod passes the evictor's filter at the moment of the call (the evictor's limits are stateful)
	if !e.passNow && blEvictorAllows(&s.cfg, p) {
		r.Fail("filtered-pod", "evictor-limit-at-eviction-time", "Evict(%s): the evictor's filter no longer accepts this pod at the moment of the call: %d eviction(s) for %s already in this round, limit %d",
			e.key, s.chkCount[blLimitKey(&s.cfg, p)], blLimitKey(&s.cfg, p), s.cfg.LimitK)
	}
	if e.ok {
		if k := blLimitKey(&s.cfg, p); k != "" {
			s.chkCount[k]++
			if s.chkCount[k] >= s.cfg.LimitK {
				r.Probe("evictor-limit-reached")
			}
		}
	}
	if seen[e.key] {
		r.Fail("evicted-twice", "", "Evict(%s) twice in one round", e.key)
	}
	if e.ok {
		seen[e.key] = true
	}
	t := judge[e.node]
	if t == nil {
		r.Fail("node-in-no-pool", "", "Evict(%s) from node %s which no node pool with thresholds selects", e.key, e.node)
	}
	row := t.rows[e.node]
	if !row.valid {
		if row.why == "expiry-boundary" {
			r.Probe("skip:expiry-boundary")
			t.broken = true
			s.untracked(e.node)
			return
		}
		r.Fail("node-not-measured", row.why, "Evict(%s) from node %s whose NodeMetric is unusable in this round (%s)\n%s", e.key, e.node, row.why, t.describe())
	}
	// the pod passes the evictor's filters
	if !blEvictorAllows(&s.cfg, p) {
		r.Fail("filtered-pod", "evictor", "Evict(%s): the evictor's filter rejects this pod (daemonset=%v class=%s)", e.key, p.DS, p.Class)
	}
	if len(s.cfg.Incl) > 0 && !blHas(s.cfg.Incl, p.NS) || blHas(s.cfg.Excl, p.NS) {
		r.Fail("filtered-pod", "namespace", "Evict(%s): namespace %s is not evictable (include=%v exclude=%v)", e.key, p.NS, s.cfg.Incl, s.cfg.Excl)
	}
	if len(s.cfg.SelApps) > 0 && !blHas(s.cfg.SelApps, p.App) {
		r.Fail("filtered-pod", "pod-selector", "Evict(%s): label app=%s matches no pod selector %v", e.key, p.App, s.cfg.SelApps)
	}
	// the pod's reported usage on its node (nil: the NodeMetric has no entry for it)
	var pm *blPM
	for i := range s.metrics[e.node].pods {
		if s.metrics[e.node].pods[i].key == e.key {
			pm = &s.metrics[e.node].pods[i]
		}
	}
	pmv := map[string]int64{}
	if pm != nil {
		pmv[blCPU], pmv[blMem] = pm.cpu, pm.mem
	} else {
		r.Probe("evicted-pod-without-metric")
	}
	if !t.exact || t.broken {
		// some verdict of this pool lies on a threshold boundary (or a skipped eviction broke the running estimate): do not guess
		r.Probe("skip:inexact-round")
		t.broken = true
		s.untracked(e.node)
		return
	}
	// which measurement justifies it: node usage, else prod usage
	v := 0
	switch {
	case row.hi[0] == blYes:
	case row.hi[1] == blYes:
		v = 1
		r.Probe("prod-variant-eviction")
		if !p.isProd() {
			r.Fail("node-not-high", "non-prod-pod-from-prod-only-source", "Evict(%s) from node %s: only the node's prod usage is above its threshold but the pod is %s\n%s", e.key, e.node, p.Class, t.describe())
		}
	default:
		r.Fail("node-not-high", "", "Evict(%s) from node %s whose measured usage is not above any high threshold in this round\n%s", e.key, e.node, t.describe())
	}
	vn := []string{"node", "prod"}[v]
	// ... for the required consecutive rounds
	if a := t.pool.Anom; a != nil && a.N > 1 {
		now := time.Now()
		d := s.det[v][e.node]
		if got := s.streak[v][e.node]; got < int(a.N) {
			detail := "fresh-streak"
			switch {
			case s.otherPool[v][e.node] && d != nil && d.anom != *a && d.possiblyOpen(now):
				detail = "detector-of-other-pool"
			case s.carriedNow[v][e.node] && s.afterBelow[v][e.node]:
				detail = "after-round-below-threshold"
			case s.carriedNow[v][e.node]:
				detail = "after-unmeasured-round"
			case s.recovered[v][e.node]:
				// the previous streak ended because the plugin's own eviction brought the node back under the threshold and the
				// detector was reset: the count must start again (not part of the recorded finding)
				detail = "recovered-by-own-eviction"
			case d != nil && d.hadInt:
				// an earlier streak was interrupted, but whatever abnormal state it reached has expired since (not part of the recorded finding)
				detail = "earlier-abnormal-state-expired"
			}
			r.Fail("not-consecutive", detail, "Evict(%s) from node %s: %s usage has been above the high threshold for %d consecutive round(s) only, ConsecutiveAbnormalities=%d (round %d)",
				e.key, e.node, vn, got, a.N, s.round)
		}
		// ... and the abnormal state reached by them has not expired (Timeout after it was reached)
		if g := s.gate[v][e.node]; g != nil && g.exact {
			r.Probe("anomaly-expiry-checked")
			if !s.gateAllows(g) {
				detail := "abnormal-state-expired"
				if s.carriedNow[v][e.node] {
					detail = "after-interruption-state-of-earlier-streak" // consequence of the recorded finding: the state of an interrupted streak is still held
				}
				r.Fail("not-consecutive", detail, "Evict(%s) from node %s: %s usage has been above the high threshold for %d consecutive rounds, but the abnormal state they reached (ConsecutiveAbnormalities=%d, Timeout=%ds) has expired and the node has not been above for the required rounds since: counted since expiry %d/%d round(s) [verdict after N rounds] resp. %d/%d [after more than N] (round %d, t=%ds)",
					e.key, e.node, vn, s.streak[v][e.node], a.N, a.TimeoutS, g.m[0].cnt, a.N, g.m[1].cnt, a.N+1, s.round, int(now.Sub(s.start()).Seconds()))
			}
			if d == nil || !d.hadInt {
				for i := range g.m {
					if !g.m[i].open && !s.readingDead[i] {
						s.readingDead[i] = true
						r.Probe(fmt.Sprintf("reading-%d-contradicted", i))
					}
				}
			}
		} else {
			r.Probe("skip:anomaly-expiry-inexact")
		}
		r.Probe("anomaly-gate-passed")
	}
	// some other node is below the low thresholds; enough of them
	lows, anyLows := 0, 0
	for _, name := range t.names {
		if o := t.rows[name]; o.valid {
			if name != e.node && o.lo[v] == blYes {
				lows++
			}
			if o.lo[0] == blYes || o.lo[1] == blYes {
				anyLows++
			}
		}
	}
	if lows == 0 {
		r.Fail("no-underused-node", vn, "Evict(%s) from node %s although no other node of the pool is under the %s low thresholds\n%s", e.key, e.node, vn, t.describe())
	}
	if anyLows <= int(s.cfg.NumNodes) {
		r.Fail("below-number-of-nodes", "", "Evict(%s): %d under-used node(s), NumberOfNodes=%d\n%s", e.key, anyLows, s.cfg.NumNodes, t.describe())
	}
	// node fit (necessary condition on the round's inputs: target usage only grows during the round)
	if s.cfg.NodeFit {
		r.Probe("nodefit-checked")
		if pm == nil {
			r.Fail("filtered-pod", "nodefit-no-metric", "Evict(%s): NodeFit is on and the pod has no reported usage on %s", e.key, e.node)
		}
		fits := false
		for _, name := range t.names {
			o := t.rows[name]
			if name == e.node || !o.valid || o.lo[v] != blYes || !s.modelFit(p, s.nodes[name]) {
				continue
			}
			ok := true
			for _, res := range t.res[v] {
				if o.use[v][res]+pmv[res] > o.higB[v][res].hi {
					ok = false
				}
			}
			if ok {
				fits = true
			}
		}
		if !fits {
			r.Fail("filtered-pod", "nodefit-no-target", "Evict(%s): NodeFit is on and the pod fits no under-used node of the pool (usage cpu=%d mem=%d)\n%s", e.key, pmv[blCPU], pmv[blMem], t.describe())
		}
	}
	// the node's running estimate is still above the threshold
	est := t.est[v][e.node]
	above, under := false, true
	for _, res := range t.res[v] {
		if est[res] > row.higB[v][res].hi {
			above = true
		}
		if est[res] > row.higB[v][res].lo {
			under = false
		}
	}
	if under {
		r.Fail("node-already-under-threshold", vn, "Evict(%s) from node %s: after the earlier evictions of this round its estimated %s usage %v is no longer above the high threshold %v",
			e.key, e.node, vn, est, row.higB[v])
	}
	if !above {
		r.Probe("skip:estimate-on-boundary")
		t.broken = true
		s.untracked(e.node)
		return
	}
	// the head-room of the under-used nodes is not used up
	for _, res := range t.res[v] {
		if t.room[v][res] <= 0 {
			r.Fail("headroom-used-up", vn, "Evict(%s) from node %s: the %s head-room of the under-used nodes for %s is already used up (%d) by the earlier evictions of this round\n%s",
				e.key, e.node, vn, res, t.room[v][res], t.describe())
		}
	}
	if e.ok {
		r.Probe("evict-ok")
		for _, res := range []string{blCPU, blMem} {
			est[res] -= pmv[res]
			t.room[v][res] -= pmv[res]
		}
		stillAbove := false
		for _, res := range t.res[v] {
			if est[res] > row.higB[v][res].hi {
				stillAbove = true
			}
			if t.room[v][res] == 0 {
				r.Probe("headroom-exactly-zero-after-eviction")
			} else if t.room[v][res] < 0 {
				r.Probe("headroom-overshot-after-eviction")
			}
		}
		if !stillAbove {
			r.Probe("node-brought-under-threshold")
			s.maybeRecovered[v][e.node] = true // if the stop condition is evaluated once more, it clears the node's gate
		}
		// Did this eviction bring the node definitely under the threshold AND was the stop condition evaluated once more
		// (it is evaluated before every further removable pod of the node; it resets the node's detector)? Only claimed when certain.
		definitelyUnder := true
		for _, res := range t.res[v] {
			if est[res] > row.higB[v][res].lo {
				definitelyUnder = false
			}
		}
		if definitelyUnder && !s.cfg.NodeFit {
			called := map[string]bool{}
			for i := range s.evicts {
				if s.evicts[i].node == e.node {
					called[s.evicts[i].key] = true
				}
				if &s.evicts[i] == e {
					break
				}
			}
			removable, iterated := 0, len(called)
			for _, k := range s.sortedPodKeys() {
				q := s.pods[k]
				if q.Node != e.node || (v == 1 && !q.isProd()) || !s.classPass[k] {
					continue
				}
				if len(s.cfg.Incl) > 0 && !blHas(s.cfg.Incl, q.NS) || blHas(s.cfg.Excl, q.NS) || (len(s.cfg.SelApps) > 0 && !blHas(s.cfg.SelApps, q.App)) {
					continue
				}
				removable++
				if !called[k] && !s.evictorPasses(q, s.chkCount) {
					iterated++ // may have been skipped by the re-check before this eviction
				}
			}
			if removable > iterated {
				s.recoveredNow[v][e.node] = true
			}
		}
	}
}

// untracked: an eviction from the node was not followed by the oracle's running estimate (verdict skipped on a boundary): whether the
// node was relieved in this round - and its gate cleared by the stop condition - is not known.
func (s *blSim) untracked(node string) {
	s.maybeRecovered[0][node], s.maybeRecovered[1][node] = true, true
}

func blHas(xs []string, x string) bool {
	for _, y := range xs {
		if y == x {
			return true
		}
	}
	return false
}

// ---------------------------------------------------------------- Execute

func (blEngine) Execute(r *sim.Run) {
	s := &blSim{r: r, nodes: map[string]*blNode{}, pods: map[string]*blPod{}, metrics: map[string]*blMetric{}}
	r.Plan.GetCfg(&s.cfg)
	var ops []blOp
	r.Plan.GetOps(&ops)
	blEpoch = time.Now()
	for v := 0; v < 2; v++ {
		s.streak[v], s.lastHi[v], s.afterInt[v] = map[string]int{}, map[string]time.Time{}, map[string]bool{}
		s.lastPool[v], s.otherPool[v] = map[string]*blPoolCfg{}, map[string]bool{}
		s.gapBelow[v], s.afterBelow[v] = map[string]bool{}, map[string]bool{}
		s.stale[v], s.recovered[v], s.recoveredNow[v] = map[string]bool{}, map[string]bool{}, map[string]bool{}
		s.maybeRecovered[v], s.carriedNow[v] = map[string]bool{}, map[string]bool{}
		s.gate[v], s.det[v] = map[string]*blGate{}, map[string]*blDet{}
	}
	s.idx = cache.NewIndexer(cache.MetaNamespaceKeyFunc, cache.Indexers{})
	for _, nc := range s.cfg.Nodes {
		n := &blNode{blNodeCfg: nc, present: true}
		n.build()
		s.nodes[nc.Name] = n
		s.nodeNames = append(s.nodeNames, nc.Name)
	}
	sort.Strings(s.nodeNames)
	for _, pc := range s.cfg.Pods {
		if s.nodes[pc.Node] == nil {
			continue
		}
		p := &blPod{blPodCfg: pc}
		p.build()
		s.pods[p.key()] = p
	}
	s.newPlugin()
	r.Sample("cfg nodefit=%v dryrun=%v numberOfNodes=%d expire=%ds cache=%ds incl=%v excl=%v apps=%v evictorPrio=%d evictorLimit=%d per %q faults=%v", s.cfg.NodeFit, s.cfg.DryRun,
		s.cfg.NumNodes, s.cfg.ExpS, s.cfg.CacheS, s.cfg.Incl, s.cfg.Excl, s.cfg.SelApps, s.cfg.EvPrio, s.cfg.LimitK, s.cfg.LimitBy, r.Plan.Faults)
	for _, pc := range s.cfg.Pools {
		r.Sample("pool %s sel=%q dev=%v low=%v high=%v prodLow=%v prodHigh=%v anomaly=%+v", pc.Name, pc.Sel, pc.Dev, pc.Low, pc.High, pc.PLow, pc.PHigh, pc.Anom)
	}
	for i := range ops {
		op := &ops[i]
		done := true
		switch op.K {
		case "balance":
			s.balance()
		case "tick":
			if op.D <= 0 {
				done = false
				break
			}
			time.Sleep(time.Duration(op.D) * time.Second)
		case "report":
			if n := s.nodes[op.N]; n == nil || !n.present {
				done = false
				break
			}
			s.report(op.N, op.D)
		case "reportall":
			for _, name := range s.nodeNames {
				if s.nodes[name].present {
					s.report(name, op.D)
				}
			}
		case "placeall":
			done = s.placeAll() > 0
		case "usage":
			p := s.pods[op.P]
			if p == nil || p.Node == "" {
				done = false
				break
			}
			oc, om := p.CPU, p.Mem
			p.CPU, p.Mem = op.CPU, op.Mem
			if c, m := s.actual(p.Node); c > s.nodes[p.Node].CPU || m > s.nodes[p.Node].Mem {
				p.CPU, p.Mem = oc, om
				done = false
			}
		case "sys":
			n := s.nodes[op.N]
			if n == nil {
				done = false
				break
			}
			oc, om := n.SysCPU, n.SysMem
			n.SysCPU, n.SysMem = op.CPU, op.Mem
			if c, m := s.actual(op.N); c > n.CPU || m > n.Mem {
				n.SysCPU, n.SysMem = oc, om
				done = false
			}
		case "aim":
			done = s.aim(op)
		case "cordon", "uncordon", "taint", "untaint", "relabel":
			n := s.nodes[op.N]
			if n == nil {
				done = false
				break
			}
			switch op.K {
			case "cordon":
				n.Unsched = true
			case "uncordon":
				n.Unsched = false
			case "taint":
				n.Taint = true
			case "untaint":
				n.Taint = false
			case "relabel":
				n.Pool = op.Pool
			}
			n.build()
		case "remove":
			n := s.nodes[op.N]
			if n == nil || !n.present {
				done = false
				break
			}
			n.present = false // NotReady / deleted: the descheduler no longer passes it to the plugins; its pods and its NodeMetric linger
		case "readd":
			n := s.nodes[op.N]
			if n == nil || n.present {
				done = false
				break
			}
			n.present = true
		case "addpod":
			pc := *op.Pod
			n := s.nodes[pc.Node]
			if n == nil || s.pods[pc.NS+"/"+pc.Name] != nil {
				done = false
				break
			}
			if c, m := s.actual(pc.Node); c+pc.CPU > n.CPU || m+pc.Mem > n.Mem {
				done = false
				break
			}
			p := &blPod{blPodCfg: pc}
			p.build()
			s.pods[p.key()] = p
		case "delpod":
			if s.pods[op.P] == nil {
				done = false
				break
			}
			delete(s.pods, op.P)
		case "dropmetric":
			m := s.metrics[op.N]
			if m == nil || !m.exists {
				done = false
				break
			}
			switch op.Which {
			case "delete":
				m.exists = false
			case "nil-status":
				m.nilInfo = true
			default:
				m.noTime = true
			}
			s.writeMetric(op.N)
		case "restart":
			// descheduler restart: a fresh plugin, empty detector caches
			s.newPlugin()
			for v := 0; v < 2; v++ {
				s.lastHi[v] = map[string]time.Time{}
				// nothing survives a restart: the required consecutive rounds are counted again from zero
				s.gate[v], s.det[v] = map[string]*blGate{}, map[string]*blDet{}
			}
			r.Probe("plugin-restart")
		default:
			r.HarnessFail("unknown op %q", op.K)
		}
		if done {
			r.OpDone()
			r.Event("op %d %s n=%s p=%s d=%d", i, op.K, op.N, op.P, op.D)
		} else {
			r.OpSkipped()
		}
	}
}
